"""C06 helpers — sources that use the rest of the dictionary compiler: rows without a code (script / rule-based phrase
encoder, algo/encoder.cc), a stem column, a preset vocabulary (with max_phrase_length / min_phrase_weight) and packs.

`simulate(...)` is an independent python reading of EntryCollector (Collect / CreateEntry / TranslateWord / Finish), ScriptEncoder,
TableEncoder (LoadSettings / ParseFormula / Encode / CalculateCodeIndex / IsCodeExcluded) and PresetVocabulary, written from the
documented behaviour of each step; the generators below produce sources whose features reach that code."""
import math, re

DBL_EPSILON = 2.220446049250313e-16
DBL_MIN = 2.2250738585072014e-308
WS = b" \t\n\v\f\r"
STOD = re.compile(rb"^[ \t\n\v\f\r]*([+-]?)(?:(inf|nan)|((?:\d+\.?\d*|\.\d+)(?:[eE][+-]?\d+)?))", re.I)
STEM_SUFFIX = b"\x1fstem"
K_DFS_LIMIT = 32
K_MAX_PHRASE = 32

# one vocabulary every workspace holds as essay.txt (`use_preset_vocabulary: true` without a `vocabulary:` name)
ESSAY_CHARS = [chr(c) for c in range(0x4E00, 0x4E00 + 12)]


def essay_body():
    rows = []
    cs = ESSAY_CHARS
    for i in range(len(cs)):
        rows.append((cs[i], 100 + 37 * i))
        rows.append((cs[i] + cs[(i * 5 + 1) % len(cs)], 40 + i))
        if i % 3 == 0:
            rows.append((cs[i] + cs[(i + 2) % len(cs)] + cs[(i + 7) % len(cs)], 3 + i))
    rows.append(("".join(cs[:5]), 2))
    rows.append(("".join(cs), 900))
    return "".join("%s\t%d\n" % r for r in rows).encode("utf-8")


def stod0(ws):
    """std::stod; None where it throws (no conversion, ERANGE)"""
    m = STOD.match(ws)
    if not m:
        return None
    neg = m.group(1) == b"-"
    if m.group(2):
        v = math.inf if m.group(2).lower() == b"inf" else math.nan
    else:
        v = float(m.group(3))
        if math.isinf(v):
            return None
        if abs(v) < DBL_MIN and re.search(rb"[1-9]", re.split(rb"[eE]", m.group(3))[0]):
            return None                          # underflow to zero / subnormal: ERANGE
    return -v if neg else v


def raw_weight(ws, text, vocab):
    """EntryCollector::CreateEntry lines 167-192"""
    w = 0.0
    scaled = ws.endswith(b"%")
    if (not ws or scaled) and vocab is not None:
        vs = vocab.get(text)
        if vs is not None:
            v = stod0(vs)
            if v is not None:
                w = v
    if scaled:
        p = stod0(ws[:-1])
        w *= (100.0 if p is None else p) / 100.0
    elif ws:
        v = stod0(ws)
        w = 0.0 if v is None else v
    return w


def clamp(w):
    return w if w > 0 else DBL_EPSILON


def tokens(cs):
    return [t for t in cs.split(b" ") if t]


def n_chars(b):
    return len(b.decode("utf-8"))


def parse_formula(formula):
    f = formula.encode()
    if len(f) % 2:
        return None
    out = []
    for i in range(0, len(f), 2):
        a, b = f[i], f[i + 1]
        if a < 65 or a > 90:
            return None
        ci = a - 90 - 1 if a >= 85 else a - 65
        if b < 97 or b > 122:
            return None
        ki = b - 122 - 1 if b >= 117 else b - 97
        out.append((ci, ki))
    return out


class Rules:
    """TableEncoder::LoadSettings"""

    def __init__(self, cfg):
        self.rules, self.max_len = [], 0
        for r in cfg.get("rules") or []:
            if "formula" not in r:
                continue
            co = parse_formula(r["formula"])
            if co is None:
                continue
            lo = hi = 0
            if "length_equal" in r:
                lo = hi = r["length_equal"]
                self.max_len = max(self.max_len, hi)
            elif "length_in_range" in r:
                lo, hi = r["length_in_range"]
                if lo > hi:
                    continue
                self.max_len = max(self.max_len, hi)
            self.rules.append((lo, hi, co))
        self.max_len = min(self.max_len, K_MAX_PHRASE)
        self.exclude = [re.compile(p.encode()) for p in cfg.get("exclude_patterns") or []]
        self.anchor = (cfg.get("tail_anchor") or "").encode()

    def excluded(self, code):
        return any(p.fullmatch(code) for p in self.exclude)

    def calc_index(self, code, index, start):
        n, k = len(code), 0
        if index < 0:
            k = n - 1
            tail = None
            for j in range(start + 1, n):
                if code[j] in self.anchor:
                    tail = j
                    break
            if tail is not None:
                k = tail - 1
            index += 1
            while index < 0:
                k -= 1
                while k >= 0 and code[k] in self.anchor:
                    k -= 1
                index += 1
        else:
            while index > 0:
                index -= 1
                k += 1
                while k < n and code[k] in self.anchor:
                    k += 1
        return k

    def encode(self, code):
        n = len(code)
        for lo, hi, coords in self.rules:
            if n < lo or n > hi:
                continue
            res = bytearray()
            prev, enc = (0, 0), (0, 0)
            for ci, ki in coords:
                c_ci = ci
                if c_ci < 0:
                    c_ci += n
                if c_ci >= n or c_ci < 0:
                    continue
                if ci < 0 and c_ci < enc[0]:
                    continue
                start = enc[1] + 1 if c_ci == enc[0] else 0
                c_ki = self.calc_index(code[c_ci], ki, start)
                if c_ki >= len(code[c_ci]) or c_ki < 0:
                    continue
                if (ci < 0 or ki < 0) and c_ci == enc[0] and c_ki <= enc[1] and (ci, ki) != prev:
                    continue
                res.append(code[c_ci][c_ki])
                prev, enc = (ci, ki), (c_ci, c_ki)
            if not res:
                continue
            return bytes(res)
        return None


class Sim:
    """one EntryCollector (one table): Configure + Collect(files) + Finish"""

    def __init__(self, cfg, vocab, fixed=None):
        self.cfg = cfg or {}
        self.vocab = vocab                     # {phrase: weight bytes} | None
        self.build = fixed is None
        self.syl = set(fixed or [])
        self.words, self.total, self.stems = {}, {}, {}
        self.collection, self.queue = set(), []
        self.entries, self.calls = [], []      # entries: (text, [syl], w, derived) ; calls: (text, code_str, ws, w, phase)
        self.nent = 0
        self.phase = "collect"
        self.rule_based = isinstance(self.cfg.get("rules"), list)
        self.rules = Rules(self.cfg) if self.rule_based else None
        self.encode_failures = 0
        self.dfs_limit_hits = 0

    # -- CreateEntry
    def create(self, text, code_str, ws):
        w = raw_weight(ws, text, self.vocab)
        code = tokens(code_str)
        self.calls.append((text, code_str, ws, w, self.phase))
        for s in code:
            if s not in self.syl:
                if self.build:
                    self.syl.add(s)
                else:
                    return
        if len(code) == 1:
            lst = self.words.setdefault(text, [])
            if any(c == code_str for c, _ in lst):
                return
            lst.append((code_str, w))
            self.total[text] = self.total.get(text, 0.0) + w
        self.entries.append((text, code, w, self.phase != "collect"))
        self.nent += 1

    def translate(self, word):
        if word in self.stems:
            return sorted(self.stems[word])
        if word in self.words:
            lst = sorted(self.words[word], key=lambda p: p[0])
            self.words[word] = lst
            mn = self.total[word] * 0.05
            return [c for c, w in lst if not (w < mn)]
        return None

    # -- Collect(path)
    def collect_file(self, f):
        c = f.get("columns")
        if c is None:
            tc, cc, wc, sc = 0, 1, 2, -1
        else:
            ix = lambda n: c.index(n) if n in c else -1
            tc, cc, wc, sc = ix("text"), ix("code"), ix("weight"), ix("stem")
        if tc < 0:
            return
        comment = True
        for raw in f["body"].split(b"\n"):
            line = raw.rstrip(WS)
            if not line:
                continue
            if comment and line[:1] == b"#":
                if line == b"# no comment":
                    comment = False
                continue
            r = line.split(b"\t")
            if len(r) <= tc or not r[tc]:
                continue
            text = r[tc]
            col = lambda i: r[i] if 0 <= i < len(r) else b""
            cs, ws, ss = col(cc), col(wc), col(sc)
            self.collection.add(text)
            if cs:
                self.create(text, cs, ws)
            else:
                self.queue.append((text, ws))
            if ss and cs:
                self.stems.setdefault(text, set()).add(ss)

    # -- encoders
    def encode_phrase(self, phrase, value):
        limit = [K_DFS_LIMIT]
        code = []
        if self.rule_based:
            if n_chars(phrase) > self.rules.max_len:
                return False

            def dfs(start):
                if start == len(phrase):
                    limit[0] -= 1
                    enc = self.rules.encode(code)
                    if enc is not None:
                        self.create(phrase, enc, value)
                        return True
                    return False
                ch = phrase[start:].decode("utf-8")[0].encode("utf-8")
                ret = False
                tr = self.translate(ch)
                if tr is not None:
                    for x in tr:
                        if self.rules.excluded(x):
                            continue
                        code.append(x)
                        ok = dfs(start + len(ch))
                        ret = ret or ok
                        code.pop()
                        if limit[0] <= 0:
                            return ret
                return ret
        else:
            if n_chars(phrase) > K_MAX_PHRASE:
                return False

            def dfs(start):
                if start == len(phrase):
                    limit[0] -= 1
                    self.create(phrase, b" ".join(code), value)
                    return True
                ret = False
                for k in range(len(phrase) - start, 0, -1):
                    tr = self.translate(phrase[start:start + k])
                    if tr is not None:
                        for x in tr:
                            code.append(x)
                            ok = dfs(start + k)
                            ret = ret or ok
                            code.pop()
                            if limit[0] <= 0:
                                return ret
                return ret
        ok = dfs(0)
        if limit[0] <= 0:
            self.dfs_limit_hits += 1
        return ok

    def finish(self):
        self.phase = "finish"
        for phrase, ws in self.queue:
            if not self.encode_phrase(phrase, ws):
                self.encode_failures += 1
        if self.vocab is not None:
            self.phase = "preset"
            mpl = int(self.cfg.get("max_phrase_length") or 0)
            mpw = float(self.cfg.get("min_phrase_weight") or 0.0)
            for phrase in sorted(self.vocab):
                ws = self.vocab[phrase]
                if mpl > 0 and n_chars(phrase) > mpl:
                    continue
                if mpw > 0.0 and float(ws) < mpw:
                    continue
                if phrase in self.collection:
                    continue
                if not self.encode_phrase(phrase, ws):
                    self.encode_failures += 1


def parse_vocab(body):
    """TsvReader + rime_vocabulary_entry_parser (clean bodies only: no comments, no metadata)"""
    out = {}
    for raw in body.split(b"\n"):
        line = raw.rstrip(WS)
        if not line:
            continue
        r = line.split(b"\t")
        if not r[0]:
            continue
        out[r[0]] = r[1] if len(r) > 1 else b"0"
    return out


def simulate(files, cfg, vocab_body, fixed=None):
    s = Sim(cfg, parse_vocab(vocab_body) if vocab_body is not None else None, fixed)
    for f in files:
        s.collect_file(f)
    s.finish()
    return s


def cfg_yaml(cfg, vocab_name):
    """the header lines of the options above"""
    if not cfg:
        return ""
    o = ""
    if cfg.get("use_preset_vocabulary") is not None:
        o += "use_preset_vocabulary: %s\n" % ("true" if cfg["use_preset_vocabulary"] else "false")
    if cfg.get("vocabulary"):
        o += "vocabulary: %s\n" % vocab_name
    if cfg.get("max_phrase_length") is not None:
        o += "max_phrase_length: %d\n" % cfg["max_phrase_length"]
    if cfg.get("min_phrase_weight") is not None:
        o += "min_phrase_weight: %s\n" % cfg["min_phrase_weight"]
    if isinstance(cfg.get("rules"), list):
        o += "encoder:\n"
        if cfg.get("exclude_patterns"):
            o += "  exclude_patterns:\n" + "".join("    - '%s'\n" % p for p in cfg["exclude_patterns"])
        o += "  rules:\n"
        for r in cfg["rules"]:
            first = True
            for k in ("length_equal", "length_in_range", "formula"):
                if k in r:
                    v = r[k]
                    v = "[%d, %d]" % tuple(v) if k == "length_in_range" else '"%s"' % v if k == "formula" else str(v)
                    o += "    %s %s: %s\n" % ("-" if first else " ", k, v)
                    first = False
        if cfg.get("tail_anchor") is not None:
            o += "  tail_anchor: \"%s\"\n" % cfg["tail_anchor"]
    return o


def uses_vocab(cfg):
    """DictSettings::use_preset_vocabulary"""
    return bool(cfg) and bool(cfg.get("use_preset_vocabulary") or cfg.get("vocabulary"))


# ------------------------------------------------------------------------------------------------ generators
CJK = [chr(c) for c in range(0x4E00, 0x4E00 + 40)]
FORMULAS = ["AaAzBaBz", "AaBaCaZz", "AaAbBaBb", "AaBzCaYzZz", "AaAzBaBbBz", "AaAzBaBzCz", "AaBaCaDa", "ZaZz", "AaAbAcAd", "AzAyAx",
            "AaZa", "UaVaWaXaYaZa", "AaAaBa", "AaAz", "BaAa", "AaBbBy", "AaZbZy", "AaZbZb", "AaZbZz", "AaBaYa", "AaBaAa", "AdAa", "XaAa",
            "AaA", "aaBa", "Aa1a", "AaB1", "AaAb", "AaBaCaDaEaFaGaHa"]
EXCLUDES = ["^x.*$", "^z.*$", ".a", "[ab].*", "ab?", "..;.*", "^$"]


def gen_rules(rng):
    rules = []
    for _ in range(rng.randint(1, 4)):
        r = {}
        k = rng.random()
        if k < 0.45:
            r["length_equal"] = rng.choice([1, 2, 2, 3, 4, 40])
        elif k < 0.9:
            a = rng.randint(1, 5)
            b = rng.choice([a, a + 1, a + 3, 10, 40]) if rng.random() < 0.92 else a - 1
            r["length_in_range"] = [a, b]
        if rng.random() < 0.95:
            r["formula"] = rng.choice(FORMULAS)
        if not r:
            r["formula"] = rng.choice(FORMULAS)
        rules.append(r)
    cfg = {"rules": rules}
    if rng.random() < 0.5:
        cfg["exclude_patterns"] = rng.sample(EXCLUDES, rng.randint(1, 2))
    if rng.random() < 0.5:
        cfg["tail_anchor"] = rng.choice(["'", "'", ";", "';"])
    return cfg


def gen_weight(rng):
    k = rng.random()
    if k < 0.5:
        return str(rng.randint(0, 2000)).encode()
    if k < 0.62:
        return b""
    if k < 0.8:
        return rng.choice([b"50%", b"100%", b"120%", b"0%", b"x%", b"%", b"2.5%", b"-10%"])
    if k < 0.9:
        return rng.choice([b"1", b"1", b"5", b"5", b"100"])
    return rng.choice([b"0", b"-3", b"abc", b"1e-3", b"0.5", b"12abc", b"7e2", b"inf", b"nan", b"1e400"])


def gen_ext_case(rng, name, kind):
    """kind: script | table | vocab | packs | stems | mixed — every kind may carry the other features with a smaller probability"""
    table = kind == "table" or (kind in ("mixed", "packs", "vocab", "stems") and rng.random() < 0.35)
    want_vocab = kind == "vocab" or (kind == "mixed" and rng.random() < 0.4)
    want_packs = kind == "packs" or (kind == "mixed" and rng.random() < 0.4)
    want_stems = kind == "stems" or (kind != "stems" and rng.random() < 0.3)
    chars = rng.sample(ESSAY_CHARS, rng.randint(3, 8)) + rng.sample(CJK[12:], rng.randint(1, 6)) if want_vocab else rng.sample(CJK, rng.randint(2, 12))
    letters = "abcxz" + ("';" if table else "")
    n_syl = rng.randint(2, 10)
    syll = sorted({"".join(rng.choice(letters) for _ in range(rng.randint(1, 4))) for _ in range(n_syl)} - {"", "'", ";", "';", "''"})
    syll = [s.encode() for s in syll if s.strip("';")] or [b"a"]
    cfg = gen_rules(rng) if table else {}
    if want_vocab:
        if rng.random() < 0.5:
            cfg["use_preset_vocabulary"] = True
        else:
            cfg["vocabulary"] = "own"
            if rng.random() < 0.3:
                cfg["use_preset_vocabulary"] = rng.random() < 0.5
        if rng.random() < 0.5:
            cfg["max_phrase_length"] = rng.choice([0, 1, 2, 3, 5])
        if rng.random() < 0.5:
            cfg["min_phrase_weight"] = rng.choice([0, 4, 41, 45.5, 150, 1000])
    elif rng.random() < 0.15:
        cfg["use_preset_vocabulary"] = False
        cfg["max_phrase_length"] = 2
    columns = None
    if want_stems:
        columns = rng.choice([["text", "code", "weight", "stem"], ["text", "code", "stem", "weight"], ["stem", "text", "code"], ["text", "code", "weight", "stem"]])
    elif rng.random() < 0.3:
        columns = rng.choice([["text", "code", "weight"], ["code", "text", "weight"], ["text", "weight", "code"], ["text", "code"],
                              ["text", "weight"] if rng.random() < 0.3 else ["text", "code", "weight"]])   # (no code column at all)

    def rows_for(chars, syll, n_words, n_phr, allow_unknown, colnames):
        lines = []

        def emit(text, cs, w, stem=b""):
            vals = {"text": text, "code": cs, "weight": w, "stem": stem}
            row = [vals[c] for c in colnames]
            while row and not row[-1]:
                row.pop()
            lines.append(b"\t".join(row))
        many = rng.choice(chars)                           # one character with six readings: two of it exhaust the DFS limit of 32
        nread = {}
        for ch in chars:                                   # readings of the single characters
            k = (6 if ch == many and rng.random() < 0.6 else rng.choice([1, 1, 2, 2, 3])) if not table else rng.choice([1, 1, 2, 3])
            nread[ch] = min(k, len(syll))
            for s in rng.sample(syll, min(k, len(syll))):
                cs = s if rng.random() < 0.93 else rng.choice([b" " + s, s + b" " if colnames[-1] != "code" else s, s])
                st = b""
                if "stem" in colnames and rng.random() < 0.35:
                    st = rng.choice([s[:1], s[:2], s + b"q", rng.choice(syll), s[:1] + b" " + s[-1:]])
                emit(ch.encode("utf-8"), cs, gen_weight(rng), st)
                if rng.random() < 0.08:
                    emit(ch.encode("utf-8"), cs, gen_weight(rng), st)        # the same reading twice
        for _ in range(n_words):                           # words: one-syllable codes (known to TranslateWord) and longer codes
            t = "".join(rng.choice(chars) for _ in range(rng.randint(2, 3))).encode("utf-8")
            if rng.random() < 0.5:
                cs = rng.choice(syll)
            else:
                cs = b" ".join(rng.choice(syll) for _ in range(rng.randint(2, 5)))
            st = rng.choice([b"", b"", rng.choice(syll)]) if "stem" in colnames else b""
            emit(t, cs, gen_weight(rng), st)
        if rng.random() < 0.3:
            lines.insert(rng.randint(0, len(lines)), rng.choice([b"# a comment", b"", b"# no comment"]))
        pool = chars + ([rng.choice(CJK)] if allow_unknown else [])
        single = [ch for ch in chars if nread.get(ch) == 1]
        for _ in range(n_phr):                             # rows without a code
            k = rng.random()
            ln = rng.randint(1, 4) if k < 0.8 else rng.randint(5, 7) if k < 0.95 else rng.choice([32, 33, 34])
            # (the encoders search every combination of readings before they give up: long phrases use characters with one reading
            # and the six-reading character at most twice, or the search — in librime as in the reference — takes exponential time)
            if ln > 7 and not single:
                ln = 4
            if ln > 7:
                src = single
            elif ln > 4:
                src = [ch for ch in pool if nread.get(ch, 1) <= 3] or pool
            else:
                src = pool
            t = "".join(rng.choice(src) for _ in range(ln)).encode("utf-8")
            w = gen_weight(rng)
            vals = {"text": t, "code": b"", "weight": w, "stem": rng.choice([b"", b"zz"])}
            lines.append(b"\t".join(vals_or_empty(colnames, vals)))
        return lines

    colnames = columns if columns is not None else ["text", "code", "weight"]
    lines = rows_for(chars, syll, rng.randint(0, 6), rng.randint(1, 10), True, colnames)
    if rng.random() < 0.3:
        rng.shuffle(lines)                                 # phrases before the readings they are built from
    body = b"\n".join(lines) + b"\n"
    main = {"fname": name, "columns": columns, "sort": rng.choice([None, "by_weight", "original"]), "body": body, "cfg": cfg}
    files = [main]
    if rng.random() < 0.25:
        il = rows_for(rng.sample(chars, min(len(chars), 3)), syll + [b"q"], rng.randint(0, 3), rng.randint(0, 4), True, ["text", "code", "weight"])
        files.append({"fname": name + "_i0", "columns": None, "sort": None, "body": b"\n".join(il) + b"\n"})
    case = {"name": name, "files": files, "profile": "ext_" + kind, "style": "latin"}
    if uses_vocab(cfg) and cfg.get("vocabulary"):
        vr = []
        for _ in range(rng.randint(1, 14)):
            t = "".join(rng.choice(chars + [rng.choice(CJK)]) for _ in range(rng.choice([1, 1, 2, 2, 3, 4, 6])))
            vr.append("%s\t%s\n" % (t, rng.choice([str(rng.randint(1, 2000)), "41", "45.5", "0", "150"])))
        if rng.random() < 0.2:
            vr.append("%s\n" % rng.choice(chars))           # no weight column: "0"
        case["vocab"] = "".join(vr).encode("utf-8")
    if want_packs:
        packs = []
        for k in range(rng.randint(1, 3)):
            if rng.random() < 0.2:
                packs.append(None)                         # listed, but neither a source nor a prebuilt table exists
                continue
            pcfg = {}
            if rng.random() < 0.3:
                pcfg = gen_rules(rng)
            psyl = syll + [b"q", b"zzz"] if rng.random() < 0.7 else syll
            pl = rows_for(rng.sample(chars, min(len(chars), rng.randint(1, 4))), psyl, rng.randint(0, 5), rng.randint(0, 4), True, ["text", "code", "weight"])
            packs.append({"columns": None, "sort": rng.choice([None, "original"]), "body": b"\n".join(pl) + b"\n", "cfg": pcfg})
        case["packs"] = packs
    return case


def vals_or_empty(colnames, vals):
    row = [vals[c] for c in colnames]
    while row and not row[-1]:
        row.pop()
    return row


def pack_edit_case(rng, case, name):
    """the same dictionary with packs, compiled once and compiled again after only a pack's source changed (the primary table is
    reused and its syllabary read back from the table file)"""
    out = {"name": name, "profile": "ext_packedit", "style": case.get("style")}
    out["files"] = [dict(f, fname=f["fname"].replace(case["name"], name)) for f in case["files"]]
    out["before"] = [dict(f) for f in out["files"]]
    if "vocab" in case:
        out["vocab"] = case["vocab"]
    out["packs"] = [dict(p) if p else None for p in case["packs"]]
    before = []
    for p in out["packs"]:
        if p is None:
            before.append(None)
            continue
        q = dict(p)
        lines = [l for l in p["body"].split(b"\n") if l]
        if lines and rng.random() < 0.7:             # (else: this pack is unchanged and its table is reused)
            i = rng.randrange(len(lines))
            if rng.random() < 0.5:
                del lines[i]
            else:
                lines.insert(i, "先".encode("utf-8") + b"\t" + (lines[i].split(b"\t") + [b"a"])[1])
        q["body"] = b"\n".join(lines) + b"\n"
        before.append(q)
    out["packs_before"] = before
    return out
