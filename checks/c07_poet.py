"""C07 — the sentence maker (gear/poet.cc) alone: generator of word graphs, the real Poet::MakeSentence (c07_harness --poet)
against the Lean port (driver_c07, op `poet`, IEEE doubles) and a direct monitor with a brute-force reference.

One case = (total, edges); an edge = (start, end, [(text bytes, weight double, code ids)]), start < end (both callers
build forward edges only; an edge that does not go forward makes the real code build a line that is its own
predecessor).  Edges come in the iteration order of the std::maps (start, then end, ascending)."""
import os, struct, glob, itertools
import vlib

KP = -18.420680743952367            # kPenalty of Grammar::Evaluate (grammar.h)


def bits(x):
    return struct.unpack("<Q", struct.pack("<d", x))[0]


def unbits(b):
    return struct.unpack("<d", struct.pack("<Q", b))[0]


def hx(b):
    return b.hex() if b else "-"


def op_line(case):
    total, edges = case
    toks = []
    for s, e, ents in sorted(edges, key=lambda x: (x[0], x[1])):
        es = ";".join("%s/%016x/%s" % (hx(t), bits(w), ".".join(str(c) for c in code) or "-") for t, w, code in ents) or "-"
        toks.append("%d:%d:%s" % (s, e, es))
    return " ".join(["poet", str(total)] + toks)


def parse_op(line):
    p = line.split()
    total = int(p[1])
    edges = []
    for tok in p[2:]:
        s, e, es = tok.split(":")
        ents = []
        if es != "-":
            for x in es.split(";"):
                t, w, c = x.split("/")
                ents.append((b"" if t == "-" else bytes.fromhex(t), unbits(int(w, 16)), [] if c == "-" else [int(y) for y in c.split(".")]))
        edges.append((int(s), int(e), ents))
    return total, edges


def parse_result(tok):
    """`none` or weightbits|texthex|codeids|wordlengths|end/texthex/entryweightbits;..."""
    if tok == "none":
        return None
    w, t, c, wl, comps = tok.split("|")
    cs = []
    for x in (comps.split(";") if comps else []):
        e, tx, wb = x.split("/")
        cs.append((int(e), b"" if tx == "-" else bytes.fromhex(tx), unbits(int(wb, 16))))
    return {"weight": unbits(int(w, 16)), "text": b"" if t == "-" else bytes.fromhex(t),
            "code": [] if c == "-" else [int(y) for y in c.split(".")],
            "wl": [] if wl == "-" else [int(y) for y in wl.split(".")], "comps": cs}


def parse_line(line):
    p = line.split(" ")
    if len(p) != 5 or p[0] != "poet" or p[1] != "cw" or p[3] != "la":
        return None
    return {"cw": p[2], "la": p[4]}


# ------------------------------------------------------------------------------------------------ generator
DYADIC = [-8.0, -6.5, -6.0, -5.25, -4.0, -3.5, -3.0, -2.75, -2.0, -1.5, -1.0, -0.5, -0.25, 0.0]
LETTERS = [b"A", b"B", b"C", b"\xe4\xb8\x80", b"\xe4\xba\x8c", b"x", b"", b"AB"]


def gen_entry(rng, style):
    if style == "ties":
        w = rng.choice([-2.0, -2.0, -1.0, -3.0])
    elif style == "wild":
        w = rng.choice([rng.uniform(-30, 0), rng.uniform(-1e-3, 1e-3), -rng.random() * 1e6, rng.choice(DYADIC), 3.5, 1e-300])
    else:
        w = rng.choice(DYADIC)
    t = rng.choice(LETTERS[:3] if style == "ties" and rng.random() < 0.7 else LETTERS)
    code = [rng.randint(0, 5) for _ in range(rng.choice([0, 1, 1, 1, 2, 3]))]
    return (t, w, code)


def solve_size_tie(rng):
    """weights x, y, z and u, v such that the three-word line and the two-word line weigh EXACTLY the same in doubles
    (each word costs kPenalty, which is no dyadic number: such ties do not happen by chance)"""
    for _ in range(200):
        x, y, z, u = (rng.choice(DYADIC) for _ in range(4))
        w3 = fold_weight([x, y, z])
        a = 0.0 + (u + KP)
        b = w3 - a
        v = b - KP
        if a + b == w3 and v + KP == b and fold_weight([u, v]) == w3:
            return x, y, z, u, v
    return None


def gen_case(rng):
    """-> (kind, (total, edges))"""
    kind = rng.choice(["random", "random", "random", "ties", "ties", "dense", "lone", "chain", "gaps", "zero", "beyond",
                       "empty", "tablelike", "wild", "many", "sizetie"])
    n = rng.randint(1, 7)
    if kind == "sizetie":
        sol = solve_size_tie(rng)
        n = rng.randint(3, 7)
        if sol is not None:
            x, y, z, u, v = sol
            a, b = sorted(rng.sample(range(1, n), 2))
            c = rng.randint(1, n - 1)
            edges = {}
            for pr, en in (((0, a), (b"A", x, [1])), ((a, b), (b"B", y, [2])), ((b, n), (b"C", z, [3])),
                           ((0, c), (b"D", u, [4])), ((c, n), (b"E", v, [5]))):
                if rng.random() < 0.5:
                    edges.setdefault(pr, []).append(en)
                else:
                    edges.setdefault(pr, []).insert(0, en)
            if rng.random() < 0.3:      # a lighter distraction
                edges.setdefault((0, rng.randint(1, n - 1)), []).append((b"x", -30.0, []))
            return kind, (n, [(s, e, edges[(s, e)]) for (s, e) in sorted(edges)])
        kind = "ties"
    style = "ties" if kind == "ties" else "wild" if kind == "wild" else "plain"
    pairs = [(s, e) for s in range(n) for e in range(s + 1, n + 1)]
    total = n

    def ents(k=None):
        k = rng.choice([1, 1, 1, 2, 3]) if k is None else k
        return [gen_entry(rng, style) for _ in range(k)]

    edges = {}
    if kind == "lone":
        edges[(0, n)] = ents()
        if rng.random() < 0.5 and n >= 2:
            edges[(0, 1)] = ents()          # a first word that leads nowhere
        if rng.random() < 0.3 and n >= 3:
            edges[(1, n)] = ents()          # reachable only through a missing [0,1)
    elif kind == "chain":
        pos = 0
        while pos < n:
            e = min(n, pos + rng.randint(1, 3))
            edges[(pos, e)] = ents()
            pos = e
        if rng.random() < 0.5:
            edges[(0, n)] = ents()
    elif kind == "dense":
        for pr in pairs:
            edges[pr] = ents()
    elif kind == "many":
        for pr in rng.sample(pairs, max(1, len(pairs) // 2)):
            edges[pr] = ents(rng.randint(4, 9))
    elif kind == "zero":
        total = 0
        for pr in rng.sample(pairs, rng.randint(0, len(pairs))):
            edges[pr] = ents()
    elif kind == "beyond":
        total = n + rng.randint(1, 3)
        for pr in rng.sample(pairs, rng.randint(0, len(pairs))):
            edges[pr] = ents()
    else:
        dens = rng.choice([0.25, 0.4, 0.6, 0.8])
        for pr in pairs:
            if rng.random() < dens:
                edges[pr] = ents()
        if kind == "gaps":                      # start positions nothing reaches
            for pr in list(edges):
                if pr[1] == rng.randint(1, n):
                    del edges[pr]
        if rng.random() < 0.2:
            total = rng.randint(0, n)
    if kind == "ties" and n >= 3:               # two cuts of the same stretch with the same weights in another order
        a, b = rng.sample(range(1, n), 2) if n >= 3 else (1, 1)
        w1, w2 = rng.choice(DYADIC), rng.choice(DYADIC)
        edges[(0, a)] = [(b"A", w1, [1])]
        edges[(a, n)] = [(b"B", w2, [2])]
        edges[(0, b)] = [(b"C", w2, [3])]
        edges[(b, n)] = [(b"D", w1, [4])]
    if kind == "empty":                         # edges without entries anywhere (the states[end_pos] quirk)
        for pr in rng.sample(pairs, rng.randint(1, max(1, len(pairs) // 3))):
            edges[pr] = []
    if kind == "tablelike":                     # as TableTranslator::MakeSentence: an edge without entries only from a reachable
        reach = {0}                             # start into a position that is reachable anyway or is no start position
        for s in range(n):
            if s in reach:
                reach.update(e for (a, e) in edges if a == s and edges[(a, e)])
        starts = {s for (s, e) in edges}
        for pr in pairs:
            if pr not in edges and pr[0] in reach and (pr[1] in reach or pr[1] not in starts) and rng.random() < 0.4:
                edges[pr] = []
    # a start position without any edge (graph[start] touched, nothing found) is invisible in the line protocol
    case = (total, [(s, e, edges[(s, e)]) for (s, e) in sorted(edges)])
    return kind, case


# ------------------------------------------------------------------------------------------------ reference
def reference(case):
    """independent of the loop order: fixpoints and enumeration.
    -> dict(visited, live, paths=[list of (s, e)] from 0 to total without the edge (0,total), has_empty)"""
    total, edges = case
    ok = [(s, e, en) for s, e, en in edges if not (s == 0 and e == total)]
    visited = {0}
    changed = True
    while changed:
        changed = False
        for s, e, en in ok:
            if s in visited and e not in visited:
                visited.add(e)
                changed = True
    live = {e for s, e, en in ok if s in visited and en}
    out = {}
    for s, e, en in ok:
        if en:
            out.setdefault(s, []).append((e, en))
    paths = []

    def walk(pos, acc):
        if len(paths) > 4000:
            return
        if pos == total and acc:
            paths.append(list(acc))
            return
        for e, en in out.get(pos, []):
            acc.append((pos, e))
            walk(e, acc)
            acc.pop()
    walk(0, [])
    return {"visited": visited, "live": live, "paths": paths, "has_empty": any(not en for s, e, en in edges)}


def fold_weight(ws):
    w = 0.0
    for x in ws:
        w = w + (x + KP)        # candidate.weight + (entry_weight + kPenalty), as the code parenthesises it
    return w


def lex_lt(a, b):
    return list(a) < list(b)


def monitor(case, res, which, stats=None):
    """the property on what the REAL poet returned (`which` in cw/la) -> list of (clause, detail)"""
    bad = []
    total, edges = case
    ref = reference(case)
    emap = {(s, e): en for s, e, en in edges}
    strict = not ref["has_empty"] or case_is_tablelike(case, ref)
    if res is None:
        expected_some = (total in ref["live"])
        if expected_some:
            bad.append(("none", "no sentence although position %d is reachable from 0 (%s)" %
                        (total, "path %s" % ref["paths"][0] if ref["paths"] else "through an edge without entries")))
        return bad
    if total not in ref["live"]:
        bad.append(("unreachable", "a sentence %r although %d is not reachable from 0 without the single edge [0,%d)" %
                    (res["text"], total, total)))
    comps = res["comps"]
    if not comps:
        return bad + [("path", "a sentence without components")]
    ends = [c[0] for c in comps]
    # the components are consecutive edges; where does the first one start?  (only the first start is not determined by the
    # result: try every edge that could carry the first word and keep an explanation without defect if there is one)
    def carries(s, e, t, w):
        en = emap.get((s, e))
        return en is not None and any((t, w) == (t2, w2) for t2, w2, c2 in en)

    def explain(start):
        out, pos = [], start
        if not (start == 0 or (not strict and start in ref["visited"] and start not in ref["live"])):
            out.append(("path", "the first word %r ends at %d but no edge from 0%s carries it: the sentence does not cover the input from 0" %
                        (comps[0][1], ends[0], "" if strict else " (or from the end of an edge without entries)")))
        for e, t, w in comps:
            if not carries(pos, e, t, w):
                out.append(("path", "component %r [%d,%d) is no entry of an edge of the graph" % (t, pos, e)))
                break
            if pos == 0 and e == total:
                out.append(("single-word", "the sentence uses the single edge [0,%d)" % total))
            pos = e
        return out

    first_starts = sorted(s for (s, e) in emap if e == ends[0] and carries(s, e, comps[0][1], comps[0][2])) or [0]
    expl = sorted(((explain(s), s) for s in first_starts), key=lambda x: (len(x[0]), x[1]))
    bad += expl[0][0]
    start = expl[0][1]
    if ends[-1] != total:
        bad.append(("path", "the last word ends at %d, not at %d" % (ends[-1], total)))
    if res["text"] != b"".join(c[1] for c in comps):
        bad.append(("fields", "text %r is not the concatenation of the components' texts" % res["text"]))
    wl = [e - p for p, e in zip([0] + ends[:-1], ends)]
    if res["wl"] != wl:
        bad.append(("fields", "word lengths %s, components end at %s" % (res["wl"], ends)))
    fw = fold_weight([c[2] for c in comps])
    if bits(fw) != bits(res["weight"]):
        bad.append(("weight", "sentence weight %r, the components add up to %r" % (res["weight"], fw)))
    if bad or not ref["paths"] or start != 0:
        return bad
    # optimal by brute force: the best entry of every edge (x -> fl(a + fl(x + k)) is monotone), all paths
    best_of = {k: max(w for t, w, c in en) for k, en in emap.items() if en}
    pw = [(fold_weight([best_of[ed] for ed in p]), p) for p in ref["paths"]]
    mx = max(w for w, p in pw)
    if res["weight"] < mx:
        p = [p for w, p in pw if w == mx][0]
        bad.append(("optimal", "weight %r, but the path %s weighs %r" % (res["weight"], p, mx)))
        return bad
    if stats is not None:
        stats["poet_optimality_checked"] = stats.get("poet_optimality_checked", 0) + 1
    if which == "la" and rounding_safe(ref, best_of):
        tied = [p for w, p in pw if w == mx]
        if stats is not None and len(tied) > 1:
            stats["poet_tiebreak_checked"] = stats.get("poet_tiebreak_checked", 0) + 1
        fewest = min(len(p) for p in tied)
        if len(comps) > fewest:
            bad.append(("left-associate", "%d words, but a path of the same weight has %d: %s" %
                        (len(comps), fewest, [p for p in tied if len(p) == fewest][0])))
        else:
            lens = [[e - s for s, e in p] for p in tied if len(p) == fewest]
            if any(lex_lt(wl, l) for l in lens):
                bad.append(("left-associate", "word lengths %s, but a path of the same weight and word count has %s" %
                            (wl, max(lens))))
    return bad


def rounding_safe(ref, best_of):
    """every two partial paths to the same position weigh the same or differ by more than rounding noise: then adding a word
    keeps strict order and the tie-breaking of LeftAssociateCompare is globally consistent"""
    by_end = {}
    for p in ref["paths"]:
        ws = []
        for i, ed in enumerate(p):
            ws.append(best_of[ed])
            by_end.setdefault(ed[1], set()).add(fold_weight(ws))
    for vs in by_end.values():
        vs = sorted(vs)
        for a, b in zip(vs, vs[1:]):
            if b - a < 1e-6 * max(1.0, abs(a)):
                return False
    return True


def case_is_tablelike(case, ref):
    """edges without entries only into positions that are live anyway or are no start position (and not from unvisited starts)"""
    total, edges = case
    starts = {s for s, e, en in edges}
    for s, e, en in edges:
        if not en and s in ref["visited"] and not (s == 0 and e == total):
            if e in starts and e not in ref["live"] and e != 0:
                return False
    return True


# ------------------------------------------------------------------------------------------------ running
def corpus_cases():
    out = []
    for p in sorted(glob.glob(os.path.join(vlib.CORPUS, "C07", "poet_*.txt"))):
        for line in open(p):
            line = line.strip()
            if line and not line.startswith("#"):
                out.append(("corpus:" + os.path.basename(p), parse_op(line)))
    return out


def run_cases(c, exe, cases):
    """cases: [(kind, case)] -> (impl lines, model lines, seconds)"""
    import time
    text = "\n".join(op_line(cs) for k, cs in cases) + "\n"
    job = os.path.join(c.work, "poet_job.txt")
    with open(job, "w") as f:
        f.write(text)
    t0 = time.time()
    rc, out = vlib.sh([exe, "--poet", job], env=vlib.SAN_ENV, timeout=3600)
    t1 = time.time()
    mo = vlib.run_driver("driver_c07", text)
    t2 = time.time()
    os.unlink(job)
    impl = [l for l in out.splitlines() if l.startswith("poet ") or l == "bad-op"]
    return rc, out, impl, [l for l in mo.splitlines()], t1 - t0, t2 - t1


def check(c, exe, n_cases, stats):
    """-> (failures [(clause, detail, op line)], diffs [(detail, op line)], crash)"""
    cases = corpus_cases()
    stats["poet_corpus_cases"] = len(cases)
    for _ in range(n_cases):
        cases.append(gen_case(c.rng))
    rc, out, impl, model, hs, ms = run_cases(c, exe, cases)
    stats["poet_harness_seconds"] = round(hs, 1)
    stats["poet_model_seconds"] = round(ms, 1)
    fails, diffs = [], []
    crash = None
    if rc != 0 or len(impl) != len(cases):
        crash = "c07_harness --poet: rc=%s, %d result lines for %d cases: %s" % (rc, len(impl), len(cases), out[-1500:])
    if len(model) != len(cases):
        diffs.append(("the driver printed %d lines for %d ops" % (len(model), len(cases)), ""))
    kinds = stats.setdefault("poet_kinds", {})
    nontrivial = stats.setdefault("poet_nontrivial", set())
    for i, (kind, case) in enumerate(cases):
        if i >= len(impl):
            break
        line = op_line(case)
        kinds[kind.split(":")[0]] = kinds.get(kind.split(":")[0], 0) + 1
        stats["poet_cases"] += 1
        r = parse_line(impl[i])
        if r is None:
            fails.append(("bad-op", "the harness answered %r" % impl[i], line))
            continue
        ref = reference(case)
        stats["poet_edges"] += len(case[1])
        stats["poet_paths_enumerated"] += len(ref["paths"])
        stats["poet_with_empty_edges"] += 1 if ref["has_empty"] else 0
        for which in ("cw", "la"):
            try:
                res = parse_result(r[which])
            except Exception as ex:           # noqa
                fails.append(("bad-op", "unparsable result %r (%s)" % (r[which], ex), line))
                continue
            for cl, det in monitor(case, res, which, stats):
                fails.append((cl, "%s: %s" % ("CompareWeight" if which == "cw" else "LeftAssociateCompare", det), line))
            if res is None:
                stats["poet_none"] += 1
            else:
                stats["poet_sentences"] += 1
                if len(ref["paths"]) >= 2:
                    stats["poet_with_choice"] += 1
                    nontrivial.add((which, len(res["comps"]), len(case[1]), min(len(ref["paths"]), 50), tuple(res["wl"])))
        if r["cw"] != r["la"]:
            stats["poet_compare_functions_differ"] += 1
        if i < len(model) and model[i] != impl[i]:
            diffs.append(("Poet::MakeSentence %s   Lean port %s" % (impl[i], model[i]), line))
    return fails, diffs, crash


def shrink(c, exe, line, pred):
    """drop edges / entries while `pred(case)` (re-running the real poet) still holds"""
    total, edges = parse_op(line)
    evals = 0

    def holds(cs):
        nonlocal evals
        evals += 1
        rc, out, impl, model, _, _ = run_cases(c, exe, [("shrink", cs)])
        return bool(impl) and pred(cs, impl[0], model[0] if model else "")

    changed = True
    while changed and evals < 120:
        changed = False
        for i in range(len(edges)):
            cand = (total, edges[:i] + edges[i + 1:])
            if holds(cand):
                edges = cand[1]
                changed = True
                break
        if changed:
            continue
        for i, (s, e, en) in enumerate(edges):
            for j in range(len(en)):
                if len(en) > 1:
                    cand = (total, edges[:i] + [(s, e, en[:j] + en[j + 1:])] + edges[i + 1:])
                    if holds(cand):
                        edges = cand[1]
                        changed = True
                        break
            if changed:
                break
    return op_line((total, edges)), evals
