"""C14 — directed families added after the coverage review (round 2): inputs the grammar generator never (or hardly ever)
produced although the compiler treats them specially.  Pure generators; judged by the same monitors and the same
correspondence as every other set.

  editgrid   EditNode / MergeTree / AppendToString / AppendToList over the matrix  existing value x new value x key form x
             operator, in a patch (path keys) and beside an include (literal keys), with one reader of the source before and
             one after the writer (a write that shows through a shared container is seen by them)
  oddref     reference texts in every spelling CreateReference / GetResolvedItem / SplitPath distinguish ("b:", "b:/", "b://",
             trailing and double slashes, '?' inside, several ':', the empty text), keys that look like list indexes but are
             not ("@", "@-1")
  schema     *.schema documents: the default `menu` include and the three `import_preset` expansions in every shape of the
             section on either side (absent, scalar, list, map, with and without `bindings`), presets that are missing, lack the
             section or carry directives / a custom patch of their own
  deep       directive nodes several levels below plain maps and lists (pending-child propagation through non-pending
             ancestors), read through every prefix of their paths from keys parsed before and after them
  names      documents compiled under a name with the `.yaml` extension, names that do not exist, documents in a
             sub-directory (their custom patch lives beside them), names that merely contain `.custom` / `.schema`
  custom     the custom patch written by the real CustomSettings (Load / Customize / Save) instead of by the harness
"""
import copy
from checks import c14_gen as G

ABSENT = "\0absent"

T_POOL = [ABSENT, None, "", "s", [], ["x"], [{"a": "1"}, {"a": "2"}], {}, {"a": "1", "l": ["p"]}, ["x", "y", "z"]]
V_POOL = [None, "", "t", [], ["y"], ["y", "z"], {}, {"b": "2"}, {"a": "9"}, {"l/+": ["q"]}, {"@0": "z"}, {"@next": "z"},
          {"a/=": {"c": "3"}}, {"l": {"__append": ["r"]}}, {"__append": ["w"]}, {"__merge": {"b": "2"}}, {"a": None},
          {"a": {"deep": "1"}}, {"l": ["r"]}]
K_MAIN = ["k"]
K_PATHS = ["k/sub", "k/@0", "k/@1", "k/@2", "k/@next", "k/@last", "k/@before 0", "k/@after 0", "k/@after last", "k/@before last",
           "k/@before 1", "k/@after 1", "k/@5", "k/@last/a", "k/@next/a", "k/@0/a", "k/@1/a", "k/a", "k/l", "k/l/@next", "k/a/deep",
           "k/", "/k", "k//sub", "", "/", "@0", "@next", "k/@", "k/@-1", "k/@x", "k/@1x", "k/@before", "k/@after", "k/@lastly",
           "k/@before1", "k/@next 3", "new/a/b", "new/@next", "new/@0/a", "new/@2", "z", "z/y"]
OPS = ["", "/+", "/="]


def _base(T):
    b = {"z": "o"}
    if T is not ABSENT:
        b["k"] = copy.deepcopy(T)
    return b


def gen_editgrid(rng, idx):
    T = rng.choice(T_POOL)
    V = copy.deepcopy(rng.choice(V_POOL))
    u = rng.random()
    feats = {"editgrid"}
    if u < 0.30:
        form, key = "patch", rng.choice(K_MAIN) + rng.choice(OPS)
    elif u < 0.55:
        form, key = "patch", rng.choice(K_PATHS) + rng.choice(OPS)
    elif u < 0.75:
        form, key = "over", rng.choice(K_MAIN) + rng.choice(OPS)
    elif u < 0.80:
        form, key = "over", rng.choice(K_PATHS + ["@0", "@next", "@last", "@before 0", "@1"]) + rng.choice(OPS)
    elif u < 0.86:
        form, key = "over-nested", rng.choice(["__append", "__merge"])
    elif u < 0.93:
        form, key = "self", rng.choice(["__append", "__merge", "/+", "/=", "", "/"])
    else:
        form, key = "patch2", rng.choice(K_MAIN + K_PATHS[:12]) + rng.choice(OPS)
    feats.add("editgrid:" + form)
    base = _base(T)
    if form == "patch":
        n = {"__include": "/base", "__patch": {key: V}}
    elif form == "patch2":
        V2 = copy.deepcopy(rng.choice(V_POOL))
        key2 = rng.choice([key, rng.choice(K_MAIN + K_PATHS[:12]) + rng.choice(OPS)])
        lits = [{key: V}, {key2: V2}]
        n = {"__include": "/base", "__patch": lits}
    elif form == "over":
        n = {"__include": "/base", key: V}
    elif form == "over-nested":
        n = {"__include": "/base", "k": {key: V}}
    else:
        if T is ABSENT:
            T = rng.choice(T_POOL[1:])
            base = _base(T)
        n = {"__include": "/base/k" + ("?" if T is None else ""), "__patch": {key: V}}
    a = {"base": base, "n": n, "a0": {"__include": "/base"}, "z9": {"__include": "/base"}}
    docs = {"a": a}
    ops = [("compile", "a")]
    if rng.random() < 0.3:
        # the same writer in another document: the source document must compile to itself afterwards
        docs = {"a": {"base": base}, "w": {"n": dict(n, __include="a:" + n["__include"]), "r": {"__include": "a:/base"}}}
        ops = [("compile", "w"), ("compile", "a")]
        feats.add("editgrid:cross-doc")
    return {"id": "eg%d" % idx, "docs": docs, "ops": ops, "mode": "simple", "risk": 1, "features": sorted(feats)}


REF_TEXTS = ["b:", "b:/", "b://", "b:/m/", "b:/m//x", "b:m", "b.yaml:m", "b.yaml:", ":/base", ":base/m", "a:base", "a:/base/", "/base/",
             "base//m", "base/l/@1", "base/l/@1/", "base/l/@last/y", "b:/m?x", "b:/nope?", "b:/m/nope?", "?", "", ":", "/", "//", "b:m:x",
             "c:/m?", "c:/m", "c:?", "b.yaml.yaml:/m?", "b.yaml.yaml:/m", "b:/m?", "b?:/m", "b:/@0", "base/@", "base/@-1", "base/@/q", "/base/l/@9?",
             "/base/l/@next?", "base/l/@before 1", "base/l/@after 0/y", "base/l/x?", "base/m/x/y?", "b:/l", "b:/l/@0", "b:/s", "b:/s/x?",
             "b:/e", "b:/e?", "b:/n?", "b:/n", "a:", "a:/"]


def gen_oddref(rng, idx):
    base = {"m": {"x": "1", "q": {"r": "2"}}, "l": ["p", {"y": "2"}], "@": {"q": "at"}, "@-1": "minus", "s": "text"}
    b = {"m": {"x": "b1", "w": "b2"}, "l": [{"u": "1"}, "v"], "s": "bs", "e": {}, "n": None, "m:x": "colon"}
    feats = {"oddref"}
    a = {"base": base}
    for t in range(rng.randint(1, 2)):
        text = rng.choice(REF_TEXTS)
        as_patch = rng.random() < 0.3
        n = {}
        if as_patch:
            n = {"keep": "1", "__patch": text if rng.random() < 0.6 else [text, {"added": "2"}]}
            feats.add("oddref:patch")
        else:
            n = {"__include": text}
            if rng.random() < 0.3:
                n["x"] = "over"
            feats.add("oddref:include")
        a[("r%d" if rng.random() < 0.5 else "a%d") % t] = n
    docs = {"a": a, "b": b}
    if rng.random() < 0.3:
        docs["b.custom"] = {"patch": {"m/x": "patched", "added": "c"}}
        feats.add("oddref:target-custom")
    ops = [("compile", x) for x in rng.sample(["a", "b"], 2)]
    return {"id": "or%d" % idx, "docs": docs, "ops": ops, "mode": "simple", "risk": 1, "features": sorted(feats)}


def gen_schema(rng, idx):
    feats = {"schema-grid"}

    def pick(xs):
        return copy.deepcopy(rng.choice(xs))
    menus = [ABSENT, {"page_size": "9"}, {"alt": ["a"]}, {}, "scalar", ["l"], None, {"page_size/=": "7"}, {"alt/+": ["b"]}]
    dmenus = [ABSENT, {"page_size": "5", "alt": ["d"]}, {}, "dscalar", ["dl"], None, {"__include": "/other"}]
    binds = [ABSENT, [{"when": "y", "send": "1"}], [], None, "scalar", {"a": "x"}]
    dbinds = [ABSENT, [{"when": "x", "send": "0"}], [], "dscalar", {"b": "y"}]
    presets = ["default", "default", "default", "p", "nonexistent", ["x"], {"a": "b"}, "s.schema", "", "default.yaml", "p.yaml"]
    # ("default.yaml" as a preset and "b.yaml.yaml:" as a reference: a resource id that still ends in ".yaml" once left a null
    #  entry in the compiler's resource table — fixed by fc409a8, regression case corpus/C14/20_finding_null_resource.case)
    s = {"name": "s"}
    m = pick(menus)
    if m is not ABSENT:
        s["menu"] = m
    for sect in ("key_binder", "punctuator", "recognizer"):
        if rng.random() < 0.6:
            v = {"import_preset": pick(presets)}
            if sect == "key_binder":
                bnd = pick(binds)
                if bnd is not ABSENT:
                    v["bindings"] = bnd
            if rng.random() < 0.5:
                v[rng.choice(["k", "patterns", "extra", "k/+", "patterns/="])] = pick(["v", {"a": "1"}, ["i"]])
            if rng.random() < 0.1:
                v = pick(["scalar", ["import_preset"], None])
            s[sect] = v
            feats.add("schema-grid:" + sect)

    def preset_doc(tag):
        d = {"other": {"page_size": "3"}}
        dm = pick(dmenus)
        if dm is not ABSENT:
            d["menu"] = dm
        for sect in ("key_binder", "punctuator", "recognizer"):
            u = rng.random()
            if u < 0.75:
                v = {"k": tag + sect, "patterns": {"a": tag}}
                if sect == "key_binder":
                    db = pick(dbinds)
                    if db is not ABSENT:
                        v["bindings"] = db
                if rng.random() < 0.15:
                    v["__include"] = "/other"
                if rng.random() < 0.15:
                    v["__patch"] = {"k": tag + "patched"}
                d[sect] = v
            elif u < 0.85:
                d[sect] = pick(["scalar", ["list"], {}, None])
        return d
    docs = {"s.schema": s}
    # the sections reached through a pure `__include` of a node in another document, the same node included a second time under
    # a key the plugins do not touch (and by a second document): the link-time rewrites (bindings -> bindings/+, the merged
    # preset) act on the COPY the schema holds, the included document and the other includers keep the node as written
    if rng.random() < 0.4:
        k = {}
        for sect in ("key_binder", "punctuator", "recognizer", "menu"):
            if isinstance(s.get(sect), dict) and s[sect] and rng.random() < 0.75:
                k[sect] = s[sect]
                s[sect] = {"__include": "k:/" + sect}
                s["own_" + sect] = {"__include": "k:/" + sect}
                if rng.random() < 0.3:
                    s["a_" + sect] = {"__include": "k:/" + sect}          # parsed before the section itself
                feats.add("schema-grid:section-through-include")
        if k:
            docs["k"] = k
            docs["t"] = {"x": {"__include": "k:/" + rng.choice(list(k))}}
    if rng.random() < 0.05:
        docs["s.schema"] = pick([["x"], "scalar", []])
        feats.add("schema-grid:non-map-root")
    if rng.random() < 0.85:
        docs["default"] = preset_doc("d")
    else:
        feats.add("schema-grid:no-default")
    if rng.random() < 0.5:
        docs["p"] = preset_doc("p")
    for name, stem in (("s.schema", "s"), ("default", "default"), ("p", "p")):
        if name in docs and rng.random() < 0.3:
            docs[stem + ".custom"] = {"patch": pick([{"menu/page_size": "c" + stem}, {"key_binder/bindings/@next": {"when": "c", "send": stem}},
                                                     {"punctuator/k": "c" + stem}, {"menu": {"page_size": "cm"}}, {"recognizer/patterns/c": stem}])}
            feats.add("schema-grid:custom:" + stem)
    if rng.random() < 0.2:
        docs["s.schema.custom"] = {"patch": {"decoy": "must not be applied"}}
        feats.add("schema-grid:decoy-custom")
    names = [n for n in docs if not n.endswith(".custom")]
    rng.shuffle(names)
    ops = [("compile", n) for n in names]
    if rng.random() < 0.3:
        ops.append(("compile", "s.schema"))
    return {"id": "sg%d" % idx, "docs": docs, "ops": ops, "mode": "simple", "risk": 1, "features": sorted(feats)}


def gen_deep(rng, idx):
    feats = {"deep"}
    base = {"x": "1", "m": {"y": "2"}}
    leaves = []

    def leaf():
        n = {"__include": rng.choice(["/base", "base", "c:/m", "/base/m"])}
        if rng.random() < 0.4:
            n["o"] = "v"
        if rng.random() < 0.4:
            n["__patch"] = {"p": "q"}
        return n

    def plain(depth, path):
        """a plain container with directive leaves below"""
        if depth == 0 or rng.random() < 0.15:
            leaves.append(path)
            return leaf()
        if rng.random() < 0.35:
            xs = []
            for i in range(rng.randint(1, 3)):
                xs.append(plain(depth - 1, path + ["@%d" % i]) if rng.random() < 0.6 else rng.choice(["w", {"t": "u"}]))
            return xs
        out = {}
        for k in rng.sample(["p", "q", "r", "s"], rng.randint(1, 3)):
            out[k] = plain(depth - 1, path + [k]) if rng.random() < 0.65 else rng.choice(["w", {"t": "u"}, ["i"]])
        return out
    a = {"base": base, "d": plain(rng.randint(2, 5), ["d"])}
    if not leaves:
        a["d"] = {"p": {"q": {"r": leaf()}}}
        leaves.append(["d", "p", "q", "r"])
    for t in range(rng.randint(1, 3)):
        p = rng.choice(leaves)
        cut = rng.randint(1, len(p))
        text = rng.choice(["/", "", ":/"]) + "/".join(p[:cut])
        fwd = rng.random() < 0.5
        feats.add("deep:forward" if fwd else "deep:backward")
        if cut < len(p):
            feats.add("deep:reads-plain-ancestor")
        n = {"__include": text}
        if rng.random() < 0.3:
            n["__patch"] = {"added": "1"} if rng.random() < 0.7 else {"@next": "1"}
        a[("a%d" if fwd else "z%d") % t] = n
    b = {"q": {"__include": "a:/" + "/".join(rng.choice(leaves)[:rng.randint(1, 3)])}}
    docs = {"a": a, "b": b, "c": {"m": {"cx": "3"}}}
    ops = [("compile", x) for x in rng.sample(["a", "b"], 2)]
    return {"id": "dp%d" % idx, "docs": docs, "ops": ops, "mode": "simple", "risk": 0, "features": sorted(feats)}


def gen_names(rng, idx):
    feats = {"names"}
    b = {"m": {"x": "1"}, "l": ["p"]}
    docs = {"b": b, "sub/t": {"m": {"x": "sub"}, "r": {"__include": "/m"}}, "sub/t.custom": {"patch": {"m/x": "sub-patched"}},
            "a": {"r": {"__include": rng.choice(["sub/t:/m", "sub/t.yaml:/m", "sub/t:/r", "b:/m"])}, "k": "v"},
            "x.custom.y": {"k": "1"}, "x.custom.y.custom": {"patch": {"k": "patched"}},
            "y.schema.z": {"k": "1"}, "y.schema.z.custom": {"patch": {"k": "patched"}}, "y.custom": {"patch": {"k": "wrong"}},
            "c.custom": {"patch": {"k": "1"}, "__patch": {"own": "applied"}}, "c.custom.custom": {"patch": {"no": "never"}}}
    if rng.random() < 0.5:
        docs["a.custom"] = {"patch": {"k": "patched"}}
    if rng.random() < 0.5:
        docs["a.yaml.custom"] = {"patch": {"decoy": "never"}}
    pool = ["a", "a.yaml", "b", "b.yaml", "missing", "missing.yaml", "sub/t", "sub/t.yaml", "x.custom.y", "y.schema.z", "c.custom", "a.custom",
            "sub/missing", "sub/t.custom"]
    ops = [("compile", n) for n in rng.sample(pool, rng.randint(2, 5))]
    if rng.random() < 0.4:
        n = rng.choice(["a", "b"])
        ops += [("compile", n), ("compile", n + ".yaml")]
        feats.add("names:same-id-two-spellings")
    return {"id": "nm%d" % idx, "docs": docs, "ops": ops, "mode": "simple", "risk": 1, "features": sorted(feats)}


CUST_KEYS = ["k", "m/x", "l/@next", "l/@0", "new/deep/key", "m", "l/+", "m/+", "k/=", "__append", "menu/page_size", "l/@before 0"]
CUST_VALS = ["v", "", None, ["i"], {"a": "1"}, [], {}, {"x/+": "y"}]


def gen_custom(rng, idx):
    """ops:  ("customize", doc, [[key, value]...])  — the real CustomSettings loads <doc>.custom.yaml (if any), sets the keys and
    saves; afterwards the document is compiled"""
    feats = {"customsettings"}
    doc = rng.choice(["a", "a", "s.schema"])
    root = {"k": "orig", "m": {"x": "1", "y": "2"}, "l": ["p", "q"]}
    if doc == "s.schema":
        root["menu"] = {"page_size": "9"}
    docs = {doc: root, "default": {"menu": {"page_size": "5", "alt": "z"}}}
    stem = doc[:-7] if doc.endswith(".schema") else doc
    u = rng.random()
    if u < 0.35:
        docs[stem + ".custom"] = {"patch": {rng.choice(CUST_KEYS): copy.deepcopy(rng.choice(CUST_VALS)), "older": "kept"}}
        feats.add("customsettings:existing-patch")
    elif u < 0.45:
        docs[stem + ".custom"] = {"patch": rng.choice(["scalar", ["l"], None]), "other": "kept"}
        feats.add("customsettings:existing-odd-patch")
    elif u < 0.55:
        docs[stem + ".custom"] = {"customization": {"generator": "older"}, "patch": {"older": "kept"}}
        feats.add("customsettings:existing-signed")
    ops = []
    if rng.random() < 0.4:
        ops.append(("compile", doc))
    for _ in range(rng.randint(1, 2)):
        n = rng.choice([0, 1, 1, 1, 2, 3])
        kvs = [[rng.choice(CUST_KEYS), copy.deepcopy(rng.choice(CUST_VALS))] for _ in range(n)]
        ops.append(("customize", doc, kvs))
        ops.append(("fresh",))
        ops.append(("compile", doc))
    return {"id": "cs%d" % idx, "docs": docs, "ops": ops, "mode": "simple", "risk": 1, "features": sorted(feats)}
