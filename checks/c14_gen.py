"""C14 — document-set generator, tree <-> token codec, python-side helpers (no oracle here).

Trees:  None | str (scalar) | list | dict (keys str).  Maps are emitted with keys in byte order, so the
YAML document order, the std::map order and the model's association-list order coincide.
"""
import random

GEN_VERSION = 6

# ---------------------------------------------------------------- codec
def hx(s):
    b = s.encode("utf-8", "surrogateescape")
    return b.hex() if b else "-"


def unhx(h):
    return "" if h == "-" else bytes.fromhex(h).decode("utf-8", "surrogateescape")


def bkey(s):
    return s.encode("utf-8", "surrogateescape")


def tok(t):
    if t is None:
        return "n"
    if isinstance(t, str):
        return "s " + hx(t)
    if isinstance(t, list):
        return " ".join(["l %d" % len(t)] + [tok(x) for x in t])
    ks = sorted(t, key=bkey)
    out = ["m %d" % len(ks)]
    for k in ks:
        out.append(hx(k))
        out.append(tok(t[k]))
    return " ".join(out)


def untok(s):
    toks = s.split()
    pos = [0]

    def rd():
        t = toks[pos[0]]
        pos[0] += 1
        if t == "n":
            return None
        if t == "s":
            h = toks[pos[0]]
            pos[0] += 1
            return unhx(h)
        n = int(toks[pos[0]])
        pos[0] += 1
        if t == "l":
            return [rd() for _ in range(n)]
        if t == "m":
            d = {}
            for _ in range(n):
                k = unhx(toks[pos[0]])
                pos[0] += 1
                d[k] = rd()
            return d
        raise ValueError("bad token " + t)
    v = rd()
    if pos[0] != len(toks):
        raise ValueError("trailing tokens")
    return v


def _tree_len(toks, i):
    """number of tokens of the tree starting at toks[i]"""
    t = toks[i]
    if t == "n":
        return 1
    if t == "s":
        return 2
    n, j = int(toks[i + 1]), i + 2
    for _ in range(n):
        if t == "m":
            j += 1
        j += _tree_len(toks, j)
    return j - i


def norm_id(name):
    """ResourceResolver::ToResourceId for the config type: the `.yaml` extension is not part of the id"""
    return name[:-5] if name.endswith(".yaml") else name


def custom_of(name):
    return (name[:-7] if name.endswith(".schema") else name) + ".custom"


def emit_proj(t):
    """what EmitYaml + reload keeps: null map values and null list elements vanish"""
    if isinstance(t, list):
        return [emit_proj(x) for x in t if x is not None]
    if isinstance(t, dict):
        return {k: emit_proj(v) for k, v in t.items() if v is not None}
    return t


def has_directive(t):
    if isinstance(t, list):
        return any(has_directive(x) for x in t)
    if isinstance(t, dict):
        return any(k in ("__include", "__patch") or has_directive(v) for k, v in t.items())
    return False


def case_text(case):
    """case = {"id":…, "docs": {name: tree}, "ops": [("compile", name) | ("fresh",)]}"""
    out = ["case " + case["id"]]
    for n in sorted(case["docs"], key=bkey):
        out.append("doc %s %s" % (hx(n), tok(case["docs"][n])))
    for op in case["ops"]:
        if op[0] == "customize":
            out.append(" ".join(["customize", hx(op[1]), str(len(op[2]))] + [hx(k) + " " + tok(v) for k, v in op[2]]))
        else:
            out.append("compile " + hx(op[1]) if op[0] == "compile" else "fresh")
    out.append("end")
    return "\n".join(out) + "\n"


def parse_case_file(text):
    cases, cur = [], None
    for line in text.splitlines():
        p = line.split(" ", 2)
        if p[0] == "case":
            cur = {"id": p[1], "docs": {}, "ops": []}
        elif p[0] == "doc" and cur is not None:
            cur["docs"][unhx(p[1])] = untok(p[2])
        elif p[0] == "compile" and cur is not None:
            cur["ops"].append(("compile", unhx(p[1])))
        elif p[0] == "fresh" and cur is not None:
            cur["ops"].append(("fresh",))
        elif p[0] == "customize" and cur is not None:
            q = line.split(" ")
            toks, kvs = q[3:], []
            for _ in range(int(q[2])):
                key = unhx(toks[0])
                # one tree: consume tokens until a complete tree is read
                n = _tree_len(toks, 1)
                kvs.append([key, untok(" ".join(toks[1:1 + n]))])
                toks = toks[1 + n:]
            cur["ops"].append(("customize", unhx(q[1]), kvs))
        elif p[0] == "end" and cur is not None:
            cases.append(cur)
            cur = None
    return cases


# ---------------------------------------------------------------- generator
def resolve_idx(key, n):
    """ConfigData::ResolveListIndex(list of n items, key, read_only=true)"""
    cur, index = 1, 0
    if key.startswith("next", cur):
        cur += 4
        index = n
    elif key.startswith("before", cur):
        cur += 6
    elif key.startswith("after", cur):
        cur += 5
        index += 1
    if key[cur:cur + 1] == " ":
        cur += 1
    if key.startswith("last", cur):
        index += n
        if index != 0:
            index -= 1
    else:
        digits = ""
        for ch in key[cur:]:
            if not ch.isdigit():
                break
            digits += ch
        index += int(digits) if digits else 0
    return index


def idx_aliases(i, n):
    """every read-only spelling of element i of a list of n items"""
    out = ["@%d" % i, "@before %d" % i]
    if i >= 1:
        out.append("@after %d" % (i - 1))
    if i == n - 1:
        out += ["@last", "@before last"]
        if n == 1:
            out.append("@after last")     # (before|after) last on a one-item list: 1 + 1 - 1 ... see resolve_idx
    return [a for a in out if resolve_idx(a, n) == i]


def follow(tree, path):
    t = tree
    for k in path:
        if isinstance(t, dict):
            t = t.get(k)
        elif isinstance(t, list) and k.startswith("@"):
            i = resolve_idx(k, len(t))
            if i >= len(t):
                return None
            t = t[i]
        else:
            return None
    return t


KEYS = ["a", "b", "c", "k", "m", "list", "n1", "zz", "k1", "list2"]      # k / k1 and list / list2: prefixes as text, siblings as paths
WORDS = ["x", "y", "1", "42", "foo bar", "q, r", "Zed", "w_1.5"]
IDX = ["@0", "@1", "@2", "@last", "@next", "@before 0", "@before 1", "@after 0", "@after last", "@before last",
       "@5", "@after 1"]


class Gen:
    def __init__(self, rng, mode):
        self.r = rng
        self.mode = mode            # "acyclic" | "arbitrary"
        self.features = set()
        # risk 0: every directive is meant to succeed; risk 1: sprinkle missing targets, type clashes, odd shapes
        self.risk = 1 if (mode == "arbitrary" or rng.random() < 0.35) else 0

    def risky(self, p):
        return self.risk > 0 and self.r.random() < p

    def ch(self, p):
        return self.r.random() < p

    def scalar(self):
        if self.ch(0.04):
            self.features.add("empty-scalar")
            return ""
        return self.r.choice(WORDS)

    def data(self, depth, want=None):
        r = self.r
        kind = want or r.choices(["s", "l", "m", "n", "el", "em"], [40, 22, 28, 3, 3, 4])[0]
        if depth <= 0 and kind in ("l", "m"):
            kind = "s"
        if kind == "s":
            return self.scalar()
        if kind == "n":
            return None
        if kind == "el":
            return []
        if kind == "em":
            return {}
        if kind == "l":
            return [self.data(depth - 1, r.choice(["s", "s", "m", "l", None])) for _ in range(r.randint(1, 4))]
        return {k: self.data(depth - 1) for k in r.sample(KEYS, r.randint(1, 4))}

    # a path into an existing tree (mostly valid), as key list
    def path_into(self, t, maxlen=3, for_write=False):
        r = self.r
        out = []
        while len(out) < maxlen:
            if isinstance(t, dict) and t and not self.risky(0.08):
                ks = [k for k in t if not k.startswith("__") and "/" not in k]
                if not ks:
                    break
                k = r.choice(ks)
                out.append(k)
                t = t[k]
            elif isinstance(t, list) and t and not self.risky(0.08):
                if (self.ch(0.7) or not for_write) and t:
                    i = r.randrange(len(t))
                    if self.ch(0.55):
                        out.append("@%d" % i)
                    else:
                        a = r.choice(idx_aliases(i, len(t)))
                        out.append(a)
                        if not a[1:].isdigit():
                            self.features.add("ref-list-index-alias")
                    t = t[i]
                else:
                    out.append(r.choice(IDX))
                    break
            else:
                break
            if self.ch(0.35):
                break
        if not out or self.risky(0.06):
            out.append(r.choice(KEYS + IDX) if self.risk else r.choice(IDX) if (for_write and isinstance(t, list)) else r.choice(KEYS))
        return out

    def ref_text(self, cur, docs_order, trees, allow_docs):
        """reference text pointing (mostly) at something that exists"""
        r = self.r
        local = self.ch(0.5) or not allow_docs
        doc = cur if local else r.choice(allow_docs)
        tree = trees.get(doc)
        missing = False
        if tree is None or self.risky(0.04):
            path = [r.choice(KEYS)]
            missing = True
        else:
            path = self.path_into(tree)
        p = "/".join(path)
        if (not local or self.mode == "arbitrary") and self.ch(0.05):
            p = ""
            self.features.add("root-ref")
        lead = r.choice(["", "/", "/"]) if p else "/"
        if local:
            pre = r.choice(["", "", ":", cur + ":"]) if p or lead else cur + ":"
            if not p and not pre:
                pre = cur + ":"
        else:
            pre = doc + r.choice([":", ":", ".yaml:"])
        if self.ch(0.04):
            pre = "nonexistent:"
            missing = True
            self.features.add("missing-doc")
        if tree is not None and p and follow(tree, path) is None:
            missing = True
        opt = "?" if (self.ch(0.2) or (missing and not self.risky(0.3))) else ""
        if opt:
            self.features.add("optional")
        if any(k.startswith("@") for k in path):
            self.features.add("ref-list-index")
        self.features.add("local-ref" if local else "cross-ref")
        return pre + lead + p + opt

    def patch_key(self, target):
        r = self.r
        if self.ch(0.1):
            k = r.choice(["__append", "__merge"])
            if not self.risk:
                # they edit the patched node itself
                k = "__merge" if isinstance(target, dict) and target else "__append" if isinstance(target, list) else None
            if k:
                self.features.add(k)
                return k, ("m" if k == "__merge" else "l") if not self.risk else r.choice(["l", "m", "s"])
        path = self.path_into(target, 3, True) if target is not None and not self.ch(0.15) else [r.choice(KEYS)]
        at = follow(target, path) if target is not None else None
        if self.ch(0.2) and (self.risk or at is None or isinstance(at, (list, dict))):
            path.append(r.choice(IDX) if isinstance(at, list) else r.choice(KEYS) if isinstance(at, dict) else r.choice(IDX + KEYS))
        for k in path:
            if k.startswith("@"):
                self.features.add("idx:" + k.split(" ")[0].rstrip("0123456789") + ("N" if k[-1].isdigit() else ""))
        op = r.choices(["", "/+", "/="], [60, 28, 12])[0]
        if op:
            self.features.add("op" + op)
        # value kind: look at what is there
        t = target
        for k in path:
            if isinstance(t, dict):
                t = t.get(k)
            elif isinstance(t, list) and k.startswith("@") and k[1:].isdigit() and int(k[1:]) < len(t):
                t = t[int(k[1:])]
            else:
                t = None
                break
        want = None
        if op == "/+":
            want = "l" if isinstance(t, list) else "m" if isinstance(t, dict) else "s" if isinstance(t, str) else None
            if self.risky(0.12):
                want = r.choice(["l", "m", "s"])
                self.features.add("type-clash?")
        return "/".join(path) + op, want

    def literal(self, target, depth):
        r = self.r
        out = {}
        for _ in range(r.randint(1, 3)):
            k, want = self.patch_key(target)
            if self.ch(0.08) and depth > 0:
                out[k] = {"__append": self.data(1, "l")} if self.ch(0.5) else {"__merge": self.data(1, "m")}
                self.features.add("nested-op-literal")
            elif want == "m" and not self.risk:
                ex = target if k in ("__merge",) else follow(target, [x for x in k[:-2].split("/")]) if k.endswith("/+") else None
                out[k] = merge_map(self, ex)
            else:
                out[k] = self.data(2, want)
        return out


def merge_keys(gen, base):
    """override entries for an include node: plain keys, operator keys, nested maps"""
    r = gen.r
    out = {}
    base = base if isinstance(base, dict) else {}

    def kind_of(k):
        v = base.get(k)
        if gen.risky(0.15):
            return r.choice(["l", "s", "m"])
        return "l" if isinstance(v, list) else "m" if isinstance(v, dict) else "s" if isinstance(v, str) and v else None
    for _ in range(r.randint(0, 3)):
        k = r.choice(KEYS)
        c = r.random()
        if c < 0.12:
            kd = kind_of(k) or r.choice(["l", "s", "m"])
            out[k + "/+"] = merge_map(gen, base.get(k)) if kd == "m" and not gen.risk else gen.data(1, kd)
            gen.features.add("merge:/+")
        elif c < 0.18:
            out[k + "/="] = gen.data(1)
            gen.features.add("merge:/=")
        elif c < 0.28 and kind_of(k) in (None, "l"):
            out[k] = {"__append": gen.data(1, "l")}
            gen.features.add("merge:__append")
        elif c < 0.34 and kind_of(k) in (None, "m"):
            out[k] = {"__merge": merge_map(gen, base.get(k))}
            gen.features.add("merge:__merge")
        else:
            out[k] = override_value(gen, base.get(k))
    return out


def merge_map(gen, existing, depth=1):
    """a map meant to be merged (`/+`, `__merge`, nested override) over `existing`"""
    r = gen.r
    ex = existing if isinstance(existing, dict) else {}
    pool = list(dict.fromkeys([k for k in ex if not k.startswith("__") and "/" not in k] + KEYS))
    out = {}
    for k in r.sample(pool, min(len(pool), r.randint(1, 3))):
        v = ex.get(k)
        if isinstance(v, dict) and depth > 0 and gen.ch(0.5):
            out[k] = merge_map(gen, v, depth - 1)
        else:
            out[k] = override_value(gen, v)
    return out


def override_value(gen, existing):
    """a value for a plain override key: a non-empty map merged over an existing scalar/list fails"""
    if existing is None or isinstance(existing, dict) or gen.risky(0.1):
        return gen.data(2)
    return gen.data(2, gen.r.choice(["s", "l", "el", "em"]))


def ref_path_keys(text):
    t = text.split("?")[0]
    if ":" in t:
        t = t.split(":", 1)[1]
    return [k for k in t.lstrip("/").split("/")] if t.strip("/") else []


class SetGen:
    """one document set"""

    def __init__(self, rng, mode):
        self.g = Gen(rng, mode)
        self.r = rng
        self.mode = mode
        self.trees = {}          # name -> raw tree (grows while generating: later docs first)
        self.order = []

    def guess(self, cur, text, local_tree):
        """the raw tree a reference text points at (best effort, for choosing sensible patch paths)"""
        t = text.split("?")[0]
        doc = cur
        if ":" in t and t.split(":")[0]:
            doc = t.split(":")[0]
            if doc.endswith(".yaml"):
                doc = doc[:-5]
        tree = local_tree if doc == cur else self.trees.get(doc)
        return follow(tree, ref_path_keys(text)) if tree is not None else None

    def patch_value(self, cur, local_tree, allow_docs, target, depth):
        g, r = self.g, self.r

        def one():
            c = r.random()
            if c < 0.5:
                g.features.add("patch-literal")
                lit = g.literal(target, depth)
                if depth > 0 and g.ch(0.07):
                    k = r.choice(list(lit))
                    lit[k] = self.dnode(cur, local_tree, allow_docs, depth - 1, allow_patch=False)
                    g.features.add("directive-in-literal-value")
                return lit
            if not g.risk and target:
                g.features.add("patch-literal")
                return g.literal(target, depth)
            g.features.add("patch-ref")
            doc = cur if (g.ch(0.6) or not allow_docs) else r.choice(allow_docs)
            tr = local_tree if doc == cur else self.trees.get(doc, {})
            ps = [k for k in (tr or {}) if k.startswith("p")] if isinstance(tr, dict) else []
            if ps and not g.risky(0.1):
                return ("" if doc == cur else doc + ":") + "/" + r.choice(ps) + ("?" if g.ch(0.2) else "")
            if not g.risk:
                return "/nothing_here?"
            return g.ref_text(cur, self.order, dict(self.trees, **{cur: local_tree}), allow_docs)
        if g.ch(0.35):
            g.features.add("patch-list")
            xs = [one() for _ in range(r.randint(1, 3))]
            if g.risky(0.05):
                xs.insert(r.randrange(len(xs) + 1), r.choice([None, ["x"]]))
                g.features.add("patch-list-bad-element")
            return xs
        return one()

    def dnode(self, cur, local_tree, allow_docs, depth, allow_patch=True):
        g, r = self.g, self.r
        n = {}
        target = None
        if g.ch(0.7):
            text = g.ref_text(cur, self.order, dict(self.trees, **{cur: local_tree}), allow_docs)
            n["__include"] = text
            target = self.guess(cur, text, local_tree)
            g.features.add("include")
        plain_ok = target is None and "__include" not in n or isinstance(target, dict) or g.risky(0.2)
        if "__include" in n and target is None and not g.risk:
            plain_ok = n["__include"].endswith("?") and False
        ov = merge_keys(g, target) if plain_ok else {}
        if isinstance(target, dict) and target and g.ch(0.5):
            # override something that is really there
            k = r.choice([k for k in target if not k.startswith("__")] or KEYS)
            tv = target.get(k)
            if isinstance(tv, dict) and g.ch(0.6):
                ov[k] = merge_map(g, tv)
                g.features.add("merge:nested-map")
            else:
                ov[k] = override_value(g, tv)
        n.update(ov)
        if depth > 0 and g.ch(0.2) and plain_ok:
            n[r.choice(KEYS)] = self.dnode(cur, local_tree, allow_docs, depth - 1)
            g.features.add("nested-directive-node")
        unknown = "__include" in n and target is None
        if isinstance(target, str) and not g.risk:
            if g.ch(0.3):
                n["__patch"] = {"__append": g.scalar()}
                g.features.add("append-string-to-included-scalar")
        elif allow_patch and g.ch(0.45) and (g.risk or not unknown):
            guess = dict(target) if isinstance(target, dict) else {}
            guess.update({k: v for k, v in ov.items() if "/" not in k})
            n["__patch"] = self.patch_value(cur, local_tree, allow_docs, guess or target, depth)
            g.features.add("patch")
        if g.risky(0.04):
            n["__include"] = r.choice([None, {"a": "x"}, ["x"]])
            g.features.add("include-non-scalar")
        return n

    def doc(self, name, later, all_names):
        g, r = self.g, self.r
        arbitrary = self.mode == "arbitrary"
        allow_docs = [d for d in (all_names if arbitrary else later)]
        root = {}
        for i in range(r.randint(1, 3)):
            root["d%d" % i] = g.data(3, r.choice(["m", "m", "l", None]))
        root["p0"] = g.literal(root, 1)
        if g.ch(0.25):
            root["p1"] = dict(g.literal(root if g.risk else None, 1), __patch=r.choice(["/p0", "p0", name + ":/p0"]))
            g.features.add("patch-references-patch")
        nx = r.randint(1, 3)
        # directive nodes are created x-first-to-last and may refer to the ones created before them; ConfigMap parses its keys in
        # sorted order, so naming them in reverse creation order turns those into *forward* references (the target still has
        # pending dependencies when the reference is resolved)
        rev = nx > 1 and g.ch(0.5)
        if rev:
            g.features.add("forward-refs")
        xname = (lambda i: "x%d" % (nx - 1 - i)) if rev else (lambda i: "x%d" % i)
        for i in range(nx):
            local_tree = dict(root)
            if arbitrary:
                for j in range(nx):
                    local_tree.setdefault("x%d" % j, {"a": "x"})
            if g.ch(0.2):
                root[xname(i)] = [self.dnode(name, local_tree, allow_docs, 1) for _ in range(r.randint(1, 3))]
                g.features.add("directive-nodes-in-list")
            else:
                root[xname(i)] = self.dnode(name, local_tree, allow_docs, 2)
        if g.ch(0.15):
            root["__patch"] = self.patch_value(name, root, allow_docs, root, 1)
            g.features.add("root-patch")
        if g.ch(0.12) and allow_docs:
            d = r.choice(allow_docs)
            t = self.trees.get(d) or {}
            maps = [k for k, v in t.items() if isinstance(v, dict) and not k.startswith("__") and "/" not in k
                    and not isinstance(v.get("__include"), (dict, list))]
            if g.ch(0.75):
                # mostly something that can be merged with the local root: the whole document or one of its maps
                root["__include"] = d + (":/" if (not maps or g.ch(0.4)) else ":/" + r.choice(maps))
            else:
                root["__include"] = d + r.choice([":/", ":/d0", ":/x0"])
            g.features.add("root-include")
        return root

    def build(self, idx):
        g, r = self.g, self.r
        names = ["a", "b", "c"][: r.randint(1, 3)]
        schema = g.ch(0.15)
        if schema:
            names = ["s.schema"] + names[:2] + ["default"]
            g.features.add("schema")
        self.order = names
        docs = {}
        for i in range(len(names) - 1, -1, -1):
            n = names[i]
            if self.mode == "arbitrary":
                for m in names:
                    self.trees.setdefault(m, {"d0": {"a": "x"}, "p0": {"a": "y"}})
            t = self.doc(n, names[i + 1:], names)
            if n == "default":
                t.update({"menu": {"page_size": "5", "alt": g.data(1)},
                          "key_binder": {"bindings": [{"when": "x", "send": g.scalar()}], "k": g.scalar()},
                          "punctuator": g.data(2, "m"), "recognizer": {"patterns": g.data(1, "m")}})
            if n == "s.schema":
                if g.ch(0.7):
                    t["menu"] = r.choice([{"page_size": "9"}, {"alt": g.data(1)}, {}] + ([g.scalar()] if g.risk else []))
                if g.ch(0.7):
                    kb = {"import_preset": r.choice(["default", "default", "b", "nonexistent"] if g.risk else ["default"])}
                    if g.ch(0.7):
                        kb["bindings"] = r.choice([[{"when": "y", "send": g.scalar()}], []] +
                                                  ([g.scalar(), {"a": "x"}] if g.risk else []))
                    t["key_binder"] = kb
                if g.ch(0.5):
                    t["punctuator"] = {"import_preset": "default", "k": g.data(1)}
                if g.ch(0.4):
                    t["recognizer"] = {"import_preset": r.choice(["default", "default", ["x"]] if g.risk else ["default"]),
                                       "patterns": g.data(1, "m")}
            docs[n] = t
            self.trees[n] = t
        for n in list(docs):
            if g.ch(0.6 if (isinstance(docs[n], dict) and "__include" in docs[n]) else 0.3):
                if "__include" in docs[n]:
                    g.features.add("root-include+custom")
                stem = n[:-7] if n.endswith(".schema") else n
                cust = {"patch": g.literal(docs[n], 1)}
                if g.ch(0.1):
                    cust["patch"]["__include"] = "/other"
                    cust["other"] = g.literal(docs[n], 1)
                    g.features.add("custom-patch-with-include")
                docs[stem + ".custom"] = cust
                g.features.add("custom")
        comp = list(docs)
        r.shuffle(comp)
        ops = [("compile", n) for n in comp]
        if g.ch(0.3):
            ops.append(("compile", comp[0]))
            g.features.add("recompile-cached")
        if g.ch(0.25):
            ops.append(("fresh",))
            ops += [("compile", n) for n in r.sample(comp, min(2, len(comp)))]
            g.features.add("recompile-fresh")
        return {"id": "%s%d" % (self.mode[:2], idx), "docs": docs, "ops": ops, "mode": self.mode,
                "risk": g.risk, "features": sorted(g.features)}


def gen_case(rng, idx, mode):
    return SetGen(rng, mode).build(idx)
