"""C14 — delta debugging over a document set: documents, ops, map entries, list elements, subtrees."""
import copy


def _paths(t, pre=()):
    """all positions of sub-trees, parents before children"""
    yield pre
    if isinstance(t, dict):
        for k in sorted(t):
            yield from _paths(t[k], pre + (k,))
    elif isinstance(t, list):
        for i in range(len(t)):
            yield from _paths(t[i], pre + (i,))


def _get(t, p):
    for k in p:
        t = t[k]
    return t


def _removed(t, p):
    t = copy.deepcopy(t)
    par = _get(t, p[:-1])
    del par[p[-1]]
    return t


def _replaced(t, p, v):
    if not p:
        return copy.deepcopy(v)
    t = copy.deepcopy(t)
    _get(t, p[:-1])[p[-1]] = copy.deepcopy(v)
    return t


def shrink(case, pred, budget=400):
    """greedy: keep any smaller case on which pred(case) still holds. pred must be deterministic."""
    case = copy.deepcopy(case)
    calls = [0]

    def ok(c):
        if calls[0] >= budget:
            return False
        calls[0] += 1
        try:
            return pred(c)
        except Exception:
            return False
    changed = True
    while changed and calls[0] < budget:
        changed = False
        # ops
        i = 0
        while i < len(case["ops"]) and len(case["ops"]) > 1:
            c = dict(case, ops=case["ops"][:i] + case["ops"][i + 1:])
            if ok(c):
                case, changed = c, True
            else:
                i += 1
        # documents
        for n in sorted(case["docs"]):
            c = dict(case, docs={k: v for k, v in case["docs"].items() if k != n},
                     ops=[o for o in case["ops"] if o[0] != "compile" or o[1] != n] or case["ops"])
            if n in c["docs"] or not c["ops"]:
                continue
            if ok(c):
                case, changed = c, True
        # sub-trees: remove, else replace by a child / a scalar
        for n in sorted(case["docs"]):
            again = True
            while again and calls[0] < budget:
                again = False
                for p in list(_paths(case["docs"][n])):
                    if not p:
                        continue
                    try:
                        cur = _get(case["docs"][n], p)
                    except (KeyError, IndexError, TypeError):
                        continue
                    cands = [_removed(case["docs"][n], p)]
                    if isinstance(cur, (dict, list)) and cur:
                        kids = list(cur.values()) if isinstance(cur, dict) else cur
                        cands += [_replaced(case["docs"][n], p, k) for k in kids[:3]]
                        cands.append(_replaced(case["docs"][n], p, {} if isinstance(cur, dict) else []))
                    elif isinstance(cur, str) and cur not in ("x", "") and not p[-1] in ("__include", "__patch"):
                        cands.append(_replaced(case["docs"][n], p, "x"))
                    for t in cands:
                        c = dict(case, docs=dict(case["docs"], **{n: t}))
                        if ok(c):
                            case, changed, again = c, True, True
                            break
                    if again:
                        break
    case["shrink_calls"] = calls[0]
    return case
