"""Shared machinery of the deployment checks C12 / C13.

* `Workspace`: an abstract description of a small librime workspace (default.yaml, 3-4 synthetic schemas,
  dictionaries with import_tables, packs, preset vocabulary, *.custom.yaml patches, an included config),
  rendered to real files with `utimes`-controlled mtimes, and abstracted to the line protocol of the Lean
  driver `driver_c12` (the model's view of the same sources).
* `Runner`: runs the real deployer (harness/c12_harness.cc, one process per deployment), records the decision
  log, which build files were rewritten (sentinel mtimes), and the canonical dump of the build directory.
* edit generators.
"""
import os, sys, re, json, shutil, hashlib, subprocess, copy, time
import vlib

SENTINEL = 1000000000          # mtime given to every build file before a deployment; rewritten <=> differs
T0 = 1500000000                # first source mtime of a history (2017)
# The property quantifies over all (distinct) modification times.  librime stores a time as `(int)time_t` and compares
# through the same cast, so the interesting places are 2^31 (2038-01-19: stored negative from there on) and 2^32
# (2106-02-07: stored as a small number again).  Epochs a whole history can live in (its virtual clock starts there):
EPOCHS = {"2017": T0,
          "2038": 2**31 - 60,      # the history crosses 2^31 while the base workspace is written
          "2040": 2208988800,      # 2040-01-01T00:00:00Z
          "2106": 2**32 - 63}      # crosses 2^32 (the 9th tick is 2^32 itself): `(int)` wraps to small numbers
# ... and what a single file can be dated with while the rest of the workspace stays where it is ("skew": a file copied
# from a machine with a wrong clock, an unpacked archive).
SKEW_2040 = 2208988800 - T0
SKEW_2106 = 2**32 + 1000 - T0
SKEW_2P32 = 2**32                # the same file 2^32 s later: recorded alike under the `(int)` cast
FAR_SKEWS = [SKEW_2040, SKEW_2106]
# How the tree under test records source timestamps (gen/deploy_facts.py `timestampBits`, set by the check; 32 is the
# conservative default: histories valid for the 32-bit variant are valid for the 64-bit one).  With the `(int)` cast two
# mtimes a multiple of 2^32 s apart are recorded alike and a multiple of 2^32 s is recorded as 0 = "absent" (the defect
# kept in corpus/C12/int_cast_*.json; Props/C12.lean old_int_cast_counterexample): generated histories stay inside the
# hypothesis then.  With 64-bit timestamps the hypothesis is gone and the generator ranges over those too.
TIMESTAMP_BITS = 32


def set_timestamp_bits(bits):
    global TIMESTAMP_BITS
    TIMESTAMP_BITS = 64 if bits == 64 else 32
    if TIMESTAMP_BITS == 64 and FAR_SKEWS and SKEW_2P32 not in FAR_SKEWS:
        FAR_SKEWS.append(SKEW_2P32)
    if TIMESTAMP_BITS != 64 and SKEW_2P32 in FAR_SKEWS:
        FAR_SKEWS.remove(SKEW_2P32)
HOOK_RE = re.compile(r"RIME_VERIF_DECISION\(")


def hooks_present():
    try:
        src = open(os.path.join(vlib.REPO, "src", "rime", "dict", "dict_compiler.cc")).read()
        return bool(HOOK_RE.search(src))
    except OSError:
        return False


# ---------------------------------------------------------------------------------- workspace description
SYLL = ["a", "ai", "an", "ba", "bo", "chi", "da", "de", "guo", "hao", "ni", "shi", "ta", "wo", "zhong", "zhi"]
HAN = "的一是不了人我在有他这中大来上国个到说们为子和你地出道也时年得就那要下以生会自着去之过家学对可她里后小么心多天而能好都然没日于起还发成事只作当想看文无开手十用主行方又如前所本见经头面公同三已老从动两长知民样现分将外但身些与高意进把法此实回二理美点月明其种声全工己话儿者向情部正名定女问力机给等几很业最间新什打便位因"
ALGEBRA_POOL = ["abbrev/^([a-z]).+$/$1/", "derive/^zh/z/", "derive/^ch/c/", "derive/^sh/s/", "derive/ao$/oa/",
                "derive/^([a-z])[a-z]+$/$1$1/", "xform/^n/l/", "derive/ng$/n/", "erase/^zhi$/", "fuzz/^(.)a$/$1e/"]


def q(s):
    return '"' + s.replace("\\", "\\\\").replace('"', '\\"') + '"'


class Workspace:
    """Abstract workspace.  Everything the renderer and the abstraction need is in plain dicts so that a
    history can be deep-copied, serialised into a replay file and shrunk."""

    def __init__(self, t0=T0):
        self.clock = t0
        self.files = {}      # relpath ("shared/x.yaml" | "user/x.yaml") -> {"kind":…, …spec…, "mtime": t}
        self.gone = set()

    # -- serialisation
    def to_json(self):
        return {"clock": self.clock, "files": copy.deepcopy(self.files)}

    @staticmethod
    def from_json(o):
        w = Workspace()
        w.clock = o["clock"]
        w.files = copy.deepcopy(o["files"])
        return w

    def tick(self):
        self.clock += 7
        if self.clock % 2**32 == 0 and (TIMESTAMP_BITS != 64 or self.clock == 0):
            self.clock += 7              # recorded as 0 = "absent" (hypothesis PosTimes)
        return self.clock

    def put(self, rel, spec):
        """(re)write a file now.  A file carrying a "skew" (see `redate`) keeps it: its mtimes stay in its own era."""
        spec = dict(spec)
        spec["mtime"] = self.tick() + spec.get("skew", 0)
        self.files[rel] = spec

    def touch(self, rel):
        self.files[rel]["mtime"] = self.tick() + self.files[rel].get("skew", 0)

    def redate(self, rel, skew):
        """same content, mtime moved into another era (skew 0: back to the workspace clock)"""
        if skew:
            self.files[rel]["skew"] = skew
        else:
            self.files[rel].pop("skew", None)
        self.touch(rel)

    def remove(self, rel):
        self.files.pop(rel, None)
        self.tick()

    # -- rendering
    def render_file(self, rel):
        f = self.files[rel]
        k = f["kind"]
        if k == "default":
            o = ["config_version: %s" % q(f["version"] if "version" in f else "1.0")] if f.get("version", "1.0") is not None else ["other_key: 1"]
            if f["schema_list"] is not None:
                # an entry starting with `!` is written as it stands (an item that is no map, a map without `schema`)
                o += ["schema_list:"] + [("  - %s" % s[1:]) if s.startswith("!") else ("  - schema: %s" % s) for s in f["schema_list"]]
                if not f["schema_list"]:
                    o[-1] = "schema_list: []"
            o += ["menu:", "  page_size: %d" % f.get("page_size", 5)]
            if f.get("pad"):
                o += ["zz_pad:"] + ["  key_%04d: value_%04d_%s" % (i, i, "x" * 12) for i in range(f["pad"])]
            return "\n".join(o) + "\n"
        if k == "schema":
            sid = f["sid"]
            if f.get("broken") == "unparsable":
                return "schema: [unclosed\n  schema_id: %s\n" % sid
            o = ["schema:", "  schema_id: %s" % sid, "  name: %s" % sid.upper(), "  version: %s" % q(f.get("version", "1") or "")]
            if f.get("broken") == "no_id":
                del o[1]
            if f.get("version", "1") is None:
                o.pop()
            if f.get("deps"):
                o += ["  dependencies:"] + ["    - %s" % d for d in f["deps"]]
            style = f.get("style", "script")
            o += ["engine:", "  processors:", "    - speller", "    - selector", "    - navigator", "    - express_editor",
                  "  segmentors:", "    - abc_segmentor", "    - fallback_segmentor",
                  "  translators:", "    - %s" % ("script_translator" if style == "script" else "table_translator")]
            o += ["speller:", "  alphabet: abcdefghijklmnopqrstuvwxyz", "  delimiter: \" '\""]
            if f.get("include"):
                o += ["  algebra:", "    __include: %s:/rules" % f["include"]]
                if f.get("algebra"):
                    o += ["    __append:"] + ["      - %s" % r for r in f["algebra"]]
            elif f.get("algebra"):
                o += ["  algebra:"] + ["    - %s" % r for r in f["algebra"]]
            if f.get("dict"):
                o += ["translator:", "  dictionary: %s" % f["dict"]]
                if f.get("prism"):
                    o += ["  prism: %s" % f["prism"]]
                if f.get("packs"):
                    o += ["  packs:"] + ["    - %s" % p for p in f["packs"]]
                if style == "table":
                    o += ["  enable_sentence: false", "  enable_user_dict: false"]
            if f.get("import_preset"):
                o += ["key_binder:", "  import_preset: %s" % f["import_preset"]]
            if f.get("patch_ref"):     # a patch kept in another file
                o += ["__patch: %s:/patch" % f["patch_ref"]]
            if f.get("pad"):
                o += ["zz_pad:"] + ["  key_%04d: value_%04d_%s" % (i, i, "x" * 12) for i in range(f["pad"])]
            return "\n".join(o) + "\n"
        if k == "custom":
            if f.get("commented"):
                # a custom file whose every line is commented out (or that is empty): exists, has an mtime, parses to an
                # empty document — the user's way of switching a customisation off
                return "" if f["commented"] == "empty" else "# patch:\n#   menu/page_size: 7\n# (switched off)\n"
            o = ["patch:"]
            for key, val in f["patch"]:
                if isinstance(val, list):
                    o += ["  %s:" % q(key)] + ["    - %s" % v for v in val]
                elif isinstance(val, int):
                    o += ["  %s: %d" % (q(key), val)]
                else:
                    o += ["  %s: %s" % (q(key), val)]
            if not f["patch"]:
                o = ["patch: {}"]
            return "\n".join(o) + "\n"
        if k == "preset":          # a file reached only through `key_binder/import_preset: <name>` of a schema
            o = ["key_binder:", "  bindings:"] + ["    - {when: always, accept: %s, send: %s}" % (a, b) for a, b in f["rows"]]
            if not f["rows"]:
                o = ["key_binder:", "  bindings: []"]
            return "\n".join(o) + "\n"
        if k == "config":          # a plain includable config (common.yaml)
            o = ["rules:"] + ["  - %s" % r for r in f["rules"]]
            if not f["rules"]:
                o = ["rules: []"]
            return "\n".join(o) + "\n"
        if k == "dict":
            o = ["# Rime dictionary", "---", "name: %s" % f["name"], "version: %s" % q(f.get("version", "1")),
                 "sort: %s" % f.get("sort", "by_weight")]
            if f.get("bad_header"):
                del o[3]                  # no `version:`: "incomplete dict header"
            if f.get("vocab"):
                o += ["use_preset_vocabulary: true"] if not f.get("vocabulary") else ["vocabulary: %s" % f["vocabulary"]]
            if f.get("max_phrase_length"):
                o += ["max_phrase_length: %d" % f["max_phrase_length"]]
            if f.get("min_phrase_weight"):
                o += ["min_phrase_weight: %d" % f["min_phrase_weight"]]
            if f.get("imports"):
                o += ["import_tables:"] + ["  - %s" % i for i in f["imports"]]
            if f.get("columns"):
                o += ["columns:"] + ["  - %s" % c for c in f["columns"]]
            o += ["...", ""]
            for r in f["rows"]:
                o.append("\t".join(str(x) for x in r))
            if f.get("hash_rows"):
                # after a `# no comment` line a line that starts with `#` is an entry like any other
                o.append("# no comment")
                for r in f["hash_rows"]:
                    o.append("\t".join(str(x) for x in r))
            if f.get("eol") == "crlf":
                return "\r\n".join(o) + "\r\n"
            if f.get("eol") == "nofinal":
                return "\n".join(o)
            return "\n".join(o) + "\n"
        if k == "essay":
            return "".join("%s\t%d\n" % (t, w) for t, w in f["rows"])
        if k == "raw":
            return f["text"]
        raise ValueError(k)

    def write(self, root):
        """(Re)write the workspace under root/shared and root/user; only source files are touched."""
        for d in ("shared", "user"):
            os.makedirs(os.path.join(root, d), exist_ok=True)
        want = set(self.files)
        for d in ("shared", "user"):
            for n in os.listdir(os.path.join(root, d)):
                rel = d + "/" + n
                p = os.path.join(root, rel)
                if os.path.isfile(p) and rel not in want and (
                        n.endswith(".schema.yaml") or n.endswith(".dict.yaml") or n.endswith(".custom.yaml")
                        or n in ("default.yaml", "essay.txt", "common.yaml", "kb.yaml", "tweaks.yaml", "lexicon.txt")):
                    os.unlink(p)
        for rel, f in self.files.items():
            p = os.path.join(root, rel)
            data = self.render_file(rel).encode()
            old = None
            try:
                old = open(p, "rb").read()
            except OSError:
                pass
            if old != data:
                with open(p, "wb") as fh:
                    fh.write(data)
            # half past the second: librime's to_time_t() is `tp - file_clock::now() + system_clock::now()`, which for a
            # whole-second mtime lands a few ns on either side of the second depending on evaluation order
            ns = f["mtime"] * 10**9 + 5 * 10**8
            os.utime(p, ns=(ns, ns))
        fix_virtual_mtimes(root, self.clock)

    # -- resolution (user directory first, then shared) and abstraction for the Lean driver
    def resolve(self, name):
        for d in ("user", "shared"):
            if d + "/" + name in self.files:
                return d + "/" + name
        return None

    def content_id(self, rel, intern):
        data = self.render_file(rel)
        return intern.setdefault(hashlib.sha256(data.encode()).hexdigest(), len(intern) + 1)

    def effective_schema(self, sid):
        """(dict, prism, packs, deps, includes) after the auto-patch of <sid>.custom.yaml"""
        rel = self.resolve(sid + ".schema.yaml")
        if not rel:
            return None
        f = self.files[rel]
        dict_, prism, packs, deps = f.get("dict"), f.get("prism"), list(f.get("packs") or []), list(f.get("deps") or [])
        crel = self.resolve(sid + ".custom.yaml")
        if f.get("patch_ref"):
            crel = None        # a schema that names its own `__patch` gets no automatic `<id>.custom` patch (AutoPatchConfigPlugin)
        if crel:
            for key, val in ([] if self.files[crel].get("commented") else self.files[crel]["patch"]):
                if key == "translator/dictionary":
                    dict_ = val
                elif key == "translator/prism":
                    prism = val
                elif key == "translator/packs":
                    packs = list(val)
                elif key == "schema/dependencies":
                    deps = list(val)
        return {"dict": dict_, "prism": prism or dict_, "packs": packs, "deps": deps,
                "include": f.get("include"), "import_preset": f.get("import_preset"), "patch_ref": f.get("patch_ref")}

    def effective_schema_list(self):
        rel = self.resolve("default.yaml")
        if not rel:
            return None
        l = self.files[rel]["schema_list"]
        l = None if l is None else [x for x in l if not x.startswith("!")]
        crel = self.resolve("default.custom.yaml")
        if crel:
            for key, val in ([] if self.files[crel].get("commented") else self.files[crel]["patch"]):
                if key == "schema_list":
                    l = [v.split(":", 1)[1].strip().rstrip("}").strip() if "schema:" in v else v for v in val]
        return l

    def all_sids(self):
        s = set()
        for rel in self.files:
            n = rel.split("/", 1)[1]
            if n.endswith(".schema.yaml"):
                s.add(n[:-len(".schema.yaml")])
        l = self.effective_schema_list() or []
        s.update(l)
        for sid in list(s):
            e = self.effective_schema(sid)
            if e:
                s.update(e["deps"])
        return sorted(s)

    def dict_names(self):
        # every dictionary source there is (a compiled schema kept from an earlier deployment, because its source no longer
        # compiles, may still name a dictionary or a pack that no current source names), and every name the sources mention
        s = set(rel.split("/", 1)[1][:-len(".dict.yaml")] for rel in self.files if rel.endswith(".dict.yaml"))
        for sid in self.all_sids():
            e = self.effective_schema(sid)
            if e and e["dict"]:
                s.add(e["dict"])
                s.update(e["packs"])
        return sorted(s)

    def dict_header_ok(self, name):
        rel = self.resolve(name + ".dict.yaml")
        return bool(rel) and not self.files[rel].get("bad_header")

    def dict_files(self, name, intern):
        """content ids of GetTables() files + vocabulary; 'missing' if an import is missing; [] if absent"""
        rel = self.resolve(name + ".dict.yaml")
        if not rel:
            return 0, "-"
        f = self.files[rel]
        names = [f["name"]] + [i for i in (f.get("imports") or []) if i != f["name"]]
        ids = []
        for n in names:
            r = self.resolve(n + ".dict.yaml")
            if not r:
                return 1, "missing"
            ids.append(self.content_id(r, intern))
        if f.get("vocab"):
            r = self.resolve((f.get("vocabulary") or "essay") + ".txt")
            # a missing file feeds no bytes to the checksum, and no phrase to the table: the same as an empty one
            ids.append(self.content_id(r, intern) if r else intern.setdefault(hashlib.sha256(b"").hexdigest(), len(intern) + 1))
        return 1, ",".join(str(i) for i in ids)

    def cfg_deps(self, cfgid):
        """resource ids the config compiler enumerates for this config, or None if it cannot be built"""
        if cfgid == "default":
            if not self.resolve("default.yaml"):
                return None
            return ["default", "default.custom"]
        sid = cfgid.split(":", 1)[1]
        if not self.resolve(sid + ".schema.yaml"):
            return None
        e = self.effective_schema(sid)
        deps = [sid + ".schema", sid + ".custom", "default", "default.custom"]
        if e.get("patch_ref"):
            deps.remove(sid + ".custom")
        if e["include"]:
            deps += [e["include"], e["include"] + ".custom"]
            if not self.resolve(e["include"] + ".yaml"):
                return None           # unresolved non-optional dependency: Link fails, nothing is saved
        if e["import_preset"]:
            deps += [e["import_preset"], e["import_preset"] + ".custom"]
            if not self.resolve(e["import_preset"] + ".yaml"):
                return None
        if e.get("patch_ref"):
            deps += [e["patch_ref"], e["patch_ref"] + ".custom"]
            if not self.resolve(e["patch_ref"] + ".yaml"):
                return None
        return deps

    def deployable(self):
        """the hypothesis under which a clean deployment is the yardstick (Props/C12 `SourcesOK`): there is a schema list,
        every listed schema exists, every schema reached is valid and compiles, and the dictionary, imports and packs of
        each have sources with a header.  (Otherwise the deployer keeps what it built earlier — by design — and a clean
        deployment has nothing to keep.)"""
        sl = self.effective_schema_list()
        if sl is None or self.cfg_deps("default") is None:
            return False
        seen, todo = set(), [(s, False) for s in sl]
        while todo:
            sid, as_dep = todo.pop(0)
            if sid in seen:
                continue
            seen.add(sid)
            rel = self.resolve(sid + ".schema.yaml")
            if not rel:
                if as_dep:
                    continue
                return False
            if self.files[rel].get("broken") or self.cfg_deps("schema:" + sid) is None:
                return False
            e = self.effective_schema(sid)
            for n in ([e["dict"]] if e["dict"] else []) + (e["packs"] if e["dict"] else []):
                r = self.resolve(n + ".dict.yaml")
                if not r or self.files[r].get("bad_header"):
                    return False
                if any(not self.resolve(i + ".dict.yaml") for i in (self.files[r].get("imports") or [])):
                    return False
            if not as_dep:
                todo += [(d, True) for d in e["deps"]]
        return True

    def repair(self):
        """make the sources deployable again; returns the list of repairs"""
        done = []
        for rel in sorted(getattr(self, "attic", {})):
            self.put(rel, self.attic.pop(rel))
            done.append("back %s" % rel)
        for rel in sorted(self.files):
            f = self.files[rel]
            if f.get("broken") or f.get("bad_header"):
                f = {k: v for k, v in f.items() if k not in ("broken", "bad_header", "mtime")}
                self.put(rel, f)
                done.append("repaired %s" % rel)
        if not self.deployable():
            rel = self.resolve("default.yaml")
            f = {k: v for k, v in self.files[rel].items() if k != "mtime"}
            f["schema_list"] = ["sa", "sb"]
            self.put(rel, f)
            done.append("list sa,sb")
            if "user/default.custom.yaml" in self.files and not self.deployable():
                self.remove("user/default.custom.yaml")
                done.append("defcustom_off")
        return done

    def describe(self, intern):
        """lines for driver_c12: the model's view of these sources"""
        o = ["begin"]
        seen = set()
        for d in ("user", "shared"):
            for rel in sorted(self.files):
                if not rel.startswith(d + "/"):
                    continue
                n = rel.split("/", 1)[1]
                if n.endswith(".yaml") and not n.endswith(".dict.yaml") and n not in seen:
                    seen.add(n)
                    o.append("src %s %d %d" % (n[:-5], self.content_id(rel, intern), self.files[rel]["mtime"]))
        j = lambda l: ",".join(l) if l else "-"
        deps = self.cfg_deps("default")
        o.append("cfg default %d %s" % (1 if deps else 0, j(deps or [])))
        sl = self.effective_schema_list()
        o.append("proj default %s - - - -" % ("none" if sl is None else j(sl)))
        for sid in self.all_sids():
            rel = self.resolve(sid + ".schema.yaml")
            o.append("schema %s %d %d" % (sid, 1 if rel else 0, 1 if rel and not self.files[rel].get("broken") else 0))
            if rel:
                deps = self.cfg_deps("schema:" + sid)
                e = self.effective_schema(sid)
                o.append("cfg schema:%s %d %s" % (sid, 1 if deps else 0, j(deps or [])))
                o.append("proj schema:%s none %s %s %s %s" % (sid, e["dict"] or "-", e["prism"] or "-", j(e["packs"]), j(e["deps"])))
        for n in self.dict_names():
            present, files = self.dict_files(n, intern)
            o.append("dict %s %d %d %s" % (n, present, 1 if self.dict_header_ok(n) else 0, files))
        return o

    # -- TrashDeprecatedUserCopy (ConfigFileUpdate::Run): a user copy of default.yaml / <id>.schema.yaml that is older than
    # the shared copy, or of the same version and stamped `.custom.` by the old Customizer, is moved to user/trash
    def version_of(self, rel):
        """what GetString(version_key) gives for this file; None: the file does not load or has no such key"""
        f = self.files[rel]
        if f["kind"] == "default":
            return f.get("version", "1.0")
        if f["kind"] == "schema":
            return None if f.get("broken") == "unparsable" else f.get("version", "1")
        return None

    def trash_expected(self, file_name):
        s, u = "shared/" + file_name, "user/" + file_name
        if s not in self.files or u not in self.files:
            return False
        sv = self.version_of(s) or ""
        if ".minimal" in sv:
            sv = sv[:sv.find(".minimal")]
        uv, customized = self.version_of(u), False
        if uv is None:
            uv = ""
        elif ".custom." in uv:
            uv, customized = uv[:uv.find(".custom.")], True
        cmp = compare_version_string(sv, uv)
        return cmp > 0 or (cmp == 0 and customized)

    def without_user_copies(self, names):
        v = Workspace.from_json(self.to_json())
        for n in names:
            v.files.pop("user/" + n, None)
        return v

    def detect_mtimes(self, root):
        """what DetectModifications scans: the two directories and their top-level *.yaml (not user.yaml)"""
        ts = []
        for d in ("user", "shared"):
            p = os.path.join(root, d)
            ts.append(os.stat(p).st_mtime_ns // 10**9)      # exact (a float loses the half second past 2^32 s)
            for n in os.listdir(p):
                fp = os.path.join(p, n)
                if os.path.islink(fp) and not os.path.exists(fp):
                    return ["error"]          # fs::canonical(entry) throws for a dangling link, whatever its name
                if os.path.isfile(fp) and n.endswith(".yaml") and n != "user.yaml":
                    ts.append(os.stat(fp).st_mtime_ns // 10**9)
        return ts


def compare_version_string(x, y):
    """algo/utilities.cc CompareVersionString, statement by statement (a non-digit counts as its distance from '0')"""
    i = j = 0
    m, n = len(x), len(y)
    while i < m or j < n:
        v1 = v2 = 0
        while i < m and x[i] != ".":
            v1 = v1 * 10 + (ord(x[i]) - 48)
            i += 1
        i += 1
        while j < n and y[j] != ".":
            v2 = v2 * 10 + (ord(y[j]) - 48)
            j += 1
        j += 1
        if v1 > v2:
            return 1
        if v1 < v2:
            return -1
    return 0


REAL_CLOCK_WINDOW = 30 * 86400   # an mtime this close to the real clock was stamped by it, not by the check; every
                                 # virtual time the check uses (EPOCHS, skews) is years away from the real clock


def stamped_by_real_clock(path):
    return abs(os.stat(path).st_mtime - time.time()) < REAL_CLOCK_WINDOW


def fix_virtual_mtimes(root, vt):
    """DetectModifications looks at the mtimes of the two data directories and of their top-level *.yaml; whatever the
    deployer or the check just created there carries the real clock: move it to the virtual time `vt`."""
    ns = vt * 10**9 + 5 * 10**8
    for d in ("user", "shared"):
        p = os.path.join(root, d)
        if not os.path.isdir(p):
            continue
        for n in os.listdir(p):
            fp = os.path.join(p, n)
            if os.path.isfile(fp) and stamped_by_real_clock(fp):
                os.utime(fp, ns=(ns, ns))
        if stamped_by_real_clock(p):
            os.utime(p, ns=(ns, ns))


def far_mtimes_supported(scratch_dir):
    """can the file system under the scratch directory hold the far-future mtimes exactly (ext4 with 256-byte inodes,
    tmpfs, xfs bigtime: yes; ext3 / old xfs: no)?  If not the far epochs and skews are left out (and the evidence says so)."""
    os.makedirs(scratch_dir, exist_ok=True)
    p = os.path.join(scratch_dir, ".mtime_probe")
    try:
        with open(p, "w") as fh:
            fh.write("x")
        for t in (2**31 + 5, EPOCHS["2040"] + 10**4, T0 + SKEW_2106 + 10**4, EPOCHS["2106"] + SKEW_2P32 + 10**4):
            ns = t * 10**9 + 5 * 10**8
            os.utime(p, ns=(ns, ns))
            if os.stat(p).st_mtime_ns != ns:
                return False
        return True
    except OSError:
        return False
    finally:
        try:
            os.unlink(p)
        except OSError:
            pass


# ---------------------------------------------------------------------------------- a starting workspace
def base_workspace(rng, big=False, t0=T0):
    w = Workspace(t0)
    nrows = 40 if big else 8

    def rows(n, sylls, maxlen=1):
        out = []
        for i in range(n):
            k = rng.randint(1, maxlen)
            code = " ".join(rng.choice(sylls) for _ in range(k))
            text = "".join(rng.choice(HAN) for _ in range(k))
            out.append([text, code, rng.randint(1, 99)])
        return out
    sy_a = SYLL[:10]
    # the last two phrases are made of characters `da` defines (its single-character rows below), so the preset
    # vocabulary really contributes entries to the table of `da`
    w.put("shared/essay.txt", {"kind": "essay", "rows": [["".join(rng.choice(HAN) for _ in range(2)), rng.randint(1, 500)] for _ in range(12)]
                               + [[HAN[0] + HAN[1], 300], [HAN[2] + HAN[4] + HAN[3], 200], ["", 5],
                                  # phrases `da` can encode and does not list itself: they reach its table through the vocabulary only
                                  [HAN[5] + HAN[6], 150], [HAN[7] + HAN[8] + HAN[9], 40]]})
    # a row whose text is two Latin words: the tab and a space can trade places (see ws_tab)
    w.put("shared/dx.dict.yaml", {"kind": "dict", "name": "dx", "rows": rows(4, sy_a) + [["ok a", "ba", 5]]})
    w.put("shared/da.dict.yaml", {"kind": "dict", "name": "da", "vocab": True, "imports": ["dx"], "rows": rows(nrows, sy_a, 2) + [[HAN[i], s, 50 + i] for i, s in enumerate(sy_a)]
                                  # rows that take their weight from the preset vocabulary: none given, a percentage
                                  + [[HAN[0] + HAN[1], "a ai"], [HAN[2] + HAN[4] + HAN[3], "an bo ba", "50%"]],
                                  # entries whose text starts with `#`, after the line that switches comments off
                                  "hash_rows": [["#" + HAN[40], "ba", 33], ["#tag", "bo", 21]]})
    # two packs on one *named* vocabulary (`vocabulary: lexicon`), the one listed first with a filter that lets one of its three
    # encodable phrases in, the second without any: what the first asks of the vocabulary must not stick to the second
    pk_chars = [[HAN[30 + i], sy_a[i], 5] for i in range(5)]
    w.put("shared/pk1.dict.yaml", {"kind": "dict", "name": "pk1", "vocab": True, "vocabulary": "lexicon", "min_phrase_weight": 250,
                                   "rows": rows(3, sy_a, 2) + pk_chars})
    w.put("shared/pk2.dict.yaml", {"kind": "dict", "name": "pk2", "vocab": True, "vocabulary": "lexicon", "rows": rows(3, sy_a, 3) + pk_chars})
    # `db` uses the preset vocabulary too, with filters that let none of its phrases in: what one dictionary asks of the
    # vocabulary must not stick to the next dictionary compiled in the same deployment
    w.put("shared/db.dict.yaml", {"kind": "dict", "name": "db", "sort": "original", "columns": ["text", "code"],
                                  "vocab": True, "max_phrase_length": 1, "min_phrase_weight": 100000,
                                  "rows": [[HAN[20 + i], "".join(rng.choice("abcd") for _ in range(rng.randint(1, 3)))] for i in range(nrows)]
                                  + [["go to", "ab"]]})
    w.put("shared/common.yaml", {"kind": "config", "rules": ["derive/^zh/z/", "derive/^ch/c/"]})
    # sources a compiled artefact depends on without naming them where one looks first: a preset reached through
    # `key_binder/import_preset` (sb), a patch kept in a file of its own (`__patch: tweaks:/patch`, sc), a vocabulary
    # file of another name (`vocabulary: lexicon`, the packs pk1 and pk2; `db` and `da` share the preset one)
    w.put("shared/kb.yaml", {"kind": "preset", "rows": [["Control+k", "Escape"], ["Control+j", "Return"]]})
    w.put("shared/tweaks.yaml", {"kind": "custom", "patch": [["menu/page_size", 6]]})
    w.put("shared/lexicon.txt", {"kind": "essay", "rows": [[HAN[30] + HAN[31], 300], [HAN[32] + HAN[33], 50], [HAN[30] + HAN[34], 7], [HAN[22], 9]]})
    w.put("shared/sa.schema.yaml", {"kind": "schema", "sid": "sa", "dict": "da", "packs": ["pk1"], "deps": ["sc"],
                                    "algebra": ["abbrev/^([a-z]).+$/$1/"], "include": "common", "pad": 600 if big else 0})
    w.put("shared/sb.schema.yaml", {"kind": "schema", "sid": "sb", "dict": "db", "style": "table", "import_preset": "kb"})
    w.put("shared/sc.schema.yaml", {"kind": "schema", "sid": "sc", "dict": "da", "prism": "sc", "algebra": ["derive/^sh/s/"], "patch_ref": "tweaks"})
    w.put("shared/default.yaml", {"kind": "default", "schema_list": ["sa", "sb"], "page_size": 5})
    return w


# ---------------------------------------------------------------------------------- edits
# Edits whose byte difference is white space only but whose meaning differs.  The dictionary checksum is a CRC of the
# file bytes; an implementation that normalises or skips white space would not see them, and table / prism / reverse db
# would stay stale.  The model gives the two contents different ids (ids are interned from the rendered bytes).
def resegmentations(code):
    """every other way of cutting the same letters that is one step away: a boundary moved by one letter, two adjacent
    syllables joined, a syllable split.  `ab c` -> `a bc`, `abc`, `a b c`"""
    parts = code.split(" ")
    letters = "".join(parts)
    cuts, pos = [], 0
    for x in parts[:-1]:
        pos += len(x)
        cuts.append(pos)
    out = []
    for c in cuts:
        for x in (c - 1, c + 1):
            if 0 < x < len(letters) and x not in cuts:
                out.append(("move", sorted(set(cuts) - {c} | {x})))
        out.append(("join", sorted(set(cuts) - {c})))
    for x in range(1, len(letters)):
        if x not in cuts:
            out.append(("split", sorted(set(cuts) | {x})))
    res = []
    for how, cs in out:
        segs, prev = [], 0
        for c in cs + [len(letters)]:
            segs.append(letters[prev:c])
            prev = c
        res.append((how, " ".join(segs)))
    return res


def ws_resegment(rng, f, prefer=("move", "move", "join", "split")):
    """re-cut the code of one row of a dict spec in place; returns a label or None"""
    idx = [i for i, r in enumerate(f["rows"]) if len(str(r[1]).replace(" ", "")) >= 2]
    rng.shuffle(idx)
    how = rng.choice(prefer)
    for i in idx:
        c = [x for x in resegmentations(str(f["rows"][i][1])) if x[0] == how] or resegmentations(str(f["rows"][i][1]))
        if c:
            h, code = rng.choice(c)
            f["rows"][i] = list(f["rows"][i])
            f["rows"][i][1] = code
            return h
    return None


def ws_tab_swap(rng, f):
    """the tab between text and code trades places with a neighbouring space: `ok a<TAB>ba` <-> `ok<TAB>a ba`"""
    idx = [i for i, r in enumerate(f["rows"]) if str(r[0]).isascii() and (" " in str(r[0]) or " " in str(r[1]))]
    if not idx:
        return None
    i = rng.choice(idx)
    r = list(f["rows"][i])
    text, code = str(r[0]), str(r[1])
    if " " in text and (" " not in code or rng.random() < 0.5):
        head, last = text.rsplit(" ", 1)
        r[0], r[1] = head, last + " " + code
    else:
        first, rest = code.split(" ", 1)
        r[0], r[1] = text + " " + first, rest
    f["rows"][i] = r
    return "tab"


def ws_essay(rng, f, known=""):
    """a space typed into (or removed from) a phrase of the preset vocabulary: the phrase stops (starts) being made of
    characters the dictionary knows.  Phrases made of `known` characters first (the edit is then visible in the table)."""
    idx = [i for i, r in enumerate(f["rows"]) if len(r[0].replace(" ", "")) >= 2]
    if not idx:
        return None
    vis = [i for i in idx if all(ch in known for ch in f["rows"][i][0].replace(" ", ""))]
    i = rng.choice(vis or idx)
    t = f["rows"][i][0]
    if " " in t:
        t = t.replace(" ", "")
    else:
        k = rng.randint(1, len(t) - 1)
        t = t[:k] + " " + t[k:]
    f["rows"][i] = [t, f["rows"][i][1]]
    return "essay"


VANISHING = ["shared/dx.dict.yaml", "shared/pk1.dict.yaml", "shared/pk2.dict.yaml", "shared/da.dict.yaml", "shared/db.dict.yaml",
             "shared/common.yaml", "shared/essay.txt", "shared/kb.yaml", "shared/tweaks.yaml", "shared/lexicon.txt"]
# versions of a user copy next to a shared copy of version "1" / "1.0" (the default of the renderer) or "1.10"
USER_COPY_VERSIONS = ["1", "1.0", "1.custom.777", "0.9", "2", "1.9", "1.10", "1.10.custom.5", None, "1.0.1", "2.custom.1"]
SHARED_VERSIONS = ["1", "1.10", "1.minimal", "2.0.minimal", "1.0"]
EXTRA_KINDS = ["gone", "gone", "back", "back", "schema_break", "schema_fix", "list_odd", "eol", "dict_version", "dict_header",
               "shadow_old", "shadow_old", "shadow_default", "unshadow_default", "shared_version", "essay_empty", "badrule",
               "indirect", "indirect", "indirect", "indirect_custom", "old_mtime", "hash_row", "override", "override"]


def gen_edit(rng, w, extra=False):
    """apply one random edit; returns a description (for the evidence).  Without `extra` the sources stay deployable;
    with it sources also vanish and come back, break and get repaired, and user copies of every vintage appear."""
    def dict_rel(name):
        return w.resolve(name + ".dict.yaml")

    def sylls_of(name):
        rel = dict_rel(name)
        s = set()
        for r in (w.files[rel]["rows"] if rel else []):
            s.update(str(r[1]).split(" "))
        return sorted(s) or ["a"]
    if not hasattr(w, "attic"):
        w.attic = {}
    kinds = ["row_add", "row_del", "row_mod", "algebra_add", "algebra_del", "custom_on", "custom_off", "custom_mod",
             "import_add", "import_del", "pack_add", "pack_del", "list", "essay", "touch", "shadow", "unshadow",
             "deps", "common", "defcustom_on", "defcustom_off", "pad", "ws_syl", "ws_syl", "ws_tab", "ws_essay", "redate"]
    if extra:
        kinds = kinds + EXTRA_KINDS
    for _ in range(50):
        k = rng.choice(kinds)
        if k == "indirect":
            # an edit to a file that reaches an artefact only indirectly (preset, patch file, named vocabulary), and to nothing else
            rel = rng.choice(["shared/kb.yaml", "shared/tweaks.yaml", "shared/lexicon.txt"])
            if rel not in w.files:
                continue
            f = copy.deepcopy(w.files[rel])
            if f["kind"] == "preset":
                f["rows"] = f["rows"] + [["Control+%s" % rng.choice("abcdefgh"), rng.choice(["Escape", "Return", "space"])]] if rng.random() < 0.7 or not f["rows"] else f["rows"][:-1]
            elif f["kind"] == "custom":
                f["patch"] = [["menu/page_size", rng.choice([x for x in range(3, 10) if ["menu/page_size", x] not in f["patch"]])]]
            else:
                f["rows"] = f["rows"] + [[rng.choice(HAN[30:35]) + rng.choice(HAN[30:35]), rng.randint(1, 500)]]
            w.put(rel, f)
            return "indirect %s" % rel
        if k == "indirect_custom":
            name = rng.choice(["kb", "tweaks", "common"])
            rel = "user/%s.custom.yaml" % name
            if rel in w.files:
                w.remove(rel)
                return "indirect_custom_off %s" % name
            patch = {"kb": [["key_binder/bindings/+", ["{when: always, accept: Control+z, send: Escape}"]]],
                     "tweaks": [["patch/menu~1page_size", rng.randint(3, 9)]], "common": [["rules/+", [rng.choice(ALGEBRA_POOL)]]]}[name]
            w.put(rel, {"kind": "custom", "patch": patch})
            return "indirect_custom_on %s" % name
        if k == "hash_row":
            # an edit confined to the entries that start with `#` (after `# no comment`)
            name = rng.choice(["da", "da", "dx", "pk2"])
            rel = dict_rel(name)
            if not rel:
                continue
            f = copy.deepcopy(w.files[rel])
            hr = [list(r) for r in f.get("hash_rows") or []]
            if hr and rng.random() < 0.5:
                i = rng.randrange(len(hr))
                hr[i][0] = "#" + rng.choice(HAN[40:60])
            elif hr and rng.random() < 0.3:
                hr.pop()
            else:
                hr.append(["#" + rng.choice(HAN[40:60]), rng.choice(sylls_of("da")), rng.randint(1, 90)])
            f["hash_rows"] = hr
            w.put(rel, f)
            return "hash_row %s" % name
        if k == "override":
            # a copy in the user directory starts (stops) shadowing a file of the shared directory: the *name* now resolves elsewhere
            n = rng.choice(["essay.txt", "lexicon.txt", "common.yaml", "dx.dict.yaml", "kb.yaml"])
            if "user/" + n in w.files:
                w.remove("user/" + n)
                return "override_off %s" % n
            if "shared/" + n not in w.files:
                continue
            f = {x: copy.deepcopy(y) for x, y in w.files["shared/" + n].items() if x not in ("mtime", "skew")}
            if f["kind"] == "essay":
                f["rows"] = [[t, (wt * 7) % 499 + 1] for t, wt in f["rows"]][: max(2, len(f["rows"]) - 1)]
            elif f["kind"] == "config":
                f["rules"] = f["rules"] + [rng.choice(ALGEBRA_POOL)]
            elif f["kind"] == "dict":
                f["rows"] = f["rows"] + [[rng.choice(HAN), rng.choice(SYLL[:10]), rng.randint(1, 99)]]
            else:
                f["rows"] = f["rows"] + [["Control+y", "Escape"]]
            w.put("user/" + n, f)
            return "override_on %s" % n
        if k == "old_mtime":
            # a file copied in with its old modification time (`cp -p`): older than the last build, only the directory shows it
            sid = rng.choice(["sa", "sb", "sc"])
            rel = "user/%s.custom.yaml" % sid
            if rel in w.files:
                continue
            w.put(rel, {"kind": "custom", "patch": [["menu/page_size", rng.randint(3, 9)]], "skew": -rng.randint(10**5, 10**6)})
            return "old_mtime %s" % rel
        if k == "gone":
            c = [r for r in VANISHING if r in w.files]
            if not c or len(w.attic) >= 2:
                continue
            rel = rng.choice(c)
            w.attic[rel] = {x: y for x, y in w.files[rel].items() if x != "mtime"}
            w.remove(rel)
            return "gone %s" % rel
        if k == "back":
            if not w.attic:
                continue
            rel = rng.choice(sorted(w.attic))
            w.put(rel, w.attic.pop(rel))
            return "back %s" % rel
        if k in ("schema_break", "schema_fix"):
            sid = rng.choice(["sa", "sb", "sc"])
            rel = w.resolve(sid + ".schema.yaml")
            f = copy.deepcopy(w.files[rel])
            if (k == "schema_break") == bool(f.get("broken")):
                continue
            if k == "schema_break":
                f["broken"] = rng.choice(["no_id", "unparsable"])
            else:
                f.pop("broken")
            w.put(rel, f)
            return "%s %s %s" % (k, sid, f.get("broken", ""))
        if k == "list_odd":
            rel = w.resolve("default.yaml")
            f = copy.deepcopy(w.files[rel])
            f["schema_list"] = rng.choice([["sa", "ghost"], ["ghost", "sb"], ["sa", "sb", "sa"], ["sb", "sb"], ["!just_a_scalar", "sa"],
                                           ["sb", "!{note: no schema here}", "sc"], None, [], ["sc", "sa", "sc", "ghost"]])
            w.put(rel, f)
            return "list_odd %s" % ("none" if f["schema_list"] is None else ",".join(f["schema_list"]))
        if k in ("eol", "dict_version", "dict_header"):
            name = rng.choice(["da", "dx", "db", "pk1", "pk2"])
            rel = dict_rel(name)
            if not rel:
                continue
            f = copy.deepcopy(w.files[rel])
            if k == "eol":
                f["eol"] = rng.choice([x for x in ("lf", "crlf", "nofinal") if x != f.get("eol", "lf")])
            elif k == "dict_version":
                f["version"] = str(int(float(f.get("version", "1"))) + 1)
            else:
                f["bad_header"] = not f.get("bad_header")
            w.put(rel, f)
            return "%s %s %s" % (k, name, f.get("eol") if k == "eol" else f.get("version") if k == "dict_version" else int(f["bad_header"]))
        if k == "shadow_old":
            sid = rng.choice(["sa", "sb", "sc"])
            f = copy.deepcopy(w.files["shared/%s.schema.yaml" % sid])
            if sid != "sb":
                f["algebra"] = list(f.get("algebra") or []) + [rng.choice(ALGEBRA_POOL)]
            else:
                f["pad"] = rng.choice([1, 2])
            f["version"] = rng.choice(USER_COPY_VERSIONS)
            w.put("user/%s.schema.yaml" % sid, {x: y for x, y in f.items() if x != "mtime"})
            return "shadow_old %s %s" % (sid, f["version"])
        if k == "shadow_default":
            f = copy.deepcopy(w.files["shared/default.yaml"])
            f["page_size"] = rng.randint(3, 9)
            f["version"] = rng.choice(USER_COPY_VERSIONS)
            w.put("user/default.yaml", {x: y for x, y in f.items() if x != "mtime"})
            return "shadow_default %s" % f["version"]
        if k == "unshadow_default":
            if "user/default.yaml" not in w.files:
                continue
            w.remove("user/default.yaml")
            return "unshadow_default"
        if k == "shared_version":
            rel = rng.choice(["shared/default.yaml", "shared/sa.schema.yaml", "shared/sb.schema.yaml", "shared/sc.schema.yaml"])
            f = copy.deepcopy(w.files[rel])
            f["version"] = rng.choice(SHARED_VERSIONS)
            w.put(rel, f)
            return "shared_version %s %s" % (rel, f["version"])
        if k == "essay_empty":
            rel = w.resolve("essay.txt")
            if not rel or not w.files[rel]["rows"]:
                continue
            f = copy.deepcopy(w.files[rel])
            f["rows"] = []
            w.put(rel, f)
            return "essay_empty"
        if k == "badrule":
            sid = rng.choice(["sa", "sc"])
            rel = w.resolve(sid + ".schema.yaml")
            f = copy.deepcopy(w.files[rel])
            alg = list(f.get("algebra") or [])
            # (not: a rule set that erases every spelling — BuildPrism refuses it, the model has no failing prism build)
            bad = rng.choice(["derive/x", "nosuchop/a/b/", "xlit/abc/de/"])
            if bad in alg:
                alg.remove(bad)
            else:
                alg.append(bad)
            f["algebra"] = alg
            w.put(rel, f)
            return "badrule %s %s" % (sid, bad)
        if k in ("row_add", "row_del", "row_mod"):
            name = rng.choice(["da", "dx", "db", "pk1", "pk2"])
            rel = dict_rel(name)
            if not rel:
                continue
            f = copy.deepcopy(w.files[rel])
            if k == "row_add":
                if name == "db":
                    f["rows"].append([rng.choice(HAN), "".join(rng.choice("abcd") for _ in range(rng.randint(1, 3)))])
                else:
                    base = sylls_of("da") if name.startswith("pk") else SYLL
                    n = rng.randint(1, 2)
                    f["rows"].append(["".join(rng.choice(HAN) for _ in range(n)), " ".join(rng.choice(base) for _ in range(n)), rng.randint(1, 99)])
            elif k == "row_del":
                if len(f["rows"]) <= 2:
                    continue
                f["rows"].pop(rng.randrange(len(f["rows"])))
            else:
                i = rng.randrange(len(f["rows"]))
                f["rows"][i] = list(f["rows"][i])
                f["rows"][i][0] = rng.choice(HAN) + f["rows"][i][0][1:]
            w.put(rel, f)
            return "%s %s" % (k, name)
        if k in ("ws_syl", "ws_tab"):
            name = rng.choice(["da", "dx", "db", "pk1", "pk2"])
            rel = dict_rel(name)
            if not rel:
                continue
            f = copy.deepcopy(w.files[rel])
            how = ws_resegment(rng, f) if k == "ws_syl" else ws_tab_swap(rng, f)
            if not how:
                continue
            w.put(rel, f)
            return "%s %s %s" % (k, name, how)
        if k == "ws_essay":
            rel = w.resolve("essay.txt")
            if not rel:
                continue
            f = copy.deepcopy(w.files[rel])
            known = "".join(str(r[0]) for n in ("da", "dx") if dict_rel(n) for r in w.files[dict_rel(n)]["rows"])
            if not ws_essay(rng, f, known):
                continue
            w.put(rel, f)
            return "ws_essay"
        if k == "redate":
            if not FAR_SKEWS:
                continue
            rel = rng.choice(sorted(w.files))
            cur = w.files[rel].get("skew", 0)
            skew = rng.choice([x for x in [0] + FAR_SKEWS if x != cur])
            w.redate(rel, skew)
            return "redate %s %s" % (rel, {0: "clock", SKEW_2040: "2040", SKEW_2106: "2106", SKEW_2P32: "+2^32"}.get(skew, skew))
        if k in ("algebra_add", "algebra_del"):
            sid = rng.choice(["sa", "sc", "sb"])
            rel = w.resolve(sid + ".schema.yaml")
            if not rel:
                continue
            f = copy.deepcopy(w.files[rel])
            alg = list(f.get("algebra") or [])
            if k == "algebra_add":
                r = rng.choice(ALGEBRA_POOL)
                if r in alg:
                    continue
                alg.insert(rng.randint(0, len(alg)), r)
            else:
                if not alg:
                    continue
                alg.pop(rng.randrange(len(alg)))
            f["algebra"] = alg
            w.put(rel, f)
            return "%s %s" % (k, sid)
        if k in ("custom_on", "custom_mod"):
            sid = rng.choice(["sa", "sb", "sc"])
            has = w.resolve(sid + ".custom.yaml")
            if (k == "custom_on") == bool(has):
                continue
            choice = rng.randint(0, 2)
            if choice == 0:
                patch = [["menu/page_size", rng.randint(3, 9)]]
            elif choice == 1:
                patch = [["speller/algebra/+", [rng.choice(ALGEBRA_POOL)]]] if sid != "sb" else [["menu/page_size", rng.randint(3, 9)]]
            else:
                patch = [["translator/packs", rng.choice([["pk2"], ["pk1", "pk2"], ["pk2", "pk1"]])]] if sid == "sa" else [["menu/page_size", 4]]
            w.put("user/%s.custom.yaml" % sid, {"kind": "custom", "patch": patch})
            return "%s %s %s" % (k, sid, patch[0][0])
        if k == "custom_off":
            c = [r for r in w.files if r.endswith(".custom.yaml") and not r.endswith("default.custom.yaml")]
            if not c:
                continue
            rel = rng.choice(sorted(c))
            w.remove(rel)
            return "custom_off %s" % rel
        if k in ("import_add", "import_del"):
            name = rng.choice(["da", "db"])
            rel = dict_rel(name)
            if not rel:
                continue
            f = copy.deepcopy(w.files[rel])
            imps = list(f.get("imports") or [])
            if k == "import_add":
                if "dx" in imps or name == "db":
                    continue
                imps.append("dx")
            else:
                if not imps:
                    continue
                imps.pop()
            f["imports"] = imps
            w.put(rel, f)
            return "%s %s" % (k, name)
        if k in ("pack_add", "pack_del"):
            rel = w.resolve("sa.schema.yaml")
            f = copy.deepcopy(w.files[rel])
            packs = list(f.get("packs") or [])
            if k == "pack_add":
                c = [p for p in ("pk1", "pk2") if p not in packs]
                if not c:
                    continue
                packs.insert(rng.randint(0, len(packs)), rng.choice(c))
            else:
                if not packs:
                    continue
                packs.pop(rng.randrange(len(packs)))
            f["packs"] = packs
            w.put(rel, f)
            return "%s" % k
        if k == "list":
            rel = w.resolve("default.yaml")
            f = copy.deepcopy(w.files[rel])
            f["schema_list"] = rng.choice([["sa", "sb"], ["sb", "sa"], ["sa"], ["sb", "sc"], ["sc", "sa", "sb"], ["sb"]])
            w.put(rel, f)
            return "list %s" % ",".join(f["schema_list"])
        if k == "essay":
            rel = w.resolve("essay.txt")
            if not rel:
                continue
            f = copy.deepcopy(w.files[rel])
            if rng.random() < 0.5 and len(f["rows"]) > 3:
                f["rows"].pop(rng.randrange(len(f["rows"])))
            else:
                f["rows"].append(["".join(rng.choice(HAN) for _ in range(2)), rng.randint(1, 500)])
            w.put(rel, f)
            return "essay"
        if k == "touch":
            rel = rng.choice(sorted(w.files))
            w.touch(rel)
            return "touch %s" % rel
        if k == "shadow":
            sid = rng.choice(["sa", "sb", "sc"])
            if "user/%s.schema.yaml" % sid in w.files:
                continue
            f = copy.deepcopy(w.files["shared/%s.schema.yaml" % sid])
            alg = list(f.get("algebra") or [])
            alg.append(rng.choice(ALGEBRA_POOL))
            f["algebra"] = alg if sid != "sb" else []
            f["version"] = "2"
            w.put("user/%s.schema.yaml" % sid, f)
            return "shadow %s" % sid
        if k == "unshadow":
            c = [r for r in w.files if r.startswith("user/") and r.endswith(".schema.yaml")]
            if not c:
                continue
            rel = rng.choice(sorted(c))
            w.remove(rel)
            return "unshadow %s" % rel
        if k == "deps":
            rel = w.resolve("sa.schema.yaml")
            f = copy.deepcopy(w.files[rel])
            f["deps"] = rng.choice([[], ["sc"], ["sc", "sb"], ["nonexistent"], ["sb"]])
            w.put(rel, f)
            return "deps %s" % ",".join(f["deps"])
        if k == "common":
            rel = w.resolve("common.yaml")
            if not rel:
                continue
            f = copy.deepcopy(w.files[rel])
            rules = list(f["rules"])
            if rng.random() < 0.5 and rules:
                rules.pop()
            else:
                rules.append(rng.choice(ALGEBRA_POOL))
            f["rules"] = rules
            w.put(rel, f)
            return "common"
        if k == "defcustom_on":
            if w.resolve("default.custom.yaml"):
                continue
            if rng.random() < 0.5:
                patch = [["menu/page_size", rng.randint(3, 9)]]
            else:
                patch = [["schema_list", ["{schema: %s}" % s for s in rng.choice([["sb"], ["sa", "sc"], ["sc", "sb"]])]]]
            w.put("user/default.custom.yaml", {"kind": "custom", "patch": patch})
            return "defcustom_on %s" % patch[0][0]
        if k == "defcustom_off":
            if not w.resolve("default.custom.yaml"):
                continue
            w.remove("user/default.custom.yaml")
            return "defcustom_off"
        if k == "pad":
            rel = w.resolve("sb.schema.yaml")
            f = copy.deepcopy(w.files[rel])
            f["pad"] = rng.choice([0, 3, 40])
            w.put(rel, f)
            return "pad"
    w.touch(sorted(w.files)[0])
    return "touch-fallback"


# ---------------------------------------------------------------------------------- running the real deployer
class Runner:
    def __init__(self, exe, flavour, env_extra=None):
        self.exe = exe
        self.env = dict(vlib.SAN_ENV)
        self.env.update(env_extra or {})
        self.flavour = flavour
        self.deploys = 0

    def sh(self, cmd, env, timeout):
        """run the harness; if librime.so is being relinked by a concurrent build of the same flavour (another check
        running at the same time), wait for that build to finish (build_librime takes the flavour lock) and retry"""
        for attempt in range(4):
            rc, out = vlib.sh(cmd, env=env, timeout=timeout)
            if rc == 127 and "shared librar" in out:
                vlib.build_librime(self.flavour)
                continue
            return rc, out
        return rc, out

    def set_sentinels(self, root):
        b = os.path.join(root, "user", "build")
        if os.path.isdir(b):
            for n in os.listdir(b):
                os.utime(os.path.join(b, n), (SENTINEL, SENTINEL))

    def rewritten(self, root):
        b = os.path.join(root, "user", "build")
        out = []
        if os.path.isdir(b):
            for n in sorted(os.listdir(b)):
                if int(os.stat(os.path.join(b, n)).st_mtime) != SENTINEL:
                    out.append(n)
        return out

    def deploy(self, root, now, extra_env=None, timeout=300, file_size_limit=None):
        """one full deployment in its own process; returns dict(rc, decisions, tasks, detect, hooks, raw, rewritten).
        `file_size_limit`: the process may not grow any file beyond that many bytes (RLIMIT_FSIZE, SIGXFSZ ignored: the
        write fails with EFBIG) — a deployment on a full disk"""
        self.set_sentinels(root)
        env = dict(self.env)
        env["VERIF_NOW"] = str(now)
        env.update(extra_env or {})
        self.deploys += 1
        cmd = [self.exe, "deploy", os.path.join(root, "shared"), os.path.join(root, "user")]
        if file_size_limit is not None:
            cmd = [sys.executable, "-c", "import resource, signal, os, sys; signal.signal(signal.SIGXFSZ, signal.SIG_IGN); "
                   "resource.setrlimit(resource.RLIMIT_FSIZE, (%d, %d)); os.execv(sys.argv[1], sys.argv[1:])" % (file_size_limit, file_size_limit)] + cmd
        rc, out = self.sh(cmd, env, timeout)
        r = {"rc": rc, "decisions": [], "tasks": {}, "detect": None, "hooks": None, "raw": out, "cps": [], "killed": None}
        for line in out.splitlines():
            p = line.split(" ")
            if p[0] == "decision" and len(p) == 3:
                r["decisions"].append("d %s %s" % (p[1], p[2]))
            elif p[0] == "task" and len(p) == 3:
                r["tasks"][p[1]] = int(p[2])
            elif p[0] == "detect":
                r["detect"] = int(p[1])
            elif p[0] == "hooks":
                r["hooks"] = int(p[1])
            elif p[0] == "cp" and len(p) == 3:
                r["cps"].append(p[2])
            elif p[0] == "killed-at-cp":
                r["killed"] = (int(p[1]), p[2])
        r["rewritten"] = self.rewritten(root)
        fix_virtual_mtimes(root, now)
        return r

    def dump(self, root, timeout=300):
        rc, out = self.sh([self.exe, "dump", os.path.join(root, "shared"), os.path.join(root, "user")], self.env, timeout)
        d = {"yaml": {}, "stamps": {}, "table": {}, "prism": {}, "reverse": {}, "unloadable": [], "crash": [], "lastbuild": None,
             "rc": rc, "raw": out if rc != 0 else ""}
        for line in out.splitlines():
            p = line.split(" ")
            if p[0] == "yaml" and len(p) == 3:
                d["yaml"][p[1]] = p[2]
            elif p[0] == "stamps" and len(p) == 3:
                d["stamps"][p[1]] = sorted(p[2].split(",")) if p[2] != "-" else []
            elif p[0] == "table" and len(p) == 4:
                d["table"][p[1]] = (p[2], p[3])
            elif p[0] == "prism" and len(p) == 5:
                d["prism"][p[1]] = (p[2], p[3], p[4])
            elif p[0] == "reverse" and len(p) == 4:
                d["reverse"][p[1]] = (p[2], p[3])
            elif p[0] == "unloadable":
                d["unloadable"].append((p[1], p[2]))
            elif p[0] == "crash":
                d["crash"].append((p[1], p[2], p[3]))
            elif p[0] == "lastbuild":
                d["lastbuild"] = None if p[1] == "-" else int(p[1])
        return d

    def session(self, root, pairs, timeout=300):
        args = []
        for s, inputs in pairs:
            args += [s, ",".join(inputs)]
        rc, out = self.sh([self.exe, "session", os.path.join(root, "shared"), os.path.join(root, "user")] + args, self.env, timeout)
        return rc, [l for l in out.splitlines() if l.startswith("cand ")]


def cycle(runner, root, pairs, now, timeout=300):
    """one process: sessions (kept open), a full deployment, new sessions.  Returns (rc, phase-1 lines, phase-2 lines, raw)"""
    args = []
    for sid, inputs in pairs:
        args += [sid, ",".join(inputs)]
    env = dict(runner.env)
    env["VERIF_NOW"] = str(now)
    rc, out = runner.sh([runner.exe, "cycle", os.path.join(root, "shared"), os.path.join(root, "user")] + args, env, timeout)
    l1 = ["cand " + l[6:] for l in out.splitlines() if l.startswith("cand1 ")]
    l2 = ["cand " + l[6:] for l in out.splitlines() if l.startswith("cand2 ")]
    return rc, l1, l2, out


def unhex(h):
    return "" if h == "-" else bytes.fromhex(h).decode("utf-8", "replace")


def compare_dumps(inc, clean):
    """every artefact of the clean deployment must be there, identically, in the incremental one.
    Returns list of (artefact, what)."""
    diffs = []
    for kind in ("yaml", "table", "prism", "reverse"):
        for n, v in clean[kind].items():
            if n not in inc[kind]:
                diffs.append((n, "missing-or-unloadable in incremental build"))
            elif inc[kind][n] != v:
                a, b = inc[kind][n], v
                if kind == "yaml":
                    diffs.append((n, "compiled config differs"))
                else:
                    which = "content" if a[-1] != b[-1] else "recorded checksum"
                    diffs.append((n, "%s %s differs" % (kind, which)))
    for n, v in clean["stamps"].items():
        if inc["stamps"].get(n) != v:
            diffs.append((n, "recorded timestamps differ"))
    if inc["crash"]:
        diffs.append((inc["crash"][0][1], "loading/walking crashed with signal %s" % inc["crash"][0][2]))
    return diffs


def session_inputs(w):
    """a few inputs per listed schema, derived from the dictionaries"""
    pairs = []
    for sid in (w.effective_schema_list() or []):
        e = w.effective_schema(sid)
        if not e or not e["dict"]:
            continue
        rel = w.resolve(e["dict"] + ".dict.yaml")
        if not rel:
            continue
        codes = []
        for r in w.files[rel]["rows"][:6]:
            c = str(r[1]).replace(" ", "")
            if c and c not in codes:
                codes.append(c)
        pairs.append((sid, codes[:5] + ["z", "n"]))
    return pairs
