"""Static part of MANIFEST.json; the per-check entries come from each checks/Cxx.py META."""
def base():
    return {
        "version": 1,
        "setup_cmd": "./setup.sh",
        "hooks": {
            "guard": "RIME_VERIF",
            "enable": "tools/build_librime.sh <san|tsan|plain> configures an out-of-tree cmake build of /repo's working tree into /verif/.build/<flavour> with -DRIME_VERIF in CMAKE_CXX_FLAGS (plus sanitizer flags); harnesses are compiled with the same define",
            "baseline_off_cmd": "./tools/baseline_off.sh",
            "source_commits": ["4bdff0e", "8b162b4", "6c40e85"],
            "add_only": True,
        },
        "engines": [
            {"name": "lean-model", "path": "lean/", "serves_properties": [], "kind_free_text": "Lean 4 models (RimeModel/*), property theorems (RimeModel/Props/Cxx.lean), generated tables (RimeModel/Gen), line-protocol drivers (Driver/*, compiled lean_exe)"},
            {"name": "translators", "path": "gen/", "serves_properties": ["C20", "C19"], "kind_free_text": "python translators that regenerate RimeModel/Gen/*.lean from /repo's working tree on every run"},
            {"name": "harnesses", "path": "harness/", "serves_properties": [], "kind_free_text": "C++ harnesses calling the real librime (built from the working tree with sanitizers) in-process; their op/observation lines are diffed against the Lean drivers"},
        ],
        "checks": [],
        "notes": "One technique family: machine-checked proof in Lean 4 about a model, tied to the source by regeneration (translators) and/or differential correspondence (harness vs compiled Lean driver). See DESIGN.md.",
    }

def not_applicable():
    r = "model, theorems and correspondence harness not built yet in this round (planned: DESIGN.md §3); not claimed until its check exists"
    return [{"property_id": "C%02d" % i, "reason": r} for i in range(1, 21)]
