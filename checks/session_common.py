"""Shared tooling for the session-model checks (C01-C05, C16): synthetic schema corpus, workspace
creation, op-history generator, harness/driver runners, observation parsing."""
import os, sys, json, re, shutil
import vlib

XK = {"BackSpace": 0xff08, "Return": 0xff0d, "Escape": 0xff1b, "Delete": 0xffff, "Home": 0xff50, "Left": 0xff51,
      "Up": 0xff52, "Right": 0xff53, "Down": 0xff54, "Prior": 0xff55, "Next": 0xff56, "End": 0xff57,
      "KP_Home": 0xff95, "KP_Left": 0xff96, "KP_Up": 0xff97, "KP_Right": 0xff98, "KP_Down": 0xff99,
      "KP_Prior": 0xff9a, "KP_Next": 0xff9b, "KP_End": 0xff9c, "space": 0x20, "Tab": 0xff09}
SHIFT, CONTROL, ALT, RELEASE, SUPER, LOCK = 1, 4, 8, 1 << 30, 1 << 26, 2


def hx(b):
    if isinstance(b, str):
        b = b.encode()
    return b.hex() if b else "-"


# ------------------------------------------------------------------ schema corpus (DESIGN §2)
SCHEMAS = {
    "vs_script": dict(procs=["speller", "selector", "navigator", "express_editor"], alphabet="abc", delimiters="'",
                      pageSize=3, uniq=1),
    "vs_fluid": dict(procs=["speller", "selector", "navigator", "fluid_editor"], alphabet="abc", delimiters="'",
                     pageSize=3, uniq=1),
    "vs_table": dict(procs=["speller", "selector", "navigator", "express_editor"], alphabet="abc", delimiters="",
                     pageSize=4, uniq=0, autoSelect=1, maxCodeLength=3, autoClear="max_length"),
    "vs_multi": dict(procs=["speller", "selector", "navigator", "fluid_editor"], alphabet="abcd", delimiters="'",
                     pageSize=5, uniq=1, selectKeys="jkl;m", pageDownCycle=1),
}


def schema_yaml(sid, s):
    y = ["schema:", "  schema_id: %s" % sid, "  name: %s" % sid, "  version: '1'", "engine:", "  processors:"]
    y += ["    - %s" % p for p in s["procs"]]
    y += ["  segmentors:", "    - abc_segmentor", "    - fallback_segmentor", "  translators:", "    - vt_translator"]
    if s.get("uniq"):
        y += ["  filters:", "    - uniquifier"]
    y += ["speller:", "  alphabet: '%s'" % s["alphabet"]]
    if s.get("delimiters"):
        y += ['  delimiter: "%s"' % s["delimiters"]]
    for k, yk in (("initials", "initials"), ("finals", "finals")):
        if s.get(k):
            y += ["  %s: '%s'" % (yk, s[k])]
    if s.get("maxCodeLength"):
        y += ["  max_code_length: %d" % s["maxCodeLength"]]
    if s.get("autoSelect"):
        y += ["  auto_select: true"]
    if s.get("autoClear"):
        y += ["  auto_clear: %s" % s["autoClear"]]
    if s.get("useSpace"):
        y += ["  use_space: true"]
    y += ["menu:", "  page_size: %d" % s["pageSize"]]
    if s.get("selectKeys"):
        y += ['  alternative_select_keys: "%s"' % s["selectKeys"]]
    if s.get("pageDownCycle"):
        y += ["  page_down_cycle: true"]
    return "\n".join(y) + "\n"


def env_line(sid, s):
    procs = ",".join(s["procs"])
    return ("env %s pageSize=%d selectKeys=%s pageDownCycle=%d alphabet=%s initials=%s finals=%s delimiters=%s "
            "maxCodeLength=%d autoSelect=%d useSpace=%d autoClear=%s procs=%s uniq=%d" % (
                sid, s["pageSize"], hx(s.get("selectKeys", "")), s.get("pageDownCycle", 0), hx(s["alphabet"]),
                hx(s.get("initials", "")), hx(s.get("finals", "")), hx(s.get("delimiters", "")),
                s.get("maxCodeLength", 0), s.get("autoSelect", 0), s.get("useSpace", 0), s.get("autoClear", "none"),
                procs, s.get("uniq", 0)))


def make_workspace(d, schema_ids, extra_files=None):
    shutil.rmtree(d, ignore_errors=True)
    os.makedirs(d)
    with open(os.path.join(d, "default.yaml"), "w") as f:
        f.write("config_version: '1'\nschema_list:\n" + "".join("  - schema: %s\n" % s for s in schema_ids))
    for sid in schema_ids:
        if sid in SCHEMAS:
            with open(os.path.join(d, sid + ".schema.yaml"), "w") as f:
                f.write(schema_yaml(sid, SCHEMAS[sid]))
    for name, content in (extra_files or {}).items():
        with open(os.path.join(d, name), "w") as f:
            f.write(content)
    return d


# ------------------------------------------------------------------ candidate tables
TEXTS = ["啊", "吧", "从", "的", "X", "yz", "é", "阿爸", "阿", "爸爸", "测试", "𠀀", "ab", "a", ""]


def gen_table(rng, alphabet, nkeys=14):
    """table rows: key -> [(text, comment, preedit)]; includes duplicate texts, multi-letter keys,
    preedits with and without the TAB caret placeholder, empty comment."""
    rows = []
    keys = set()
    for _ in range(nkeys):
        n = rng.choice([1, 1, 2, 2, 3, 4])
        keys.add("".join(rng.choice(alphabet) for _ in range(n)))
    for k in sorted(keys):
        for _ in range(rng.choice([1, 1, 2, 3, 5, 8])):
            text = rng.choice(TEXTS[:-1])
            comment = rng.choice(["", "", "c", "〔注〕"])
            pre = rng.choice(["", "", "", " ".join(k), k.upper(), k[:1] + "\t" + k[1:], k + "\t›"])
            rows.append((k, text, comment, pre))
    return rows


def table_lines(rows):
    return ["table %s %s %s %s" % (hx(k), hx(t), hx(c), hx(p)) for k, t, c, p in rows]


# ------------------------------------------------------------------ op generation
def gen_history(rng, sid, s, n, profile="mixed"):
    """one session history on schema sid; profile selects the op mix."""
    alpha = s["alphabet"]
    delim = s.get("delimiters", "")
    sel = s.get("selectKeys", "")
    ops = []
    edit_keys = [XK["BackSpace"], XK["Delete"], XK["KP_Left"], XK["KP_Right"], XK["Right"], XK["Home"], XK["End"], XK["Escape"]]
    for _ in range(n):
        r = rng.random()
        if profile == "edit":   # C05 alphabet only
            if r < 0.5:
                ops.append("key %d 0" % ord(rng.choice(alpha)))
            else:
                ops.append("key %d 0" % rng.choice(edit_keys))
            continue
        if r < 0.34:
            ops.append("key %d 0" % ord(rng.choice(alpha)))
        elif r < 0.38 and delim:
            ops.append("key %d 0" % ord(rng.choice(delim)))
        elif r < 0.50:
            ops.append("key %d 0" % rng.choice(edit_keys + [XK["Left"], XK["Up"], XK["Down"], XK["Prior"], XK["Next"],
                                                            XK["space"], XK["Return"], XK["KP_Home"], XK["KP_End"]]))
        elif r < 0.54:
            ops.append("key %d %d" % (rng.choice(edit_keys + [XK["Return"], XK["Left"], XK["Right"], XK["space"], ord(rng.choice(alpha))]),
                                      rng.choice([SHIFT, CONTROL, SHIFT | CONTROL, ALT, RELEASE, LOCK, SUPER])))
        elif r < 0.58:
            ks = list(sel) if sel else list("1234567890")
            ops.append("key %d 0" % ord(rng.choice(ks)))
        elif r < 0.63:
            ops.append("select %d" % rng.choice([0, 0, 1, 2, 3, 5, 9, 40]))
        elif r < 0.67:
            ops.append("select_page %d" % rng.choice([0, 1, 2, 3, 4, 7]))
        elif r < 0.72:
            ops.append("highlight %d" % rng.choice([0, 1, 2, 3, 4, 6, 11, 1000]))
        elif r < 0.75:
            ops.append("highlight_page %d" % rng.choice([0, 1, 2, 3, 4]))
        elif r < 0.78:
            ops.append("delete %d" % rng.choice([0, 1, 2, 5, 50]))
        elif r < 0.80:
            ops.append("delete_page %d" % rng.choice([0, 1, 2, 4]))
        elif r < 0.85:
            ops.append("page %s" % rng.choice("+-"))
        elif r < 0.88:
            w = "".join(rng.choice(alpha + delim) for _ in range(rng.choice([0, 1, 2, 3, 5, 8])))
            ops.append("input %s" % hx(w))
        elif r < 0.92:
            ops.append("caret %d" % rng.choice([0, 0, 1, 2, 3, 5, 99]))
        elif r < 0.94:
            ops.append("option %s %d" % (rng.choice(["soft_cursor", "_linear", "_vertical", "_horizontal", "foo"]), rng.randrange(2)))
        elif r < 0.96:
            ops.append("commit")
        elif r < 0.975:
            ops.append("clear")
        else:
            ops.append("read_commit")
    return ops


# ------------------------------------------------------------------ running
def build(flavour="san"):
    exe, bdir = vlib.build_harness("session_harness", flavour, ["session_harness.cc"])
    rc, out = vlib.lake_build(["driver_session"])
    if rc != 0:
        raise vlib.BuildError("driver_session does not build: " + out[-3000:])
    return exe


def run_impl(exe, ws, script_path, timeout=1200):
    rc, out = vlib.sh([exe, ws, script_path], env=vlib.SAN_ENV, timeout=timeout)
    return rc, out


def run_model(script_text):
    return vlib.run_driver("driver_session", script_text)


OBS_RE = re.compile(r"(\w+)=(\S+)")


def parse_obs(line):
    d = dict(OBS_RE.findall(line))
    if "nocontext" in line:
        d["nocontext"] = "1"
    return d


def unhex(h):
    return b"" if h in ("-", None) else bytes.fromhex(h)
