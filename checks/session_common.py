"""Shared tooling for the session-model checks (C01-C05, C16): synthetic schema corpus, workspace
creation, op-history generator, harness/driver runners, observation parsing."""
import os, sys, json, re, shutil
import vlib

XK = {"BackSpace": 0xff08, "Return": 0xff0d, "Escape": 0xff1b, "Delete": 0xffff, "Home": 0xff50, "Left": 0xff51,
      "Up": 0xff52, "Right": 0xff53, "Down": 0xff54, "Prior": 0xff55, "Next": 0xff56, "End": 0xff57,
      "KP_Home": 0xff95, "KP_Left": 0xff96, "KP_Up": 0xff97, "KP_Right": 0xff98, "KP_Down": 0xff99,
      "KP_Prior": 0xff9a, "KP_Next": 0xff9b, "KP_End": 0xff9c, "space": 0x20, "Tab": 0xff09}
SHIFT, CONTROL, ALT, RELEASE, SUPER, LOCK = 1, 4, 8, 1 << 30, 1 << 26, 2


def hx(b):
    if isinstance(b, str):
        b = b.encode()
    return b.hex() if b else "-"


# ------------------------------------------------------------------ key representations (KeyEvent::Parse / KeySequence::Parse)
KEYNAMES = dict(XK, minus=0x2d, equal=0x3d, comma=0x2c, period=0x2e, slash=0x2f, semicolon=0x3b, grave=0x60, apostrophe=0x27,
                bracketleft=0x5b, bracketright=0x5d, backslash=0x5c, Page_Up=0xff55, Page_Down=0xff56, ISO_Left_Tab=0xfe20,
                F5=0xffc2, F6=0xffc3, Shift_L=0xffe1, Shift_R=0xffe2, Control_L=0xffe3, Control_R=0xffe4, Caps_Lock=0xffe5,
                Eisu_toggle=0xff30)
MODNAMES = {"Shift": SHIFT, "Lock": LOCK, "Control": CONTROL, "Alt": ALT, "Super": SUPER, "Release": RELEASE}


def kev(rep):
    """'Control+p' -> (keycode, modifier) the way KeyEvent::Parse reads it (the names used by the synthetic schemas only)"""
    if len(rep) == 1:
        return ord(rep), 0
    parts = rep.split("+")
    mask = 0
    for m in parts[:-1]:
        mask |= MODNAMES[m]
    nm = parts[-1]
    return (ord(nm) if len(nm) == 1 else KEYNAMES[nm]), mask


def kseq(rep):
    """KeySequence::Parse: single characters, {Name} for everything else"""
    out, i = [], 0
    while i < len(rep):
        if rep[i] == "{" and i + 1 < len(rep):
            j = rep.index("}", i + 1)
            out.append(kev(rep[i + 1:j]))
            i = j + 1
        else:
            out.append(kev(rep[i]))
            i += 1
    return out


# ------------------------------------------------------------------ schema corpus (DESIGN §2)
SCHEMAS = {
    "vs_script": dict(procs=["speller", "selector", "navigator", "express_editor"], alphabet="abc", delimiters="'",
                      pageSize=3, uniq=1),
    "vs_fluid": dict(procs=["speller", "selector", "navigator", "fluid_editor"], alphabet="abc", delimiters="'",
                     pageSize=3, uniq=1),
    "vs_table": dict(procs=["speller", "selector", "navigator", "express_editor"], alphabet="abc", delimiters="",
                     pageSize=4, uniq=0, autoSelect=1, maxCodeLength=3, autoClear="max_length"),
    "vs_multi": dict(procs=["speller", "selector", "navigator", "fluid_editor"], alphabet="abcd", delimiters="'",
                     pageSize=5, uniq=1, selectKeys="jkl;m", pageDownCycle=1),
    # a spelling key outside a-z and no speller/initials: the default for the initials is the configured alphabet
    # (double-pinyin style `;`), in the speller as well as in the abc segmentor
    "vs_semi": dict(procs=["speller", "selector", "navigator", "express_editor"], alphabet="ab;", delimiters="'",
                    pageSize=3, uniq=1),
    "vs_semif": dict(procs=["speller", "selector", "navigator", "fluid_editor"], alphabet="ab;", delimiters="'",
                     pageSize=3, uniq=0),
    # speller options the four above leave at their defaults (tools/model_coverage.py showed the code behind them unreached):
    # auto_clear: auto with auto_select and no code-length bound; initials / finals, space as a delimiter handled by the
    # speller (use_space), auto_clear: manual with a code-length bound
    "vs_auto": dict(procs=["speller", "selector", "navigator", "express_editor"], alphabet="abc", delimiters="'",
                    pageSize=3, uniq=1, autoSelect=1, autoClear="auto"),
    "vs_autof": dict(procs=["speller", "selector", "navigator", "fluid_editor"], alphabet="abc", delimiters="'",
                     pageSize=3, uniq=1, autoSelect=1),
    "vs_initials": dict(procs=["speller", "selector", "navigator", "fluid_editor"], alphabet="abcd", initials="abc", finals="d",
                        delimiters=" '", pageSize=4, uniq=0, useSpace=1, maxCodeLength=3, autoClear="manual"),
    # the punctuator inside the model (processor + punct_segmentor + punct_translator): every kind of definition — a scalar
    # (confirmed at once), {commit: x}, lists (3, 4 and 6 alternatives: 6 = a whole number of pages for both page sizes; one
    # list with a repeated text, which the uniquifier of vs_punct removes), pairs (two of them: `oddness_` is per definition;
    # one is the speller's delimiter), a key whose text is ASCII (half-shape label), space (full shape only / both);
    # full_shape differs from half_shape in kind, length and texts so that the option shows in every observation
    "vs_punct": dict(procs=["speller", "punctuator", "selector", "navigator", "express_editor"], alphabet="abc", delimiters="'",
                     pageSize=3, uniq=1, punct=dict(
                         use_space=0,
                         half={",": "，", ".": {"commit": "。"}, "/": ["、", "／", "/", "÷"], '"': {"pair": ["“", "”"]},
                               ";": ["；", ";", "︔", "﹔", "⁏", "؛"], "'": {"pair": ["‘", "’"]}, "$": ["￥", "$", "€"],
                               "-": ["－", "-", "－"], "!": "!", "%": ["％", "%", "‰"], "#": ["＃", "#", "♯", "№"]},
                         full={",": "，", ".": {"commit": "．"}, "/": ["／", "÷"], '"': {"pair": ["＂", "“"]}, ";": "；",
                               " ": {"commit": "　"}, "$": ["＄", "￥", "$"], "-": {"commit": "－"}, "%": ["％", "‰"],
                               "#": ["＃", "♯", "№"]})),
    "vs_punctf": dict(procs=["speller", "punctuator", "selector", "navigator", "fluid_editor"], alphabet="abc", delimiters="'",
                      pageSize=2, uniq=0, punct=dict(
                          use_space=1,
                          half={",": "，", ".": {"commit": "。"}, "/": ["、", "／", "/", "÷"], '"': {"pair": ["“", "”"]},
                                ";": ["；", ";", "︔", "﹔", "⁏", "؛"], "'": {"pair": ["‘", "’"]}, "$": ["￥", "$", "€"],
                                "-": ["－", "-", "－"], "!": "!", " ": ["　", " "], "%": ["％", "%", "‰"], "#": ["＃", "#", "♯", "№"]},
                          full={",": "，", ".": {"commit": "．"}, "/": ["／", "÷"], '"': {"pair": ["＂", "“"]}, ";": "；",
                                " ": {"commit": "　"}, "$": ["＄", "￥", "$"], "-": {"commit": "－"}, "%": ["％", "‰"],
                                "#": ["＃", "♯", "№"]})),
    # auto_select without a code-length bound TOGETHER with the punctuator: Speller::AutoSelectPreviousMatch pushes back the
    # segment it saved before the key without comparing positions; after `/` (a list of alternatives: the segment stays open
    # with a menu) and a letter without candidates the punctuation segment is there twice (Props/C01.lean
    # geometry_fails_prev_match_punct; DESIGN.md §8.6).  Model and code agree on it; the geometric monitor checks the bounds
    # only on these two (`dupSegments`).
    "vs_autop": dict(procs=["speller", "punctuator", "selector", "navigator", "fluid_editor"], alphabet="abc", delimiters="'",
                     pageSize=3, uniq=0, autoSelect=1, dupSegments=1, punct=dict(
                         use_space=0,
                         half={"/": ["、", "/"], ",": "，", ";": ["；", ";", "︔"], ".": {"commit": "。"}},
                         full={"/": ["／", "÷"], ",": "，"})),
    "vs_autopx": dict(procs=["speller", "punctuator", "selector", "navigator", "express_editor"], alphabet="abc", delimiters="'",
                      pageSize=3, uniq=0, autoSelect=1, dupSegments=1, punct=dict(
                          use_space=0,
                          half={"/": ["、", "/"], ",": "，", ";": ["；", ";", "︔"], ".": {"commit": "。"}},
                          full={"/": ["／", "÷"], ",": "，"})),
    # the key binder inside the model, first in the processor list as in the stock schemas.  Bindings cover every `when` x every
    # kind of action: the stock Emacs / Tab / paging set (minus, equal, comma, period under `paging` / `has_menu`: with the
    # punctuator behind them, and ReinterpretPagingKey's period-then-letter case), option toggles incl. full_shape (Shift+space),
    # set_option / unset_option, a radio group (by name, by @index, unset -> reset value), an index with no switch behind it (`@9`
    # becomes an option name), send_sequence (from idle, composing, empty), targets that are themselves bound (not redirected
    # again), one key bound under several conditions written in the "wrong" order and twice under the same condition (Bind
    # sorts by condition and puts a later binding of the same condition first), a binding on a key release
    "vs_kb": dict(procs=["key_binder", "speller", "punctuator", "selector", "navigator", "express_editor"], alphabet="abc", delimiters="'",
                  pageSize=3, uniq=1, punct=dict(
                      use_space=0,
                      half={",": "，", ".": {"commit": "。"}, "/": ["、", "／", "/"], "-": ["－", "-"], "=": "＝", '"': {"pair": ["“", "”"]}},
                      full={",": "，", ".": {"commit": "．"}, "/": ["／", "÷"], "-": {"commit": "－"}, "=": ["＝", "="], " ": {"commit": "　"}}),
                  switches=[dict(name="ascii_punct"), dict(options=["opt_a", "opt_b", "opt_c"], reset=1), dict(name="soft_cursor", reset=0),
                            dict(name="full_shape")],
                  kb=[dict(when="composing", accept="Control+p", send="Up"), dict(when="composing", accept="Control+n", send="Down"),
                      dict(when="composing", accept="Control+b", send="Left"), dict(when="composing", accept="Control+f", send="Right"),
                      dict(when="composing", accept="Control+a", send="Home"), dict(when="composing", accept="Control+e", send="End"),
                      dict(when="composing", accept="Control+d", send="Delete"), dict(when="composing", accept="Control+k", send="Shift+Delete"),
                      dict(when="composing", accept="Control+g", send="Escape"), dict(when="composing", accept="Alt+v", send="Page_Up"),
                      dict(when="composing", accept="Control+v", send="Page_Down"), dict(when="composing", accept="ISO_Left_Tab", send="Shift+Left"),
                      dict(when="composing", accept="Shift+Tab", send="Shift+Left"), dict(when="composing", accept="Tab", send="Shift+Right"),
                      dict(when="composing", accept="minus", send="Escape"), dict(when="paging", accept="minus", send="Page_Up"),
                      dict(when="has_menu", accept="equal", send="Page_Up"), dict(when="has_menu", accept="equal", send="Page_Down"),
                      dict(when="paging", accept="comma", send="Page_Up"), dict(when="has_menu", accept="period", send="Page_Down"),
                      dict(when="predicting", accept="comma", send="comma"), dict(when="always", accept="Control+Shift+2", toggle="ascii_mode"),
                      dict(when="always", accept="Control+Shift+3", toggle="full_shape"), dict(when="always", accept="Shift+space", toggle="full_shape"),
                      dict(when="always", accept="Control+period", toggle="ascii_punct"), dict(when="always", accept="Control+l", toggle="_linear"),
                      dict(when="always", accept="F5", set_option="soft_cursor"), dict(when="always", accept="Release+F5", unset_option="soft_cursor"),
                      dict(when="always", accept="Control+r", toggle="opt_a"), dict(when="always", accept="Control+s", set_option="opt_c"),
                      dict(when="always", accept="Control+u", unset_option="opt_c"), dict(when="has_menu", accept="Control+u", unset_option="opt_b"),
                      dict(when="always", accept="Control+i", toggle="@1"), dict(when="always", accept="Control+o", toggle="@0"),
                      dict(when="always", accept="Control+9", toggle="@9"),
                      dict(when="composing", accept="Control+j", send_sequence="{Home}{Shift+Right}"),
                      dict(when="always", accept="Control+m", send_sequence="ab,"), dict(when="always", accept="Control+z", send_sequence=""),
                      dict(when="always", accept="Control+t", send="Control+p"), dict(when="has_menu", accept="Control+y", send="period"),
                      dict(when="always", accept="Control+w", send_sequence="a{Control+Shift+3}{Control+m}b"),
                      # a key sent to itself (the stock `predicting: comma -> comma` idiom under a condition that is reachable
                      # here), a two-key cycle and a sequence ending in its own key: replayed once, never redirected again
                      dict(when="always", accept="Control+q", send="Control+q"), dict(when="composing", accept="semicolon", send="semicolon"),
                      dict(when="always", accept="Control+x", send="Control+h"), dict(when="always", accept="Control+h", send="Control+x"),
                      dict(when="composing", accept="Control+c", send_sequence="{Left}{Control+c}")]),
    # a fluid-editor schema without punctuator whose alphabet holds the period (not an initial): `a.b` is legal input, the period
    # pages down while a menu is open, and a letter right after it puts the period into the input after all
    # (KeyBinder::ReinterpretPagingKey); no `switches:` (option actions find nothing: plain set / toggle); vertical layout toggle
    "vs_kbf": dict(procs=["key_binder", "speller", "selector", "navigator", "fluid_editor"], alphabet="abcd.", initials="abcd", delimiters="'",
                   pageSize=2, uniq=0, pageDownCycle=1,
                   kb=[dict(when="paging", accept="comma", send="Page_Up"), dict(when="has_menu", accept="period", send="Page_Down"),
                       dict(when="paging", accept="minus", send="Page_Up"), dict(when="has_menu", accept="equal", send="Page_Down"),
                       dict(when="composing", accept="Tab", send="Shift+Right"), dict(when="composing", accept="Shift+Tab", send="Shift+Left"),
                       dict(when="composing", accept="Control+p", send="Up"), dict(when="composing", accept="Control+n", send="Down"),
                       dict(when="composing", accept="Control+a", send="Home"), dict(when="composing", accept="Control+e", send="End"),
                       dict(when="composing", accept="Control+g", send="Escape"), dict(when="always", accept="Control+l", toggle="_vertical"),
                       dict(when="always", accept="Control+Shift+2", toggle="ascii_mode"), dict(when="always", accept="Control+9", toggle="@9"),
                       dict(when="always", accept="Control+s", set_option="opt_c"), dict(when="always", accept="Control+u", unset_option="opt_c"),
                       dict(when="has_menu", accept="Control+y", send="period"), dict(when="always", accept="Control+m", send_sequence="a.b"),
                       dict(when="composing", accept="Control+k", send_sequence="{BackSpace}{BackSpace}")]),
    # the ascii composer inside the model, first in the processor list as in the stock schemas: every switch key with every
    # style (inline_ascii, commit_text, commit_code, clear; a `noop` entry, which is not loaded; Caps_Lock: inline_ascii, which
    # LoadConfig turns into clear), good_old_caps_lock off / on, the key binder behind it (has_menu is off in ascii_mode; a
    # send_sequence that taps Shift_L through the nested chain), `ascii_mode` declared as a switch with a reset value
    "vs_ac": dict(procs=["ascii_composer", "key_binder", "speller", "punctuator", "selector", "navigator", "express_editor"], alphabet="abc",
                  delimiters="'", pageSize=3, uniq=1, punct=dict(
                      use_space=0, half={",": "，", ".": {"commit": "。"}, "/": ["、", "／", "/"]}, full={",": "，", ".": {"commit": "．"}, "/": ["／", "÷"]}),
                  ascii=dict(good_old_caps_lock=0, switch_key={"Shift_L": "inline_ascii", "Shift_R": "commit_text", "Control_L": "commit_code",
                                                               "Control_R": "clear", "Caps_Lock": "inline_ascii", "Eisu_toggle": "inline_ascii"}),
                  switches=[dict(name="ascii_mode", reset=0), dict(name="ascii_punct")],
                  kb=[dict(when="has_menu", accept="period", send="Page_Down"), dict(when="paging", accept="comma", send="Page_Up"),
                      dict(when="always", accept="Control+Shift+2", toggle="ascii_mode"), dict(when="composing", accept="Control+g", send="Escape"),
                      dict(when="always", accept="Control+q", send_sequence="{Shift_L}{Release+Shift_L}"),
                      dict(when="always", accept="Control+m", send_sequence="ab"), dict(when="has_menu", accept="Control+n", send="Down"),
                      dict(when="composing", accept="Control+j", send_sequence="{Shift_R}{Shift+Release+Shift_R}a")]),
    "vs_acf": dict(procs=["ascii_composer", "speller", "selector", "navigator", "fluid_editor"], alphabet="abcd", delimiters="'", pageSize=2, uniq=0,
                   ascii=dict(good_old_caps_lock=1, switch_key={"Shift_L": "commit_code", "Shift_R": "inline_ascii", "Control_L": "clear",
                                                                "Control_R": "noop", "Caps_Lock": "commit_text", "Eisu_toggle": "commit_text"})),
}


def _yq(t):
    return "'" + t.replace("'", "''") + "'"


def _punct_yaml_value(d):
    if isinstance(d, str):
        return _yq(d)
    if isinstance(d, list):
        return "[" + ", ".join(_yq(t) for t in d) + "]"
    if "commit" in d:
        return "{commit: %s}" % _yq(d["commit"])
    return "{pair: [%s, %s]}" % (_yq(d["pair"][0]), _yq(d["pair"][1]))


def _punct_env_map(m):
    """<key byte>:<kind>:<hex text>,<hex text>…;…   kinds: u scalar, l list, c {commit}, p {pair}"""
    ents = []
    for k in sorted(m):
        d = m[k]
        if isinstance(d, str):
            kind, ts = "u", [d]
        elif isinstance(d, list):
            kind, ts = "l", d
        elif "commit" in d:
            kind, ts = "c", [d["commit"]]
        else:
            kind, ts = "p", d["pair"]
        ents.append("%s:%s:%s" % (hx(k), kind, ",".join(hx(t) for t in ts) if ts else "-"))
    return ";".join(ents) if ents else "-"


def schema_yaml(sid, s):
    y = ["schema:", "  schema_id: %s" % sid, "  name: %s" % sid, "  version: '1'", "engine:", "  processors:"]
    y += ["    - %s" % p for p in s["procs"]]
    if s.get("segmentors"):
        y += _rec_engine_yaml(s)
    elif s.get("punct"):
        y += ["  segmentors:", "    - abc_segmentor", "    - punct_segmentor", "    - fallback_segmentor", "  translators:",
              "    - punct_translator", "    - vt_translator"]
    else:
        y += ["  segmentors:", "    - abc_segmentor", "    - fallback_segmentor", "  translators:", "    - vt_translator"]
    if s.get("uniq"):
        y += ["  filters:", "    - uniquifier"]
    y += ["speller:", "  alphabet: '%s'" % s["alphabet"]]
    if s.get("delimiters"):
        y += ['  delimiter: "%s"' % s["delimiters"]]
    for k, yk in (("initials", "initials"), ("finals", "finals")):
        if s.get(k):
            y += ["  %s: '%s'" % (yk, s[k])]
    if s.get("maxCodeLength"):
        y += ["  max_code_length: %d" % s["maxCodeLength"]]
    if s.get("autoSelect"):
        y += ["  auto_select: true"]
    if s.get("autoClear"):
        y += ["  auto_clear: %s" % s["autoClear"]]
    if s.get("useSpace"):
        y += ["  use_space: true"]
    y += ["menu:", "  page_size: %d" % s["pageSize"]]
    if s.get("selectKeys"):
        y += ['  alternative_select_keys: "%s"' % s["selectKeys"]]
    if s.get("pageDownCycle"):
        y += ["  page_down_cycle: true"]
    if s.get("punct"):
        P = s["punct"]
        # digit separators off: that path reads the commit history, which the model does not have
        y += ["punctuator:", '  digit_separators: ""']
        if P.get("use_space"):
            y += ["  use_space: true"]
        for shape in ("half", "full"):
            y += ["  %s_shape:" % shape] + ["    %s: %s" % (_yq(k), _punct_yaml_value(d)) for k, d in P[shape].items()]
    for sw in s.get("switches", []):
        if "name" in sw:
            y2 = ["  - name: %s" % sw["name"], "    states: [off, on]"]
        else:
            y2 = ["  - options: [%s]" % ", ".join(sw["options"]), "    states: [%s]" % ", ".join("s%d" % i for i in range(len(sw["options"])))]
        if "reset" in sw:
            y2.append("    reset: %d" % sw["reset"])
        y += (["switches:"] if sw is s["switches"][0] else []) + y2
    if s.get("ascii"):
        y += ["ascii_composer:", "  good_old_caps_lock: %s" % ("true" if s["ascii"].get("good_old_caps_lock") else "false"), "  switch_key:"]
        y += ["    %s: %s" % kv for kv in s["ascii"]["switch_key"].items()]
    if s.get("kb"):
        y += ["key_binder:", "  bindings:"]
        for b in s["kb"]:
            kind = next(k for k in KB_KINDS if k in b)
            y.append("    - {when: %s, accept: %s, %s: %s}" % (b["when"], _yq(b["accept"]), kind, _yq(b[kind])))
    if s.get("segmentors"):
        y += _rec_sections_yaml(s)
    return "\n".join(y) + "\n"


KB_KINDS = {"send": "s", "send_sequence": "s", "toggle": "t", "set_option": "o", "unset_option": "u", "select": "x"}
KB_WHEN = {"predicting": "r", "paging": "p", "has_menu": "m", "composing": "c", "always": "a"}


def _kb_env(s):
    """key_binder/bindings and switches as model data:
    kb=<when>:<keycode>:<mask>:<kind>:<arg>;…   kind s: arg = code.mask,code.mask… (- = empty); t / o / u: arg = option name in hex; x: select
    switches=t:<name hex>:<reset>;r:<name hex>,<name hex>…:<reset>;…   (reset -1 = not given)"""
    if not s.get("kb") and not s.get("switches"):
        return ""
    ents = []
    for b in s.get("kb", []):
        code, mask = kev(b["accept"])
        kind = next(k for k in KB_KINDS if k in b)
        if kind == "send":
            arg = "%d.%d" % kev(b["send"])
        elif kind == "send_sequence":
            arg = ",".join("%d.%d" % k for k in kseq(b["send_sequence"])) or "-"
        else:
            arg = hx(b[kind])
        ents.append("%s:%d:%d:%s:%s" % (KB_WHEN[b["when"]], code, mask, KB_KINDS[kind], arg))
    sws = []
    for sw in s.get("switches", []):
        if "name" in sw:
            sws.append("t:%s:%d" % (hx(sw["name"]), sw.get("reset", -1)))
        else:
            sws.append("r:%s:%d" % (",".join(hx(o) for o in sw["options"]), sw.get("reset", -1)))
    return " kb=%s switches=%s" % (";".join(ents) or "-", ";".join(sws) or "-")


AC_STYLES = {"inline_ascii": "i", "commit_text": "t", "commit_code": "c", "clear": "x"}      # `noop` entries are not loaded


def _ascii_env(s):
    """ascii_composer as model data: asciiKeys=<keycode>:<style>;…  goodOldCaps=0|1"""
    A = s.get("ascii")
    if not A:
        return ""
    ents = ["%d:%s" % (KEYNAMES[k], AC_STYLES[v]) for k, v in A["switch_key"].items() if v in AC_STYLES]
    return " asciiKeys=%s goodOldCaps=%d" % (";".join(ents) or "-", A.get("good_old_caps_lock", 0))


def env_line(sid, s):
    procs = ",".join(s["procs"])
    return _env_line(sid, s, procs) + _punct_env(s) + _kb_env(s) + _ascii_env(s) + _rec_env(s)


def _punct_env(s):
    P = s.get("punct")
    if not P:
        return ""
    return " punctHalf=%s punctFull=%s punctUseSpace=%d punctDigitSep=-" % (
        _punct_env_map(P["half"]), _punct_env_map(P["full"]), P.get("use_space", 0))


def _env_line(sid, s, procs):
    return ("env %s pageSize=%d selectKeys=%s pageDownCycle=%d alphabet=%s initials=%s finals=%s delimiters=%s "
            "maxCodeLength=%d autoSelect=%d useSpace=%d autoClear=%s procs=%s uniq=%d" % (
                sid, s["pageSize"], hx(s.get("selectKeys", "")), s.get("pageDownCycle", 0), hx(s["alphabet"]),
                hx(s.get("initials", "")), hx(s.get("finals", "")), hx(s.get("delimiters", "")),
                s.get("maxCodeLength", 0), s.get("autoSelect", 0), s.get("useSpace", 0), s.get("autoClear", "none"),
                procs, s.get("uniq", 0)))


def make_workspace(d, schema_ids, extra_files=None):
    shutil.rmtree(d, ignore_errors=True)
    os.makedirs(d)
    with open(os.path.join(d, "default.yaml"), "w") as f:
        f.write("config_version: '1'\nschema_list:\n" + "".join("  - schema: %s\n" % s for s in schema_ids))
        # a new session starts on the first schema of the list (what the driver models), not on the one some session selected
        # last (Switcher::CreateSchema reads var/previously_selected_schema from the shared user.yaml otherwise: a schema whose
        # switches carry `reset:` values would leave its options in every session created after it was selected anywhere)
        f.write("switcher:\n  fix_schema_list_order: true\n")
    for sid in schema_ids:
        if sid in SCHEMAS:
            with open(os.path.join(d, sid + ".schema.yaml"), "w") as f:
                f.write(schema_yaml(sid, SCHEMAS[sid]))
    for name, content in (extra_files or {}).items():
        with open(os.path.join(d, name), "w") as f:
            f.write(content)
    return d


# ------------------------------------------------------------------ candidate tables
TEXTS = ["啊", "吧", "从", "的", "X", "yz", "é", "阿爸", "阿", "爸爸", "测试", "𠀀", "ab", "a", ""]


def gen_table(rng, alphabet, nkeys=14):
    """table rows: key -> [(text, comment, preedit)]; includes duplicate texts, multi-letter keys,
    preedits with and without the TAB caret placeholder, empty comment."""
    rows = []
    keys = set()
    for _ in range(nkeys):
        n = rng.choice([1, 1, 2, 2, 3, 4])
        keys.add("".join(rng.choice(alphabet) for _ in range(n)))
    for k in sorted(keys):
        for _ in range(rng.choice([1, 1, 2, 3, 5, 8])):
            text = rng.choice(TEXTS[:-1])
            comment = rng.choice(["", "", "c", "〔注〕"])
            pre = rng.choice(["", "", "", " ".join(k), k.upper(), k[:1] + "\t" + k[1:], k + "\t›"])
            rows.append((k, text, comment, pre))
    return rows


def table_lines(rows):
    return ["table %s %s %s %s" % (hx(k), hx(t), hx(c), hx(p)) for k, t, c, p in rows]


# ------------------------------------------------------------------ op generation
def gen_burst(rng, s):
    """a directed burst: type a few letters, select (so that the composition holds selected / confirmed segments and, in
    schemas without auto-commit, a trailing empty segment), then edit right away — the states in which BackSpace reopens a
    segment or a selection, Escape / Left / Home act on a finished composition, and the caret sits inside a selected part.
    (Measured with tools/model_coverage.py: Context::ReopenPreviousSegment's success path, Segment::Reopen away from the
    original end and similar lines were never reached by the uniform op mix.)"""
    alpha, delim, sel = s["alphabet"], s.get("delimiters", ""), s.get("selectKeys", "")
    out = ["key %d 0" % ord(rng.choice(alpha)) for _ in range(rng.choice([1, 2, 2, 3, 4]))]
    if delim and rng.random() < 0.25:
        out.insert(rng.randrange(1, len(out) + 1), "key %d 0" % ord(rng.choice(delim)))
    if rng.random() < 0.25:
        out.append(rng.choice(["key %d 0" % XK["Left"], "caret %d" % rng.randrange(4), "key %d 0" % XK["Home"]]))

    def pick():
        ks = list(sel) if sel else list("123")
        return rng.choice(["select %d" % rng.choice([0, 0, 1, 2]), "select_page %d" % rng.choice([0, 0, 1]), "key %d 0" % XK["space"],
                           "key %d 0" % ord(rng.choice(ks[:3]))])
    out.append(pick())
    if rng.random() < 0.45:
        out.append(pick())
    follow = (["key %d 0" % XK["BackSpace"]] * 5 +
              ["key %d %d" % (XK["BackSpace"], CONTROL), "key %d %d" % (XK["BackSpace"], SHIFT), "key %d 0" % XK["Left"],
               "key %d 0" % XK["Left"], "key %d %d" % (XK["Left"], CONTROL), "key %d 0" % XK["Home"], "key %d 0" % XK["Escape"],
               "key %d 0" % XK["Delete"], "key %d 0" % XK["Right"], "key %d 0" % XK["End"], "caret %d" % rng.randrange(4),
               "key %d 0" % ord(rng.choice(alpha)), "key %d 0" % XK["space"], "page +", "highlight 1", "key %d 0" % XK["Return"],
               "delete 0", "option _linear 1"])
    for _ in range(rng.choice([1, 2, 3, 4])):
        out.append(rng.choice(follow))
    return out


def shape_format(b):
    """ShapeFormatter::Format with full_shape on (gear/shape.cc): printable ASCII -> full-width forms, unless there is none"""
    if all(ch < 0x20 or ch > 0x7e for ch in b):
        return b
    out = bytearray()
    for ch in b:
        if ch == 0x20:
            out += b"\xe3\x80\x80"
        elif 0x20 < ch <= 0x7e:
            out += bytes([0xef, 0xbc + (ch - 0x20) // 0x40, 0x80 + (ch - 0x20) % 0x40])
        else:
            out.append(ch)
    return bytes(out)


def gen_punct_ops(rng, s):
    """ops for a schema with a punctuator: one punctuation key pressed k times in a row (k up to 6: lists wrap around, pairs
    alternate), alone or after letters, with a menu open, with the caret moved back, followed by the keys that confirm, select,
    cancel or edit; the two options the punctuator reads; set_input of a text mixing letters and punctuation"""
    P = s["punct"]
    alpha = s["alphabet"]
    keys = sorted(set(P["half"]) | set(P["full"]))
    r = rng.random()
    if r < 0.10:
        return ["option %s %d" % (rng.choice(["ascii_punct", "full_shape", "full_shape"]), rng.randrange(2))]
    if r < 0.16:
        w = "".join(rng.choice(alpha + "".join(keys)) for _ in range(rng.choice([1, 2, 3, 4, 6])))
        return ["input %s" % hx(w)]
    out = []
    if r < 0.40:
        out += ["key %d 0" % ord(rng.choice(alpha)) for _ in range(rng.choice([1, 2, 3]))]
        if r < 0.22:
            out.append(rng.choice(["key %d 0" % XK["Left"], "caret 0", "caret 1", "key %d 0" % XK["Home"]]))
    ch = rng.choice(keys)
    k = rng.choice([1, 1, 1, 2, 2, 3, 3, 4, 5, 6])
    mod = rng.choice([0] * 9 + [SHIFT, LOCK, CONTROL])
    out += ["key %d %d" % (ord(ch), mod)] * k
    follow = [[], [], [], ["key %d 0" % XK["space"]], ["key %d 0" % XK["space"]], ["key %d 0" % ord(rng.choice(alpha))],
              ["key %d 0" % XK["BackSpace"]], ["key %d 0" % XK["Escape"]], ["key %d 0" % ord(rng.choice("123"))],
              ["key %d 0" % XK["Return"]], ["read_commit"], ["key %d 0" % ord(rng.choice(keys))],
              ["select_page %d" % rng.randrange(3)], ["select %d" % rng.choice([0, 1, 2, 4, 5])], ["key %d 0" % XK["Left"]],
              ["key %d 0" % XK["Down"]], ["key %d 0" % XK["Next"], "key %d 0" % ord(ch)], ["page +"], ["highlight %d" % rng.randrange(6)],
              ["key %d 0" % XK["BackSpace"], "key %d 0" % ord(ch)], ["commit"], ["key %d 0" % ord(rng.choice(alpha)), "key %d 0" % ord(ch)]]
    out += rng.choice(follow)
    return out


def kb_states(rng, s):
    """op prefixes that put a session of a key-binder schema into each state a binding's condition distinguishes: idle,
    composing without a menu, menu open, after paging (tag `paging` on the last segment), caret inside the input, a selection
    made; plus, for schemas with a punctuator, a punctuation segment with alternatives"""
    alpha = [ch for ch in s["alphabet"] if ch.isalpha()]
    a = lambda: "key %d 0" % ord(rng.choice(alpha))
    st = {"idle": [], "menu": [a() for _ in range(rng.choice([1, 2, 3]))],
          "paged": [a(), rng.choice(["key %d 0" % XK["Next"], "page +", "key %d 0" % XK["Down"], "key 46 0", "key 61 0"])],
          "paged2": [a(), "key %d 0" % XK["Next"], "key %d 0" % XK["Next"], rng.choice(["key %d 0" % XK["Prior"], "key 44 0", "key 45 0"])],
          "caret_inside": [a(), a(), a(), rng.choice(["key %d 0" % XK["Left"], "caret 1", "key %d 0" % XK["Home"], "key 98 4"])],
          "selected": [a(), a(), rng.choice(["select 1", "select_page 0", "key %d 0" % XK["space"], "key 49 0"])],
          "no_menu": ["input %s" % hx(rng.choice(["'", "1", "zz", "a1"]))]}
    if s.get("punct"):
        ks = [k for k, d in s["punct"]["half"].items() if isinstance(d, list)]
        if ks:
            st["punct_alt"] = ["key %d 0" % ord(rng.choice(ks))] * rng.choice([1, 2])
    return st


def kb_keys(s):
    """the bound keys of the schema as (code, mask), in configuration order without repetitions"""
    out = []
    for b in s["kb"]:
        k = kev(b["accept"])
        if k not in out:
            out.append(k)
    return out


def gen_kb_ops(rng, s):
    """ops for a schema with a key binder: a bound key pressed in one of the states of kb_states (sometimes with one modifier
    bit more or less: the lookup is on the exact keycode + modifier pair), followed by keys that show what it did; the
    period / comma / letter sequences ReinterpretPagingKey looks at (with modified keys, releases, API calls and unbound keys
    in between: `last_key_` moves on every key press the binder sees, not on releases); runs of option bindings"""
    alpha = [ch for ch in s["alphabet"] if ch.isalpha()]
    a = lambda: "key %d 0" % ord(rng.choice(alpha))
    keys = kb_keys(s)
    r = rng.random()
    if r < 0.22:
        # period / comma / letter
        pre = rng.choice([[a()], [a(), a()], ["input %s" % hx(rng.choice(["a", "ab", "a.", "a.b", "ab'"]))], [], [a(), "key %d 0" % XK["Left"]]])
        mid = []
        for _ in range(rng.choice([1, 1, 2, 2, 3])):
            mid.append(rng.choice(["key 46 0", "key 46 0", "key 46 0", "key 44 0", "key 46 %d" % SHIFT, "key 46 %d" % RELEASE, "key %d 0" % XK["Next"],
                                   "key %d 0" % XK["BackSpace"], "page +", "key 65505 0", "key 65505 %d" % RELEASE, "key 46 %d" % LOCK, "clear",
                                   "key 49 0", "highlight 1", "key %d %d" % (ord(rng.choice(alpha)), RELEASE), "key %d 0" % XK["Left"]]))
        post = [rng.choice([a(), a(), a(), "key %d 0" % ord("z"), "key %d %d" % (ord(rng.choice(alpha)), SHIFT), "key 65 0"])]
        if rng.random() < 0.5:
            post.append(rng.choice([a(), "key 46 0", "key %d 0" % XK["space"], "key %d 0" % XK["BackSpace"], "read_commit"]))
        return pre + mid + post
    if r < 0.34:
        # option bindings in a row (radio groups cycle, set / unset, indices), in any state
        optk = [kev(b["accept"]) for b in s["kb"] if not ("send" in b or "send_sequence" in b)]
        st = kb_states(rng, s)
        out = list(st[rng.choice(sorted(st))])
        for _ in range(rng.choice([1, 2, 3, 5])):
            out.append("key %d %d" % rng.choice(optk))
        out.append(rng.choice([a(), "key %d 0" % XK["space"], "key 47 0", "key %d 0" % XK["Down"], "read_commit", "key 32 %d" % SHIFT]))
        return out
    st = kb_states(rng, s)
    out = list(st[rng.choice(sorted(st))])
    for _ in range(rng.choice([1, 1, 2, 3])):
        code, mask = rng.choice(keys)
        if rng.random() < 0.12:
            mask ^= rng.choice([LOCK, SHIFT, RELEASE, CONTROL, ALT])
        out.append("key %d %d" % (code, mask))
    out += rng.choice([[], [], [a()], ["key %d 0" % XK["space"]], ["key %d 0" % XK["BackSpace"]], ["key %d 0" % XK["Escape"]], ["read_commit"],
                       ["key 46 0"], ["key 44 0"], ["key 45 0"], ["key 61 0"], ["select_page 1"], ["key %d 0" % XK["Return"]], ["commit"],
                       ["key %d 0" % XK["Down"], "key %d 0" % XK["Up"]]])
    return out


AC_KEYS = ["Shift_L", "Shift_R", "Control_L", "Control_R", "Caps_Lock", "Eisu_toggle"]


def ac_tap(name, rel_mask=None):
    """press + release of a switch key; a real client reports the release of Shift / Control with the modifier's own bit set"""
    code = KEYNAMES[name]
    own = SHIFT if name.startswith("Shift") else CONTROL if name.startswith("Control") else 0
    return ["key %d 0" % code, "key %d %d" % (code, RELEASE | (own if rel_mask is None else rel_mask))]


def gen_ac_ops(rng, s):
    """ops for a schema with an ascii composer: taps of the switch keys (release reported with or without the modifier's own
    bit), a switch key held while another key / another switch key / an API call happens, Caps_Lock with the Lock bit set or
    clear, letters while Caps Lock is on, typing and editing in ascii mode (inline composition, direct commit when idle), ending
    the inline mode by commit / clear / BackSpace / Escape / selection, ascii_mode set through the API"""
    alpha = s["alphabet"]
    a = lambda: "key %d 0" % ord(rng.choice(alpha))
    pre = rng.choice([[], [], [a()], [a(), a()], [a(), a(), "select_page 1"], [a(), "key %d 0" % XK["Left"]], ["input %s" % hx(rng.choice(["'", "a1", "ab"]))],
                      ["option ascii_mode 1"], ["option ascii_mode 1", a()], [a(), "key %d 0" % XK["Next"]]])
    r = rng.random()
    k = rng.choice(AC_KEYS)
    code = KEYNAMES[k]
    if r < 0.40:
        mid = ac_tap(k, rng.choice([None, None, 0]))
        if rng.random() < 0.3:
            mid += ac_tap(rng.choice(AC_KEYS))
    elif r < 0.60:
        # held while something else happens
        other = rng.choice([a(), "key %d 0" % KEYNAMES[rng.choice(AC_KEYS[:4])], "key %d %d" % (KEYNAMES[rng.choice(AC_KEYS[:4])], RELEASE),
                            "select 0", "caret 0", "key %d %d" % (ord(rng.choice(alpha)), RELEASE), "key 65 %d" % SHIFT, "key 32 %d" % SHIFT,
                            "key %d %d" % (ord(rng.choice(alpha)), CONTROL), "key %d %d" % (code, SHIFT | CONTROL), "key %d %d" % (code, ALT)])
        mid = ["key %d 0" % code, other, "key %d %d" % (code, RELEASE)]
    elif r < 0.75:
        # Caps Lock: the Lock bit is clear when it is about to be turned on (IBus), set while it is on
        mid = rng.choice([["key %d 0" % KEYNAMES["Caps_Lock"], "key %d %d" % (KEYNAMES["Caps_Lock"], RELEASE | LOCK)],
                          ["key %d %d" % (KEYNAMES["Caps_Lock"], LOCK), "key %d %d" % (KEYNAMES["Caps_Lock"], RELEASE)],
                          ["key %d 0" % KEYNAMES["Caps_Lock"]], []])
        for _ in range(rng.choice([1, 2, 3])):
            mid.append(rng.choice(["key %d %d" % (ord(rng.choice(alpha)), LOCK), "key %d %d" % (ord(rng.choice("ABZ")), LOCK | SHIFT), "key 49 %d" % LOCK,
                                   "key %d %d" % (ord(rng.choice(alpha)), LOCK | RELEASE), "key %d %d" % (ord(rng.choice(alpha)), LOCK | CONTROL),
                                   "key %d %d" % (XK["BackSpace"], LOCK), "key 32 %d" % LOCK, a()]))
    else:
        mid = ac_tap(rng.choice(["Shift_L", "Shift_R", "Eisu_toggle"])) if rng.random() < 0.7 else ["option ascii_mode 1"]
    post = []
    for _ in range(rng.choice([1, 2, 3, 4])):
        post.append(rng.choice([a(), a(), "key 65 %d" % SHIFT, "key 49 0", "key 32 0", "key 47 0", "key 46 0", "key 127 0", "key %d 0" % XK["BackSpace"],
                                "key %d 0" % XK["Return"], "key %d 0" % XK["Escape"], "key %d 0" % XK["Left"], "commit", "clear", "select_page 0",
                                "read_commit", "input %s" % hx(rng.choice(["", "ab"])), "key %d %d" % (ord(rng.choice(alpha)), RELEASE), "option ascii_mode 0"]))
    return pre + mid + post


def gen_history(rng, sid, s, n, profile="mixed"):
    """one session history on schema sid; profile selects the op mix."""
    alpha = s["alphabet"]
    delim = s.get("delimiters", "")
    sel = s.get("selectKeys", "")
    ops = []
    edit_keys = [XK["BackSpace"], XK["Delete"], XK["KP_Left"], XK["KP_Right"], XK["Right"], XK["Home"], XK["End"], XK["Escape"]]
    punct = s.get("punct")
    for _ in range(n):
        if s.get("segmentors") and profile != "edit" and rng.random() < 0.30:
            ops += gen_rec_ops(rng, s)
            continue
        if s.get("ascii") and profile != "edit" and rng.random() < 0.20:
            ops += gen_ac_ops(rng, s)
            continue
        if s.get("kb") and profile != "edit" and rng.random() < (0.10 if s.get("ascii") else 0.20):
            ops += gen_kb_ops(rng, s)
            continue
        if punct and profile != "edit" and rng.random() < (0.10 if s.get("kb") else 0.30):
            ops += gen_punct_ops(rng, s)
            continue
        r = rng.random()
        if profile == "edit":   # C05 alphabet only
            if r < 0.5:
                ops.append("key %d 0" % ord(rng.choice(alpha)))
            else:
                ops.append("key %d 0" % rng.choice(edit_keys))
            continue
        if profile == "commit" and r < 0.16:
            ops.append(rng.choice(["commit", "read_commit", "read_commit", "key %d 0" % XK["space"], "key %d 0" % XK["Return"],
                                   "select_page %d" % rng.randrange(3), "select %d" % rng.randrange(4), "key %d 0" % XK["BackSpace"]]))
            if ops[-1] == "read_commit" and rng.random() < 0.5:
                ops.append("read_commit")
            continue
        if r < 0.045:
            ops += gen_burst(rng, s)
        elif r < 0.34:
            ops.append("key %d 0" % ord(rng.choice(alpha)))
        elif r < 0.38 and delim:
            ops.append("key %d 0" % ord(rng.choice(delim)))
        elif r < 0.50:
            ops.append("key %d 0" % rng.choice(edit_keys + [XK["Left"], XK["Up"], XK["Down"], XK["Prior"], XK["Next"],
                                                            XK["space"], XK["Return"], XK["KP_Home"], XK["KP_End"]]))
        elif r < 0.54:
            ops.append("key %d %d" % (rng.choice(edit_keys + [XK["Return"], XK["Left"], XK["Right"], XK["space"], ord(rng.choice(alpha))]),
                                      rng.choice([SHIFT, CONTROL, SHIFT | CONTROL, ALT, RELEASE, LOCK, SUPER])))
        elif r < 0.58:
            ks = list(sel) if sel else list("1234567890")
            ops.append("key %d 0" % ord(rng.choice(ks)))
        elif r < 0.63:
            ops.append("select %d" % rng.choice([0, 0, 1, 2, 3, 5, 9, 40]))
        elif r < 0.67:
            ops.append("select_page %d" % rng.choice([0, 1, 2, 3, 4, 7]))
        elif r < 0.72:
            ops.append("highlight %d" % rng.choice([0, 1, 2, 3, 4, 6, 11, 1000]))
        elif r < 0.75:
            ops.append("highlight_page %d" % rng.choice([0, 1, 2, 3, 4]))
        elif r < 0.78:
            ops.append("delete %d" % rng.choice([0, 1, 2, 5, 50]))
        elif r < 0.80:
            ops.append("delete_page %d" % rng.choice([0, 1, 2, 4]))
        elif r < 0.85:
            ops.append("page %s" % rng.choice("+-"))
        elif r < 0.88:
            w = "".join(rng.choice(alpha + delim) for _ in range(rng.choice([0, 1, 2, 3, 5, 8])))
            ops.append("input %s" % hx(w))
        elif r < 0.92:
            ops.append("caret %d" % rng.choice([0, 0, 1, 2, 3, 5, 99]))
        elif r < 0.94:
            ops.append("option %s %d" % (rng.choice(["soft_cursor", "_linear", "_vertical", "_horizontal", "foo"]), rng.randrange(2)))
        elif r < 0.96:
            ops.append("commit")
        elif r < 0.972:
            ops.append("clear")
        elif r < 0.978:
            # the schema applied again (select_schema with the current id): composition and transient options go, text that was
            # committed and not yet read stays
            ops.append("schema " + sid)
        else:
            ops.append("read_commit")
    return ops


# ------------------------------------------------------------------ running
def build(flavour="san"):
    exe, bdir = vlib.build_harness("session_harness", flavour, ["session_harness.cc"])
    rc, out = vlib.lake_build(["driver_session"])
    if rc != 0:
        raise vlib.BuildError("driver_session does not build: " + out[-3000:])
    return exe


def run_impl(exe, ws, script_path, timeout=1200):
    if os.path.exists(os.path.join(ws, ".fresh_userdb")):
        # a workspace with a live user dictionary: every run starts from an empty one, so that a history (and what is
        # shrunk from it) carries everything it depends on
        import glob
        for p in glob.glob(os.path.join(ws, "*.userdb*")):
            shutil.rmtree(p, ignore_errors=True) if os.path.isdir(p) else os.unlink(p)
    rc, out = vlib.sh([exe, ws, script_path], env=vlib.SAN_ENV, timeout=timeout)
    return rc, out


def run_model(script_text):
    return vlib.run_driver("driver_session", script_text)


OBS_RE = re.compile(r"(\w+)=(\S+)")


def parse_obs(line):
    d = dict(OBS_RE.findall(line))
    if "nocontext" in line:
        d["nocontext"] = "1"
    return d


def unhex(h):
    return b"" if h in ("-", None) else bytes.fromhex(h)


# the options the harness / driver print as `opts=` (one 0/1 per name, same order on both sides)
REPORTED_OPTIONS = ["ascii_mode", "full_shape", "ascii_punct", "soft_cursor", "_linear", "_vertical", "_horizontal", "opt_a", "opt_b", "opt_c", "@9"]


def reported_options(o):
    v = (o or {}).get("opts")
    if not v or len(v) != len(REPORTED_OPTIONS):
        return {}
    return {n: ch == "1" for n, ch in zip(REPORTED_OPTIONS, v)}


# ------------------------------------------------------------------ batches, monitors, shrinking
def header_lines(rows):
    return [env_line(k, v) for k, v in SCHEMAS.items()] + table_lines(rows)


def make_script(rows, histories):
    """histories: list of (schema_id, [ops]); each runs in its own fresh session."""
    lines = header_lines(rows)
    index = []   # (history_no, op_no, op_text) per observation line
    for h, (sid, ops) in enumerate(histories):
        pre = ["new", "schema " + sid]
        for j, op in enumerate(pre + list(ops) + ["destroy %d" % h]):
            lines.append(op)
            index.append((h, j - len(pre), op))
    return "\n".join(lines) + "\n", index


def scripts_for(histories, rows_for):
    """the scripts session_check would run for these histories (one per candidate table), for other runners (coverage)"""
    by_table = {}
    for sid, ops, tid in histories:
        by_table.setdefault(tid, []).append((sid, ops))
    return [make_script(rows_for[tid], hs)[0] for tid, hs in by_table.items()]


def run_both(c, exe, ws, script, tag="s"):
    p = os.path.join(c.work, "%s.script" % tag)
    with open(p, "w") as f:
        f.write(script)
    rc, out = run_impl(exe, ws, p)
    impl = [l for l in out.splitlines() if l.startswith("ret=") or l.startswith("ids ") or l == "bad-op"]
    model = run_model(script).splitlines()
    return rc, out, impl, model


def is_boundary(b, p):
    return p == len(b) or (p < len(b) and (b[p] & 0xC0) != 0x80)


def wellformed(o):
    """C02 on one observation (dict from parse_obs). Returns failing clause or None."""
    if "nocontext" in o:
        return None
    if "xcheck" in o:
        # the harness read the same state through two paths of the API and they disagree (status flag vs option, get_option vs
        # context, a second get_context, select keys, composition.length vs the preedit's bytes)
        return "read-paths-disagree:" + o["xcheck"].split(":")[0]
    inp = unhex(o.get("input"))
    caret = int(o.get("caret", 0))
    if caret > len(inp):
        return "caret>input"
    composing = o.get("composing") == "1"
    pre = o.get("preedit")
    if pre not in (None, "~"):
        pb = unhex(pre)
        ln, cur = int(o["len"]), int(o["cur"])
        s, e = [int(x) for x in o["sel"].split(",")]
        if ln != len(pb):
            return "length!=bytes"
        if not (0 <= s <= e <= ln):
            return "sel-range"
        if not (0 <= cur <= ln):
            return "cursor-range"
        try:
            pb.decode("utf-8")
            valid = True
        except UnicodeDecodeError:
            valid = False
        if valid and not (is_boundary(pb, s) and is_boundary(pb, e) and is_boundary(pb, cur)):
            return "utf8-boundary"
    if not composing:
        if inp or pre not in (None, "~") or o.get("menu") not in (None, "~"):
            return "idle-not-empty"
    m = o.get("menu")
    if m not in (None, "~"):
        ps, pn, last, hi, num = [int(x) for x in m.split(",[")[0].split(",")]
        if num > 0 and not (0 <= hi < num <= ps):
            return "highlight-range"
        if num == 0:
            return "empty-page"
    return cand_ends(o)


def cand_ends(o):
    """the assumption C01's geometric theorems make of the translators (TranslateGeo: a candidate ends after its
    segment's start) and the bound Composition::GetPreedit / GetCommitText rely on, as far as an observation shows them:
    every candidate end position the harness prints for the current page is > 0 and <= the input length.
    Returns the failing clause or None.  (-1 = the harness could not read the end: not judged here.)"""
    m = o.get("menu")
    if "nocontext" in o or m in (None, "~") or ",[" not in m:
        return None
    n = len(unhex(o.get("input")))
    if n == 0 or (o.get("segs") or "").startswith("0:"):
        # a menu over no composed input at all: the schema switcher's own list (its entries are not translations of input; raw
        # input set through the API while the list is open is kept beside it)
        return None
    for ent in m[m.index(",[") + 2:].rstrip("]").split("|"):
        if not ent:
            continue
        try:
            e = int(ent.rsplit(":", 1)[1])
        except (IndexError, ValueError):
            continue
        if e >= 0 and not (0 < e <= n):
            return "cand-end-range"
    return None


def seg_geometry(o, contiguous=True):
    """C01's geometric invariant, checked on the implementation's own segment list (printed by the harness from the private
    headers, `segs=<|composition input|>:start-end-length-status-index-tags|…`): the first segment starts at 0, each starts
    where the previous one ends, start <= end <= |composition input| <= |input|.  This is what makes every
    substr(seg.start, seg.end - seg.start) of the composition legal; it is proved for the model under NoPrevMatch and
    monitored here for every schema (in particular auto_select without a code-length bound, and the stock components)."""
    sg = o.get("segs")
    if "nocontext" in o or not sg or ":" not in sg:
        return None
    cin, body = sg.split(":", 1)
    try:
        cin = int(cin)
        segs = [] if body == "-" else [[int(x) for x in g.split("-")[:2]] for g in body.split("|")]
    except ValueError:
        return "segs-unparsable"
    if cin > len(unhex(o.get("input"))):
        return "composition-input-longer-than-input"
    pos = 0
    for k, (a, b) in enumerate(segs):
        if a != pos and contiguous:
            return "segments-not-contiguous" if k else "first-segment-not-at-0"
        if b < a:
            return "segment-end-before-start"
        if b > cin:
            return "segment-beyond-composition-input"
        pos = b
    return None


def ddmin(ops, fails, budget=60):
    """shrink an op list while fails(ops) stays true"""
    n = 2
    evals = 0
    while len(ops) >= 2 and evals < budget:
        chunk = max(1, len(ops) // n)
        reduced = False
        for i in range(0, len(ops), chunk):
            cand = ops[:i] + ops[i + chunk:]
            evals += 1
            if cand and fails(cand):
                ops, n, reduced = cand, max(n - 1, 2), True
                break
            if evals >= budget:
                break
        if not reduced:
            if chunk == 1:
                break
            n = min(len(ops), n * 2)
    return ops


# ------------------------------------------------------------------ the generic session check
# checks that report a crash of the harness as their own violation: C01 (no crash) and C02 (a call that
# aborts reports no well-formed context); the others skip the crashing history and say so in the evidence
CRASH_REPORTERS = ("C01", "C02")

def op_kind(op):
    w = op.split(" ")
    if w[0] == "key":
        code = int(w[1])
        names = {v: k for k, v in XK.items()}
        nm = names.get(code, "char" if 0x20 <= code < 0x7f else "other")
        return "key:%s%s" % (nm, "" if w[2] == "0" else "+mod")
    return w[0]


def punct_stats(ps, st, s, op, o):
    """evidence only: what the runs on a schema with a punctuator exercised"""
    w = op.split(" ")
    kd = op_kind(op)
    if w[0] == "key" and 0x20 <= int(w[1]) < 0x7f:
        ch = chr(int(w[1]))
        P = s["punct"]
        cls = ("punct" if ch in P["half"] or ch in P["full"] else "letter" if ch in s["alphabet"] else "digit" if ch.isdigit() else "other")
        kd = "key:%s%s" % (cls, "" if w[2] == "0" else "+mod")
    elif w[0] == "option":
        kd = "option:" + w[1]
        st[w[1]] = w[2] != "0"
    ps["op_kinds"][kd] = ps["op_kinds"].get(kd, 0) + 1
    st.update({k: v for k, v in reported_options(o).items() if k in ("full_shape", "ascii_punct")})   # a binding may have changed them
    ps["obs_full_shape_on"] += bool(st.get("full_shape"))
    ps["obs_ascii_punct_on"] += bool(st.get("ascii_punct"))
    sg = o.get("segs", "")
    segs = [] if ":" not in sg or sg.endswith(":-") else [g.split("-") for g in sg.split(":", 1)[1].split("|")]
    pu = [g for g in segs if len(g) >= 6 and "u" in g[5]]
    ps["obs_with_punct_segment"] += bool(pu)
    ps["obs_punct_alternative_highlighted"] += any(g[4] != "0" for g in pu)
    ps["obs_punct_and_letters"] += bool(pu) and any(len(g) >= 6 and "a" in g[5] for g in segs)
    ps["deliveries"] += "text" in o


def eval_history(c, exe, ws, rows, sid, ops, monitor, tag="h"):
    """run one history on both sides; returns dict(rc, impl, model, first_diff, first_viol)"""
    script, index = make_script(rows, [(sid, ops)])
    rc, out, impl, model = run_both(c, exe, ws, script, tag)
    res = {"rc": rc, "impl": impl, "model": model, "first_diff": None, "first_viol": None, "log": out[-2500:] if rc else ""}
    state = {"sid": sid, "texts": [r[1] for r in rows]}
    if any("stall=1" in l for l in impl):
        # the process was stalled between a Shift / Control press and its release (harness): timing-dependent, inconclusive
        res["stalled"] = True
        return res
    for i, (h, j, op) in enumerate(index):
        if i >= len(impl):
            break
        o = parse_obs(impl[i])
        if j >= 0 and res["first_viol"] is None:
            why = monitor(state, op, o)
            if why:
                res["first_viol"] = (j, op, why, impl[i])
        if i < len(model) and impl[i] != model[i] and res["first_diff"] is None:
            res["first_diff"] = (j, op, impl[i], model[i])
    return res


def session_check(c, pid, monitor, histories, rows_for, exe, ws, what_prop, report_diffs=True, monitor_no_input=False):
    """histories: list of (sid, ops, table_id); rows_for[table_id] = rows.
    Runs them in batches per table, compares impl/model, monitors, shrinks, reports.  Returns stats."""
    stats = {"histories": 0, "ops": 0, "diffs": 0, "violations": 0, "crashes": 0, "kinds": {}, "nontrivial": set(),
             "samples": [], "menus": 0, "composing": 0, "commits": 0, "multi_segment": 0, "schemas": {},
             # schemas with a punctuator: finer op classes and what the observations show of the punctuation components
             "punct": {"op_kinds": {}, "obs_with_punct_segment": 0, "obs_punct_alternative_highlighted": 0,
                       "obs_punct_and_letters": 0, "obs_full_shape_on": 0, "obs_ascii_punct_on": 0, "deliveries": 0}}
    by_table = {}
    for sid, ops, tid in histories:
        by_table.setdefault(tid, []).append((sid, ops))
    for tid, hs in by_table.items():
        rows = rows_for[tid]
        pending = list(hs)
        attempts = 0
        while pending and attempts < 6:
            attempts += 1
            script, index = make_script(rows, pending)
            rc, out, impl, model = run_both(c, exe, ws, script, "b%s" % tid)
            states = {}
            bad_hist = {}
            stalled = set(h for i, (h, j, op) in enumerate(index) if i < len(impl) and "stall=1" in impl[i])
            stats["stalled_histories"] = stats.get("stalled_histories", 0) + len(stalled)
            for i, (h, j, op) in enumerate(index):
                if i >= len(impl):
                    break
                if h in stalled:
                    continue          # timing-dependent (see the harness): set aside, counted
                o = parse_obs(impl[i])
                if j >= 0:
                    stats["ops"] += 1
                    k = op_kind(op)
                    stats["kinds"][k] = stats["kinds"].get(k, 0) + 1
                    sid_h = pending[h][0]
                    ss = stats["schemas"].setdefault(sid_h, {"ops": 0, "composing": 0, "menus": 0})
                    ss["ops"] += 1
                    ss["composing"] += o.get("composing") == "1"
                    ss["menus"] += o.get("menu") not in (None, "~")
                    if SCHEMAS.get(sid_h, {}).get("punct"):
                        punct_stats(stats["punct"], states.setdefault(("p", h), {}), SCHEMAS[sid_h], op, o)
                    if o.get("menu") not in (None, "~"):
                        stats["menus"] += 1
                    if o.get("composing") == "1":
                        stats["composing"] += 1
                        stats["nontrivial"].add((pending[h][0], impl[i]))
                    if "text" in o:
                        stats["commits"] += 1
                    if len(stats["samples"]) < 4 and o.get("menu") not in (None, "~") and j > 5:
                        stats["samples"].append({"schema": pending[h][0], "op": op, "observation": impl[i][:300]})
                    why = monitor(states.setdefault(h, {"sid": pending[h][0], "texts": [r[1] for r in rows]}), op, o)
                    # the monitor goes on after a model / implementation difference: a violation of the property later in
                    # the same history (the difference may be what leads to it) is what gets reported, with its history
                    if why and (h not in bad_hist or bad_hist[h][0] == "diff"):
                        bad_hist[h] = ("viol", j, op, why)
                if report_diffs and i < len(model) and impl[i] != model[i] and h not in bad_hist:
                    bad_hist[h] = ("diff", j, op, None)
            crashed = None
            if rc != 0:
                # the history being executed when the process died
                crashed = index[min(len(impl), len(index) - 1)][0]
                stats["crashes"] += 1
                if pid in CRASH_REPORTERS:
                    sid, ops = pending[crashed]
                    j = index[min(len(impl), len(index) - 1)][1]
                    report_crash(c, pid, exe, ws, rows, sid, list(ops), out, monitor)
            for h, (kind, j, op, why) in sorted(bad_hist.items()):
                sid, ops = pending[h]
                ops = list(ops)[:j + 1]
                if kind == "viol":
                    stats["violations"] += 1
                    clause = why
                    small = ddmin(ops, lambda t: (lambda r: r["first_viol"] is not None and r["first_viol"][2] == clause)(
                        eval_history(c, exe, ws, rows, sid, t, monitor, "sh")))
                    r = eval_history(c, exe, ws, rows, sid, small, monitor, "sh")
                    c.report("%s:%s:%s" % (pid, op_kind(small[-1]), clause),
                             "%s violated (%s) after %d calls on %s" % (what_prop, clause, len(small), sid),
                             {"kind": "impl-violation", "schema": sid, "table": rows, "ops": small,
                              "observation": r["first_viol"][3] if r["first_viol"] else None, "clause": clause},
                             no_input=monitor_no_input)
                else:
                    stats["diffs"] += 1
                    small = ddmin(ops, lambda t: eval_history(c, exe, ws, rows, sid, t, monitor, "sh")["first_diff"] is not None)
                    r = eval_history(c, exe, ws, rows, sid, small, monitor, "sh")
                    if r["first_viol"]:
                        c.report("%s:%s:%s" % (pid, op_kind(small[r["first_viol"][0]]), r["first_viol"][2]),
                                 "%s violated (%s) — found while shrinking a model/implementation disagreement" % (what_prop, r["first_viol"][2]),
                                 {"kind": "impl-violation", "schema": sid, "table": rows, "ops": small, "clause": r["first_viol"][2],
                                  "observation": r["first_viol"][3]})
                    else:
                        d = r["first_diff"]
                        c.report("%s:correspondence:%s" % (pid, op_kind(d[1]) if d else "?"),
                                 "session model and implementation disagree after `%s` (no property violation found on the shrunk history)" % (d[1] if d else "?"),
                                 {"kind": "correspondence", "schema": sid, "table": rows, "ops": small,
                                  "impl": d[2] if d else None, "model": d[3] if d else None,
                                  "broken": "correspondence driver_session vs session_harness"}, no_input=True)
            if crashed is None:
                stats["histories"] += len(pending)
                pending = []
            else:
                stats["histories"] += crashed
                pending = pending[crashed + 1:]
    stats["distinct_nontrivial"] = len(stats.pop("nontrivial"))
    return stats


# ------------------------------------------------------------------ stock components: monitors only (no model)
STOCK_PUNCT = "/\\|~`'\"<>[]{}$^*%@#&=+-_:;!?.,"


F4 = 0xffc1


def gen_switcher_ops(rng):
    """the switcher's menu (hotkey F4 / Control+grave; default.yaml folds the options into one line: `fold_options: true`):
    open it, move / page / highlight / select inside it (selecting the folded line unfolds the switches; selecting a switch
    toggles it and closes the menu), leave it by Escape or the hotkey, open it AGAIN (the switcher keeps a context of its
    own between activations), then ordinary keys"""
    hot = lambda: rng.choice(["key %d 0" % F4, "key %d 0" % F4, "key 96 4"])
    inside = lambda: rng.choice(["key %d 0" % XK["Down"]] * 4 + ["key %d 0" % XK["Up"], "key %d 0" % XK["Next"], "key %d 0" % XK["Prior"],
                                 "highlight %d" % rng.randrange(6), "highlight_page %d" % rng.randrange(5), "page +", "page -",
                                 "key %d 0" % XK["End"], "key %d 0" % XK["Home"]])
    pick = lambda: rng.choice(["select_page %d" % rng.randrange(5), "select %d" % rng.randrange(6), "key %d 0" % ord(rng.choice("12345")),
                               "key %d 0" % XK["space"], "key %d 0" % XK["Return"]])
    out = [hot()]
    for _ in range(rng.choice([1, 2, 3])):
        out += [inside() for _ in range(rng.choice([0, 1, 2, 4]))]
        out.append(rng.choice([pick(), pick(), "key %d 0" % XK["Escape"], hot()]))
        out += [inside() for _ in range(rng.choice([0, 1, 3]))]
        out.append(rng.choice(["key %d 0" % XK["Escape"], hot(), pick()]))
        out.append(hot())
    out += [inside() for _ in range(rng.choice([0, 1, 2]))] + [rng.choice(["key %d 0" % XK["Escape"], hot(), pick()])]
    return out


def switcher_directed():
    """directed: open the menu, select its k-th line (the folded options line among them: the menu is rebuilt with one line per
    switch), move down d lines, leave, open again, move, leave, type a word"""
    out = []
    word = ["key 110 0", "key 105 0", "key 32 0", "read_commit"]
    for k in (1, 2, 3):
        for d in (1, 3, 6):
            for leave in ("key %d 0" % XK["Escape"], "key %d 0" % F4):
                out.append(["key %d 0" % F4, "select_page %d" % k] + ["key %d 0" % XK["Down"]] * d + [leave, "key %d 0" % F4,
                            "key %d 0" % XK["Down"], "key %d 0" % XK["Escape"]] + word)
    return out


def gen_stock_history(rng, n):
    """keys and calls for the stock-like schema (luna_pinyin's component list over tiny dictionaries): pinyin syllables,
    one punctuation key pressed k times in a row (k up to 9: the alternatives of a list-valued punctuation wrap around),
    confirmation / editing / paging keys, ascii and shape toggles, selection and paging through the API, reverse lookup"""
    syl = ["ni", "hao", "ma", "a", "ai", "an", "zhong", "guo", "xi", "n", "h", "zh", "x"]
    ops = []
    while len(ops) < n:
        r = rng.random()
        if rng.random() < 0.05:
            ops += gen_switcher_ops(rng)
            continue
        if r < 0.30:
            for ch in rng.choice(syl):
                ops.append("key %d 0" % ord(ch))
        elif r < 0.45:
            ch = rng.choice(STOCK_PUNCT)
            for _ in range(rng.choice([1, 2, 3, 4, 5, 6, 8, 9])):
                ops.append("key %d 0" % ord(ch))
            ops.append(rng.choice(["key %d 0" % XK["space"], "key %d 0" % ord(rng.choice("na")), "key %d 0" % XK["Escape"], "read_commit"]))
        elif r < 0.60:
            ops.append("key %d 0" % rng.choice([XK["space"], XK["Return"], XK["BackSpace"], XK["BackSpace"], XK["Escape"], XK["Down"], XK["Up"],
                                                XK["Next"], XK["Prior"], XK["Left"], XK["Right"], XK["Home"], XK["End"], XK["Delete"]]))
        elif r < 0.63:
            ops.append("key %d 0" % ord(rng.choice("1234567890")))
        elif r < 0.66:
            # the editor's and navigator's modified keys (syllable-wise deletion and moves, the other commit actions) and the
            # emacs-style bindings of the default key binder preset
            ops.append(rng.choice(["key %d 4" % XK["BackSpace"], "key %d 4" % XK["BackSpace"], "key %d 1" % XK["BackSpace"],
                                   "key %d 4" % XK["Delete"], "key %d 1" % XK["Delete"], "key %d 4" % XK["Left"], "key %d 4" % XK["Right"],
                                   "key %d 4" % XK["Return"], "key %d 1" % XK["Return"], "key %d 5" % XK["Return"],
                                   "key %d 4" % ord(rng.choice("aebfnpdhgkv")), "key %d 8" % ord(rng.choice("bfv"))]))
        elif r < 0.71:
            k = rng.choice([0xffe1, 0xffe2, 0xffe3, 0xffe5])      # Shift_L, Shift_R, Control_L, Caps_Lock taps
            ops += ["key %d 0" % k, "key %d %d" % (k, RELEASE)]
        elif r < 0.76:
            ops.append("option %s %d" % (rng.choice(["ascii_mode", "full_shape", "ascii_punct", "zh_simp", "_linear"]), rng.randrange(2)))
        elif r < 0.82:
            ops.append(rng.choice(["select %d" % rng.choice([0, 1, 2, 5, 43]), "select_page %d" % rng.randrange(5),
                                   "highlight %d" % rng.choice([0, 1, 3, 7]), "highlight_page %d" % rng.randrange(5),
                                   "delete %d" % rng.randrange(3)]))
        elif r < 0.87:
            ops.append("page %s" % rng.choice("+-"))
        elif r < 0.91:
            ops.append("caret %d" % rng.choice([0, 1, 2, 3, 5, 99]))
        elif r < 0.94:
            ops += ["key 96 0"] + ["key %d 0" % ord(ch) for ch in rng.choice(["a", "ab", "dd", "e"])]     # ` = reverse lookup prefix
        elif r < 0.955:
            # input the recognizer tags `pinyin` / `cangjie` (the prefixes are upper case: set through the API): the second script
            # translator with the reverse lookup filter's comments, the table translator on the second dictionary
            ops.append("input %s" % hx(rng.choice(["P:ni", "P:hao;", "P:nihao", "P:zhongguo", "P:a", "C:a", "C:ab;", "C:dd", "P:", "C:;"])))
        elif r < 0.975:
            ops.append(rng.choice(["commit", "clear"]))
        else:
            ops.append("read_commit")
    return ops


def eval_impl(c, exe, ws, sid, ops, monitor, tag="st"):
    script, index = make_script([], [(sid, ops)])
    p = os.path.join(c.work, "%s.script" % tag)
    with open(p, "w") as f:
        f.write(script)
    rc, out = run_impl(exe, ws, p)
    impl = [l for l in out.splitlines() if l.startswith("ret=") or l.startswith("ids ") or l == "bad-op"]
    state, first = {}, None
    for i, (h, j, op) in enumerate(index):
        if i >= len(impl):
            break
        if j >= 0:
            why = monitor(state, op, parse_obs(impl[i]))
            if why:
                first = (j, op, why, impl[i])
                break
    return {"rc": rc, "first_viol": first, "log": out[-2500:] if rc else "", "n": len(impl)}


def stock_monitor_check(c, pid, monitor, histories, exe, ws, what_prop, sid="vs_full", monitor_no_input=False):
    """histories on the stock-component schema, implementation only: every observation goes through `monitor`."""
    st = {"stock_histories": 0, "stock_ops": 0, "stock_composing": 0, "stock_menus": 0, "stock_violations": 0, "stock_crashes": 0,
          "stock_op_kinds": {}}
    for k, ops in enumerate(histories):
        script, index = make_script([], [(sid, ops)])
        p = os.path.join(c.work, "stock%d.script" % k)
        with open(p, "w") as f:
            f.write(script)
        rc, out = run_impl(exe, ws, p)
        impl = [l for l in out.splitlines() if l.startswith("ret=") or l.startswith("ids ") or l == "bad-op"]
        st["stock_histories"] += 1
        state, bad = {}, None
        for i, (h, j, op) in enumerate(index):
            if i >= len(impl):
                break
            if j < 0:
                continue
            o = parse_obs(impl[i])
            st["stock_ops"] += 1
            kd = op_kind(op)
            st["stock_op_kinds"][kd] = st["stock_op_kinds"].get(kd, 0) + 1
            st["stock_composing"] += o.get("composing") == "1"
            st["stock_menus"] += o.get("menu") not in (None, "~")
            why = monitor(state, op, o)
            if why and bad is None:
                bad = (j, why)
        if rc != 0:
            st["stock_crashes"] += 1
            if pid in CRASH_REPORTERS:
                cut = list(ops)[:len([1 for (h, j, op) in index[:len(impl) + 1] if j >= 0])]
                small = ddmin(cut, lambda t: eval_impl(c, exe, ws, sid, t, monitor)["rc"] != 0, budget=40)
                r = eval_impl(c, exe, ws, sid, small, monitor)
                m = re.search(r"#\d+ \S+ in (.+?) /\S*?/src/([\w/\.]+):(\d+)", r["log"] or out)
                frame = "%s@%s" % (m.group(1).split("(")[0].replace(" ", ""), m.group(2)) if m else "?"
                c.report("%s:crash:%s" % (pid, frame), "API history crashes / trips a sanitizer in %s on %s" % (frame, sid),
                         {"kind": "impl-violation", "schema": sid, "workspace": "stock-like (c01_common.make_full_workspace)", "table": [],
                          "ops": small, "log": (r["log"] or out)[-2500:]})
        if bad:
            st["stock_violations"] += 1
            j, clause = bad
            cut = list(ops)[:j + 1]
            small = ddmin(cut, lambda t: (lambda r: r["first_viol"] is not None and r["first_viol"][2] == clause)(
                eval_impl(c, exe, ws, sid, t, monitor)))
            r = eval_impl(c, exe, ws, sid, small, monitor)
            c.report("%s:stock:%s:%s" % (pid, op_kind(small[-1]), clause),
                     "%s violated (%s) after %d calls on the stock-component schema" % (what_prop, clause, len(small)),
                     {"kind": "impl-violation", "schema": sid, "workspace": "stock-like (c01_common.make_full_workspace / make_table_workspace)", "table": [],
                      "ops": small, "observation": r["first_viol"][3] if r["first_viol"] else None, "clause": clause},
                     no_input=monitor_no_input)
    return st


def report_crash(c, pid, exe, ws, rows, sid, ops, out, monitor):
    def crashes(t):
        return eval_history(c, exe, ws, rows, sid, t, monitor, "cr")["rc"] != 0
    small = ddmin(ops, crashes, budget=40) if crashes(ops) else ops
    r = eval_history(c, exe, ws, rows, sid, small, monitor, "cr")
    frame = "?"
    m = re.search(r"#\d+ \S+ in (.+?) /\S*?/src/([\w/\.]+):(\d+)", r["log"] or out)
    if m:
        frame = "%s@%s" % (m.group(1).split("(")[0].replace(" ", ""), m.group(2))
    c.report("%s:crash:%s" % (pid, frame), "API history crashes / trips a sanitizer in %s on %s" % (frame, sid),
             {"kind": "impl-violation", "schema": sid, "table": rows, "ops": small, "log": (r["log"] or out)[-2500:]})


def replay_history(c, r, monitor):
    exe = build()
    ws = make_workspace(os.path.join(c.work, "ws"), list(SCHEMAS))
    if "ops" not in r:
        print("replay: this file names a broken obligation, no concrete history:", r.get("what"))
        return 1
    if r.get("schema") == "vs_full":
        from checks import c01_common as c1
        fws = c1.make_full_workspace(os.path.join(c.work, "fws"), user_dict=False)
        res = eval_impl(c, exe, fws, "vs_full", r["ops"], monitor, "rp")
        print("rc=%d first_viol=%s" % (res["rc"], res["first_viol"]))
        return 1 if (res["rc"] != 0 or res["first_viol"]) else 0
    if r.get("schema") == "vs_cjfull":
        from checks import c01_common as c1
        tws = c1.make_table_workspace(os.path.join(c.work, "tws"))
        res = eval_impl(c, exe, tws, "vs_cjfull", r["ops"], monitor, "rp")
        print("rc=%d first_viol=%s" % (res["rc"], res["first_viol"]))
        return 1 if (res["rc"] != 0 or res["first_viol"]) else 0
    rows = [tuple(x) for x in r["table"]]
    res = eval_history(c, exe, ws, rows, r["schema"], r["ops"], monitor, "rp")
    for l in res["impl"][-3:]:
        print("impl :", l[:400])
    print("rc=%d first_viol=%s first_diff=%s" % (res["rc"], res["first_viol"], res["first_diff"]))
    return 1 if (res["rc"] != 0 or res["first_viol"] or res["first_diff"]) else 0


def corpus_histories():
    """regression corpus: corpus/session/*.script -> (sid, ops, rows)"""
    out = []
    d = os.path.join(vlib.CORPUS, "session")
    for f in sorted(os.listdir(d)) if os.path.isdir(d) else []:
        if not f.endswith(".script"):
            continue
        rows, ops, sid = [], [], None
        for l in open(os.path.join(d, f)):
            l = l.strip()
            if not l or l.startswith("#") or l.startswith("env "):
                continue
            w = l.split(" ")
            if w[0] == "table":
                rows.append(tuple(unhex(x).decode("utf-8", "surrogateescape") for x in w[1:5]))
            elif w[0] == "new":
                continue
            elif w[0] == "schema" and sid is None:
                sid = w[1]
            else:
                ops.append(l)
        out.append((sid or "vs_script", ops, rows, f))
    return out


def paging_grid(rows_for, hs, schemas=("vs_script", "vs_multi", "vs_table")):
    """directed boundary histories: a menu of exactly k candidates (k = 1 .. 2*page_size+2), the highlight moved to every
    row r of the first page by Down keys, then Page_Down / Page_Up / API paging — every (k, r) alignment of a short last page"""
    for sid in schemas:
        ps = SCHEMAS[sid]["pageSize"]
        for k in range(1, 2 * ps + 3):
            tid = "p_%s_%d" % (sid, k)
            rows_for[tid] = [("a", "T%d" % j, "", "") for j in range(k)]
            for r in range(0, ps):
                down = ["key %d 0" % XK["Down"]] * r
                hs.append((sid, ["key 97 0"] + down + ["key %d 0" % XK["Next"], "key %d 0" % XK["Next"], "key %d 0" % XK["Prior"],
                                                        "page +", "page +", "page -", "highlight_page %d" % r, "key %d 0" % XK["Next"]], tid))


def reopen_grid(rows_for, hs, schemas=("vs_script", "vs_fluid", "vs_multi")):
    """directed: a partial selection with a high index, then the segment is reopened over a shorter span (caret moved inside,
    or Escape) and translated again into a shorter menu: 'ab' has x candidates, 'a' has y, the j-th 'a' candidate (index x+j of
    the list for 'ab') is selected — every alignment of the old index with the last page of the new menu"""
    for sid in schemas:
        ps = SCHEMAS[sid]["pageSize"]
        for x in (1, 2):
            for y in range(1, 2 * ps + 2):
                tid = "r_%s_%d_%d" % (sid, x, y)
                rows_for[tid] = [("ab", "L%d" % k, "", "") for k in range(x)] + [("a", "S%d" % k, "", "") for k in range(y)]
                for j in range(y):
                    for mid in (["caret 1"], ["key %d 0" % XK["Escape"]], ["key %d 0" % XK["Left"]]):
                        hs.append((sid, ["key 97 0", "key 98 0", "select %d" % (x + j)] + mid +
                                   ["key %d 0" % XK["BackSpace"], "key %d 0" % XK["BackSpace"]], tid))


def caret_commit_grid(rows_for, hs, schemas=("vs_script", "vs_fluid", "vs_table", "vs_multi", "vs_punct", "vs_kb", "vs_ac")):
    """directed: the composition is committed — through the API, by Return, by space — while the caret is NOT at the end of
    the input (moved there by Left / Home / set_caret_pos, after a partial selection or not): what is delivered is the preview
    reported just before, and the input behind the caret is not composed afterwards"""
    rows = [("a", "A1", "", ""), ("a", "A2", "", ""), ("ab", "AB", "", ""), ("b", "B1", "", ""), ("abc", "ABC", "", ""), ("c", "C1", "", "")]
    for sid in schemas:
        tid = "cc_" + sid
        rows_for[tid] = rows
        for w in ("ab", "abc", "abca"):
            typed = ["key %d 0" % ord(ch) for ch in w]
            for mid in (["key %d 0" % XK["Left"]], ["key %d 0" % XK["Left"]] * 2, ["key %d 0" % XK["Home"]], ["caret 1"], ["caret 2"],
                        ["select 1", "caret 2"], ["key %d 0" % XK["Left"], "key 98 0"]):
                for fin in (["commit"], ["key %d 0" % XK["Return"]], ["key %d 0" % XK["space"]]):
                    hs.append((sid, typed + mid + fin + ["read_commit", "key 99 0", "commit", "read_commit"], tid))


def earlier_match_grid(rows_for, hs, schemas=("vs_auto", "vs_autof")):
    """directed: auto_select without a code-length bound.  When a key leaves the input without candidates, the speller falls
    back to the previous segment's match (AutoSelectPreviousMatch) or shortens the input until an earlier match is found
    (FindEarlierMatch, recursive), committing (express) or confirming (fluid) it and going on with the rest.  Every input of
    3-4 letters over four small tables whose keys leave gaps."""
    import itertools
    tables = {"e1": [("ab", "P", "", "")], "e2": [("ab", "P", "", ""), ("c", "Q", "", ""), ("c", "R", "", "")],
              "e3": [("a", "S", "", ""), ("bc", "T", "", "")], "e4": [("ab", "P", "", ""), ("ab", "U", "", ""), ("ca", "V", "", ""), ("abca", "W", "", "")]}
    for sid in schemas:
        for tn, rows in tables.items():
            tid = "%s_%s" % (tn, sid)
            rows_for[tid] = rows
            for n in (3, 4):
                for w in itertools.product("abc", repeat=n):
                    hs.append((sid, ["key %d 0" % ord(ch) for ch in w] + ["key %d 0" % XK["space"], "read_commit"], tid))


def prev_match_punct_grid(rows_for, hs, schemas=("vs_autop", "vs_autopx")):
    """directed: auto_select without a code-length bound beside the punctuator.  Every word of 2-3 keys over {a, b, c, /, ;, comma}
    on two tables (`a`, `c` without candidates / `ab` only): a punctuation segment with alternatives stays open with a menu, so
    the letter after it sends AutoSelectPreviousMatch down its reuse branch with a saved segment that was NOT extended in place."""
    import itertools
    tables = {"q1": [("b", "吧", "", "")], "q2": [("ab", "P", "", ""), ("ab", "U", "", "")]}
    keys = [97, 98, 99, 47, 59, 44]
    for sid in schemas:
        for tn, rows in tables.items():
            tid = "%s_%s" % (tn, sid)
            rows_for[tid] = rows
            for n in (2, 3):
                for w in itertools.product(keys, repeat=n):
                    if not any(k in (47, 59) for k in w[:-1]):
                        continue
                    hs.append((sid, ["key %d 0" % k for k in w] + ["commit", "read_commit"], tid))


def punct_grid(rows_for, hs):
    """directed: on each schema with a punctuator, in each shape, every punctuation key pressed 1..n+2 times in a row (n = the
    number of alternatives: a list wraps around, a pair alternates, a scalar / {commit} is delivered each time) — alone, after a
    letter (the punctuation segment follows an abc segment), and with a Page_Down between the presses (the index the next press
    starts from is on another page); then a pair interleaved with the other pair and with a shape switch (oddness is per
    definition); then the key with ascii_punct on.  Ends with space + read so that whatever is pending is delivered."""
    rows = [("a", "啊", "", ""), ("a", "阿", "c", ""), ("ab", "阿爸", "", ""), ("b", "吧", "", "")]
    for sid, s in SCHEMAS.items():
        P = s.get("punct")
        if not P:
            continue
        tid = "pg_" + sid
        rows_for[tid] = rows
        end = ["key %d 0" % XK["space"], "key %d 0" % XK["Return"], "read_commit"]
        for shape in ("half", "full"):
            pre = ["option full_shape 1"] if shape == "full" else []
            for ch, d in P[shape].items():
                n = len(d) if isinstance(d, list) else 2 if isinstance(d, dict) and "pair" in d else 1
                key = "key %d 0" % ord(ch)
                hs.append((sid, pre + [key] * (n + 2) + end, tid))
                hs.append((sid, pre + ["key 97 0"] + [key] * (n + 1) + end, tid))
                if isinstance(d, list):
                    hs.append((sid, pre + [key, "key %d 0" % XK["Next"], key, key, "key %d 0" % XK["Next"], key, "page +", key] + end, tid))
                    hs.append((sid, pre + [key, key, "key 97 0", "key %d 0" % XK["BackSpace"], key, "key %d 0" % XK["Left"], key] + end, tid))
                if isinstance(d, list):
                    # an option changes while the k-th alternative is highlighted: the segment is translated again in the
                    # other shape, whose list for this key may be shorter (the index must not survive the new menu)
                    for k in range(1, n + 1):
                        hs.append((sid, pre + [key] * k + ["option full_shape %d" % (shape == "half"), "option foo 1",
                                                           "option full_shape %d" % (shape == "full")] + end, tid))
            pairs = [ch for ch, d in P[shape].items() if isinstance(d, dict) and "pair" in d]
            if pairs:
                a, b = ord(pairs[0]), ord(pairs[-1])
                hs.append((sid, pre + ["key %d 0" % a, "key %d 0" % b, "key %d 0" % a, "option full_shape %d" % (shape == "half"),
                                       "key %d 0" % a, "key %d 0" % a, "option full_shape %d" % (shape == "full"), "key %d 0" % a,
                                       "key %d 0" % b, "key 97 0", "key %d 0" % a] + end, tid))
        for ch in P["half"]:
            hs.append((sid, ["option ascii_punct 1", "key %d 0" % ord(ch), "key 97 0", "key %d 0" % ord(ch), "key %d 0" % ord(ch)] + end +
                       ["option ascii_punct 0", "key %d 0" % ord(ch)] + end, tid))


def kb_grid(rows_for, hs, rng=None):
    """directed: on each schema with a key binder, every bound key in every state (idle, composing without a menu, menu open,
    after paging forward, after paging forward and back, caret inside, after a selection, a punctuation segment with
    alternatives), followed by the same key again and by keys that show what happened; then the period / comma / letter sequences
    of ReinterpretPagingKey; then each option binding pressed four times in a row (toggles flip back, radio groups cycle).
    With `rng` (quick tier): per key a seeded sample of 4 of the states, per ordered pair of group bindings one in three."""
    rows = [("a", "啊", "", ""), ("a", "阿", "c", ""), ("a", "呵", "", ""), ("a", "吖", "", ""), ("a", "锕", "", ""), ("a", "嗄", "", ""), ("a", "腌", "", ""),
            ("ab", "阿爸", "", ""), ("b", "吧", "", ""), ("b", "把", "", ""), ("a.b", "点", "", ""), ("c", "从", "", "")]
    A, B = "key 97 0", "key 98 0"
    for sid, s in SCHEMAS.items():
        if not s.get("kb"):
            continue
        tid = "kg_" + sid
        rows_for[tid] = rows
        end = ["key %d 0" % XK["space"], "read_commit"]
        states = {"idle": [], "menu": [A], "menu2": [A, B], "paged": [A, "key %d 0" % XK["Next"]],
                  "paged_back": [A, "key %d 0" % XK["Next"], "key %d 0" % XK["Next"], "key %d 0" % XK["Prior"]],
                  "api_paged": [A, "page +"], "caret_inside": [A, B, A, "key %d 0" % XK["Left"]], "caret_home": [A, B, "key %d 0" % XK["Home"]],
                  "selected": [A, B, A, "select 1"], "no_menu": ["input 27"]}
        if s.get("punct"):
            states["punct_alt"] = ["key 47 0", "key 47 0"]
            states["full_idle"] = ["option full_shape 1"]
            states["full_menu"] = ["option full_shape 1", A]
            states["ascii_menu"] = ["option ascii_mode 1", A]
        for code, mask in kb_keys(s):
            key = "key %d %d" % (code, mask)
            sts = list(states.values()) if rng is None else rng.sample(list(states.values()), 4)
            for st in sts:
                hs.append((sid, st + [key, key, "key %d 0" % XK["Down"], key] + end, tid))
        dot, com = "key 46 0", "key 44 0"
        for seq in ([A, dot, B], [A, dot, dot, B], [A, dot, com, B], [A, com, dot, B], [A, dot, com, dot, B], [A, dot, "key 46 %d" % RELEASE, B],
                    [A, dot, "key 65505 0", B], [A, dot, "key 66 %d" % SHIFT, B], [A, dot, "key 122 0"], [A, dot, "clear", B], [A, dot, "clear", "input 61", B],
                    [A, dot, "key %d 0" % XK["Left"], B], [A, B, "key %d 0" % XK["Left"], dot, A], ["input 612e", "key %d 0" % XK["Home"], dot, B],
                    [A, dot, B, dot, A], [A, dot, "key %d 0" % XK["BackSpace"], B], [dot, A], [A, "key 61 0", B], [A, dot, "select 0", B],
                    ["input 612e", dot, B], [A, dot, "key %d %d" % (XK["Left"], RELEASE), B], [A, "key 109 4", dot, B]):
            hs.append((sid, seq + [A] + end, tid))
        for b in s["kb"]:
            if "send" in b or "send_sequence" in b:
                continue
            key = "key %d %d" % kev(b["accept"])
            for st in ([], [A], ["key 47 0"] if s.get("punct") else [A, B]):
                hs.append((sid, st + [key] * 4 + end, tid))
        # bindings of one radio group interleaved
        grp = ["key %d %d" % kev(b["accept"]) for b in s["kb"] if any(str(b.get(k, "")).startswith(("opt_", "@")) for k in ("toggle", "set_option", "unset_option"))]
        for i in range(len(grp)):
            for j in range(len(grp)):
                if rng is None or rng.randrange(3) == 0:
                    hs.append((sid, [grp[i], grp[j], grp[i], A, grp[j]] + end, tid))


def ac_grid(rows_for, hs, rng=None):
    """directed: on each schema with an ascii composer, every switch key tapped once and twice in every state (idle, composing,
    menu paged, partial selection, caret inside, ascii_mode already on through the API), followed by typing, editing and a
    commit; the key held across another key / another switch key / its own press repeated; released after 700 ms (`sleep`: the
    500 ms window has passed) — one state per key; Caps_Lock pressed with the Lock bit clear / set, then letters with the Lock
    bit; the inline mode ended by each of Return, Escape, BackSpace to empty, commit, clear, selection, set_input empty."""
    rows = [("a", "啊", "", ""), ("a", "阿", "c", ""), ("a", "呵", "", ""), ("a", "吖", "", ""), ("ab", "阿爸", "", ""), ("b", "吧", "", ""), ("b", "把", "", "")]
    A, B = "key 97 0", "key 98 0"
    for sid, s in SCHEMAS.items():
        if not s.get("ascii"):
            continue
        tid = "ag_" + sid
        rows_for[tid] = rows
        end = [A, "key 49 0", "key %d 0" % XK["space"], "read_commit"]
        states = {"idle": [], "menu": [A], "menu2": [A, B], "paged": [A, "key %d 0" % XK["Next"]], "partial": [A, B, A, "select 1"],
                  "caret_inside": [A, B, "key %d 0" % XK["Left"]], "ascii_on": ["option ascii_mode 1"], "ascii_on_composing": [A, "option ascii_mode 1", B]}
        pick = rng.randrange(4) if rng is not None else None
        for n, k in enumerate(AC_KEYS):
            code = KEYNAMES[k]
            for sn, st in states.items():
                if rng is not None and rng.randrange(2):
                    continue
                hs.append((sid, st + ac_tap(k) + end, tid))
                hs.append((sid, st + ac_tap(k) + [B] + ac_tap(k) + end, tid))
                hs.append((sid, st + ["key %d 0" % code, A, "key %d %d" % (code, RELEASE)] + end, tid))
            if rng is None or n == pick:      # the harness really sleeps: one per schema in the quick tier
                st = list(states.values())[n % len(states)]
                hs.append((sid, st + ["key %d 0" % code, "sleep 700", "key %d %d" % (code, RELEASE)] + end, tid))
            hs.append((sid, [A, "key %d 0" % code, "key %d 0" % code, "key %d 0" % KEYNAMES["Control_L"], "key %d %d" % (code, RELEASE)] + end, tid))
            hs.append((sid, [A, "key %d 0" % code, "key %d %d" % (KEYNAMES["Control_R"], RELEASE | CONTROL), "key %d %d" % (code, RELEASE)] + end, tid))
        CL = KEYNAMES["Caps_Lock"]
        for st in ([], [A], ["option ascii_mode 1"], ac_tap("Shift_L"), [A] + ac_tap("Shift_R")):
            for lock in (0, LOCK):
                hs.append((sid, st + ["key %d %d" % (CL, lock), "key %d %d" % (CL, RELEASE | (LOCK - lock)), "key 97 %d" % (LOCK - lock), "key 66 %d" % ((LOCK - lock) | SHIFT),
                                      "key 49 %d" % (LOCK - lock), "key 97 %d" % ((LOCK - lock) | RELEASE), "key %d %d" % (CL, LOCK - lock), B] + end, tid))
        for k in ("Shift_L", "Shift_R", "Eisu_toggle"):
            for fin in (["key %d 0" % XK["Return"]], ["key %d 0" % XK["Escape"]], ["key %d 0" % XK["BackSpace"]] * 3, ["commit"], ["clear"], ["select 0"],
                        ["input -"], ["key %d 0" % XK["space"]], ac_tap(k), ["option ascii_mode 0"], ["key %d 0" % XK["Left"], "key %d 0" % XK["Delete"], "key %d 0" % XK["BackSpace"]]):
                hs.append((sid, [A] + ac_tap(k) + [B, "key 49 0"] + fin + end, tid))


def standard_histories(c, n_hist, n_ops, profile="mixed", schemas=None):
    """corpus first, then directed boundary grids, then seeded generation; returns (histories, rows_for)"""
    rows_for, hs = {}, []
    for k, (sid, ops, rows, f) in enumerate(corpus_histories()):
        rows_for["c%d" % k] = rows
        hs.append((sid, ops, "c%d" % k))
    paging_grid(rows_for, hs)
    reopen_grid(rows_for, hs)
    earlier_match_grid(rows_for, hs)
    caret_commit_grid(rows_for, hs)
    punct_grid(rows_for, hs)
    prev_match_punct_grid(rows_for, hs)
    kb_grid(rows_for, hs, c.rng if c.tier == "quick" else None)
    ac_grid(rows_for, hs, c.rng if c.tier == "quick" else None)
    rec_grid(rows_for, hs, c.rng if c.tier == "quick" else None)
    schemas = schemas or list(SCHEMAS)
    for t in range(max(1, n_hist // 8)):
        for sid in schemas:
            tid = "g%d_%s" % (t, sid)
            rows_for[tid] = gen_table(c.rng, SCHEMAS[sid]["alphabet"]) + rec_rows(c.rng, SCHEMAS[sid])
    tids = [t for t in rows_for if t.startswith("g")]
    for i in range(n_hist):
        tid = tids[i % len(tids)]
        sid = tid.split("_", 1)[1]
        hs.append((sid, gen_history(c.rng, sid, SCHEMAS[sid], n_ops, profile), tid))
    return hs, rows_for


# ------------------------------------------------------------------ recognizer + matcher + affix_segmentor + ascii_segmentor
# The family is inside the session model (Session/Recog.lean, RecogCompose.lean; driver: composeR).  Regular expressions are
# not modelled: a pattern is written here as a list of items (byte set, quantifier) with optional anchors — the class of
# lean/RimeModel/Session/RecogPattern.lean — from which BOTH the regex string librime compiles and the description the
# driver parses are generated.  A set is a list of (lo, hi) character pairs; quantifiers 1 ? * +.
REC_QUANT = {"1": "o", "?": "q", "*": "s", "+": "p"}
_RE_SPECIAL = ".[{}()\\*+?|^$/"


def _pset(spec):
    """'a-c0-9;' -> [('a','c'),('0','9'),(';',';')]"""
    out, i = [], 0
    while i < len(spec):
        if i + 2 < len(spec) and spec[i + 1] == "-":
            out.append((spec[i], spec[i + 2]))
            i += 3
        else:
            out.append((spec[i], spec[i]))
            i += 1
    return out


def rec_regex(p):
    """the regular expression of a pattern of the class, as written in the schema"""
    r = "^" if p.get("start", True) else ""
    for spec, q in p["items"]:
        ps = _pset(spec)
        if len(ps) == 1 and ps[0][0] == ps[0][1]:
            ch = ps[0][0]
            r += ("\\" + ch) if ch in _RE_SPECIAL and ch != "/" else ch
        else:
            r += "[" + "".join(a if a == b else a + "-" + b for a, b in ps) + "]"
        r += "" if q == "1" else q
    return r + ("$" if p.get("end", True) else "")


def _rec_pattern_env(p):
    items = ",".join(REC_QUANT[q] + "".join("%02x%02x" % (ord(a), ord(b)) for a, b in _pset(spec)) for spec, q in p["items"])
    return "%s/%s%s/%s" % (hx(p["name"]), "S" if p.get("start", True) else "U", "E" if p.get("end", True) else "N", items)


SEGMENTOR_ENV = {"ascii_segmentor": "ascii", "matcher": "matcher", "abc_segmentor": "abc", "punct_segmentor": "punct",
                 "fallback_segmentor": "fallback"}


def _rec_env(s):
    """segmentors=<ascii|matcher|abc|punct|fallback|affix.<i>>,…  affix=<tag>/<prefix>/<suffix>/<tips>/<closing tips>/<extra,…>;…
    rec=<name>/<S|U><E|N>/<q><lo hi…>,…;…  recUseSpace=0|1  vtTags=<tag>,…      (names and texts in hex, - = empty)"""
    if not s.get("segmentors"):
        return ""
    names = list(s.get("affix", {}))
    segs = [SEGMENTOR_ENV[n] if n in SEGMENTOR_ENV else "affix.%d" % names.index(n.split("@", 1)[1]) for n in s["segmentors"]]
    aff = ["/".join([hx(a.get("tag", "abc")), hx(a.get("prefix", "")), hx(a.get("suffix", "")), hx(a.get("tips", "")),
                     hx(a.get("closing_tips", "")), ",".join(hx(t) for t in sorted(a.get("extra_tags", []))) or "-"])
           for a in s.get("affix", {}).values()]
    R = s.get("rec", {})
    return " segmentors=%s affix=%s rec=%s recUseSpace=%d vtTags=%s" % (
        ",".join(segs), ";".join(aff) or "-", ";".join(_rec_pattern_env(p) for p in R.get("patterns", [])) or "-",
        R.get("use_space", 0), ",".join(hx(t) for _, t in s.get("vt", [(None, "abc")])))


def _rec_engine_yaml(s):
    y = ["  segmentors:"] + ["    - %s" % n for n in s["segmentors"]] + ["  translators:"]
    if s.get("punct"):
        y.append("    - punct_translator")
    return y + ["    - vt_translator" + ("@" + n if n else "") for n, _ in s.get("vt", [(None, "abc")])]


def _rec_sections_yaml(s):
    y = []
    R = s.get("rec")
    if R:
        y += ["recognizer:"] + (["  use_space: true"] if R.get("use_space") else []) + ["  patterns:"]
        y += ["    %s: %s" % (p["name"], _yq(rec_regex(p))) for p in R["patterns"]]
    sections = {}
    for n, a in s.get("affix", {}).items():
        sec = sections.setdefault(n, [])
        for k in ("tag", "prefix", "suffix", "tips", "closing_tips"):
            if k in a:
                sec.append("  %s: %s" % (k, _yq(a[k])))
        if a.get("extra_tags"):
            sec.append("  extra_tags: [%s]" % ", ".join(a["extra_tags"]))
    for n, t in s.get("vt", []):
        if n and not any(l.startswith("  tag:") for l in sections.setdefault(n, [])):
            sections[n].append("  tag: %s" % t)
    for n, sec in sections.items():
        y += ["%s:" % n] + sec
    return y


REC_SCHEMAS = {
    # stock order of the segmentors (ascii, matcher, abc, affix, fallback); the recognizer BEFORE the speller.  Patterns (std::map
    # order num < rev < up): `rev` is luna_pinyin's reverse lookup pattern — not anchored at the start — whose tag the affix
    # segmentor splits into prefix "`" / code / suffix "'" (the suffix is also the speller's delimiter) with tips, closing tips
    # and an extra tag; `up` a prefix letter outside the alphabet with its own translator; `num` digits with `+` and an optional
    # `;`: only when the whole active input (from the confirmed position) is digits — digits are the selector's keys otherwise
    "vs_rec": dict(procs=["recognizer", "speller", "selector", "navigator", "express_editor"], alphabet="abc", delimiters="'",
                   pageSize=3, uniq=1,
                   segmentors=["ascii_segmentor", "matcher", "abc_segmentor", "affix_segmentor@rev", "fallback_segmentor"],
                   vt=[(None, "abc"), ("up", "up"), ("rev", "rev")],
                   affix={"rev": dict(tag="rev", prefix="`", suffix="'", tips="〔反查〕", closing_tips="〔完〕", extra_tags=["xtra"])},
                   rec=dict(patterns=[dict(name="rev", start=False, items=[("`", "1"), ("a-c", "*"), ("'", "?")]),
                                      dict(name="up", items=[("U", "1"), ("a-c", "*")]),
                                      dict(name="num", items=[("0-9", "+"), (";", "?")])]),
                   recKeys=["U", "Ua", "Uab", "Ub", "Uabc", "1", "12"],
                   recWords=["`", "`a", "`ab", "`ab'", "`'", "`abc'", "a`b", "ab`", "ab`c'", "U", "Ua", "Uab", "aUb", "UU", "Ua'", "1", "12;", "a1", "1a",
                             "`a`b", "`a'b", "''", "`1"]),
    # the recognizer AFTER the speller (the speller takes the letters first; the recognizer sees only what the speller
    # declines), fluid editor, punctuation components in the middle of the segmentor list, no ascii segmentor.  An affix
    # segmentor on the DEFAULT tag `abc` (prefix `d`, suffix `;`, both letters of the alphabet, tips only); `sym` — the stock
    # `punct` pattern's shape: `/` alone is the punctuator's (a list of alternatives), `/` + letters is the recognizer's and
    # replaces the punctuation segment; spaces inside it (use_space); `eq` anchored only at the start (`=` + letters + anything)
    "vs_recf": dict(procs=["speller", "recognizer", "punctuator", "selector", "navigator", "fluid_editor"], alphabet="abcd;", initials="abcd",
                    delimiters="'", pageSize=2, uniq=0,
                    segmentors=["matcher", "abc_segmentor", "affix_segmentor@dd", "punct_segmentor", "fallback_segmentor"],
                    vt=[(None, "abc"), ("sym", "sym")],
                    affix={"dd": dict(prefix="d", suffix=";", tips="[D]")},
                    punct=dict(use_space=0, half={",": "，", ".": {"commit": "。"}, "/": ["、", "／", "/"], "=": ["＝", "="]},
                               full={",": "，", ".": {"commit": "．"}, "/": ["／", "÷"], "=": "＝"}),
                    rec=dict(use_space=1, patterns=[dict(name="sym", items=[("/", "1"), ("a-d ", "+")]),
                                                    dict(name="eq", end=False, items=[("=", "1"), ("a-b", "+")])]),
                    recKeys=["/a", "/ab", "/a b", "/b", "=a", "=ab"],
                    recWords=["d", "da", "dab", "dab;", "d;", "dd", "dd;", "ad", "ad;", "a;", "d;a", "/", "/a", "/ab", "/a b", "a/b", "//a", "/a/",
                              "=", "=a", "=ab", "=a,", "=ac", "a=b", "da/b", "d,"]),
    # the stock processor order (ascii_composer, recognizer, key_binder, speller, punctuator, …) with the ascii segmentor first:
    # ascii_mode switched by Shift taps, by a binding and through the API while a recognized / affixed composition is open
    "vs_reca": dict(procs=["ascii_composer", "recognizer", "key_binder", "speller", "punctuator", "selector", "navigator", "express_editor"],
                    alphabet="abc", delimiters="'", pageSize=3, uniq=1,
                    segmentors=["ascii_segmentor", "matcher", "abc_segmentor", "affix_segmentor@rev", "punct_segmentor", "fallback_segmentor"],
                    vt=[(None, "abc"), ("rev", "rev")],
                    affix={"rev": dict(tag="rev", prefix="`", suffix="'", tips="〔反查〕")},
                    punct=dict(use_space=0, half={",": "，", ".": {"commit": "。"}, "/": ["、", "／", "/"]}, full={",": "，", ".": {"commit": "．"}, "/": ["／", "÷"]}),
                    rec=dict(patterns=[dict(name="rev", start=False, items=[("`", "1"), ("a-c", "*"), ("'", "?")]),
                                       dict(name="up", items=[("A-Z", "1"), ("a-c", "*")])]),
                    ascii=dict(good_old_caps_lock=1, switch_key={"Shift_L": "inline_ascii", "Shift_R": "commit_text", "Control_L": "commit_code",
                                                                 "Control_R": "clear", "Caps_Lock": "clear", "Eisu_toggle": "clear"}),
                    switches=[dict(name="ascii_mode", reset=0)],
                    kb=[dict(when="always", accept="Control+Shift+2", toggle="ascii_mode"), dict(when="composing", accept="Control+g", send="Escape"),
                        dict(when="has_menu", accept="period", send="Page_Down"), dict(when="composing", accept="Tab", send="Shift+Right"),
                        dict(when="always", accept="Control+m", send_sequence="`ab"), dict(when="composing", accept="Control+k", send_sequence="{BackSpace}{BackSpace}")],
                    recKeys=[],
                    recWords=["`", "`a", "`ab'", "`'", "a`b", "U", "Ua", "Zab", "aUb", "`a,"]),
}
SCHEMAS.update(REC_SCHEMAS)


def rec_rows(rng, s):
    """table rows for the keys the tagged translators of a recognizer schema are asked about (the prefix is part of the segment)"""
    rows = []
    for k in s.get("recKeys", []):
        for _ in range(rng.choice([1, 2, 3, 4])):
            rows.append((k, rng.choice(TEXTS[:-1]), rng.choice(["", "", "c"]), rng.choice(["", "", k.upper(), k[:1] + "\t" + k[1:]])))
    return rows


def _rec_chars(s):
    """the characters the patterns and affixes of the schema are made of, beyond the alphabet"""
    cs = set()
    for p in s.get("rec", {}).get("patterns", []):
        for spec, _ in p["items"]:
            for a, b in _pset(spec):
                cs.update([a, b])
    for a in s.get("affix", {}).values():
        cs.update(a.get("prefix", "") + a.get("suffix", ""))
    return sorted(cs)


def _keys_of(w):
    return ["key %d 0" % ord(ch) for ch in w]


def gen_rec_ops(rng, s):
    """ops for a schema of the recognizer family: a word around a pattern / affix (typed key by key or set through the API,
    sometimes with one character changed), then what moves across its boundaries: BackSpace over the suffix / code / prefix,
    Left / Home / set_caret_pos into the prefix and typing there, selection inside the code segment (whole and partial) and
    typing on, ascii_mode switched on and off in the middle, commit by every route; set_input with line separators around a
    pattern text (Boost's `^` / `$` hold at embedded line breaks)"""
    alpha = s["alphabet"]
    chars = _rec_chars(s)
    w = rng.choice(s["recWords"])
    if rng.random() < 0.3:
        i = rng.randrange(len(w) + 1)
        w = w[:i] + rng.choice(chars + list(alpha)) + w[i + (rng.random() < 0.5):]
    r = rng.random()
    if r < 0.22:
        sep = rng.choice(["", "", "\n", "\r\n", "\r", "\f", "\n\n"])
        pre = rng.choice(["", "", "a", "ab", "U", "`"])
        out = ["input %s" % hx((pre + sep + w + rng.choice(["", "", sep])).encode())]
    else:
        out = _keys_of(w)
        if rng.random() < 0.15:
            out.insert(rng.randrange(len(out) + 1), rng.choice(["option ascii_mode 1", "option ascii_mode 0", "key %d 0" % XK["Left"], "select 0"]))
    follow = [[], ["key %d 0" % XK["BackSpace"]] * rng.choice([1, 1, 2, 3]), ["key %d 0" % XK["Left"]] * rng.choice([1, 2, 3]) + _keys_of(rng.choice(chars + list(alpha))),
              ["key %d 0" % XK["Home"]] + _keys_of(rng.choice(chars + list(alpha))), ["caret %d" % rng.randrange(5)], ["caret %d" % rng.randrange(3), "key %d 0" % XK["BackSpace"]],
              ["caret %d" % rng.randrange(3), "key %d 0" % XK["Delete"]], ["select %d" % rng.choice([0, 0, 1, 2])] + _keys_of(rng.choice(chars + list(alpha))),
              ["select_page %d" % rng.choice([0, 1])], ["key %d 0" % XK["space"]], ["key %d 0" % XK["Return"]], ["commit", "read_commit"],
              ["option ascii_mode 1"] + _keys_of(rng.choice(chars + list(alpha))) + ["option ascii_mode 0"], ["option ascii_mode 1", "key %d 0" % XK["BackSpace"], "option ascii_mode 0"],
              ["key %d 0" % XK["Escape"]], ["key %d 0" % XK["Down"], "key %d 0" % XK["space"]], ["key %d %d" % (ord(rng.choice(chars)), rng.choice([SHIFT, LOCK, CONTROL, RELEASE]))],
              ["key 127 0"], ["key 32 0"], _keys_of(rng.choice(s["recWords"])), ["key %d 0" % XK["Left"], "select 0"], ["highlight 1", "key %d 0" % XK["BackSpace"]],
              ["page +", "key %d 0" % ord(rng.choice(chars))], ["key 49 0"], ["key %d %d" % (XK["Left"], CONTROL)], ["key %d %d" % (XK["BackSpace"], CONTROL)]]
    for _ in range(rng.choice([1, 1, 2, 3])):
        out += rng.choice(follow)
    return out


def rec_grid(rows_for, hs, rng=None):
    """directed: on each schema of the recognizer family, every word of its list (prefix alone, prefix + code, with the suffix,
    prefix + suffix without code, the pattern character in the middle of letters, twice, followed by something the pattern does
    not allow) typed key by key and, separately, set through the API — followed by each boundary move: BackSpace down to nothing,
    the caret at every position (then a letter / BackSpace), a whole and a partial selection followed by more input, ascii_mode
    on / off with the composition open, commit through the API / Return / space.  With `rng` (quick tier): a seeded third of it."""
    for sid, s in SCHEMAS.items():
        if not s.get("segmentors"):
            continue
        tid = "rg_" + sid
        rows = [("a", "啊", "", ""), ("a", "阿", "c", ""), ("ab", "阿爸", "", ""), ("b", "吧", "", ""), ("b", "把", "", ""), ("abc", "ABC", "", ""), ("c", "从", "", ""),
                ("d", "的", "", ""), ("da", "大", "", "")]
        for k in s.get("recKeys", []):
            rows += [(k, "<%s>" % k, "", ""), (k, "«%s»" % k[:1], "c", "")]
        rows_for[tid] = rows
        letter = "key %d 0" % ord(s["alphabet"][0])
        end = ["key %d 0" % XK["space"], "read_commit"]
        for w in s["recWords"]:
            typed = _keys_of(w)
            n = len(w)
            variants = [[], ["key %d 0" % XK["BackSpace"]] * (n + 1), ["select 0", letter], ["select 1", letter, "key %d 0" % XK["BackSpace"], "key %d 0" % XK["BackSpace"]],
                        ["option ascii_mode 1", letter, "option ascii_mode 0", letter], ["commit", "read_commit"], ["key %d 0" % XK["Return"], "read_commit"],
                        ["key %d 0" % XK["Home"], letter], ["key %d 0" % XK["Escape"], letter]]
            for k in range(n + 1):
                variants.append(["caret %d" % k, letter])
                variants.append(["caret %d" % k, "key %d 0" % XK["BackSpace"]])
            for v in variants:
                if rng is not None and rng.randrange(3):
                    continue
                hs.append((sid, typed + v + end, tid))
                if rng is None or rng.randrange(2):
                    hs.append((sid, ["input %s" % hx(w)] + v + end, tid))
        for w in ("Uab\n", "ab\nUab", "ab\r\nUa", "ab\rUa", "\nUa", "Ua\n\n", "`a\n`b", "a\f/a", "/a\n", "=a\nb"):
            hs.append((sid, ["input %s" % hx(w.encode()), "caret 2", letter] + end, tid))
