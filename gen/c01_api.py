#!/usr/bin/env python3
"""Translator for C01: the guard table of the API entry points and the get/free ownership pairs of
src/rime_api_impl.h, regenerated from the working tree.

For every function with a RimeSessionId or a pointer-to-struct parameter it walks the body in source order
(an `if (cond) return …;` is an early-return guard for every `!v` disjunct of cond; an `if (v …) {…}` is a
positive guard for the uses of v inside its statement/block — those uses are dropped as locally safe) and
emits, per function, the ordered events `check v` / `use v` for v in {pointer struct parameters, `session`,
`ctx`}.  Anything it cannot parse is emitted as `use "<unparsed>"` (fails closed).
For the get/free pairs it extracts the field paths assigned `new …` and the paths passed to `delete[]`.
"""
import os, re, sys, json
sys.path.insert(0, os.path.dirname(os.path.abspath(__file__)))
from genlib import *

FILE = "src/rime_api_impl.h"
LOCAL_DECLS = [(re.compile(r"an<Session> (\w+)\("), "session"), (re.compile(r"Context ?\* ?(\w+) ?="), "ctx")]


def params_of(ptxt):
    """pointer-to-struct parameters (not const char*, not char* buffers, not function pointers)"""
    out = []
    p = re.sub(r"RIME_FLAVORED\((\w+)\)", r"\1", re.sub(r"\s+", " ", ptxt))
    for part in p.split(","):
        m = re.match(r"^ ?(?:const )?(\w+) ?\* ?(\w+) ?$", part)
        if m and m.group(1) not in ("char", "void"):
            out.append(m.group(2))
    return out


class Walker:
    def __init__(self, tracked):
        self.tracked = set(tracked)
        self.events = []
        self.checked = set()        # early-return checked (permanent)
        self.pending_checks = []
        self.cond_added = []

    def uses_in(self, text, known):
        # `v->` / `v[` / `(*v)` / `*v` (a declaration `T* v` or `T *v` is not a use: the `*` follows a type name)
        for m in re.finditer(r"(?<![\w.>])(\w+)\)?(->|\[)|(?<![\w>)\]]) ?\* ?(\w+)\b(?!\s*\()", text):
            v = m.group(1) or m.group(3)
            if m.group(3):
                before = text[:m.start()].rstrip()
                if before and (before[-1].isalnum() or before[-1] in "_>)"):
                    continue
            if v in self.tracked and v not in known:
                self.events.append(("use", v))   # `known` holds positively guarded vars only; early-return checks are events

    def cond_events(self, cond, known):
        """left-to-right over a condition; returns (negated vars, positive vars)"""
        neg, pos = [], []
        # split on || and && keeping order
        parts = re.split(r"(\|\||&&)", cond)
        local_known = set(known)
        op_before = None
        for part in parts:
            if part in ("||", "&&"):
                op_before = part
                continue
            t = part.strip()
            m = re.fullmatch(r"! ?(\w+)", t)
            if m and m.group(1) in self.tracked:
                neg.append(m.group(1))
                # in `!a || a->x` the right operand is evaluated only when a is non-null
                self.pending_checks.append(m.group(1))
                if m.group(1) not in self.checked:
                    self.events.append(("check", m.group(1)))
                    self.cond_added.append(m.group(1))
                continue
            m = re.fullmatch(r"(\w+)", t) or re.fullmatch(r"RIME_PROVIDED\( ?(\w+) ?, ?\w+ ?\)", t)
            if m and m.group(1) in self.tracked:
                pos.append(m.group(1))
                local_known.add(m.group(1))
                continue
            self.uses_in(t, local_known)
        return neg, pos

    def stmt_or_block(self, src, i):
        """returns (text, next index) of the statement or block starting at/after i"""
        n = len(src)
        while i < n and src[i].isspace():
            i += 1
        if i < n and src[i] == "{":
            j = match_brace(src, i)
            return src[i:j + 1], j + 1
        # simple statement up to ';' at depth 0 (may itself be an if/for…: handled by recursion)
        depth, j = 0, i
        m = re.match(r"(if|for|while|switch) ?\(", src[i:])
        if m:
            k = match_brace(src, i + m.end() - 1, "(", ")")
            body, j2 = self.stmt_or_block(src, k + 1)
            # else branch
            mm = re.match(r"\s*else\b", src[j2:])
            if mm:
                body2, j3 = self.stmt_or_block(src, j2 + mm.end())
                return src[i:j3], j3
            return src[i:j2], j2
        while j < n:
            c = src[j]
            if c in "\"'":
                k = j + 1
                while k < n and src[k] != c:
                    k += 2 if src[k] == "\\" else 1
                j = k + 1
                continue
            if c in "({[":
                depth += 1
            elif c in ")}]":
                depth -= 1
            elif c == ";" and depth == 0:
                return src[i:j + 1], j + 1
            j += 1
        return src[i:], n

    def walk(self, src, known):
        """src: a block body (without the outer braces); known: set of vars known non-null (mutated by early returns)"""
        i, n = 0, len(src)
        while i < n:
            while i < n and src[i].isspace():
                i += 1
            if i >= n:
                break
            text, j = self.stmt_or_block(src, i)
            self.stmt(text, known)
            i = j

    def stmt(self, text, known):
        t = text.strip()
        if not t:
            return
        if t.startswith("{"):
            self.walk(t[1:match_brace(t, 0)], set(known) if False else known)
            return
        m = re.match(r"if ?\(", t)
        if m:
            k = match_brace(t, m.end() - 1, "(", ")")
            cond = t[m.end():k]
            self.cond_added = []
            mark = len(self.events)
            neg, pos = self.cond_events(re.sub(r"\s+", " ", cond), known)
            body, j = self.stmt_or_block(t, k + 1)
            rest = t[j:].strip()
            is_return = re.match(r"\{? ?return\b", body.strip()) is not None and body.count(";") == 1
            if is_return and neg and not pos:
                self.uses_in(body, known)
                self.checked |= set(neg)
            else:
                # not an early return: the `check` events emitted for `!v` disjuncts do not protect what follows
                added = list(self.cond_added)
                self.events[mark:] = [e for e in self.events[mark:] if not (e[0] == "check" and e[1] in added)]
                inner = set(known) | set(pos)
                self.stmt(body, inner)
            if rest.startswith("else"):
                self.stmt(rest[4:], set(known))
            return
        m = re.match(r"(for|while|switch) ?\(", t)
        if m:
            k = match_brace(t, m.end() - 1, "(", ")")
            self.uses_in(t[m.end():k], known)
            body, j = self.stmt_or_block(t, k + 1)
            self.stmt(body, set(known))
            return
        # declarations of tracked locals
        self.uses_in(t, known)


def field_path(expr, base):
    e = re.sub(r"\s+", "", expr)
    e = re.sub(r"\[[^\]]*\]", "[]", e)
    e = re.sub(r"^%s->" % re.escape(base), "", e)
    return e


def extract_pairs(funcs):
    byname = {f[0]: f for f in funcs}
    pairs = []
    helper_allocs = {}
    for name, params, body, line in funcs:
        if name == "rime_candidate_copy":
            helper_allocs[name] = [re.sub(r"^dest->", "", re.sub(r"\s+", "", m.group(1)))
                                   for m in re.finditer(r"(dest->\w+) ?= ?new\b", body)]
    spec = [("RimeGetContext", "RimeFreeContext", "context"), ("RimeGetCommit", "RimeFreeCommit", "commit"),
            ("RimeGetStatus", "RimeFreeStatus", "status"), ("RimeGetSchemaList", "RimeFreeSchemaList", None),
            ("RimeCandidateListNext", "RimeCandidateListEnd", "iterator")]
    for g, f, base in spec:
        if g not in byname or f not in byname:
            pairs.append({"get": g, "free": f, "alloc": ["<missing>"], "freed": [], "clears": False})
            continue
        gb, fb = byname[g][2], byname[f][2]
        gbase = base or "output"
        fbase = base or "schema_list"
        alloc = []
        aliases = {}
        for m in re.finditer(r"(\w+) ?& ?(\w+)\((\w+)->(\w+)\[", gb):          # RimeSchemaListItem& x(output->list[…])
            aliases[m.group(2)] = m.group(4) + "[]"
        for m in re.finditer(r"(\w+) ?\* ?(\w+) ?= ?&(\w+)->([\w.]+)\[", gb):   # RimeCandidate* dest = &context->menu.candidates[…]
            aliases[m.group(2)] = m.group(4) + "[]"
        for m in re.finditer(r"([\w>\-.\[\]+ ]+?) ?= ?new\b", gb):
            lhs = m.group(1).strip().split()[-1]
            mm = re.match(r"(\w+)\.(\w+)$", lhs)
            if mm and mm.group(1) in aliases:
                alloc.append(aliases[mm.group(1)] + "." + mm.group(2))
            else:
                alloc.append(field_path(lhs, gbase))
        for m in re.finditer(r"rime_candidate_copy\( ?&?([\w>\-.\[\]+ ]+?) ?,", gb):
            arg = m.group(1).strip()
            p = aliases.get(arg) or field_path(arg, gbase)
            alloc += [p + "." + a for a in helper_allocs.get("rime_candidate_copy", ["<helper?>"])]
        freed = [field_path(m.group(1), fbase) for m in re.finditer(r"delete\[\] ?([\w>\-.\[\]]+)", fb)]
        last_delete = max([m.end() for m in re.finditer(r"delete\[\]", fb)] or [0])
        tail = fb[last_delete:]
        clears = bool(re.search(r"RIME_STRUCT_CLEAR\( ?\* ?%s ?\)|memset\( ?%s ?, ?0" % (fbase, fbase), tail))
        if not clears:
            # field-wise clearing: every freed top-level pointer field is set to NULL afterwards
            tops = {p.split("[")[0].split(".")[0] for p in freed}
            clears = all(re.search(r"%s->%s ?= ?(NULL|nullptr|0)" % (fbase, t), tail) for t in tops) and bool(tops)
        pairs.append({"get": g, "free": f, "alloc": sorted(set(alloc)), "freed": freed, "clears": clears})
    return pairs


def main():
    repo, outp = sys.argv[1], sys.argv[2]
    src = open(os.path.join(repo, FILE)).read()
    funcs = list(functions(src))
    entries, n_session = [], 0
    for name, params, body, line in funcs:
        ptrs = params_of(params)
        has_session = "RimeSessionId" in params
        # scope of the property: API calls on a session, and the functions that free what those hand out
        if not has_session and name not in ("RimeFreeContext", "RimeFreeCommit", "RimeFreeStatus", "RimeFreeSchemaList",
                                            "RimeGetSchemaList", "RimeCandidateListNext", "RimeCandidateListEnd"):
            continue
        n_session += has_session
        tracked = set(ptrs)
        if re.search(r"an<Session> session\(", body):
            tracked.add("session")
        if re.search(r"Context ?\* ?ctx ?=", body):
            tracked.add("ctx")
        w = Walker(tracked)
        try:
            w.walk(body, set())
        except Exception as ex:  # fail closed
            w.events.append(("use", "<unparsed:%s>" % type(ex).__name__))
        entries.append({"fn": name, "line": line, "events": w.events})
    indep = len(re.findall(r"RimeSessionId\s+session_id", strip_cpp_comments(src)))
    if indep != n_session:
        entries.append({"fn": "<count-mismatch %d/%d>" % (n_session, indep), "line": 0, "events": [("use", "<unparsed>")]})
    pairs = extract_pairs(funcs)
    L = ["-- GENERATED by /verif/gen/c01_api.py from src/rime_api_impl.h — do not edit", "import RimeModel.C01.Model",
         "namespace RimeModel.C01.Gen", "open RimeModel.C01", "", "def apiEntries : List ApiEntry := ["]
    for i, e in enumerate(entries):
        evs = ", ".join(".%s \"%s\"" % (k, v) for k, v in e["events"])
        L.append("  { fn := \"%s\", events := [%s] }%s  -- line %d" % (e["fn"], evs, "," if i + 1 < len(entries) else "", e["line"]))
    L += ["]", "", "def freePairs : List FreePair := ["]
    for i, p in enumerate(pairs):
        L.append("  { getFn := \"%s\", freeFn := \"%s\", allocFields := [%s], freeFields := [%s], clears := %s }%s" % (
            p["get"], p["free"], ", ".join('"%s"' % a for a in p["alloc"]), ", ".join('"%s"' % a for a in p["freed"]),
            "true" if p["clears"] else "false", "," if i + 1 < len(pairs) else ""))
    L += ["]", "", "end RimeModel.C01.Gen", ""]
    changed = write_if_changed(outp, "\n".join(L))
    json.dump({"entries": len(entries), "session_functions": n_session, "independent_count": indep, "pairs": pairs,
               "unguarded": [e["fn"] for e in entries if not guarded(e["events"])], "changed": changed}, sys.stdout)


def guarded(events):
    known = set()
    for k, v in events:
        if k == "check":
            known.add(v)
        elif v not in known:
            return False
    return True


if __name__ == "__main__":
    main()
