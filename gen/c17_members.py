#!/usr/bin/env python3
"""Translator for C17 ("reads no uninitialised state"): extract every data member of
`UserDbMerger` and `UserDbImporter` from src/rime/dict/user_db.h and decide, from the declaration and
from the constructor in src/rime/dict/user_db.cc, how it gets its first value:

  default-member-initializer   `int x_ = 0;` / `int x_{0};` in the class
  ctor-init-list               `: x_(…)` of the constructor
  ctor-body                    a top-level `x_ = <expr>;` of the constructor body whose right-hand side
                               reads no member that is still unassigned at that point
  class-type                   the member's type has a default constructor (string, vector, an<>, …)
  none                         a scalar / pointer member none of the above applies to
  unknown                      a declaration or type this scanner does not understand (fails closed)

Outputs: a Lean table (`RimeModel/Gen/UserDbMembers.lean`), a C++ include the harness uses to probe the
very same members in a poisoned object, and a JSON summary on stdout.  An independent count of the
`name_;` declarations in the two class bodies is cross-checked; on disagreement an `unknown` row is added.
usage: c17_members.py <repo> <out.lean> [<out.inc>]
"""
import os, re, sys, json
sys.path.insert(0, os.path.dirname(os.path.abspath(__file__)))
from genlib import *

HDR = "src/rime/dict/user_db.h"
SRC = "src/rime/dict/user_db.cc"
CLASSES = ["UserDbMerger", "UserDbImporter"]

SCALAR = {"int", "unsigned", "unsigned int", "long", "unsigned long", "short", "char", "bool", "double", "float",
          "size_t", "TickCount", "uint64_t", "int64_t", "uint32_t", "int32_t", "uint16_t", "int16_t", "uint8_t",
          "int8_t", "time_t", "std::size_t", "ssize_t"}
CLASSY = re.compile(r"^(std::)?(string|path|vector<.*>|map<.*>|set<.*>|an<.*>|the<.*>|of<.*>|weak<.*>|list<.*>|"
                    r"unordered_map<.*>|unordered_set<.*>|function<.*>|shared_ptr<.*>|unique_ptr<.*>)$")


def class_body(src, cls):
    m = re.search(r"\bclass\s+%s\b[^;{]*\{" % re.escape(cls), src)
    if not m:
        return None
    o = m.end() - 1
    c = match_brace(src, o)
    return src[o + 1:c] if c > 0 else None


def top_statements(body):
    """statements of a class / function body at brace depth 0 (inline function bodies dropped)"""
    out, cur, depth, par = [], "", 0, 0
    for ch in body:
        if ch == "{" and par == 0:
            depth += 1
            cur += ch
        elif ch == "}" and par == 0:
            depth -= 1
            cur += ch
            if depth == 0 and "(" in cur.split("{")[0]:
                cur = ""     # an inline member function definition
        elif depth == 0 and ch == "(":
            par += 1
            cur += ch
        elif depth == 0 and ch == ")":
            par -= 1
            cur += ch
        elif ch == ";" and depth == 0 and par == 0:
            out.append(cur.strip())
            cur = ""
        else:
            cur += ch
    return [re.sub(r"\s+", " ", s) for s in out if s.strip()]


DECL = re.compile(r"^(?P<ty>[\w:<>,\s]+?(?:\s*[\*&])?)\s*(?P<name>\b\w+)\s*(?P<init>=.+|\{.*\})?$")


def members_of(body):
    rows, unknown = [], []
    for st in top_statements(body):
        st = re.sub(r"^(?:(?:public|protected|private)\s*:\s*)+", "", st).strip()
        if not st:
            continue
        head = re.split(r"[={]", st, 1)[0]
        if "(" in head or st.startswith(("using ", "typedef ", "friend ", "template", "enum ", "class ", "struct ")):
            continue                     # member function declaration / alias
        if st.startswith("static "):
            continue
        m = DECL.match(st)
        if not m:
            unknown.append(st)
            continue
        ty = re.sub(r"\s+", " ", m.group("ty")).replace("const ", "").replace("mutable ", "").strip()
        ty = re.sub(r"\s*([\*&])$", r"\1", ty)
        rows.append({"name": m.group("name"), "type": ty, "has_dmi": m.group("init") is not None})
    return rows, unknown


def ctor(src, cls):
    """(init-list member names, body text) of `cls::cls(...)`; None if absent"""
    m = re.search(r"\b%s::%s\s*\(" % (re.escape(cls), re.escape(cls)), src)
    if not m:
        return None
    pc = match_brace(src, m.end() - 1, "(", ")")
    k = pc + 1
    mm = re.match(r"\s*:(?!:)", src[k:])
    inits = []
    if mm:
        j, depth = k + mm.end(), 0
        start = j
        while j < len(src):
            ch = src[j]
            if ch in "({" and not (ch == "{" and depth == 0 and re.search(r"[)}]\s*$", src[start:j])):
                depth += 1
            elif ch in ")}":
                depth -= 1
            elif ch == "{" and depth == 0:
                break
            j += 1
        inits = re.findall(r"(\w+)\s*[\({]", src[start:j])
        bo = j
    else:
        mo = re.match(r"\s*\{", src[k:])
        if not mo:
            return None
        bo = k + mo.end() - 1
    bc = match_brace(src, bo)
    return inits, src[bo + 1:bc]


def analyse(repo):
    hdr = strip_cpp_comments(open(os.path.join(repo, HDR)).read())
    src = strip_cpp_comments(open(os.path.join(repo, SRC)).read())
    rows, indep = [], 0
    for cls in CLASSES:
        body = class_body(hdr, cls)
        if body is None:
            rows.append({"cls": cls, "name": "<class not found>", "type": "?", "how": "unknown", "initialised": False,
                         "read_in": []})
            continue
        indep += len(re.findall(r"\b\w+_\s*(?:=[^;()]*|\{[^;()]*\})?;", body))
        mem, unknown = members_of(body)
        for u in unknown:
            rows.append({"cls": cls, "name": "<unparsed: %s>" % u[:40].replace('"', "'"), "type": "?", "how": "unknown",
                         "initialised": False, "read_in": []})
        c = ctor(src, cls)
        inits, cbody = c if c else ([], "")
        names = [r["name"] for r in mem]
        assigned = set(n for n in inits if n in names)
        assigned |= set(r["name"] for r in mem if r["has_dmi"])
        body_assigned, read_early = set(), set()
        for st in top_statements(cbody):
            m = re.match(r"^(\w+) ?= ?(.+)$", st)
            rhs_reads = lambda text: [n for n in names if re.search(r"\b%s\b" % re.escape(n), text)]
            if m and m.group(1) in names and not re.match(r"^=", m.group(2)):
                for n in rhs_reads(m.group(2)):
                    if n not in assigned and n not in body_assigned:
                        read_early.add(n)
                body_assigned.add(m.group(1))
            else:
                for n in rhs_reads(st):
                    if n not in assigned and n not in body_assigned:
                        read_early.add(n)
        # methods that mention each member (for the report)
        meths = {}
        for fname, params, fbody, line in functions(src):
            if fname.startswith(cls + "::"):
                meths[fname] = fbody
        for r in mem:
            n, ty = r["name"], r["type"]
            scalar = ty.endswith("*") or ty in SCALAR
            classy = bool(CLASSY.match(ty))
            if r["has_dmi"]:
                how = "default-member-initializer"
            elif n in inits:
                how = "ctor-init-list"
            elif n in body_assigned and n not in read_early:
                how = "ctor-body"
            elif classy:
                how = "class-type"
            elif scalar:
                how = "none"
            else:
                how = "unknown"
            if c is None and how not in ("default-member-initializer", "class-type"):
                how = "unknown" if not scalar else "none"
            rows.append({"cls": cls, "name": n, "type": ty, "how": how, "initialised": how not in ("none", "unknown"),
                         "scalar": scalar,
                         "read_in": sorted(f for f, b in meths.items()
                                           if re.search(r"\b%s\b" % re.escape(n), b) and not f.endswith("::" + cls))})
    extracted = len([r for r in rows if not r["name"].startswith("<")])
    if extracted != indep:
        rows.append({"cls": "?", "name": "<member count mismatch: extracted %d, independent scan %d>" % (extracted, indep),
                     "type": "?", "how": "unknown", "initialised": False, "read_in": []})
    return rows, indep


def main():
    repo = sys.argv[1] if len(sys.argv) > 1 else "/repo"
    out = sys.argv[2]
    inc = sys.argv[3] if len(sys.argv) > 3 else None
    rows, indep = analyse(repo)
    L = ["-- GENERATED by /verif/gen/c17_members.py from %s, %s — do not edit" % (HDR, SRC),
         "namespace RimeModel.Gen.C17", "",
         "structure Member where", "  cls : String", "  name : String", "  ty : String", "  how : String",
         "  initialised : Bool", "  scalar : Bool", "",
         "/-- every data member of UserDbMerger / UserDbImporter and how it gets its first value -/",
         "def members : List Member := ["]
    for i, r in enumerate(rows):
        L.append('  { cls := "%s", name := "%s", ty := "%s", how := "%s", initialised := %s, scalar := %s }%s' % (
            r["cls"], r["name"], r["type"], r["how"], "true" if r["initialised"] else "false",
            "true" if r.get("scalar") else "false",
            "," if i + 1 < len(rows) else ""))
    L += ["]", "", "end RimeModel.Gen.C17", ""]
    changed = write_if_changed(out, "\n".join(L))
    if inc:
        I = ["// GENERATED by /verif/gen/c17_members.py — scalar/pointer data members, probed by c17_harness.cc"]
        for cls in CLASSES:
            I.append("#ifdef C17_MEMBERS_%s" % cls)
            for r in rows:
                if r["cls"] == cls and r.get("scalar"):
                    I.append("C17_MEMBER(%s)" % r["name"])
            I.append("#endif")
        write_if_changed(inc, "\n".join(I) + "\n")
    json.dump({"members": rows, "independent_count": indep, "changed": changed}, sys.stdout)


if __name__ == "__main__":
    main()
