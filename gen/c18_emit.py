#!/usr/bin/env python3
"""Translator for C18: which scalar-style policy and flow depth does src/rime/config/config_data.cc have *now*?

The hand-written Lean model of the YAML writer (lean/RimeModel/C18/Emit.lean) knows two shapes of
`EmitScalar`:
  0  legacy : line break -> Literal, else non-[A-Za-z0-9_.] -> DoubleQuoted, else automatic
  1  safe   : Literal only if IsLiteralBlockSafe (ends in exactly one LF, no C0 control other than LF/TAB,
              first non-empty line not starting with a space); "..." or non-[A-Za-z0-9_.] -> DoubleQuoted
and one shape of `EmitYaml` (null nodes emit nothing, null map values skipped, `YAML::Flow` from a depth
threshold, keys through EmitScalar).  This script extracts the two functions (and the helper) from the
working tree, removes comments and all white space, and compares them with the known shapes; the flow depth
threshold is read from the source.  Anything else fails closed (`emitScalarShape := none`, `emitYamlKnown :=
false`), which makes `C18.model_is_of_current_source` unprovable.  An independent token count
(`YAML::Literal`, `YAML::DoubleQuoted`, `YAML::Flow`, `depth >=`) is asserted against the recognised shape.

usage: c18_emit.py <repo> <out.lean>     prints a JSON summary
"""
import os, re, sys, json
sys.path.insert(0, os.path.dirname(os.path.abspath(__file__)))
from genlib import *

FILE = "src/rime/config/config_data.cc"


def squash(s):
    return re.sub(r"\s+", "", s)


LEGACY_SCALAR = squash(r'''
  if (str_value.find_first_of("\r\n") != string::npos) {
    *emitter << YAML::Literal;
  } else if (!std::all_of(str_value.cbegin(), str_value.cend(), [](auto ch) {
               return std::isalnum(ch) || ch == '_' || ch == '.';
             })) {
    *emitter << YAML::DoubleQuoted;
  }
  *emitter << str_value;
''')

SAFE_SCALAR = squash(r'''
  if (IsLiteralBlockSafe(str_value)) {
    *emitter << YAML::Literal;
  } else if (str_value == "..." ||
             !std::all_of(str_value.cbegin(), str_value.cend(), [](auto ch) {
               return std::isalnum(ch) || ch == '_' || ch == '.';
             })) {
    *emitter << YAML::DoubleQuoted;
  }
  *emitter << str_value;
''')

SAFE_HELPER = squash(r'''
  size_t n = str_value.length();
  if (n < 2 || str_value[n - 1] != '\n' || str_value[n - 2] == '\n')
    return false;
  for (unsigned char ch : str_value) {
    if (ch < 0x20 && ch != '\n' && ch != '\t')
      return false;
  }
  return str_value[str_value.find_first_not_of('\n')] != ' ';
''')

EMIT_YAML = squash(r'''
  if (!node || !emitter)
    return;
  if (node->type() == ConfigItem::kScalar) {
    auto value = As<ConfigValue>(node);
    EmitScalar(value->str(), emitter);
  } else if (node->type() == ConfigItem::kList) {
    if (depth >= @D@) {
      *emitter << YAML::Flow;
    }
    *emitter << YAML::BeginSeq;
    auto list = As<ConfigList>(node);
    for (auto it = list->begin(), end = list->end(); it != end; ++it) {
      EmitYaml(*it, emitter, depth + 1);
    }
    *emitter << YAML::EndSeq;
  } else if (node->type() == ConfigItem::kMap) {
    if (depth >= @D@) {
      *emitter << YAML::Flow;
    }
    *emitter << YAML::BeginMap;
    auto map = As<ConfigMap>(node);
    for (auto it = map->begin(), end = map->end(); it != end; ++it) {
      if (!it->second || it->second->type() == ConfigItem::kNull)
        continue;
      *emitter << YAML::Key;
      EmitScalar(it->first, emitter);
      *emitter << YAML::Value;
      EmitYaml(it->second, emitter, depth + 1);
    }
    *emitter << YAML::EndMap;
  }
''')

SAVE = squash(r'''
  if (!stream.good()) {
    LOG(ERROR) << "failed to save config to stream.";
    return false;
  }
  try {
    YAML::Emitter emitter(stream);
    EmitYaml(root, &emitter, 0);
  } catch (YAML::Exception& e) {
    LOG(ERROR) << "Error emitting YAML: " << e.what();
    return false;
  }
  return true;
''')


def main():
    repo, out = sys.argv[1], sys.argv[2]
    src = open(os.path.join(repo, FILE), encoding="utf-8", errors="replace").read()
    fns = {}
    for name, params, body, line in functions(src):
        fns.setdefault(name, []).append((params, body, line))
    notes = []
    shape = None
    es = fns.get("EmitScalar", [])
    if len(es) == 1:
        b = squash(es[0][1])
        if b == LEGACY_SCALAR:
            shape = 0
        elif b == SAFE_SCALAR:
            h = fns.get("IsLiteralBlockSafe", [])
            if len(h) == 1 and squash(h[0][1]) == SAFE_HELPER:
                shape = 1
            else:
                notes.append("EmitScalar has the repaired shape but IsLiteralBlockSafe is not the known helper")
        else:
            notes.append("EmitScalar has an unknown shape")
    else:
        notes.append("EmitScalar: %d definitions found" % len(es))
    depth, yaml_known = None, False
    ey = fns.get("EmitYaml", [])
    if len(ey) == 1:
        b = squash(ey[0][1])
        ds = re.findall(r"depth>=(\d+)", b)
        if len(ds) == 2 and ds[0] == ds[1]:
            depth = int(ds[0])
            yaml_known = b == EMIT_YAML.replace("@D@", ds[0])
        if not yaml_known:
            notes.append("EmitYaml has an unknown shape")
    else:
        notes.append("EmitYaml: %d definitions found" % len(ey))
    sv = fns.get("ConfigData::SaveToStream", [])
    save_known = len(sv) == 1 and squash(sv[0][1]) == SAVE
    if not save_known:
        notes.append("ConfigData::SaveToStream has an unknown shape")
    # independent count on the raw file (comments stripped)
    nc = strip_cpp_comments(src)
    counts = {"YAML::Literal": len(re.findall(r"YAML::Literal\b", nc)),
              "YAML::DoubleQuoted": len(re.findall(r"YAML::DoubleQuoted\b", nc)),
              "YAML::Flow": len(re.findall(r"YAML::Flow\b", nc)),
              "depth >=": len(re.findall(r"depth\s*>=", nc)),
              "YAML::SingleQuoted|Folded|LongKey|Block|other manipulators": len(re.findall(
                  r"YAML::(SingleQuoted|Folded|LongKey|Block|Auto|EscapeNonAscii|Indent|Newline|Comment|Anchor|Alias|Tag|Binary)\b", nc))}
    expect = {"YAML::Literal": 1, "YAML::DoubleQuoted": 1, "YAML::Flow": 2, "depth >=": 2,
              "YAML::SingleQuoted|Folded|LongKey|Block|other manipulators": 0}
    counts_ok = counts == expect
    if not counts_ok:
        notes.append("independent token count differs from the recognised shape: %r" % counts)
        shape, yaml_known = None, False
    ok = shape is not None and yaml_known and save_known and depth is not None
    lean = ("/-! GENERATED by gen/c18_emit.py from %s — do not edit.\n"
            "Which shape of `EmitScalar` / `EmitYaml` the working tree has (see RimeModel/C18/Emit.lean). -/\n"
            "namespace RimeModel.Gen.C18\n\n"
            "/-- `some 0` = legacy `EmitScalar`, `some 1` = repaired (`IsLiteralBlockSafe`), `none` = unknown shape -/\n"
            "def emitScalarShape : Option Nat := %s\n\n"
            "/-- `EmitYaml` and `SaveToStream` are the functions the model was written from -/\n"
            "def emitYamlKnown : Bool := %s\n\n"
            "/-- the `depth >= N` threshold from which `EmitYaml` asks for flow style -/\n"
            "def flowDepth : Nat := %d\n\n"
            "end RimeModel.Gen.C18\n") % (
        FILE, "none" if shape is None else "some %d" % shape,
        "true" if (yaml_known and save_known) else "false", depth if depth is not None else 3)
    changed = write_if_changed(out, lean)
    print(json.dumps({"emitScalarShape": shape, "emitYamlKnown": bool(yaml_known and save_known), "flowDepth": depth,
                      "counts": counts, "counts_ok": counts_ok, "ok": ok, "notes": notes, "changed": changed}))
    return 0


if __name__ == "__main__":
    sys.exit(main())
