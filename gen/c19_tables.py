#!/usr/bin/env python3
"""Translator for C19: re-extract the key tables of src/rime/key_table.cc from /repo's working tree.

A ~30-line C++ dumper that `#include`s key_table.cc itself is compiled and run; it walks
`keys_by_keyval`, `keys_by_name` (ALL rows by sizeof, not stopping at the terminator, so a dropped
terminator shows), resolves `key_names + offset` (bounds-checked) and prints `modifier_name[]`,
`kModifierMask` and `XK_VoidSymbol`.  The rows become `lean/RimeModel/Gen/KeyTables.lean`.

Row encoding (one Nat per row, chunks of <= 64 rows):
    code = ((packedName * 2^16) + nameLen) * 2^32 + keyval_as_u32
    packedName = little-endian base-256 value of the name bytes
Modifier slot: none | some (packedName * 2^16 + nameLen).

Independent count: the `{keyval, offset}` initialisers are counted by a regex over the comment-free
source text of each array and the string literals / NULLs of `modifier_name[]` likewise; any
disagreement with what the compiled dumper saw (or any offset outside `key_names`, or a dumper that
does not compile/run) fails closed: `extractionOk := false`, which `C19.extraction_ok` cannot prove.
Prints a JSON summary on stdout.
"""
import os, re, sys, json, subprocess, tempfile, hashlib
sys.path.insert(0, os.path.dirname(os.path.abspath(__file__)))
from genlib import write_if_changed, strip_cpp_comments, match_brace

SRC = "src/rime/key_table.cc"
CHUNK = 64

DUMPER = r'''
#include <rime/key_table.h>
#include "%(src)s"
#include <stdio.h>
static int bad = 0;
static void dump(const char* tag, const key_entry* t, size_t n) {
  const size_t nn = sizeof(key_names);
  for (size_t i = 0; i < n; ++i) {
    long off = t[i].offset;
    if (off < 0 || (size_t)off >= nn) { printf("%%s %%u %%ld !\n", tag, (unsigned)t[i].keyval, off); bad = 1; continue; }
    size_t len = strnlen(key_names + off, nn - off);
    printf("%%s %%u %%ld ", tag, (unsigned)t[i].keyval, off);
    for (size_t j = 0; j < len; ++j) printf("%%02x", (unsigned char)key_names[off + j]);
    printf("%%s\n", len ? "" : "-");
  }
}
int main() {
  printf("NAMES %%zu\n", sizeof(key_names));
  dump("V", keys_by_keyval, sizeof(keys_by_keyval) / sizeof(key_entry));
  dump("N", keys_by_name, sizeof(keys_by_name) / sizeof(key_entry));
  const size_t nm = sizeof(modifier_name) / sizeof(const char*);
  for (size_t i = 0; i < nm; ++i) {
    printf("M %%zu ", i);
    if (!modifier_name[i]) { printf("NULL\n"); continue; }
    size_t len = strlen(modifier_name[i]);
    for (size_t j = 0; j < len; ++j) printf("%%02x", (unsigned char)modifier_name[i][j]);
    printf("%%s\n", len ? "" : "-");
  }
  printf("MASK %%u\n", (unsigned)kModifierMask);
  printf("VOID %%u\n", (unsigned)XK_VoidSymbol);
  printf("END %%d\n", bad);
  return 0;
}
'''


def run_dumper(repo, workdir):
    src = os.path.join(repo, SRC)
    cc = os.path.join(workdir, "c19_dump.cc")
    exe = os.path.join(workdir, "c19_dump")
    with open(cc, "w") as f:
        f.write(DUMPER % {"src": src})
    cmd = ["g++", "-std=c++17", "-O0", "-w", "-I" + os.path.join(repo, "src"), "-I" + os.path.join(repo, "include"),
           "-o", exe, cc]
    p = subprocess.run(cmd, stdout=subprocess.PIPE, stderr=subprocess.STDOUT, text=True, errors="replace")
    if p.returncode != 0:
        return None, "dumper does not compile: " + p.stdout.replace(workdir, "<work>")[-1500:]
    p = subprocess.run([exe], stdout=subprocess.PIPE, stderr=subprocess.STDOUT, text=True, errors="replace", timeout=60)
    if p.returncode != 0:
        return None, "dumper failed rc=%d: %s" % (p.returncode, p.stdout[-500:])
    return p.stdout, None


def independent_counts(repo):
    """Counts from the source text alone (no compiler): rows of each array, modifier slots."""
    txt = strip_cpp_comments(open(os.path.join(repo, SRC), encoding="utf-8", errors="replace").read())
    res = {}
    for arr in ("keys_by_keyval", "keys_by_name"):
        m = re.search(r"\b%s\s*\[\s*\]\s*=\s*\{" % arr, txt)
        if not m:
            res[arr] = None
            continue
        o = m.end() - 1
        c = match_brace(txt, o)
        body = txt[o + 1:c]
        res[arr] = len(re.findall(r"\{\s*[-+]?\s*(?:0[xX][0-9a-fA-F]+|\d+|[A-Za-z_]\w*)\s*,\s*\d+\s*,?\s*\}", body))
    m = re.search(r"\bmodifier_name\s*\[\s*\]\s*=\s*\{", txt)
    if m:
        o = m.end() - 1
        c = match_brace(txt, o)
        body = txt[o + 1:c]
        items = [x.strip() for x in body.split(",")]
        items = [x for x in items if x]
        res["modifier_slots"] = len(items)
        res["modifier_named"] = sum(1 for x in items if x.startswith('"'))
    else:
        res["modifier_slots"] = res["modifier_named"] = None
    return res


def pack(b):
    return int.from_bytes(b, "little")


def show(b):
    s = b.decode("latin-1")
    return '"%s"' % s if re.fullmatch(r"[\x20-\x7e]*", s) and "-/" not in s else "hex " + b.hex()


def parse_dump(out):
    byval, byname, mods, mask, void, end, names_size = [], [], {}, None, None, None, None
    for line in out.splitlines():
        p = line.split(" ")
        if p[0] in ("V", "N") and len(p) == 4:
            if p[3] == "!":
                row = (int(p[1]), int(p[2]), None)
            else:
                row = (int(p[1]), int(p[2]), b"" if p[3] == "-" else bytes.fromhex(p[3]))
            (byval if p[0] == "V" else byname).append(row)
        elif p[0] == "M" and len(p) == 3:
            mods[int(p[1])] = None if p[2] == "NULL" else (b"" if p[2] == "-" else bytes.fromhex(p[2]))
        elif p[0] == "MASK":
            mask = int(p[1])
        elif p[0] == "VOID":
            void = int(p[1])
        elif p[0] == "END":
            end = int(p[1])
        elif p[0] == "NAMES":
            names_size = int(p[1])
    return byval, byname, mods, mask, void, end, names_size


def chunks(name, rows):
    """rows: list of (code:int, comment:str) -> Lean text defining <name> : List Nat in chunks."""
    out, parts = [], []
    for ci in range(0, max(len(rows), 1), CHUNK):
        part = rows[ci:ci + CHUNK]
        pn = "%sC%d" % (name, ci // CHUNK)
        parts.append(pn)
        out.append("def %s : List Nat := [" % pn)
        for i, (code, com) in enumerate(part):
            out.append("  0x%x%s  -- %s" % (code, "," if i + 1 < len(part) else "", com))
        out.append("]")
    out.append("def %s : List Nat :=\n  %s" % (name, " ++ ".join(parts) if parts else "[]"))
    return "\n".join(out)


def render(byval, byname, mods, mask, void, ok, why):
    L = ["-- GENERATED by /verif/gen/c19_tables.py from src/rime/key_table.cc - do not edit",
         "/-! Key tables of librime as compiled from the working tree.",
         "row code = ((packedName * 2^16) + nameLen) * 2^32 + keyval (u32); packedName = little-endian base 256.",
         "modifier slot i: `none` (NULL) or `some (packedName * 2^16 + nameLen)`. -/",
         "namespace RimeModel.C19.Gen", ""]
    def enc(rows):
        r = []
        for kv, off, nm in rows:
            if nm is None:
                continue
            r.append(((((pack(nm) << 16) + len(nm)) << 32) + (kv & 0xffffffff), "0x%06x @%d %s" % (kv, off, show(nm))))
        return r
    L.append("/-- `keys_by_keyval[]`, every row in array order (terminator included) -/")
    L.append(chunks("byValCodes", enc(byval)))
    L.append("")
    L.append("/-- `keys_by_name[]`, every row in array order -/")
    L.append(chunks("byNameCodes", enc(byname)))
    L.append("")
    L.append("/-- `modifier_name[]`, one entry per slot -/")
    L.append("def modifierCodes : List (Option Nat) := [")
    n = (max(mods) + 1) if mods else 0
    for i in range(n):
        m = mods.get(i)
        t = "none" if m is None else "some 0x%x" % ((pack(m) << 16) + len(m))
        L.append("  %s%s  -- %d %s" % (t, "," if i + 1 < n else "", i, "NULL" if m is None else show(m)))
    L.append("]")
    L.append("")
    L.append("/-- `kModifierMask` (key_table.h) -/")
    L.append("def kModifierMask : Nat := 0x%x" % (mask or 0))
    L.append("/-- `XK_VoidSymbol` (X11/keysym.h) -/")
    L.append("def voidSymbol : Nat := 0x%x" % (void or 0))
    L.append("")
    L.append("/-- false when the translator could not account for every row of the source (fails closed)%s -/"
             % ("" if ok else ": " + why.replace("-/", "- /")[:300]))
    L.append("def extractionOk : Bool := %s" % ("true" if ok else "false"))
    L.append("")
    L.append("end RimeModel.C19.Gen")
    return "\n".join(L) + "\n"


def main():
    repo = sys.argv[1] if len(sys.argv) > 1 else "/repo"
    out = sys.argv[2]
    if os.path.isdir(out):
        out = os.path.join(out, "KeyTables.lean")
    root = os.path.dirname(os.path.dirname(os.path.abspath(__file__)))
    wroot = os.path.join(root, ".work")
    os.makedirs(wroot, exist_ok=True)
    problems = []
    byval, byname, mods, mask, void = [], [], {}, None, None
    with tempfile.TemporaryDirectory(dir=wroot, prefix="c19gen_") as wd:
        dump, err = run_dumper(repo, wd)
    if err:
        problems.append(err)
    else:
        byval, byname, mods, mask, void, end, names_size = parse_dump(dump)
        if end is None:
            problems.append("dumper output truncated")
        elif end != 0:
            problems.append("offset outside key_names: " + ", ".join(
                "0x%x@%d" % (kv, off) for kv, off, nm in byval + byname if nm is None)[:300])
        if mask is None or void is None:
            problems.append("kModifierMask / XK_VoidSymbol not printed")
    try:
        ind = independent_counts(repo)
    except OSError as e:
        ind = {"keys_by_keyval": None, "keys_by_name": None, "modifier_slots": None, "modifier_named": None}
        problems.append("cannot read %s: %s" % (SRC, e))
    named = sum(1 for v in mods.values() if v is not None)
    for what, got, want in (("keys_by_keyval rows", len(byval), ind["keys_by_keyval"]),
                            ("keys_by_name rows", len(byname), ind["keys_by_name"]),
                            ("modifier_name slots", len(mods), ind["modifier_slots"]),
                            ("named modifiers", named, ind["modifier_named"])):
        if got != want:
            problems.append("%s: dumper saw %s, independent source scan counts %s" % (what, got, want))
    if any(len(nm) >= 65536 for _, _, nm in byval + byname if nm is not None):
        problems.append("name longer than 65535 bytes")
    ok = not problems
    text = render(byval, byname, mods, mask, void, ok, "; ".join(problems))
    changed = write_if_changed(out, text)
    print(json.dumps({
        "ok": ok, "problems": problems, "changed": changed, "out": out,
        "byval_rows": len(byval), "byname_rows": len(byname),
        "modifier_slots": len(mods), "modifier_named": named,
        "independent_count": ind, "kModifierMask": mask, "voidSymbol": void,
        "distinct_keycodes": len({kv for kv, _, _ in byval}),
        "max_name_len": max([len(nm) for _, _, nm in byval if nm is not None] or [0]),
        "sha": hashlib.sha256(text.encode()).hexdigest()[:16],
        # the decoded tables, for the check's input generators (names as hex)
        "byval": [[kv & 0xffffffff, nm.hex()] for kv, _, nm in byval if nm is not None],
        "byname": [[kv & 0xffffffff, nm.hex()] for kv, _, nm in byname if nm is not None],
        "modifiers": [None if mods.get(i) is None else mods[i].hex() for i in range((max(mods) + 1) if mods else 0)],
    }))
    return 0


if __name__ == "__main__":
    sys.exit(main())
