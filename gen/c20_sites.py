#!/usr/bin/env python3
"""Translator for C20: extract every site of the C API that copies a string into a caller
buffer given together with its size, from /repo's working tree, as a Lean term.

A *site* is a function of src/rime_api_impl.h or src/rime_api.cc with a `char* <dst>` parameter
immediately followed by a `size_t <size>` parameter.  For each, every statement of the body that
mentions <dst> is classified into the shapes of RimeModel.C20.Stmt; calls to a local helper
`h(dst, src, size)` are inlined from the helper's own body.  Anything not understood becomes
`.unknown` (fails closed).  An independent count (grep of `size_t buffer_size`) is asserted.

Fail-closed sweep (`stray_copies`): EVERY call of a copy primitive (strcpy/strncpy/memcpy/snprintf/
std::string::copy/... and the local helpers) anywhere in the two files must be accounted for: it writes
to the destination parameter of an extracted site or helper (then it is one of the classified
statements), or it is the API's own "allocate exactly, then copy" idiom
(`D = new char[E.length() + 1]; strcpy(D, E.c_str());` in the same function).  Any other copy — into a
struct field supplied by the caller, through an alias, in a function whose buffer/size parameters
have another shape — and any function with a non-const `char*` parameter that is not an extracted
site become an extra site with the single statement `.unknown`, so `C20.site_ok` cannot be proved.
"""
import os, re, sys, json
sys.path.insert(0, os.path.dirname(os.path.abspath(__file__)))
from genlib import *

FILES = ["src/rime_api_impl.h", "src/rime_api.cc"]

def size_expr(e, size):
    e = e.strip()
    e = re.sub(r"\s+", " ", e)
    if e == size:
        return 0
    m = re.fullmatch(re.escape(size) + r" ?- ?(\d+)", e)
    if m:
        return int(m.group(1))
    return None

def split_statements(body):
    """Flat list of simple statements (text up to ';'), with the guarding `if (...)` kept as prefix."""
    out, i, n, cur = [], 0, len(body), ""
    depth = 0
    while i < n:
        c = body[i]
        if c in "\"'":
            j = i + 1
            while j < n and body[j] != c:
                j += 2 if body[j] == "\\" else 1
            cur += body[i:j + 1]
            i = j + 1
            continue
        if c == "(":
            depth += 1
        elif c == ")":
            depth -= 1
        if c == ";" and depth == 0:
            out.append(cur.strip())
            cur = ""
        elif c in "{}" and depth == 0:
            if c == "{":
                cur += " "   # keep the guard text in front of the block's first statement only
            else:
                cur = ""
        else:
            cur += c
        i += 1
    return [s for s in out if s]

def classify(stmt, dst, size, helpers, depth=0):
    """Return list of Lean Stmt terms for one statement mentioning dst."""
    s = re.sub(r"\s+", " ", stmt)
    guard = None
    m = re.match(r"if \((.*?)\) (.*)$", s)
    # peel a leading if (...) whose condition has balanced parens
    if s.startswith("if ("):
        close = match_brace(s, 3, "(", ")")
        guard, rest = s[4:close].strip(), s[close + 1:].strip()
        if not rest or rest.startswith("return"):
            # a pure test of dst (null check) — no write
            return []
        s = rest
        if not re.search(r"\b(%s|%s)\b" % (re.escape(dst), re.escape(size)), guard):
            guard = None   # the copy is conditional on something else (value found): the site is the copying path
    if re.match(r"return\b", s):
        return [] if not re.search(r"\b(strn?cpy|memcpy|snprintf|sprintf|strcat)\b", s) else ["Stmt.unknown"]
    m = re.fullmatch(r"(?:std::)?strncpy\( ?%s ?, ?(.+) ?, ?([^,]+)\)" % re.escape(dst), s)
    if m and guard is None:
        k = size_expr(m.group(2), size)
        return ["Stmt.strncpy %d" % k] if k is not None else ["Stmt.unknown"]
    m = re.fullmatch(r"%s ?\[(.+)\] ?= ?(?:'\\0'|0|'\\x00')" % re.escape(dst), s)
    if m:
        k = size_expr(m.group(1), size)
        if k is None:
            return ["Stmt.unknown"]
        g = guard is not None and re.fullmatch(r"%s( ?> ?0| ?!= ?0| ?>= ?1)?" % re.escape(size), guard) is not None
        if guard is not None and not g:
            return ["Stmt.unknown"]
        return ["Stmt.setNul %d %s" % (k, "true" if g else "false")]
    m = re.fullmatch(r"(?:std::)?snprintf\( ?%s ?, ?([^,]+) ?, ?\"%%s\" ?, ?(.+)\)" % re.escape(dst), s)
    if m and guard is None:
        k = size_expr(m.group(1), size)
        return ["Stmt.snprintf %d" % k] if k is not None else ["Stmt.unknown"]
    m = re.fullmatch(r"([A-Za-z_]\w*)\( ?%s ?, ?(.+) ?, ?%s ?\)" % (re.escape(dst), re.escape(size)), s)
    if m and guard is None and m.group(1) in helpers and depth < 3:
        hdst, hsize, hbody = helpers[m.group(1)]
        return site_stmts(hbody, hdst, hsize, helpers, depth + 1)
    return ["Stmt.unknown"]

def site_stmts(body, dst, size, helpers, depth=0):
    out = []
    for st in split_statements(body):
        if re.search(r"\b%s\b" % re.escape(dst), st):
            out += classify(st, dst, size, helpers, depth)
    return out

PARAM = re.compile(r"char ?\* ?(\w+) ?, ?(?:const )?size_t (\w+)")
# helper signature: (char* d, <one source parameter>, size_t n)
HPARAM = re.compile(r"^ ?char ?\* ?(\w+) ?, ?[^,]+, ?(?:const )?size_t (\w+) ?$")

def extract(repo):
    sites, helpers, raw = [], {}, 0
    funcs = []
    for f in FILES:
        src = open(os.path.join(repo, f)).read()
        nc = strip_cpp_comments(src)
        raw += len(re.findall(r"char\s*\*\s*\w+\s*,\s*(?:const\s+)?size_t\s+\w+\s*\)\s*\{", nc))
        raw += len(re.findall(r"\(\s*char\s*\*\s*\w+\s*,[^,()]+,\s*(?:const\s+)?size_t\s+\w+\s*\)\s*\{", nc))
        for name, params, body, line in functions(src):
            p = re.sub(r"\s+", " ", params)
            m = PARAM.search(p)
            if m:
                funcs.append((f, name, p, body, line, m.group(1), m.group(2)))
                continue
            m = HPARAM.match(p)
            if m and not name.startswith("Rime"):
                helpers[name] = (m.group(1), m.group(2), body)
    # helpers: local functions with (char* d, size_t n) / (char* d, <src>, size_t n) that are not API entry points
    for f, name, p, body, line, dst, size in funcs:
        if not name.startswith("Rime"):
            helpers[name] = (dst, size, body)
    for f, name, p, body, line, dst, size in funcs:
        if name in helpers:
            continue
        sites.append({"fn": name, "file": f, "line": line, "dst": dst, "size": size,
                      "stmts": site_stmts(body, dst, size, helpers)})
    EXTRACTED["site_dst"] = {s["fn"]: s["dst"] for s in sites}
    EXTRACTED["helper_dst"] = {h: v[0] for h, v in helpers.items()}
    return sites, raw, len(helpers)


EXTRACTED = {}

COPY_PRIMS = (r"strcpy|strncpy|stpcpy|stpncpy|strlcpy|strcat|strncat|strlcat|memcpy|memmove|mempcpy|memccpy|bcopy|"
              r"sprintf|snprintf|vsprintf|vsnprintf|wcscpy|wcsncpy|wmemcpy|copy|copy_n|copy_backward|strxfrm|swab|strdup_into")


def nows(t):
    return re.sub(r"\s+", "", t)


def call_args(text, p_open):
    """top-level comma split of the argument list whose '(' is at p_open"""
    close = match_brace(text, p_open, "(", ")")
    if close < 0:
        return None
    args, depth, cur = [], 0, ""
    for ch in text[p_open + 1:close]:
        if ch in "([{":
            depth += 1
        elif ch in ")]}":
            depth -= 1
        if ch == "," and depth == 0:
            args.append(cur.strip())
            cur = ""
        else:
            cur += ch
    args.append(cur.strip())
    return args


def stray_copies(repo, site_dst, helper_dst):
    """-> list of (file, line, function, text) for copies that no extracted site accounts for.
    site_dst / helper_dst : {function name: destination parameter}"""
    stray = []
    names = "|".join(sorted(set(COPY_PRIMS.split("|")) | set(helper_dst)))
    call = re.compile(r"(?<![\w.>])(?:std::|::)?(%s)\s*\(|(?:\.|->)\s*(copy)\s*\(" % names)
    for f in FILES:
        src = open(os.path.join(repo, f)).read()
        nc = strip_cpp_comments(src)
        spans = []
        for name, params, body, line in functions(src):
            start = 0
            for _ in range(line - 1):
                start = nc.find("\n", start) + 1
            i = nc.find(body, start)
            if i >= 0:
                spans.append((i, i + len(body), name, params, body))
        def enclosing(pos):
            best = None
            for a, b, name, params, body in spans:
                if a <= pos < b and (best is None or (b - a) > (best[1] - best[0])):
                    best = (a, b, name, params, body)       # the outermost definition: the API function itself
            return best
        for m in call.finditer(nc):
            prim = m.group(1) or m.group(2)
            line = nc.count("\n", 0, m.start()) + 1
            enc = enclosing(m.start())
            if enc is None:
                # a declaration / definition header of a helper itself is not a call
                if re.match(r"\s*char\s*\*", nc[m.end():m.end() + 12]):
                    continue
                stray.append((f, line, "<file scope>", nc[m.start():m.start() + 60]))
                continue
            a, b, fn, params, body = enc
            args = call_args(nc, m.end() - 1)
            if not args:
                stray.append((f, line, fn, nc[m.start():m.start() + 60]))
                continue
            dest = nows(args[0])
            if m.group(2):      # std::string::copy(dest, n): the destination is its first argument too
                pass
            want = site_dst.get(fn) or helper_dst.get(fn)
            if want is not None and dest == want:
                continue        # one of the statements classify() sees (it mentions the destination parameter)
            # the allocate-exactly-then-copy idiom of the API's own out-structures
            if prim == "strcpy" and len(args) == 2:
                srcx = nows(args[1])
                mm = re.fullmatch(r"(.+)\.c_str\(\)", srcx)
                if mm:
                    e = mm.group(1)
                    before = nows(nc[a:m.start()])
                    if any((dest + "=newchar[" + e + "." + meth + "()+1];") in before for meth in ("length", "size")):
                        continue
            stray.append((f, line, fn, re.sub(r"\s+", " ", nc[m.start():match_brace(nc, m.end() - 1, "(", ")") + 1])[:120]))
        # functions with a writable char buffer parameter that are not extracted sites / helpers
        for a, b, name, params, body in spans:
            pp = re.sub(r"\s+", " ", params)
            if name in site_dst or name in helper_dst:
                continue
            if re.search(r"(?<!const )\bchar ?\*", pp) and re.search(r"(?<![\w])(?<!const )char ?\*+ ?\w+", re.sub(r"const char ?\*+ ?(const ?)?\w+", "", pp)):
                stray.append((f, nc.count("\n", 0, a) + 1, name, "writable char* parameter: (" + pp[:100] + ")"))
    return stray


def main():
    repo = sys.argv[1] if len(sys.argv) > 1 else "/repo"
    out = sys.argv[2]
    sites, raw, nhelpers = extract(repo)
    if len(sites) + nhelpers != raw:
        sys.stderr.write("c20_sites: extracted %d sites + %d helpers but independent scan sees %d functions\n"
                         % (len(sites), nhelpers, raw))
        # fail closed: add an unknown site so the theorem cannot be discharged
        sites.append({"fn": "<unparsed>", "file": "?", "line": 0, "dst": "?", "size": "?", "stmts": ["Stmt.unknown"]})
    stray = stray_copies(repo, EXTRACTED["site_dst"], EXTRACTED["helper_dst"])
    for f, line, fn, text in stray:
        sys.stderr.write("c20_sites: copy not accounted for by any extracted site: %s:%d in %s: %s\n" % (f, line, fn, text))
        sites.append({"fn": "%s@%s:%d" % (fn, os.path.basename(f), line), "file": f, "line": line, "dst": "?", "size": "?",
                      "stmts": ["Stmt.unknown"], "stray": text})
    lines = ["-- GENERATED by /verif/gen/c20_sites.py from src/rime_api_impl.h, src/rime_api.cc — do not edit",
             "import RimeModel.C20.Model", "namespace RimeModel.C20.Gen", "open RimeModel.C20", "",
             "def copySites : List Site := ["]
    for i, s in enumerate(sites):
        lines.append("  { fn := \"%s\", stmts := [%s] }%s  -- %s:%d" % (
            s["fn"], ", ".join(s["stmts"]), "," if i + 1 < len(sites) else "", s["file"], s["line"]))
    lines += ["]", "", "end RimeModel.C20.Gen", ""]
    changed = write_if_changed(out, "\n".join(lines))
    json.dump({"sites": sites, "independent_count": raw, "helpers": nhelpers, "changed": changed,
               "stray_copies": [list(x) for x in stray]}, sys.stdout)

if __name__ == "__main__":
    main()
