#!/usr/bin/env python3
"""Translator for C12 / C13: re-extracts from the working tree the ordering facts the deployment models rest on and
writes them as Lean constants (RimeModel/Gen/DeployFacts.lean).

  usage: deploy_facts.py <repo> <out.lean>        prints a JSON summary on stdout

Facts (all read from the *statement order* inside one function body, comments stripped):
  packLoopDropsSyllabaryOnSkip   dict_compiler.cc, pack loop: the syllabary is moved into the collector BEFORE the first `continue`
  tableTagLast / prismTagLast / reverseTagLast
                                 <X>::Build: the strncpy of the format tag comes after every Allocate/CreateArray/CopyString/
                                 metadata store of the function (nothing that writes data follows it)
  tableRemovedFirst / prismRemovedFirst / reverseRemovedFirst
                                 DictCompiler: `->Remove()` / `.Remove()` precedes `Build(` on that object
  tableLoadTestsTag / prismLoadTestsTag / reverseLoadTestsTag
                                 <X>::Load compares metadata->format with the format prefix and fails on mismatch
  createResizesExisting          MappedFile::Create: an existing file is resized in place (old bytes stay)
  allocateZeroes                 MappedFile::Allocate memsets what it hands out (the metadata block is zeroed first)
  yamlSavedInPlace               ConfigData::SaveToFile opens the destination itself with std::ofstream (no temp + rename)
  timestampBits                  (C12) how `__build_info/timestamps/<rid>` holds the mtime of a source: 32 = BuildInfoPlugin writes
                                 `(int)to_time_t(..)` and ConfigNeedsUpdate reads it with GetInt and compares with `(int)to_time_t(..)`;
                                 64 = written as the decimal text of `static_cast<long long>(to_time_t(..))`, read with std::stoll
                                 (whole string) and compared with the same uncast value; 0 = writer and reader are neither, or not
                                 the same (reported in "unknown_c12"; C12.timestamp_width_known then fails to build)
A shape the translator does not understand is reported in "unknown" and the constant is emitted as the value that makes
the dependent theorem fail to build (fail closed).
"""
import sys, os, re, json
sys.path.insert(0, os.path.dirname(os.path.abspath(__file__)))
import genlib


def body_of(src, header_re):
    m = re.search(header_re, src)
    if not m:
        return None
    i = src.find("{", m.end() - 1)
    if i < 0:
        return None
    j = genlib.match_brace(src, i)
    return src[i:j + 1]


def main():
    repo, out = sys.argv[1], sys.argv[2]
    rd = lambda p: genlib.strip_cpp_comments(open(os.path.join(repo, p)).read())
    facts, unknown, where = {}, [], {}

    # ---- pack loop
    dc = rd("src/rime/dict/dict_compiler.cc")
    comp = body_of(dc, r"bool\s+DictCompiler::Compile\s*\([^)]*\)\s*\{")
    ok = False
    if comp:
        m = re.search(r"for\s*\(\s*int\s+table_index\s*=\s*1", comp)
        if m:
            i = comp.find("{", m.end())
            loop = comp[i:genlib.match_brace(comp, i) + 1]
            mv = re.search(r"EntryCollector\s+collector\s*\(\s*std::move\s*\(\s*syllabary\s*\)\s*\)", loop)
            ct = loop.find("continue;")
            if mv and ct >= 0:
                facts["packLoopDropsSyllabaryOnSkip"] = mv.start() < ct
                ok = True
            elif mv and ct < 0:
                facts["packLoopDropsSyllabaryOnSkip"] = False
                ok = True
    if not ok:
        unknown.append("packLoopDropsSyllabaryOnSkip")
        facts["packLoopDropsSyllabaryOnSkip"] = True

    # ---- builders: tag last
    def tag_last(path, cls, name):
        src = rd(path)
        b = body_of(src, r"bool\s+%s::Build\s*\(" % cls)
        if not b:
            unknown.append(name)
            facts[name] = False
            return
        tags = [m.start() for m in re.finditer(r"strncpy\s*\(\s*metadata_?->format", b)]
        if len(tags) != 1:
            unknown.append(name)
            facts[name] = False
            return
        after = b[tags[0]:]
        after = after[after.find(";") + 1:]
        writes = re.search(r"Allocate\s*<|CreateArray\s*<|CopyString\s*\(|CreateString\s*\(|metadata_?->\w+\s*=|memcpy\s*\(|BuildIndex\s*\(|OnBuildFinish\s*\(|->at\b", after)
        facts[name] = writes is None
        where[name] = "%s: %s::Build" % (path, cls)

    tag_last("src/rime/dict/table.cc", "Table", "tableTagLast")
    tag_last("src/rime/dict/prism.cc", "Prism", "prismTagLast")
    tag_last("src/rime/dict/reverse_lookup_dictionary.cc", "ReverseDb", "reverseTagLast")

    # ---- removed before build (in DictCompiler)
    def removed_first(fn_re, obj_re, name):
        b = body_of(dc, fn_re)
        if not b:
            unknown.append(name)
            facts[name] = False
            return
        bm = re.search(obj_re + r"\s*(?:->|\.)\s*Build\s*\(", b)
        if not bm:
            unknown.append(name)
            facts[name] = False
            return
        rm = re.search(obj_re + r"\s*(?:->|\.)\s*Remove\s*\(\s*\)", b)
        facts[name] = bool(rm and rm.start() < bm.start())

    removed_first(r"bool\s+DictCompiler::BuildTable\s*\(", r"\btable", "tableRemovedFirst")
    removed_first(r"bool\s+DictCompiler::BuildPrism\s*\(", r"\bprism_", "prismRemovedFirst")
    removed_first(r"bool\s+DictCompiler::BuildReverseDb\s*\(", r"\breverse_db", "reverseRemovedFirst")

    # ---- Load tests the tag
    def load_tests(path, cls, name):
        src = rd(path)
        b = body_of(src, r"bool\s+%s::Load\s*\(" % cls)
        ok = False
        if b:
            m = re.search(r"if\s*\(\s*strncmp\s*\(\s*metadata_->format\s*,\s*k\w+FormatPrefix\s*,\s*k\w+FormatPrefixLen\s*\)\s*\)\s*\{", b)
            if m:
                blk = b[m.end() - 1:genlib.match_brace(b, m.end() - 1) + 1]
                ok = "return false" in blk
        facts[name] = ok

    load_tests("src/rime/dict/table.cc", "Table", "tableLoadTestsTag")
    load_tests("src/rime/dict/prism.cc", "Prism", "prismLoadTestsTag")
    load_tests("src/rime/dict/reverse_lookup_dictionary.cc", "ReverseDb", "reverseLoadTestsTag")

    # ---- MappedFile
    mf = rd("src/rime/dict/mapped_file.cc")
    b = body_of(mf, r"bool\s+MappedFile::Create\s*\(")
    facts["createResizesExisting"] = bool(b and re.search(r"if\s*\(\s*Exists\s*\(\s*\)\s*\)\s*\{[^}]*Resize\s*\(\s*capacity\s*\)", b, re.S))
    mh = rd("src/rime/dict/mapped_file.h")
    b = body_of(mh, r"T\*\s+MappedFile::Allocate\s*\(")
    facts["allocateZeroes"] = bool(b and re.search(r"memset\s*\(\s*ptr\s*,\s*0\s*,\s*required_space\s*\)", b))
    if b is None:
        unknown.append("allocateZeroes")

    # ---- compiled YAML writer
    cd = rd("src/rime/config/config_data.cc")
    b = body_of(cd, r"bool\s+ConfigData::SaveToFile\s*\(")
    if b is None:
        unknown.append("yamlSavedInPlace")
        facts["yamlSavedInPlace"] = True
    else:
        in_place = re.search(r"std::ofstream\s+\w+\s*\(\s*file_path\s*\.\s*c_str\s*\(\s*\)", b) is not None
        renames = re.search(r"\brename\s*\(", b) is not None
        facts["yamlSavedInPlace"] = in_place and not renames
        if not in_place and not renames:
            unknown.append("yamlSavedInPlace")
            facts["yamlSavedInPlace"] = True

    # ---- C12: width of the recorded source timestamps (writer and reader must agree)
    unknown_c12 = []
    bi = rd("src/rime/config/build_info_plugin.cc")
    b = body_of(bi, r"bool\s+BuildInfoPlugin::ReviewLinkOutput\s*\(")
    wbits = 0
    if b:
        stores = re.findall(r"timestamps\s*\[\s*resource->resource_id\s*\]\s*=\s*([^;]*);", b)
        timed = [re.sub(r"\s+", "", e) for e in stores if "to_time_t" in e or "last_write_time" in e]
        rest = [re.sub(r"\s+", "", e) for e in stores if not ("to_time_t" in e or "last_write_time" in e)]
        if len(timed) == 1 and all(e == "0" for e in rest):
            e = timed[0]
            if re.fullmatch(r"\(int\)filesystem::to_time_t\(std::filesystem::last_write_time\(file_path\)\)", e):
                wbits = 32
            elif re.fullmatch(r"std::to_string\(static_cast<longlong>\(filesystem::to_time_t\(std::filesystem::last_write_time\(file_path\)\)\)\)", e):
                wbits = 64
    dt = rd("src/rime/lever/deployment_tasks.cc")
    b = body_of(dt, r"static\s+bool\s+ConfigNeedsUpdate\s*\(")
    rbits = 0
    if b:
        flat = re.sub(r"\s+", "", b)
        if ("intrecorded_time=0;" in flat and "value->GetInt(&recorded_time)" in flat
                and "recorded_time!=(int)filesystem::to_time_t(fs::last_write_time(source_file))" in flat):
            rbits = 32
        elif ("longlongrecorded_time=0;" in flat and "ParseTimestamp(value->str(),&recorded_time)" in flat
                and "recorded_time!=static_cast<longlong>(filesystem::to_time_t(fs::last_write_time(source_file)))" in flat):
            pb = body_of(dt, r"static\s+bool\s+ParseTimestamp\s*\(")
            pf = re.sub(r"\s+", "", pb or "")
            if "*value=std::stoll(str,&pos);" in pf and "returnpos==str.length();" in pf and "catch(...){returnfalse;}" in pf:
                rbits = 64
    facts["timestampBits"] = wbits if (wbits == rbits and wbits) else 0
    facts["timestampWriterBits"], facts["timestampReaderBits"] = wbits, rbits
    if not facts["timestampBits"]:
        unknown_c12.append("timestampBits (writer %s, reader %s)" % (wbits or "?", rbits or "?"))

    order = ["packLoopDropsSyllabaryOnSkip", "tableTagLast", "prismTagLast", "reverseTagLast", "tableRemovedFirst",
             "prismRemovedFirst", "reverseRemovedFirst", "tableLoadTestsTag", "prismLoadTestsTag", "reverseLoadTestsTag",
             "createResizesExisting", "allocateZeroes", "yamlSavedInPlace"]
    lines = ["/-! GENERATED by gen/deploy_facts.py from the working tree of librime — do not edit. -/",
             "namespace RimeModel.Gen.DeployFacts", ""]
    for k in order:
        lines.append("def %s : Bool := %s" % (k, "true" if facts[k] else "false"))
    lines.append("def timestampBits : Nat := %d" % facts["timestampBits"])
    lines += ["", "end RimeModel.Gen.DeployFacts", ""]
    genlib.write_if_changed(out, "\n".join(lines))
    # independent count: number of format-tag stores in the three builders
    indep = sum(len(re.findall(r"strncpy\s*\(\s*metadata_?->format", rd(p))) for p in
                ("src/rime/dict/table.cc", "src/rime/dict/prism.cc", "src/rime/dict/reverse_lookup_dictionary.cc"))
    # independent look at the same two places: any 32-bit cast / parse left next to a time?
    indep_ts = {"writer_casts_int": len(re.findall(r"\(int\)\s*filesystem::to_time_t", bi)),
                "reader_casts_int": len(re.findall(r"\(int\)\s*filesystem::to_time_t", dt)),
                "reader_getint_recorded": len(re.findall(r"GetInt\s*\(\s*&recorded_time", dt))}
    if facts["timestampBits"] == 64 and any(indep_ts.values()):
        facts["timestampBits"] = 0
        unknown_c12.append("timestampBits: 64-bit shape recognised but an (int) cast of a time is still there %s" % indep_ts)
        genlib.write_if_changed(out, "\n".join(lines).replace("def timestampBits : Nat := 64", "def timestampBits : Nat := 0"))
    print(json.dumps({"facts": facts, "unknown": unknown, "unknown_c12": unknown_c12, "count": len(order) + 1,
                      "independent_tag_store_count": indep, "independent_timestamp_casts": indep_ts}))


if __name__ == "__main__":
    main()
