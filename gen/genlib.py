"""Helpers shared by the translators: write-if-changed, C++ source scanning."""
import os, re

def write_if_changed(path, text):
    try:
        if open(path).read() == text:
            return False
    except OSError:
        pass
    os.makedirs(os.path.dirname(path), exist_ok=True)
    with open(path, "w") as f:
        f.write(text)
    return True

def strip_cpp_comments(src):
    """Remove // and /* */ comments, keep string literals and line structure."""
    out, i, n = [], 0, len(src)
    while i < n:
        c = src[i]
        if src.startswith("//", i):
            while i < n and src[i] != "\n":
                i += 1
        elif src.startswith("/*", i):
            j = src.find("*/", i + 2)
            j = n if j < 0 else j + 2
            out.append("\n" * src.count("\n", i, j))
            i = j
        elif c == '"' or c == "'":
            j = i + 1
            while j < n and src[j] != c:
                j += 2 if src[j] == "\\" else 1
            out.append(src[i:j + 1])
            i = j + 1
        else:
            out.append(c)
            i += 1
    return "".join(out)

def match_brace(src, i, open_ch="{", close_ch="}"):
    """src[i] == open_ch; return index of the matching close (string-literal aware)."""
    depth, n = 0, len(src)
    while i < n:
        c = src[i]
        if c == '"' or c == "'":
            j = i + 1
            while j < n and src[j] != c:
                j += 2 if src[j] == "\\" else 1
            i = j + 1
            continue
        if c == open_ch:
            depth += 1
        elif c == close_ch:
            depth -= 1
            if depth == 0:
                return i
        i += 1
    return -1

def functions(src):
    """Yield (name, params_text, body_text, line_no) for every function definition found by a
    light-weight scan: identifier '(' params ')' [const] '{' body '}' at brace depth 0/namespace."""
    src_nc = strip_cpp_comments(src)
    for m in re.finditer(r"([A-Za-z_][\w:]*)\s*\(", src_nc):
        name = m.group(1)
        if name in ("if", "for", "while", "switch", "return", "sizeof", "catch", "defined"):
            continue
        p_open = m.end() - 1
        p_close = match_brace(src_nc, p_open, "(", ")")
        if p_close < 0:
            continue
        k = p_close + 1
        mm = re.match(r"\s*(const\s*)?(noexcept\s*)?\{", src_nc[k:])
        if not mm:
            # constructor initialiser list:  ) : Base(args), member_(x) {
            mi = re.match(r"\s*:(?!:)", src_nc[k:])
            if not mi:
                continue
            j, depth = k + mi.end(), 0
            while j < len(src_nc):
                ch = src_nc[j]
                if ch == "(":
                    depth += 1
                elif ch == ")":
                    depth -= 1
                elif ch == "{" and depth == 0:
                    break
                elif ch == ";" and depth == 0:
                    j = -1
                    break
                j += 1
            if j < 0 or j >= len(src_nc):
                continue
            b_open = j
            b_close = match_brace(src_nc, b_open)
            if b_close < 0:
                continue
            yield name, src_nc[p_open + 1:p_close], src_nc[b_open + 1:b_close], src_nc.count("\n", 0, m.start()) + 1
            continue
        b_open = k + mm.end() - 1
        b_close = match_brace(src_nc, b_open)
        if b_close < 0:
            continue
        # must be at statement start: previous non-space token is a type-ish thing, not an operator
        prefix = src_nc[max(0, m.start() - 200):m.start()]
        if re.search(r"[=,(!&|+\-<>?:.]\s*$", prefix) and not re.search(r"[\w*&>]\s+$|[*&]\s*$", prefix):
            continue
        yield name, src_nc[p_open + 1:p_close], src_nc[b_open + 1:b_close], src_nc.count("\n", 0, m.start()) + 1
