#!/usr/bin/env python3
"""Translator: default keymaps of Editor (fluid/express), Navigator, Selector from the working tree.

Parses the constructors' `keymap.Bind({XK_x, mask}, &Class::Action);` lines grouped by the
`get_keymap(<selector>)` block they follow, resolves XK_* / k*Mask by compiling a tiny program against
the repo's own headers, applies std::map overwrite semantics (last Bind of a key wins) and writes
RimeModel/Gen/Keymaps.lean.  Unknown action names or unparsed Bind lines fail closed (exit 3).
"""
import os, re, sys, json, subprocess, tempfile
sys.path.insert(0, os.path.dirname(os.path.abspath(__file__)))
from genlib import *

ACTS = {
 "Editor": {"Confirm": "confirm", "ToggleSelection": "toggleSelection", "CommitComment": "commitComment",
            "CommitRawInput": "commitRawInput", "CommitScriptText": "commitScriptText",
            "CommitComposition": "commitComposition", "RevertLastEdit": "revertLastEdit",
            "BackToPreviousInput": "backToPreviousInput", "BackToPreviousSyllable": "backToPreviousSyllable",
            "DeleteCandidate": "deleteCandidate", "DeleteChar": "deleteChar", "CancelComposition": "cancelComposition"},
 "Navigator": {"Rewind": "rewind", "LeftByChar": "leftByChar", "RightByChar": "rightByChar",
               "LeftBySyllable": "leftBySyllable", "RightBySyllable": "rightBySyllable", "Home": "home", "End": "end_"},
 "Selector": {"PreviousCandidate": "previousCandidate", "NextCandidate": "nextCandidate", "PreviousPage": "previousPage",
              "NextPage": "nextPage", "Home": "home", "End": "end_"},
}
ENUM = {"Editor": "EditorAct", "Navigator": "NavAct", "Selector": "SelAct"}

def ctor_body(src, cls):
    for name, params, body, line in functions(src):
        if name == "%s::%s" % (cls, cls):
            return body
    return None

def parse_blocks(body, cls):
    """returns list of (selector_text, [(keyexpr, maskexpr, action)])"""
    blocks, cur = [], None
    binds_seen = 0
    for st in re.split(r";", body):
        s = re.sub(r"\s+", " ", st).strip()
        m = re.search(r"auto ?& ?keymap ?= ?get_keymap\((.*?)\)$", s)
        if m:
            cur = (m.group(1).strip() or "0", [])
            blocks.append(cur)
            continue
        m = re.search(r"keymap\.Bind\( ?\{ ?(\w+) ?, ?([^}]+?) ?\} ?, ?& ?(\w+)::(\w+) ?\)$", s)
        if m:
            if cur is None:
                raise SystemExit("keymaps: Bind before get_keymap in %s" % cls)
            cur[1].append((m.group(1), m.group(2), m.group(4)))
            binds_seen += 1
            continue
        m = re.search(r"char_handler_ ?= ?& ?Editor::(\w+)$", s)
        if m:
            blocks.append(("char_handler", m.group(1)))
    return blocks, binds_seen

def resolve(repo, idents):
    """evaluate integer constant expressions against the repo's headers"""
    idents = sorted(set(idents))
    prog = "#include <cstdio>\n#include <rime/key_table.h>\nusing namespace rime;\nint main(){\n"
    for e in idents:
        prog += '  printf("%%ld\\n", (long)(%s));\n' % e
    prog += "}\n"
    with tempfile.TemporaryDirectory(dir=os.path.dirname(os.path.abspath(__file__))) as td:
        cc = os.path.join(td, "r.cc")
        open(cc, "w").write(prog)
        exe = os.path.join(td, "r")
        bsrc = build_include_dir(repo, td)
        r = subprocess.run(["g++", "-std=c++17", "-I" + os.path.join(repo, "src"), "-I" + os.path.join(repo, "include"),
                            "-I" + bsrc, cc, "-o", exe], capture_output=True, text=True)
        if r.returncode != 0:
            raise SystemExit("keymaps: cannot resolve constants: " + r.stderr[-2000:])
        out = subprocess.run([exe], capture_output=True, text=True).stdout.split()
    return dict(zip(idents, [int(x) for x in out]))

def main():
    repo, outp = sys.argv[1], sys.argv[2]
    files = {"Editor": "src/rime/gear/editor.cc", "Navigator": "src/rime/gear/navigator.cc", "Selector": "src/rime/gear/selector.cc"}
    maps, exprs, total, indep = [], [], 0, 0
    char_handlers = {}
    for cls, f in files.items():
        src = open(os.path.join(repo, f)).read()
        indep += len(re.findall(r"keymap\s*\.\s*Bind\s*\(", strip_cpp_comments(src)))
        ctors = [cls] if cls != "Editor" else ["FluidEditor", "ExpressEditor"]
        for ct in ctors:
            body = ctor_body(src, ct)
            if body is None:
                raise SystemExit("keymaps: constructor %s not found" % ct)
            blocks, n = parse_blocks(body, cls)
            total += n
            for b in blocks:
                if b[0] == "char_handler":
                    char_handlers[ct] = b[1]
                    continue
                maps.append((ct, b[0], b[1]))
                exprs.append(b[0])
                for k, m, a in b[1]:
                    exprs += [k, m]
                    if a not in ACTS[cls]:
                        raise SystemExit("keymaps: unknown action %s::%s" % (cls, a))
    if total != indep:
        raise SystemExit("keymaps: parsed %d Bind calls, independent count %d" % (total, indep))
    sel_consts = ["Horizontal", "Vertical", "Stacked", "Linear"]
    # selector expressions like `Horizontal | Stacked` refer to class enums; resolve them textually
    def qualify(e, cls):
        return re.sub(r"\b(Horizontal|Vertical|Stacked|Linear)\b", lambda m: "%s::%s" % (cls, m.group(1)), e)
    XK_NAMES = ["BackSpace", "Delete", "KP_Left", "KP_Right", "Left", "Right", "Home", "End", "Escape", "Return", "space",
                "Up", "Down", "Prior", "Next", "KP_Home", "KP_End"]
    prog_ids = ["XK_" + n for n in XK_NAMES]
    for ct, sel, binds in maps:
        cls = "Editor" if "Editor" in ct else ct
        prog_ids.append(qualify(sel, cls))
        for k, m, a in binds:
            prog_ids += [k, m]
    # class enums need the class headers
    vals = resolve_with_headers(repo, prog_ids)
    lines = ["-- GENERATED by /verif/gen/keymaps.py from editor.cc, navigator.cc, selector.cc — do not edit",
             "import RimeModel.Session.Actions", "namespace RimeModel.Session.Gen", "open RimeModel.Session", ""]
    summary = {}
    for ct, sel, binds in maps:
        cls = "Editor" if "Editor" in ct else ct
        selv = vals[qualify(sel, cls)]
        name = {"FluidEditor": "fluidEditorKeymap", "ExpressEditor": "expressEditorKeymap"}.get(ct) or \
               ("%sKeymap%d" % (ct[0].lower() + ct[1:], selv))
        table = {}
        for k, m, a in binds:
            table[(vals[k], vals[m])] = ACTS[cls][a]     # std::map: last Bind wins
        rows = ", ".join("(%d, %d, .%s)" % (k, m, a) for (k, m), a in sorted(table.items()))
        lines.append("def %s : Keymap %s := [%s]" % (name, ENUM[cls], rows))
        summary[name] = len(table)
    for n in XK_NAMES:
        lines.append("def xk%s : Int := %d" % (n.replace("_", ""), vals["XK_" + n]))
    for ct, h in sorted(char_handlers.items()):
        hv = {"DirectCommit": "directCommit", "AddToInput": "addToInput"}.get(h)
        if hv is None:
            raise SystemExit("keymaps: unknown char handler " + h)
        lines.append("def %sCharHandler : CharHandler := .%s" % (ct[0].lower() + ct[1:], hv))
    lines += ["", "end RimeModel.Session.Gen", ""]
    changed = write_if_changed(outp, "\n".join(lines))
    json.dump({"keymaps": summary, "binds": total, "independent_count": indep, "changed": changed}, sys.stdout)

def resolve_with_headers(repo, idents):
    idents = sorted(set(idents))
    prog = ("#include <cstdio>\n#include <rime/key_table.h>\n#include <rime/gear/navigator.h>\n#include <rime/gear/selector.h>\n"
            "using namespace rime;\nint main(){\n")
    for e in idents:
        prog += '  printf("%%ld\\n", (long)(%s));\n' % e
    prog += "}\n"
    here = os.path.dirname(os.path.abspath(__file__))
    wd = os.path.join(here, "..", ".work")
    os.makedirs(wd, exist_ok=True)
    with tempfile.TemporaryDirectory(dir=wd) as td:
        cc = os.path.join(td, "r.cc")
        open(cc, "w").write(prog)
        exe = os.path.join(td, "r")
        bsrc = build_include_dir(repo, td)
        r = subprocess.run(["g++", "-std=c++17", "-DBOOST_DLL_USE_STD_FS", "-I" + os.path.join(repo, "src"), "-I" + os.path.join(repo, "include"),
                            "-I" + bsrc, cc, "-o", exe], capture_output=True, text=True)
        if r.returncode != 0:
            raise SystemExit("keymaps: cannot resolve constants: " + r.stderr[-3000:])
        out = subprocess.run([exe], capture_output=True, text=True).stdout.split()
    return dict(zip(idents, [int(x) for x in out]))

if __name__ == "__main__":
    main()
