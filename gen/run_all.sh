#!/bin/bash
# regenerate every RimeModel/Gen/*.lean from /repo's working tree
HERE="$(cd "$(dirname "${BASH_SOURCE[0]}")/.." && pwd)"
REPO="${VERIF_REPO:-/repo}"
python3 "$HERE/gen/c20_sites.py" "$REPO" "$HERE/lean/RimeModel/Gen/CopySites.lean" > /dev/null
python3 "$HERE/gen/c19_tables.py" "$REPO" "$HERE/lean/RimeModel/Gen/KeyTables.lean" > /dev/null
python3 "$HERE/gen/keymaps.py" "$REPO" "$HERE/lean/RimeModel/Gen/Keymaps.lean" > /dev/null
python3 "$HERE/gen/c17_members.py" "$REPO" "$HERE/lean/RimeModel/Gen/UserDbMembers.lean" "$HERE/harness/gen/c17_members.inc" > /dev/null
python3 "$HERE/gen/c15_session_api.py" "$REPO" "$HERE/lean/RimeModel/Gen/SessionApi.lean" > /dev/null
python3 "$HERE/gen/deploy_facts.py" "$REPO" "$HERE/lean/RimeModel/Gen/DeployFacts.lean" > /dev/null
python3 "$HERE/gen/c18_emit.py" "$REPO" "$HERE/lean/RimeModel/Gen/C18Emit.lean" > /dev/null
