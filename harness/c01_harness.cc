// C01 harness: (1) lists / type-mutates nodes of a YAML document with librime's own Config API,
// (2) drives the real API with a broad op vocabulary (whole-int-range keys, size_t boundary indices,
// dead and never-issued ids, double frees of handed-out structs) under ASan+UBSan with a watchdog.
//   c01_harness paths  <yaml>
//   c01_harness mutate <yaml_in> <yaml_out> <path> <kind>
//   c01_harness run    <workspace> <script> [timeout_s]
// `run` prints "@<n>" (op index, flushed) before each op and "done <n>" at the end; any sanitizer abort,
// escaped exception (terminate handler) or timeout is the result.
#include "hcommon.h"
#include <csignal>
#include <ctime>
#include <exception>
#include <sstream>
#include <unistd.h>
#include <rime/config.h>
#include <rime/config/config_types.h>
#include <rime/registry.h>
#include <rime/component.h>
#include <rime/candidate.h>
#include <rime/segmentation.h>
#include <rime/translation.h>
#include <rime/translator.h>

using namespace vh;
using rime::an;

static void walk(const an<rime::ConfigItem>& item, const std::string& path) {
  const char* t = !item ? "null" : item->type() == rime::ConfigItem::kScalar ? "scalar"
                  : item->type() == rime::ConfigItem::kList ? "list"
                  : item->type() == rime::ConfigItem::kMap ? "map" : "null";
  if (!path.empty()) printf("%s %s\n", t, path.c_str());
  if (!item) return;
  if (auto l = rime::As<rime::ConfigList>(item)) {
    for (size_t i = 0; i < l->size(); ++i) walk(l->GetAt(i), path + (path.empty() ? "" : "/") + "@" + std::to_string(i));
  } else if (auto m = rime::As<rime::ConfigMap>(item)) {
    for (auto it = m->begin(); it != m->end(); ++it)
      if (it->first.find('/') == std::string::npos)   // keys with '/' cannot be addressed by a path
        walk(it->second, path + (path.empty() ? "" : "/") + it->first);
  }
}

static an<rime::ConfigItem> make_kind(const std::string& kind) {
  if (kind == "null") return nullptr;
  if (kind.rfind("scalar:", 0) == 0) return rime::New<rime::ConfigValue>(kind.substr(7));
  if (kind == "emptylist") return rime::New<rime::ConfigList>();
  if (kind == "emptymap") return rime::New<rime::ConfigMap>();
  if (kind == "list1") { auto l = rime::New<rime::ConfigList>(); l->Append(rime::New<rime::ConfigValue>("1")); return l; }
  if (kind == "map1") { auto m = rime::New<rime::ConfigMap>(); m->Set("a", rime::New<rime::ConfigValue>("1")); return m; }
  if (kind == "listmap") { auto l = rime::New<rime::ConfigList>(); l->Append(rime::New<rime::ConfigMap>()); return l; }
  return nullptr;
}

// Session::Activate / Service::CleanupStaleSessions read the wall clock through time(): supplied here so that a script can
// let sessions go stale (`advance <seconds>`); real time plus the offset
static time_t g_time_offset = 0;
extern "C" time_t time(time_t* t) {
  struct timespec ts; clock_gettime(CLOCK_REALTIME, &ts);
  time_t v = ts.tv_sec + g_time_offset;
  if (t) *t = v;
  return v;
}

// the same table-driven translator as the session harness (so synthetic schemas work here too)
struct Row { std::string text, comment, preedit; };
static std::map<std::string, std::vector<Row>> g_table;
class VtTranslator : public rime::Translator {
 public:
  explicit VtTranslator(const rime::Ticket& t) : rime::Translator(t) {}
  an<rime::Translation> Query(const std::string& input, const rime::Segment& seg) override {
    if (!seg.HasTag("abc")) return nullptr;
    auto tr = rime::New<rime::FifoTranslation>();
    for (size_t n = input.size(); n >= 1; --n) {
      auto it = g_table.find(input.substr(0, n));
      if (it == g_table.end()) continue;
      for (const Row& r : it->second)
        tr->Append(rime::New<rime::SimpleCandidate>("vt", seg.start, seg.start + n, r.text, r.comment, r.preedit));
    }
    if (tr->size() == 0) return nullptr;
    return tr;
  }
};

static void on_alarm(int) { const char m[] = "\nTIMEOUT\n"; (void)!write(1, m, sizeof m - 1); _exit(96); }
static void on_terminate() { const char m[] = "\nTERMINATE (exception escaped the C boundary)\n"; (void)!write(1, m, sizeof m - 1); _exit(95); }

int main(int argc, char** argv) {
  std::string mode = argc > 1 ? argv[1] : "";
  if (mode == "paths" || mode == "mutate") {
    rime::Config cfg;
    std::ifstream in(argv[2]);
    if (!cfg.LoadFromStream(in)) { puts("load-failed"); return 3; }
    if (mode == "paths") { walk(cfg.GetItem(""), ""); return 0; }
    std::string path = argv[4], kind = argv[5];
    cfg.SetItem(path, make_kind(kind));
    std::ofstream out(argv[3]);
    cfg.SaveToStream(out);
    return 0;
  }
  if (mode != "run") { fprintf(stderr, "usage\n"); return 2; }
  setvbuf(stdout, NULL, _IOLBF, 0);
  std::set_terminate(on_terminate);
  signal(SIGALRM, on_alarm);
  alarm(argc > 4 ? atoi(argv[4]) : 120);
  std::string ws = argv[2];
  std::ifstream script(argv[3]);
  std::vector<std::string> lines;
  for (std::string l; std::getline(script, l);) lines.push_back(l);
  for (auto& l : lines) {
    std::istringstream is(l);
    std::string w; is >> w;
    if (w == "table") { std::string k, t, c, p; is >> k >> t >> c >> p; g_table[unhex(k)].push_back({unhex(t), unhex(c), unhex(p)}); }
  }
  RimeApi* api = start(ws, ws, true);
  rime::Registry::instance().Register("vt_translator", new rime::Component<VtTranslator>);
  std::vector<RimeSessionId> sessions;
  RimeSessionId cur = 0;
  size_t n = 0;
  for (auto& l : lines) {
    std::istringstream is(l);
    std::string w; is >> w;
    if (w.empty() || w == "env" || w == "table" || w[0] == '#') continue;
    printf("@%zu %s\n", n++, l.c_str());
    if (w == "new") { cur = api->create_session(); sessions.push_back(cur); }
    else if (w == "use") { size_t k; is >> k; cur = k < sessions.size() ? sessions[k] : 0; }
    else if (w == "rawid") { unsigned long long v; is >> v; cur = (RimeSessionId)v; }
    else if (w == "destroy") { size_t k; is >> k; if (k < sessions.size()) api->destroy_session(sessions[k]); }
    else if (w == "find") { api->find_session(cur); }
    else if (w == "cleanup") { api->cleanup_stale_sessions(); }
    else if (w == "advance") { long sec; is >> sec; g_time_offset += sec; }     // the wall clock the service reads moves on
    else if (w == "schema") { std::string id; is >> id; api->select_schema(cur, id.c_str()); }
    else if (w == "key") { long long code, mask; is >> code >> mask; api->process_key(cur, (int)code, (int)mask); }
    else if (w == "select") { unsigned long long i; is >> i; api->select_candidate(cur, (size_t)i); }
    else if (w == "select_page") { unsigned long long i; is >> i; api->select_candidate_on_current_page(cur, (size_t)i); }
    else if (w == "highlight") { unsigned long long i; is >> i; api->highlight_candidate(cur, (size_t)i); }
    else if (w == "highlight_page") { unsigned long long i; is >> i; api->highlight_candidate_on_current_page(cur, (size_t)i); }
    else if (w == "delete") { unsigned long long i; is >> i; api->delete_candidate(cur, (size_t)i); }
    else if (w == "delete_page") { unsigned long long i; is >> i; api->delete_candidate_on_current_page(cur, (size_t)i); }
    else if (w == "page") { std::string d; is >> d; api->change_page(cur, d == "-"); }
    else if (w == "input") { std::string h; is >> h; api->set_input(cur, unhex(h).c_str()); }
    else if (w == "caret") { unsigned long long v; is >> v; api->set_caret_pos(cur, (size_t)v); }
    else if (w == "option") { std::string nm; int v; is >> nm >> v; api->set_option(cur, unhex(nm).c_str(), v); }
    else if (w == "get_option") { std::string nm; is >> nm; api->get_option(cur, unhex(nm).c_str()); }
    else if (w == "prop") { std::string nm, v; is >> nm >> v; api->set_property(cur, unhex(nm).c_str(), unhex(v).c_str()); }
    else if (w == "get_prop") { std::string nm; size_t sz; is >> nm >> sz; std::vector<char> b(sz ? sz : 1); api->get_property(cur, unhex(nm).c_str(), b.data(), sz); }
    else if (w == "commit") { api->commit_composition(cur); }
    else if (w == "clear") { api->clear_composition(cur); }
    else if (w == "read_commit") { RIME_STRUCT(RimeCommit, c); api->get_commit(cur, &c); api->free_commit(&c); api->free_commit(&c); }
    else if (w == "context") {
      RIME_STRUCT(RimeContext, c);
      api->get_context(cur, &c);
      // touch everything that was handed out
      volatile size_t sink = 0;
      if (c.composition.preedit) sink += strlen(c.composition.preedit);
      for (int i = 0; i < c.menu.num_candidates; ++i) { sink += strlen(c.menu.candidates[i].text); if (c.menu.candidates[i].comment) sink += strlen(c.menu.candidates[i].comment); }
      if (c.menu.select_keys) sink += strlen(c.menu.select_keys);
      if (c.select_labels) for (int i = 0; i < c.menu.page_size; ++i) sink += strlen(c.select_labels[i]);
      if (c.commit_text_preview) sink += strlen(c.commit_text_preview);
      api->free_context(&c);
      api->free_context(&c);   // a second free must be harmless
    }
    else if (w == "status") { RIME_STRUCT(RimeStatus, s); api->get_status(cur, &s); api->free_status(&s); api->free_status(&s); }
    else if (w == "getinput") { const char* p = api->get_input(cur); volatile size_t s = p ? strlen(p) : 0; (void)s; api->get_caret_pos(cur); }
    else if (w == "list") {
      long long from; int cnt; is >> from >> cnt;
      RimeCandidateListIterator it = {0};
      if (api->candidate_list_from_index(cur, &it, (int)from)) {
        for (int i = 0; i < cnt && api->candidate_list_next(&it); ++i) { volatile size_t s = strlen(it.candidate.text); (void)s; }
        api->candidate_list_end(&it);
        api->candidate_list_end(&it);
      }
    }
    else if (w == "schema_list") { RimeSchemaList sl = {0}; if (api->get_schema_list(&sl)) { api->free_schema_list(&sl); api->free_schema_list(&sl); } }
    else if (w == "cur_schema") { size_t sz; is >> sz; std::vector<char> b(sz ? sz : 1); api->get_current_schema(cur, b.data(), sz); }
    else if (w == "state_label") { std::string nm; int st; is >> nm >> st; api->get_state_label(cur, unhex(nm).c_str(), st); api->get_state_label_abbreviated(cur, unhex(nm).c_str(), st, True); }
    else if (w == "sim") { std::string h; is >> h; api->simulate_key_sequence(cur, unhex(h).c_str()); }
    else { puts("bad-op"); }
  }
  printf("done %zu\n", n);
  for (auto s : sessions) api->destroy_session(s);
  api->finalize();
  puts("finalized");
  return 0;
}
