// C04 harness: the real Menu / MergedTranslation / filters and the real API read paths, printing the same
// line protocol as lean/Driver/C04.lean.
//
//   c04_harness menu <script>             menu level: script-defined translations, real rime::Menu + filters
//   c04_harness api <workspace> <script>  API level: sessions on a deployed workspace (stock + synthetic schemas)
//
// menu-level lines:  reset | tr [cache] [distinct] [prefetch<k>] [union] [unique] <cand>* (`/` between the pieces of a union) |
//                    menu <uniq|scf>* | prepare n | page ps p | at i | empty | count | dump | tprobe n | probe n
//                    cand = text:comment:start:end:quality:<t|s> (hex) or null
// api-level lines:   row <ns> <key> <text> <comment> <quality> <t|s>      (table of c04_translator@<ns>)
//                    state <schema> <opt=0|1,...|-> <input> <keys|set>    (new session; prints `state <hasmenu> <ps>`)
//                    restate                                              (clear + same input again in the same session)
//                    ctx | hl i | hlp i | chpage +|- | key next|prior|up|down | keyc <keycode> | list from n
#include "hcommon.h"
#include <map>
#include <sstream>
#include <iostream>
#include <rime/candidate.h>
#include <rime/component.h>
#include <rime/registry.h>
#include <rime/service.h>
#include <rime/context.h>
#include <rime/composition.h>
#include <rime/menu.h>
#include <rime/segmentation.h>
#include <rime/translation.h>
#include <rime/translator.h>
#include <rime/filter.h>
#include <rime/schema.h>
#include <rime/ticket.h>
#include <rime/dict/vocabulary.h>
#include <rime/gear/translator_commons.h>
#include <rime/gear/uniquifier.h>
#include <rime/gear/single_char_filter.h>

using namespace vh;
using rime::an;
using rime::New;
using rime::As;

static std::vector<std::string> split(const std::string& s, char d) {
  std::vector<std::string> out;
  std::string cur;
  for (char c : s) {
    if (c == d) { out.push_back(cur); cur.clear(); } else cur.push_back(c);
  }
  out.push_back(cur);
  return out;
}

static an<rime::Candidate> make_cand(const std::string& text, const std::string& comment, size_t start, size_t end,
                                     double quality, bool table) {
  an<rime::Candidate> c;
  if (table) {
    auto e = New<rime::DictEntry>();
    e->text = text;
    e->comment = comment;
    c = New<rime::Phrase>(nullptr, "table", start, end, e);
  } else {
    c = New<rime::SimpleCandidate>("vt", start, end, text, comment);
  }
  c->set_quality(quality);
  return c;
}

// ------------------------------------------------------------------ menu level
static bool parse_cand(const std::string& s, an<rime::Candidate>* out) {
  if (s == "null") { *out = nullptr; return true; }
  auto f = split(s, ':');
  if (f.size() != 6 || (f[5] != "t" && f[5] != "s")) return false;
  *out = make_cand(unhex(f[0]), unhex(f[1]), std::stoul(f[2]), std::stoul(f[3]), std::stod(f[4]), f[5] == "t");
  return true;
}

static std::string show_cand(const an<rime::Candidate>& c) {
  size_t g = 1;
  if (auto u = As<rime::UniquifiedCandidate>(c)) g = u->items().size();
  std::ostringstream o;
  o << hex(c->text()) << ":" << hex(c->comment()) << ":" << c->start() << ":" << c->end() << ":" << g;
  return o.str();
}

static std::string bracket(const std::vector<std::string>& v) {
  std::string o = "[";
  for (size_t i = 0; i < v.size(); ++i) { if (i) o += "|"; o += v[i]; }
  return o + "]";
}

// a PrefetchTranslation the way the simplifier and the single-char filter use it: Replenish() pulls candidates of the wrapped
// translation into the queue (here up to k at a time, unchanged), so what it yields is what the wrapped translation yields
class HPrefetch : public rime::PrefetchTranslation {
 public:
  HPrefetch(an<rime::Translation> t, size_t k) : rime::PrefetchTranslation(t), k_(k) {}
 protected:
  bool Replenish() override {
    for (size_t i = 0; i < k_ && !translation_->exhausted(); ++i) { cache_.push_back(translation_->Peek()); translation_->Next(); }
    return !cache_.empty();
  }
  size_t k_;
};

static int run_menu(const char* script_path) {
  std::ifstream script(script_path);
  std::vector<an<rime::Translation>> trs;
  an<rime::Menu> menu;
  rime::Ticket ticket;
  rime::Uniquifier uniquifier(ticket);
  rime::SingleCharFilter single_char(ticket);
  for (std::string l; std::getline(script, l);) {
    std::istringstream is(l);
    std::vector<std::string> w;
    for (std::string t; is >> t;) w.push_back(t);
    if (w.empty() || w[0][0] == '#') continue;
    if (w[0] == "reset") { trs.clear(); menu.reset(); puts("reset"); continue; }
    if (w[0] == "tr") {
      // wrappers: cache | distinct | prefetch<k> (a PrefetchTranslation whose Replenish() moves up to k candidates into the
      // queue) | union (pieces separated by `/`, joined by UnionTranslation) | unique (a UniqueTranslation of the one candidate)
      bool use_cache = false, use_distinct = false, use_union = false, use_unique = false, ok = true;
      size_t prefetch = 0;
      std::vector<an<rime::FifoTranslation>> pieces{New<rime::FifoTranslation>()};
      size_t ncand = 0; an<rime::Candidate> first;
      for (size_t i = 1; i < w.size(); ++i) {
        if (w[i] == "cache") { use_cache = true; continue; }
        if (w[i] == "distinct") { use_distinct = true; continue; }
        if (w[i] == "union") { use_union = true; continue; }
        if (w[i] == "unique") { use_unique = true; continue; }
        if (w[i].rfind("prefetch", 0) == 0 && w[i].size() == 9 && w[i][8] >= '1' && w[i][8] <= '9') { prefetch = w[i][8] - '0'; continue; }
        if (w[i] == "/") { if (!use_union) { ok = false; break; } pieces.push_back(New<rime::FifoTranslation>()); continue; }
        an<rime::Candidate> c;
        if (!parse_cand(w[i], &c)) { ok = false; break; }
        if (!c && (use_distinct || use_unique)) { ok = false; break; }
        if (!ncand++) first = c;
        pieces.back()->Append(c);
      }
      if (use_unique && (ncand != 1 || use_union)) ok = false;
      if (!ok) { puts("bad-op"); continue; }
      an<rime::Translation> t = pieces[0];
      if (use_unique) t = New<rime::UniqueTranslation>(first);
      if (use_union) {
        if (pieces.size() == 2) {
          t = pieces[0] + pieces[1];                      // operator+ (null when both are exhausted)
          if (!t) t = New<rime::UnionTranslation>();
        } else {
          auto u = New<rime::UnionTranslation>();
          for (auto& p : pieces) *u += p;
          t = u;
        }
      }
      if (use_distinct) t = New<rime::DistinctTranslation>(t);
      if (prefetch) t = New<HPrefetch>(t, prefetch);
      if (use_cache) t = New<rime::CacheTranslation>(t);
      trs.push_back(t);
      puts("tr ok");
      continue;
    }
    if (w[0] == "tprobe" && w.size() == 2) {
      // Peek / Next on the last translation alone, n times (past its exhaustion)
      if (trs.empty()) { puts("bad-op"); continue; }
      auto t = trs.back(); trs.pop_back();
      std::string o = "tprobe";
      for (size_t k = 0, n = std::stoul(w[1]); k < n; ++k) {
        auto c = t->Peek();
        bool r = t->Next();
        o += std::string(k ? "|" : " ") + (c ? show_cand(c) : std::string("null")) + "," + (r ? "1" : "0") + "," + (t->exhausted() ? "1" : "0");
      }
      puts(o.c_str());
      continue;
    }
    if (w[0] == "probe" && w.size() == 2) {
      // the translations so far merged by a MergedTranslation of their own, Peek / Next n times (past its exhaustion)
      rime::CandidateList none;
      rime::MergedTranslation m(none);
      for (auto& t : trs) m += t;
      trs.clear();
      std::string o = std::string("probe ") + (m.exhausted() ? "1" : "0");
      for (size_t k = 0, n = std::stoul(w[1]); k < n; ++k) {
        auto c = m.Peek();
        bool r = m.Next();
        o += std::string(k ? "|" : " ") + (c ? show_cand(c) : std::string("null")) + "," + (r ? "1" : "0") + "," + (m.exhausted() ? "1" : "0");
      }
      puts(o.c_str());
      continue;
    }
    if (w[0] == "menu") {
      bool ok = true;
      for (size_t i = 1; i < w.size(); ++i) if (w[i] != "uniq" && w[i] != "scf") ok = false;
      if (!ok) { puts("bad-op"); continue; }
      menu = New<rime::Menu>();
      for (auto& t : trs) menu->AddTranslation(t);
      for (size_t i = 1; i < w.size(); ++i) menu->AddFilter(w[i] == "uniq" ? (rime::Filter*)&uniquifier : (rime::Filter*)&single_char);
      trs.clear();
      puts("menu ok");
      continue;
    }
    if (!menu) { puts("bad-op"); continue; }
    if (w[0] == "prepare" && w.size() == 2) {
      printf("prepare %zu\n", menu->Prepare(std::stoul(w[1])));
    } else if (w[0] == "page" && w.size() == 3) {
      std::unique_ptr<rime::Page> pg(menu->CreatePage(std::stoul(w[1]), std::stoul(w[2])));
      if (!pg) { puts("page null"); continue; }
      std::vector<std::string> v;
      for (auto& c : pg->candidates) v.push_back(show_cand(c));
      printf("page %d %d %d %zu %s\n", pg->page_size, pg->page_no, pg->is_last_page ? 1 : 0, v.size(), bracket(v).c_str());
    } else if (w[0] == "at" && w.size() == 2) {
      auto c = menu->GetCandidateAt(std::stoul(w[1]));
      if (!c) puts("at null"); else printf("at %s\n", show_cand(c).c_str());
    } else if (w[0] == "empty") {
      printf("empty %d\n", menu->empty() ? 1 : 0);
    } else if (w[0] == "count") {
      printf("count %zu\n", menu->candidate_count());
    } else if (w[0] == "dump") {
      std::vector<std::string> v;
      for (size_t i = 0; i < menu->candidate_count(); ++i) v.push_back(show_cand(menu->GetCandidateAt(i)));
      printf("dump %s\n", bracket(v).c_str());
    } else {
      puts("bad-op");
    }
  }
  return 0;
}

// ------------------------------------------------------------------ API level
struct Row { std::string text, comment; double quality; bool table; };
static std::map<std::string, std::map<std::string, std::vector<Row>>> g_rows;   // ns -> key -> rows

// table-driven translator, one instance per name space (`c04_translator@a`): for every non-empty prefix p of the
// segment's input (longest first) the rows of T[ns][p], covering [start, start+|p|)
class C04Translator : public rime::Translator {
 public:
  explicit C04Translator(const rime::Ticket& t) : rime::Translator(t) {}
  an<rime::Translation> Query(const std::string& input, const rime::Segment& seg) override {
    if (!seg.HasTag("abc")) return nullptr;
    auto tr = New<rime::FifoTranslation>();
    auto& table = g_rows[name_space_];
    for (size_t n = input.size(); n >= 1; --n) {
      auto it = table.find(input.substr(0, n));
      if (it == table.end()) continue;
      for (const Row& r : it->second) tr->Append(make_cand(r.text, r.comment, seg.start, seg.start + n, r.quality, r.table));
    }
    if (tr->size() == 0) return nullptr;
    return tr;
  }
};

static RimeApi* api;

static std::string pair_of(const RimeCandidate& c) {
  return hex(std::string(c.text ? c.text : "")) + ":" + hex(std::string(c.comment ? c.comment : ""));
}

static int run_api(const char* ws_path, const char* script_path) {
  std::string ws = ws_path;
  std::ifstream script(script_path);
  std::vector<std::string> lines;
  for (std::string l; std::getline(script, l);) lines.push_back(l);
  for (auto& l : lines) {
    std::istringstream is(l);
    std::string w; is >> w;
    if (w == "row") {
      std::string ns, k, t, c, f; double q; is >> ns >> k >> t >> c >> q >> f;
      g_rows[ns][unhex(k)].push_back({unhex(t), unhex(c), q, f == "t"});
    }
  }
  setvbuf(stdout, NULL, _IOLBF, 0);
  api = start(ws, ws, false);
  rime::Registry::instance().Register("c04_translator", new rime::Component<C04Translator>);
  RimeSessionId s = 0;
  std::string cur_input, cur_how;
  auto feed = [&]() {
    if (cur_how == "set") api->set_input(s, cur_input.c_str());
    else for (unsigned char ch : cur_input) api->process_key(s, ch, 0);
  };
  auto report_state = [&]() {
    auto sess = rime::Service::instance().GetSession(s);
    int has = sess && sess->context() && sess->context()->HasMenu();
    int ps = sess && sess->schema() ? sess->schema()->page_size() : 0;
    printf("state %d %d\n", has, ps);
  };
  for (auto& l : lines) {
    std::istringstream is(l);
    std::vector<std::string> w;
    for (std::string t; is >> t;) w.push_back(t);
    if (w.empty() || w[0][0] == '#' || w[0] == "row") continue;
    if (w[0] == "state" && w.size() == 5) {
      if (s) api->destroy_session(s);
      s = api->create_session();
      if (!s || !api->select_schema(s, w[1].c_str())) { puts("state-failed"); continue; }
      if (w[2] != "-")
        for (auto& kv : split(w[2], ',')) {
          auto p = split(kv, '=');
          if (p.size() == 2) api->set_option(s, p[0].c_str(), p[1] == "1");
        }
      cur_input = unhex(w[3]);
      cur_how = w[4];
      feed();
      report_state();
    } else if (w[0] == "restate") {
      api->clear_composition(s);
      feed();
      report_state();
    } else if (w[0] == "ctx") {
      RIME_STRUCT(RimeContext, ctx);
      if (!api->get_context(s, &ctx)) { puts("nocontext"); continue; }
      if (ctx.menu.num_candidates == 0 && ctx.menu.page_size == 0) {
        puts("ctx none");
      } else {
        std::vector<std::string> v;
        for (int i = 0; i < ctx.menu.num_candidates; ++i) v.push_back(pair_of(ctx.menu.candidates[i]));
        printf("ctx %d %d %d %zu %s\n", ctx.menu.page_no, ctx.menu.is_last_page ? 1 : 0,
               ctx.menu.highlighted_candidate_index, v.size(), bracket(v).c_str());
      }
      api->free_context(&ctx);
    } else if (w[0] == "hl" && w.size() == 2) {
      printf("ret %d\n", api->highlight_candidate(s, std::stoul(w[1])) ? 1 : 0);
    } else if (w[0] == "hlp" && w.size() == 2) {
      printf("ret %d\n", api->highlight_candidate_on_current_page(s, std::stoul(w[1])) ? 1 : 0);
    } else if (w[0] == "chpage" && w.size() == 2) {
      printf("ret %d\n", api->change_page(s, w[1] == "-") ? 1 : 0);
    } else if (w[0] == "key" && w.size() == 2) {
      int code = w[1] == "next" ? 0xff56 : w[1] == "prior" ? 0xff55 : w[1] == "up" ? 0xff52 : w[1] == "down" ? 0xff54 : 0;
      if (!code) { puts("bad-op"); continue; }
      printf("ret %d\n", api->process_key(s, code, 0) ? 1 : 0);
    } else if (w[0] == "keyc" && w.size() == 2) {
      // any key by its code (arrow keys, Home / End and their keypad twins: what they do depends on the layout options)
      printf("ret %d\n", api->process_key(s, (int)std::stol(w[1]), 0) ? 1 : 0);
    } else if (w[0] == "list" && w.size() == 3) {
      RimeCandidateListIterator it = {0};
      size_t n = std::stoul(w[2]);
      int from = (int)std::stoul(w[1]);
      // index 0 through candidate_list_begin (the entry point clients use for "from the start"), the rest through _from_index
      if (!(from == 0 ? api->candidate_list_begin(s, &it) : api->candidate_list_from_index(s, &it, from))) { puts("ret 0"); continue; }
      std::vector<std::string> v;
      int ended = 0;
      for (size_t k = 0; k < n; ++k) {
        if (!api->candidate_list_next(&it)) { ended = 1; break; }
        v.push_back(pair_of(it.candidate));
      }
      api->candidate_list_end(&it);
      printf("list %d %zu %s\n", ended, v.size(), bracket(v).c_str());
    } else {
      puts("bad-op");
    }
  }
  if (s) api->destroy_session(s);
  api->finalize();
  return 0;
}

int main(int argc, char** argv) {
  if (argc >= 3 && std::string(argv[1]) == "menu") return run_menu(argv[2]);
  if (argc >= 4 && std::string(argv[1]) == "api") return run_api(argv[2], argv[3]);
  fprintf(stderr, "usage: c04_harness menu <script> | api <workspace> <script>\n");
  return 2;
}
