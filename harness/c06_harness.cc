// C06 harness: compiles dictionary sources with the REAL DictCompiler, loads the table and dumps it whole.
// usage: c06_harness <workdir> <dict-name> [<dict-name> ...]
//   <workdir>/<name>.dict.yaml (+ imported tables) are written by checks/C06.py; nothing is generated here.
// Output, per dictionary (one batch = one process; a crash loses the rest, the check re-runs those singly):
//   case <name>
//   compile <0|1>
//   load <0|1>                         (Table::Load of the staged file)
//   size <file bytes> <estimate>       (estimate = 4096 + 32*syll + 64*entries, as Table::Build computes it)
//   tmaps <len>...                     (plain build only) lengths of the read-write mappings of the table file: Create, growths
//   meta <num_syllables> <num_entries>
//   sizes <sizeof Metadata HeadIndexNode TrunkIndexNode LongEntry Entry StringType SyllableId> <alignof Entry>
//   layout <offset of the string table image = end of the index> <image size>
//   syl <id> <hex>
//   e <index ids ','> <extra ids ','|-> <texthex> <float bits hex>     raw walk of head/trunk/tail, pre-order
//   corrupt <where>                    a link leaves the file image / a size is implausible (walk stops there)
//   walk <n> <0|1>                     TableQuery walk as tools/rime_table_decompiler.cc does it; 1 = same rows as raw
//   qp <n> <bad>                       Table::QueryPhrases(code) for every code seen: rows differ from raw in <bad> codes
//   rload <0|1>
//   r <keyhex> <valuehex>              every key id of the reverse db with its value
//   rl <bad>                           ReverseDb::Lookup(key) != value for <bad> keys
//   rs <loaded> <bad> <absent-found>   ReverseLookupDictionary::ReverseLookup / LookupStems (keys ending in \x1fstem) disagree for <bad>
//                                      keys; <absent-found> = texts that are no key and still have a reverse entry
//   ds <present> <rule-based> <rules> <namehex>   ReverseLookupDictionary::GetDictSettings (stored when the encoder has rules)
//   pack <k> <name>                    then load/size/meta/.../e/walk/qp lines of that pack's table
//   end <name>
#include "hcommon.h"
#include <algorithm>
#include <map>
#include <set>
#include <rime/common.h>
#include <rime/service.h>
#include <rime/deployer.h>
#include <rime/dict/dictionary.h>
#include <rime/dict/dict_compiler.h>
#include <rime/dict/prism.h>
#include <rime/dict/table.h>
#include <rime/dict/reverse_lookup_dictionary.h>
#include <rime/dict/string_table.h>
#include <rime/dict/dict_settings.h>

using namespace vh;
using namespace rime;

// In the build without sanitizer every file mapping gets a fresh address range that is never used again, so a
// pointer kept across MappedFile::Allocate's close-resize-reopen is a deterministic SIGSEGV instead of a write
// that lands wherever the kernel happened to put the new mapping (under ASan the placement differs and hides it).
#if !defined(__SANITIZE_ADDRESS__)
#include <dlfcn.h>
#include <sys/mman.h>
#include <unistd.h>
static std::vector<size_t> g_tmaps;   // lengths of the read-write mappings of *.table.bin: [capacity at Create, growths...]
static void* fresh_mmap(void* addr, size_t len, int prot, int flags, int fd, off_t off) {
  typedef void* (*fn)(void*, size_t, int, int, int, off_t);
  static fn real = (fn)dlsym(RTLD_NEXT, "mmap");
  if (fd >= 0 && (flags & MAP_SHARED) && (prot & PROT_WRITE)) {
    char link[64], name[4096];
    snprintf(link, sizeof link, "/proc/self/fd/%d", fd);
    ssize_t n = readlink(link, name, sizeof name - 1);
    if (n > 10 && !strncmp(name + n - 10, ".table.bin", 10)) g_tmaps.push_back(len);
  }
  if (fd >= 0 && (flags & MAP_SHARED) && addr == nullptr && !getenv("C06_NO_FRESH_MMAP")) {
    static uintptr_t next = 0x200000000000ULL;
    const uintptr_t G = 1ull << 30;
    void* hint = (void*)next;
    next += ((len + G) & ~(G - 1)) + G;
    void* p = real(hint, len, prot, flags | MAP_FIXED_NOREPLACE, fd, off);
    if (p != MAP_FAILED) return p;
  }
  return real(addr, len, prot, flags, fd, off);
}
extern "C" void* mmap(void* addr, size_t len, int prot, int flags, int fd, off_t off) { return fresh_mmap(addr, len, prot, flags, fd, off); }
extern "C" void* mmap64(void* addr, size_t len, int prot, int flags, int fd, off_t off) { return fresh_mmap(addr, len, prot, flags, fd, off); }
#endif

struct Img {
  const char* base; size_t size;
  bool in(const void* p, size_t n) const {
    const char* c = (const char*)p;
    return c >= base && n <= size && c <= base + size - n;
  }
};

struct RawRow { Code index; Code extra; std::string text; uint32_t bits; };

static uint32_t fbits(float f) { uint32_t u; memcpy(&u, &f, 4); return u; }
static std::string ids(const Code& c) {
  if (c.empty()) return "-";
  std::string o;
  for (size_t i = 0; i < c.size(); ++i) { if (i) o += ","; o += std::to_string(c[i]); }
  return o;
}

struct Walker {
  Table* t; Img img; std::vector<RawRow> rows; std::string corrupt;
  size_t max_rows;
  bool fail(const std::string& w) { if (corrupt.empty()) corrupt = w; return false; }
  bool entries(const List<table::Entry>& l, const Code& idx) {
    if (l.size == 0) return true;
    const table::Entry* p = l.at.get();
    if (!p || !img.in(p, sizeof(table::Entry) * (size_t)l.size)) return fail("entries@" + ids(idx));
    for (uint32_t i = 0; i < l.size; ++i) {
      if (rows.size() > max_rows) return fail("too-many-rows");
      rows.push_back({idx, {}, t->GetEntryText(p[i]), fbits(p[i].weight)});
    }
    return true;
  }
  bool tail(const table::TailIndex* ti, const Code& idx) {
    if (!img.in(ti, sizeof(uint32_t)) || !img.in(ti->at, sizeof(table::LongEntry) * (size_t)ti->size)) return fail("tail@" + ids(idx));
    for (uint32_t i = 0; i < ti->size; ++i) {
      const table::LongEntry& le = ti->at[i];
      Code extra;
      if (le.extra_code.size) {
        const SyllableId* p = le.extra_code.at.get();
        if (!p || !img.in(p, sizeof(SyllableId) * (size_t)le.extra_code.size)) return fail("extra@" + ids(idx));
        for (uint32_t k = 0; k < le.extra_code.size; ++k) extra.push_back(p[k]);
      }
      if (rows.size() > max_rows) return fail("too-many-rows");
      rows.push_back({idx, extra, t->GetEntryText(le.entry), fbits(le.entry.weight)});
    }
    return true;
  }
  bool trunk(const table::TrunkIndex* tr, Code idx) {
    if (!img.in(tr, sizeof(uint32_t)) || !img.in(tr->at, sizeof(table::TrunkIndexNode) * (size_t)tr->size)) return fail("trunk@" + ids(idx));
    for (uint32_t i = 0; i < tr->size; ++i) {
      const table::TrunkIndexNode& n = tr->at[i];
      Code c(idx); c.push_back(n.key);
      if (!entries(n.entries, c)) return false;
      if (n.next_level) {
        const table::PhraseIndex* nx = n.next_level.get();
        if (c.size() < Code::kIndexCodeMaxLength) { if (!trunk(&nx->trunk(), c)) return false; }
        else { if (!tail(&nx->tail(), c)) return false; }
      }
    }
    return true;
  }
  bool head(const table::HeadIndex* h) {
    if (!img.in(h, sizeof(uint32_t)) || !img.in(h->at, sizeof(table::HeadIndexNode) * (size_t)h->size)) return fail("head");
    for (uint32_t i = 0; i < h->size; ++i) {
      const table::HeadIndexNode& n = h->at[i];
      Code c; c.push_back((SyllableId)i);
      if (!entries(n.entries, c)) return false;
      if (n.next_level) { if (!trunk(&n.next_level.get()->trunk(), c)) return false; }
    }
    return true;
  }
};

typedef std::multiset<std::string> Bag;
static std::string rowkey(const Code& full, const std::string& text, uint32_t bits) {
  char b[16]; snprintf(b, sizeof b, "%08x", bits);
  return ids(full) + " " + hex(text) + " " + b;
}
static Code fullcode(const RawRow& r) { Code c(r.index); for (auto x : r.extra) c.push_back(x); return c; }

static void drain(Table* t, TableAccessor a, Bag* out, size_t* n) {
  while (!a.exhausted()) {
    out->insert(rowkey(a.code(), t->GetEntryText(*a.entry()), fbits(a.entry()->weight)));
    ++*n;
    a.Next();
  }
}
// tools/rime_table_decompiler.cc: recursion()
static void decomp(Table* t, TableQuery* q, int nsyl, Bag* out, size_t* n) {
  for (int i = 0; i < nsyl; ++i) {
    drain(t, q->Access(i), out, n);
    if (q->Advance(i)) {
      if (q->level() < 3) decomp(t, q, nsyl, out, n);
      else drain(t, q->Access(0), out, n);
      q->Backdate();
    }
  }
}

// walks one loaded table file whole and prints it (load/size/meta/sizes/layout/syl/e/corrupt/walk/qp lines)
static void dump_table(const path& tpath) {
  {
    Table t(tpath);
    bool ld = t.Exists() && t.Load();
    printf("load %d\n", ld ? 1 : 0);
    if (ld) {
      auto* md = t.metadata();
      size_t est = 4096 + 32 * (size_t)md->num_syllables + 64 * (size_t)md->num_entries;
      printf("size %zu %zu\n", t.file_size(), est);
      printf("meta %u %u\n", md->num_syllables, md->num_entries);
      // record sizes the Lean layout model assumes, and where the index ends (= offset of the string table image)
      printf("sizes %zu %zu %zu %zu %zu %zu %zu %zu\n", sizeof(table::Metadata), sizeof(table::HeadIndexNode), sizeof(table::TrunkIndexNode),
             sizeof(table::LongEntry), sizeof(table::Entry), sizeof(table::StringType), sizeof(SyllableId), alignof(table::Entry));
      if (md->string_table) printf("layout %td %u\n", (const char*)md->string_table.get() - (const char*)md, md->string_table_size);
      Img img{(const char*)md, t.file_size()};
      const table::Syllabary* sy = md->syllabary.get();
      bool sane = sy && img.in(sy, 4) && sy->size == md->num_syllables && img.in(sy->at, 4 * (size_t)sy->size);
      if (!sane) printf("corrupt syllabary\n");
      else {
        for (uint32_t i = 0; i < md->num_syllables; ++i) printf("syl %u %s\n", i, hex(t.GetSyllableById(i)).c_str());
        Walker w{&t, img, {}, "", (size_t)md->num_entries * 4 + 1000};
        w.head(md->index.get());
        for (auto& r : w.rows) printf("e %s %s %s %08x\n", ids(r.index).c_str(), ids(r.extra).c_str(), hex(r.text).c_str(), r.bits);
        if (!w.corrupt.empty()) printf("corrupt %s\n", w.corrupt.c_str());
        else {
          Bag raw; std::map<Code, Bag> by_code;
          for (auto& r : w.rows) { Code fc = fullcode(r); raw.insert(rowkey(fc, r.text, r.bits)); by_code[fc].insert(rowkey(fc, r.text, r.bits)); }
          // decompiler-style walk (cost S per visited node: only when affordable)
          std::set<Code> nodes; for (auto& r : w.rows) for (size_t k = 1; k <= r.index.size(); ++k) nodes.insert(Code(r.index.begin(), r.index.begin() + k));
          if ((double)md->num_syllables * (double)(nodes.size() + 1) <= 3e6) {
            Bag viaq; size_t n = 0;
            TableQuery q(md->index.get());
            decomp(&t, &q, (int)md->num_syllables, &viaq, &n);
            printf("walk %zu %d\n", n, viaq == raw ? 1 : 0);
          }
          // QueryPhrases for every code present (index part decides the list; long codes: rows of the tail page with that code)
          size_t bad = 0, nq = 0;
          std::set<Code> asked;
          for (auto& kv : by_code) {
            const Code& c = kv.first;
            Code ask = c.size() > 3 ? Code(c.begin(), c.begin() + 3) : c;
            bool is_long = c.size() > 3;
            if (is_long) ask.push_back(0);  // any 4th syllable: QueryPhrases returns the whole tail page
            if (!asked.insert(ask).second) continue;
            Bag got; size_t n = 0;
            drain(&t, t.QueryPhrases(ask), &got, &n);
            Bag want;
            for (auto& kv2 : by_code) {
              const Code& d = kv2.first;
              bool same = is_long ? (d.size() > 3 && std::equal(d.begin(), d.begin() + 3, c.begin())) : d == c;
              if (same) want.insert(kv2.second.begin(), kv2.second.end());
            }
            ++nq;
            if (got != want) ++bad;
          }
          // absent neighbours must be empty
          for (auto& kv : by_code) {
            Code c = kv.first; if (c.size() > 3) continue;
            for (int d = -1; d <= 1; d += 2) {
              Code x(c); x.back() += d;
              if (x.back() < 0 || by_code.count(x)) continue;
              Bag got; size_t n = 0; drain(&t, t.QueryPhrases(x), &got, &n); ++nq;
              if (n) ++bad;
            }
          }
          printf("qp %zu %zu\n", nq, bad);
        }
      }
    }
  }
}

static std::vector<std::string> split_commas(const std::string& s) {
  std::vector<std::string> out; size_t i = 0;
  while (i <= s.size()) { size_t j = s.find(',', i); if (j == std::string::npos) j = s.size(); if (j > i) out.push_back(s.substr(i, j - i)); i = j + 1; }
  return out;
}

// `+<name>`: the dictionary is compiled again over whatever an earlier compilation left in build/ (nothing removed first):
// what a deployment after the source was edited does.  `<name>@<pack>,<pack>`: the dictionary has these packs (each compiled to
// its own table over the primary table's syllabary); their tables are dumped after the primary one behind a `pack <k> <name>` line.
static void one(const std::string& dir, const std::string& arg0) {
  const bool keep = !arg0.empty() && arg0[0] == '+';
  std::string arg = keep ? arg0.substr(1) : arg0;
  std::vector<std::string> packs;
  size_t at = arg.find('@');
  if (at != std::string::npos) { packs = split_commas(arg.substr(at + 1)); arg = arg.substr(0, at); }
  const std::string name = arg;
  printf("case %s\n", name.c_str());
  path staging = path(dir) / "build";
  std::filesystem::create_directories(staging);
  path tpath = staging / (name + ".table.bin"), ppath = staging / (name + ".prism.bin"), rpath = staging / (name + ".reverse.bin");
  bool ok;
  {
    vector<of<Table>> tables = {New<Table>(tpath)};
    for (auto& p : packs) tables.push_back(New<Table>(staging / (p + ".table.bin")));
    Dictionary dict(name, packs, tables, New<Prism>(ppath));
    if (!keep) dict.Remove();
    DictCompiler dc(&dict);
    ok = dc.Compile(path());
  }
  printf("compile %d\n", ok ? 1 : 0);
#if !defined(__SANITIZE_ADDRESS__)
  printf("tmaps");
  for (size_t m : g_tmaps) printf(" %zu", m);
  printf("\n");
  g_tmaps.clear();
#endif
  fflush(stdout);
  dump_table(tpath);
  {
    ReverseDb r(rpath);
    bool ld = r.Exists() && r.Load();
    printf("rload %d\n", ld ? 1 : 0);
    if (ld) {
      auto* md = r.metadata();
      Img img{(const char*)md, r.file_size()};
      const StringId* idx = md->index.at.get();
      size_t n = md->index.size;
      if (n && (!idx || !img.in(idx, 4 * n) || !img.in(md->key_trie.get(), md->key_trie_size) || !img.in(md->value_trie.get(), md->value_trie_size)))
        printf("corrupt reverse\n");
      else {
        // the same file through the class the translators use (ReverseLookup / LookupStems / GetDictSettings)
        ReverseLookupDictionary rd(New<ReverseDb>(rpath));
        bool rdl = rd.Load();
        static const std::string kStem = "\x1fstem";
        size_t bad = 0, bad2 = 0, babs = 0;
        if (n) {
          StringTable keys(md->key_trie.get(), md->key_trie_size), vals(md->value_trie.get(), md->value_trie_size);
          std::set<std::string> all;
          for (size_t i = 0; i < n; ++i) all.insert(keys.GetString((StringId)i));
          for (size_t i = 0; i < n; ++i) {
            std::string k = keys.GetString((StringId)i), v = vals.GetString(idx[i]);
            printf("r %s %s\n", hex(k).c_str(), hex(v).c_str());
            std::string got;
            if (!r.Lookup(k, &got) || got != v) ++bad;
            if (rdl) {
              std::string g2;
              bool is_stem = k.size() > kStem.size() && k.compare(k.size() - kStem.size(), kStem.size(), kStem) == 0;
              bool okk = is_stem ? rd.LookupStems(k.substr(0, k.size() - kStem.size()), &g2) : rd.ReverseLookup(k, &g2);
              if (!okk || g2 != v) ++bad2;
              // a text that is no key (the key plus a byte, the key minus its last byte) has no reverse entry
              for (std::string a : {k + "!", k.substr(0, k.size() - 1)}) {
                if (a.empty() || all.count(a)) continue;
                std::string g3;
                if (rd.ReverseLookup(a, &g3)) ++babs;
              }
            }
          }
        } else {
          std::string g3;
          if (rdl && (rd.ReverseLookup("a", &g3) || rd.LookupStems("a", &g3))) ++babs;
        }
        printf("rl %zu\n", bad);
        printf("rs %d %zu %zu\n", rdl ? 1 : 0, bad2, babs);
        if (rdl) {
          auto ds = rd.GetDictSettings();
          if (!ds) printf("ds 0 0 0 -\n");
          else {
            auto rules = ds->GetList("encoder/rules");
            printf("ds 1 %d %zu %s\n", ds->use_rule_based_encoder() ? 1 : 0, rules ? rules->size() : (size_t)0, hex(ds->dict_name()).c_str());
          }
        }
      }
    }
  }
  for (size_t k = 0; k < packs.size(); ++k) {
    printf("pack %zu %s\n", k, packs[k].c_str());
    dump_table(staging / (packs[k] + ".table.bin"));
  }
  printf("end %s\n", name.c_str());
  fflush(stdout);
}

int main(int argc, char** argv) {
  if (argc < 3) { fprintf(stderr, "usage: c06_harness <workdir> <name>...\n"); return 2; }
  std::string dir = argv[1];
  RimeApi* api = rime_get_api();
  RIME_STRUCT(RimeTraits, traits);
  std::string staging = dir + "/build", logdir = dir + "/log";
  std::filesystem::create_directories(logdir);
  traits.shared_data_dir = dir.c_str();
  traits.user_data_dir = dir.c_str();
  traits.prebuilt_data_dir = staging.c_str();
  traits.staging_dir = staging.c_str();
  traits.distribution_name = "verif"; traits.distribution_code_name = "verif"; traits.distribution_version = "0";
  traits.app_name = "rime.verif";
  traits.min_log_level = getenv("C06_LOGLEVEL") ? atoi(getenv("C06_LOGLEVEL")) : 3;
  traits.log_dir = logdir.c_str();
  api->setup(&traits);
  api->initialize(&traits);
  for (int i = 2; i < argc; ++i) one(dir, argv[i]);
  api->finalize();
  return 0;
}
