// C07 harness: deploys the workspace written by checks/C07.py (dictionary + one script-style and one table-style
// schema per configuration) with the REAL deployer, then for every input of the job file records
//   * the syllable graph of the real Syllabifier (as the translator configures it),
//   * Dictionary::Lookup(graph, 0, predict_word) drained per end position,
//   * the full candidate list of the first segment through a session (set_input), read from the menu,
//   * for the table-style schema the prism's answers (GetValue / ExpandSearch) LookupWords works from.
// usage: c07_harness <workdir> <jobfile>
//        c07_harness --poet <jobfile>      the sentence maker alone: every job line
//             poet <total> <start:end:entries>...    entries = `-` or `;`-separated  texthex/weight double bits/code ids (dots)
//        builds the WordGraph (entries with these texts, weights, codes) and calls the REAL Poet::MakeSentence with
//        CompareWeight and with LeftAssociateCompare (no grammar component is registered: DynamicProgramming strategy);
//        output  poet cw <res> la <res>,  res = none | weight bits|texthex|code ids|word lengths|end/texthex/entry weight bits;...
// job lines:  schema <id> <script|table> <completion 0|1> <strict 0|1> <delimiters hex> [<word completion 0|1>, default = completion]
//             in <hex>
// output:     schema <id> <kind> <loaded 0|1> / nsyl / syl / e (raw table walk, as c06_harness) / per input:
//             in <hex> / g <interp> <inputlen> <edge starts> <last vertex type> / gi <start> <syll> <end> <type> <cred bits>
//             lk <predict> / L <end> <texthex> <code ids> <weight double bits> <matching_code_size> <remaining_code_length>
//             pv <len> <sid:type,...|-> / px <len> <sid:type,...|-> / cps <start> <len> <sid:type,...>   (table)
//             c <type> <start> <end> <texthex> <commenthex> [<code ids> <weight double bits> <matching_code_size>] / endin
#include "hcommon.h"
#include <fstream>
#include <sstream>
#include <map>
#include <rime/common.h>
#include <rime/candidate.h>
#include <rime/composition.h>
#include <rime/context.h>
#include <rime/menu.h>
#include <rime/schema.h>
#include <rime/segmentation.h>
#include <rime/service.h>
#include <rime/ticket.h>
#include <rime/algo/syllabifier.h>
#include <rime/dict/dictionary.h>
#include <rime/dict/prism.h>
#include <rime/dict/table.h>
#include <rime/gear/translator_commons.h>
#include <rime/gear/poet.h>
#include <rime/dict/vocabulary.h>

using namespace vh;
using namespace rime;

static uint64_t dbits(double d) { uint64_t u; memcpy(&u, &d, 8); return u; }
static uint32_t fbits(float f) { uint32_t u; memcpy(&u, &f, 4); return u; }
static std::string ids(const Code& c) {
  if (c.empty()) return "-";
  std::string o;
  for (size_t i = 0; i < c.size(); ++i) { if (i) o += ","; o += std::to_string(c[i]); }
  return o;
}

// raw walk of the index (same as c06_harness, trusting the file: C06 checks it)
static void dump_table(Table* t) {
  auto* md = t->metadata();
  printf("nsyl %u\n", md->num_syllables);
  for (uint32_t i = 0; i < md->num_syllables; ++i) printf("syl %u %s\n", i, hex(t->GetSyllableById(i)).c_str());
  auto ents = [&](const List<table::Entry>& l, const Code& c) {
    for (uint32_t i = 0; i < l.size; ++i)
      printf("e %s - %s %08x\n", ids(c).c_str(), hex(t->GetEntryText(l.at[i])).c_str(), fbits(l.at[i].weight));
  };
  const table::HeadIndex* h = md->index.get();
  for (uint32_t a = 0; a < h->size; ++a) {
    const auto& n1 = h->at[a];
    Code c1; c1.push_back(a);
    ents(n1.entries, c1);
    if (!n1.next_level) continue;
    const table::TrunkIndex& t2 = n1.next_level->trunk();
    for (uint32_t i = 0; i < t2.size; ++i) {
      const auto& n2 = t2.at[i];
      Code c2(c1); c2.push_back(n2.key);
      ents(n2.entries, c2);
      if (!n2.next_level) continue;
      const table::TrunkIndex& t3 = n2.next_level->trunk();
      for (uint32_t j = 0; j < t3.size; ++j) {
        const auto& n3 = t3.at[j];
        Code c3(c2); c3.push_back(n3.key);
        ents(n3.entries, c3);
        if (!n3.next_level) continue;
        const table::TailIndex& tl = n3.next_level->tail();
        for (uint32_t k = 0; k < tl.size; ++k) {
          Code extra;
          for (uint32_t x = 0; x < tl.at[k].extra_code.size; ++x) extra.push_back(tl.at[k].extra_code.at[x]);
          printf("e %s %s %s %08x\n", ids(c3).c_str(), ids(extra).c_str(), hex(t->GetEntryText(tl.at[k].entry)).c_str(),
                 fbits(tl.at[k].entry.weight));
        }
      }
    }
  }
}

static std::string spell_list(Prism* p, int value) {
  std::string o;
  for (auto acc = p->QuerySpelling(value); !acc.exhausted(); acc.Next()) {
    if (!o.empty()) o += ",";
    o += std::to_string(acc.syllable_id()) + ":" + std::to_string((int)acc.properties().type);
  }
  return o.empty() ? "-" : o;
}

template <class V>
static std::string dots(const V& c) {
  if (c.empty()) return "-";
  std::string o;
  for (size_t i = 0; i < c.size(); ++i) { if (i) o += "."; o += std::to_string(c[i]); }
  return o;
}

static std::vector<std::string> split(const std::string& s, char sep) {
  std::vector<std::string> out;
  size_t b = 0;
  for (;;) {
    size_t e = s.find(sep, b);
    if (e == std::string::npos) { out.push_back(s.substr(b)); break; }
    out.push_back(s.substr(b, e - b));
    b = e + 1;
  }
  return out;
}

static std::string show_sentence(const an<Sentence>& sen) {
  if (!sen) return "none";
  char buf[32];
  snprintf(buf, sizeof buf, "%016llx", (unsigned long long)dbits(sen->weight()));
  std::string o = std::string(buf) + "|" + hex(sen->text()) + "|" + dots(sen->code()) + "|" + dots(sen->word_lengths()) + "|";
  size_t end = 0;
  for (size_t i = 0; i < sen->components().size(); ++i) {
    const DictEntry& e = sen->components()[i];
    end += i < sen->word_lengths().size() ? sen->word_lengths()[i] : 0;
    snprintf(buf, sizeof buf, "%016llx", (unsigned long long)dbits(e.weight));
    if (i) o += ";";
    o += std::to_string(end) + "/" + hex(e.text) + "/" + buf;
  }
  return o;
}

static int poet_mode(const char* jobfile) {
  std::ifstream job(jobfile);
  std::string line;
  Poet cw(nullptr, nullptr, Poet::CompareWeight);
  Poet la(nullptr, nullptr, Poet::LeftAssociateCompare);
  while (std::getline(job, line)) {
    std::istringstream ls(line);
    std::string op; ls >> op;
    size_t total = 0;
    if (op != "poet" || !(ls >> total)) { printf("bad-op\n"); continue; }
    WordGraph graph;
    std::string tok;
    bool ok = true;
    while (ls >> tok) {
      auto f = split(tok, ':');
      if (f.size() != 3) { ok = false; break; }
      int s = atoi(f[0].c_str()), e = atoi(f[1].c_str());
      DictEntryList& lst = graph[s][e];
      if (f[2] == "-") continue;
      for (const auto& es : split(f[2], ';')) {
        auto g = split(es, '/');
        if (g.size() != 3) { ok = false; break; }
        auto d = New<DictEntry>();
        d->text = unhex(g[0]);
        uint64_t bits = strtoull(g[1].c_str(), nullptr, 16);
        memcpy(&d->weight, &bits, 8);
        if (g[2] != "-") for (const auto& c : split(g[2], '.')) d->code.push_back(atoi(c.c_str()));
        lst.push_back(d);
      }
    }
    if (!ok) { printf("bad-op\n"); continue; }
    auto a = cw.MakeSentence(graph, total, "");
    auto b = la.MakeSentence(graph, total, "");
    printf("poet cw %s la %s\n", show_sentence(a).c_str(), show_sentence(b).c_str());
  }
  fflush(stdout);
  return 0;
}

int main(int argc, char** argv) {
  if (argc >= 3 && std::string(argv[1]) == "--poet") return poet_mode(argv[2]);
  if (argc < 3) { fprintf(stderr, "usage: c07_harness <workdir> <jobfile>\n"); return 2; }
  std::string dir = argv[1];
  RimeApi* api = start(dir, dir, true);
  std::ifstream job(argv[2]);
  std::string line;
  the<Schema> schema;
  the<Dictionary> dict;
  RimeSessionId sess = 0;
  std::string kind, delims;
  bool completion = false, strict = false, loaded = false, word_completion = false;
  while (std::getline(job, line)) {
    std::istringstream ls(line);
    std::string op; ls >> op;
    if (op == "schema") {
      std::string id, dh; int comp, st;
      ls >> id >> kind >> comp >> st >> dh;
      completion = comp; strict = st; delims = unhex(dh);
      int wcv = comp;
      if (ls >> wcv) {}
      word_completion = wcv != 0;
      if (sess) api->destroy_session(sess);
      dict.reset(); schema.reset();
      schema.reset(new Schema(id));
      Ticket ticket(schema.get(), "translator");
      auto comp_ = Dictionary::Require("dictionary");
      dict.reset(comp_ ? comp_->Create(ticket) : nullptr);
      loaded = dict && dict->Load();
      sess = api->create_session();
      Bool sel = api->select_schema(sess, id.c_str());
      printf("schema %s %s %d %d\n", id.c_str(), kind.c_str(), loaded ? 1 : 0, sel ? 1 : 0);
      if (loaded) dump_table(dict->primary_table().get());
      printf("endschema\n");
      fflush(stdout);
    } else if (op == "in") {
      std::string h; ls >> h;
      std::string input = unhex(h);
      printf("in %s\n", hex(input).c_str());
      if (loaded) {
        // the graph as ScriptSyllabifier builds it
        SyllableGraph g;
        Syllabifier syl(delims, completion, strict);
        size_t consumed = syl.BuildSyllableGraph(input, *dict->prism(), &g);
        int last_type = g.vertices.empty() ? -1 : (int)g.vertices.rbegin()->second;
        printf("g %zu %zu %zu %d\n", g.interpreted_length, g.input_length, g.edges.size(), last_type);
        for (const auto& st : g.indices)
          for (const auto& sy : st.second)
            for (const auto* p : sy.second)
              printf("gi %zu %d %zu %d %016llx\n", st.first, sy.first, p->end_pos, (int)p->type, (unsigned long long)dbits(p->credibility));
        if (kind == "script") {
          for (int predict = 0; predict <= 1; ++predict) {
            // enable_word_completion (the job line says what the schema's options amount to; by default it is enable_completion);
            // predict_word also needs the graph to reach the end of input
            bool would = word_completion && consumed == input.length();
            if (predict && !would) continue;      // record predict=1 only where the translator uses it
            if (!predict && would) { /* also record the non-predictive lookup: extra coverage of match_extra_code */ }
            printf("lk %d\n", predict);
            auto coll = dict->Lookup(g, 0, predict != 0);
            if (coll) {
              for (auto& kv : *coll) {
                DictEntryIterator& it = kv.second;
                size_t guard = 0;
                while (!it.exhausted() && guard++ < 100000) {
                  auto e = it.Peek();
                  printf("L %zu %s %s %016llx %d %d\n", kv.first, hex(e->text).c_str(), ids(e->code).c_str(),
                         (unsigned long long)dbits(e->weight), e->matching_code_size, e->remaining_code_length);
                  if (!it.Next()) break;
                }
              }
            }
          }
        } else {
          std::string code = input;
          while (!code.empty() && delims.find(code.back()) != std::string::npos) code.pop_back();
          int v = 0;
          if (dict->prism()->GetValue(code, &v)) printf("pv %zu %s\n", code.length(), spell_list(dict->prism().get(), v).c_str());
          std::vector<Prism::Match> keys;
          dict->prism()->ExpandSearch(code, &keys, 1000000);
          for (auto& m : keys) printf("px %zu %s\n", m.length, spell_list(dict->prism().get(), m.value).c_str());
          // limit-monotonicity of ExpandSearch (C09's expand_exact) is what the lazy translation relies on: record a small-limit run too
          std::vector<Prism::Match> k10;
          dict->prism()->ExpandSearch(code, &k10, 10);
          bool prefix_ok = k10.size() == std::min<size_t>(10, keys.size());
          for (size_t i = 0; prefix_ok && i < k10.size(); ++i) prefix_ok = k10[i].value == keys[i].value && k10[i].length == keys[i].length;
          printf("pm %d\n", prefix_ok ? 1 : 0);
          // what MakeSentence (enable_sentence) works from: CommonPrefixSearch of every rest of the (untrimmed) input
          for (size_t sp = 0; sp < input.length(); ++sp) {
            std::vector<Prism::Match> ms;
            dict->prism()->CommonPrefixSearch(input.substr(sp), &ms);
            for (auto& m : ms) printf("cps %zu %zu %s\n", sp, m.length, spell_list(dict->prism().get(), m.value).c_str());
          }
        }
      }
      // the candidate list through a session
      api->clear_composition(sess);
      api->set_input(sess, input.c_str());
      {
        auto s = Service::instance().GetSession(sess);
        Context* ctx = s ? s->context() : nullptr;
        if (ctx && !ctx->composition().empty()) {
          Segment& seg = ctx->composition().front();
          printf("seg %zu %zu %d\n", seg.start, seg.end, seg.menu ? 1 : 0);
          if (seg.menu) {
            for (size_t i = 0; i < 100000; ++i) {
              auto cand = seg.GetCandidateAt(i);
              if (!cand) break;
              // what the candidate is made of, when it is a dictionary phrase: code, weight, matching_code_size (0 = exact)
              auto genuine = Candidate::GetGenuineCandidate(cand);
              auto ph = As<Phrase>(genuine);
              if (ph)
                printf("c %s %zu %zu %s %s %s %016llx %d\n", cand->type().c_str(), cand->start(), cand->end(), hex(cand->text()).c_str(),
                       hex(cand->comment()).c_str(), ids(ph->code()).c_str(), (unsigned long long)dbits(ph->weight()),
                       ph->entry().matching_code_size);
              else
                printf("c %s %zu %zu %s %s\n", cand->type().c_str(), cand->start(), cand->end(), hex(cand->text()).c_str(),
                       hex(cand->comment()).c_str());
            }
          }
        } else {
          printf("seg - - 0\n");
        }
      }
      api->clear_composition(sess);
      printf("endin\n");
      fflush(stdout);
    }
  }
  if (sess) api->destroy_session(sess);
  dict.reset(); schema.reset();
  api->finalize();
  return 0;
}
