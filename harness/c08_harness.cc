// C08 harness: real rime::Prism (built from a syllabary + optional spelling algebra / explicit
// script rows) and real rime::Syllabifier::BuildSyllableGraph, dumped canonically.
//
//   c08_harness <workdir> <specfile>
//
// spec lines (byte strings in hex, "-" = empty):
//   prism                          begin a new prism spec
//   syl <hex>                      syllabary entry
//   formula <hex>                  spelling-algebra formula, applied in order (rime::Projection)
//   row <keyhex> <sylhex>:<type>:<k>,...   explicit script row (replaces algebra for that key);
//                                  credibility = log(0.5) summed k times, or `x<16 hex>` = exact double bits
//   build script|plain|rows load|noload   build the prism file in <workdir>; "plain" = Prism::Build(syllabary)
//                                  without a script; "rows" = the script is the explicit rows alone (no AddSyllable:
//                                  what a replay needs to rebuild a recorded prism); "load" = Save + Load through a
//                                  second object, "noload" = the object that ran Build is used as it is
//   q <delims> <completion> <strict> <input>
//   qall <delims> <symbols> <maxlen>   every string over <symbols> of length 0..maxlen x 4 flag pairs
//
// output: after `build`: `P <loaded 0|1>` (the spec's own load flag, NOT anything read from the object), one
// `K <key> <syl>:<type>:<cred16>,...` per spelling id (what the SpellingAccessor enumerates) and
// `A <alphabet>` = the alphabet the object's metadata holds; `#`-prefixed notes; per query the op line
// `Q <delims> <c> <s> <input>` followed by `G ret=.. il=.. in=.. V=.. E=.. I=.. px=0|1`
// (px = every pointer of `indices` is the address of the edge property it transposes).
#include "hcommon.h"
#include <rime/common.h>
#include <rime/config.h>
#include <rime/algo/algebra.h>
#include <rime/algo/syllabifier.h>
#include <rime/dict/prism.h>
#include <algorithm>
#include <cinttypes>
#include <iostream>
#include <sstream>

using namespace rime;

struct PrismX : Prism {
  using Prism::Prism;
  const char* alphabet() const { return metadata_ ? metadata_->alphabet : ""; }
};

static std::string bits(double d) {
  uint64_t u;
  memcpy(&u, &d, 8);
  char b[32];
  snprintf(b, sizeof b, "%016" PRIx64, u);
  return b;
}

static std::vector<std::string> split(const std::string& s, char c) {
  std::vector<std::string> o;
  std::string cur;
  for (char x : s) {
    if (x == c) { o.push_back(cur); cur.clear(); } else cur.push_back(x);
  }
  o.push_back(cur);
  return o;
}

struct Spec {
  std::vector<std::string> syls;
  std::vector<std::string> formulas;
  std::vector<std::pair<std::string, std::vector<Spelling>>> rows;
};

static std::unique_ptr<PrismX> g_prism;
static int g_prism_no = 0;

static bool build(const std::string& work, Spec& sp, const std::string& mode, bool load) {
  bool use_script = mode != "plain";
  Syllabary syllabary;
  for (auto& s : sp.syls) syllabary.insert(s);
  Script script;
  if (use_script) {
    if (mode != "rows") for (auto& s : syllabary) script.AddSyllable(s);
    if (!sp.formulas.empty()) {
      auto list = New<ConfigList>();
      for (auto& f : sp.formulas) list->Append(New<ConfigValue>(f));
      Projection p;
      if (!p.Load(list)) { printf("# error: formulas do not load\n"); return false; }
      p.Apply(&script);
    }
    for (auto& r : sp.rows) script[r.first] = r.second;
    if (script.empty()) { printf("# error: empty script\n"); return false; }
  }
  if (syllabary.empty()) { printf("# error: empty syllabary\n"); return false; }
  std::string file = work + "/c08_" + std::to_string(++g_prism_no) + ".prism.bin";
  auto p = std::make_unique<PrismX>(path(file));
  p->Remove();
  if (!p->Build(syllabary, use_script ? &script : nullptr)) { printf("# error: Prism::Build failed\n"); return false; }
  if (load) {
    if (!p->Save()) { printf("# error: Prism::Save failed\n"); return false; }
    p->Close();
    p = std::make_unique<PrismX>(path(file));
    if (!p->Load()) { printf("# error: Prism::Load failed\n"); return false; }
  }
  // which alphabet ExpandSearch walks is the model's business (RimeModel.C08.searchAlphabet): it is told how
  // the object came to be, nothing about its state
  printf("P %d\n", load ? 1 : 0);
  std::vector<std::string> keys;
  if (use_script) for (auto& kv : script) keys.push_back(kv.first);
  else for (auto& s : syllabary) keys.push_back(s);
  for (size_t id = 0; id < keys.size(); ++id) {
    int v = -1;
    if (!p->GetValue(keys[id], &v) || v != (int)id)
      printf("# error: key %s has id %d, expected %zu\n", vh::hex(keys[id]).c_str(), v, id);
    // the reference row is what the spelling table (the Script the prism was built from) says the spelling denotes;
    // what the object's SpellingAccessor enumerates is reported beside it only when it differs
    std::vector<std::string> ref, got;
    if (use_script) {
      for (const Spelling& sp1 : script[keys[id]]) {
        auto it = syllabary.find(sp1.str);
        long sid = it == syllabary.end() ? 0 : (long)std::distance(syllabary.begin(), it);   // Build: syllable_to_id[unknown] = 0
        // the prism stores the credibility as a float
        ref.push_back(std::to_string(sid) + ":" + std::to_string((int)sp1.properties.type) + ":" +
                      bits((double)(float)sp1.properties.credibility));
      }
    } else {
      ref.push_back(std::to_string(id) + ":0:" + bits(0.0));
    }
    for (auto a = p->QuerySpelling((SyllableId)id); !a.exhausted(); a.Next()) {
      auto pr = a.properties();
      got.push_back(std::to_string(a.syllable_id()) + ":" + std::to_string((int)pr.type) + ":" + bits(pr.credibility));
    }
    // a row without any reading (only a hand-made script has one; Projection never leaves one): the stored list is
    // empty and the accessor falls back to its no-table answer; there is no table row to judge it against
    if (use_script && ref.empty()) ref = got;
    auto join = [](const std::vector<std::string>& v) { std::string o; for (auto& x : v) o += (o.empty() ? "" : ",") + x; return o.empty() ? std::string("-") : o; };
    printf("K %s %s\n", vh::hex(keys[id]).c_str(), join(ref).c_str());
    std::vector<std::string> r2 = ref, g2 = got;
    std::sort(r2.begin(), r2.end());
    std::sort(g2.begin(), g2.end());
    if (r2 != g2) printf("KQ %s %s\n", vh::hex(keys[id]).c_str(), join(got).c_str());
  }
  printf("A %s\n", vh::hex(std::string(p->alphabet())).c_str());
  g_prism = std::move(p);
  return true;
}

static std::string props(const EdgeProperties& p) {
  return std::to_string((int)p.type) + ":" + (p.is_correction ? "1" : "0") + ":" + bits(p.credibility);
}

static void query(const std::string& delims, bool completion, bool strict, const std::string& input) {
  printf("Q %s %d %d %s\n", vh::hex(delims).c_str(), completion ? 1 : 0, strict ? 1 : 0, vh::hex(input).c_str());
  if (!g_prism) { printf("G no-prism\n"); return; }
  Syllabifier s(delims, completion, strict);
  SyllableGraph g;
  int ret = s.BuildSyllableGraph(input, *g_prism, &g);
  std::string out = "G ret=" + std::to_string(ret) + " il=" + std::to_string(g.interpreted_length) +
                    " in=" + std::to_string(g.input_length) + " V=";
  bool first = true;
  for (auto& v : g.vertices) {
    if (!first) out += ",";
    first = false;
    out += std::to_string(v.first) + ":" + std::to_string((int)v.second);
  }
  if (first) out += "-";
  out += " E=";
  first = true;
  auto item = [&](const std::string& it) { if (!first) out += ","; first = false; out += it; };
  for (auto& st : g.edges) {
    if (st.second.empty()) { item(std::to_string(st.first)); continue; }
    for (auto& en : st.second) {
      if (en.second.empty()) { item(std::to_string(st.first) + ">" + std::to_string(en.first)); continue; }
      for (auto& sy : en.second)
        item(std::to_string(st.first) + ">" + std::to_string(en.first) + ">" + std::to_string(sy.first) + ":" + props(sy.second));
    }
  }
  if (first) out += "-";
  out += " I=";
  first = true;
  bool px = true;
  for (auto& st : g.indices) {
    if (st.second.empty()) { item(std::to_string(st.first)); continue; }
    for (auto& sy : st.second) {
      for (const EdgeProperties* p : sy.second) {
        item(std::to_string(st.first) + ">" + std::to_string(sy.first) + ">" + std::to_string(p->end_pos) + ":" + props(*p));
        auto e1 = g.edges.find(st.first);
        if (e1 == g.edges.end()) { px = false; continue; }
        auto e2 = e1->second.find(p->end_pos);
        if (e2 == e1->second.end()) { px = false; continue; }
        auto e3 = e2->second.find(sy.first);
        if (e3 == e2->second.end() || &e3->second != p) px = false;
      }
    }
  }
  if (first) out += "-";
  out += px ? " px=1" : " px=0";
  puts(out.c_str());
}

static void qall(const std::string& delims, const std::string& symbols, int maxlen) {
  std::vector<std::string> level{""};
  for (int len = 0; len <= maxlen; ++len) {
    for (auto& w : level)
      for (int c = 0; c < 2; ++c)
        for (int s = 0; s < 2; ++s) query(delims, c, s, w);
    if (len == maxlen) break;
    std::vector<std::string> next;
    next.reserve(level.size() * symbols.size());
    for (auto& w : level)
      for (char ch : symbols) next.push_back(w + ch);
    level.swap(next);
  }
}

int main(int argc, char** argv) {
  if (argc < 3) { fprintf(stderr, "usage: c08_harness <workdir> <specfile>\n"); return 2; }
  std::string work = argv[1];
  std::filesystem::create_directories(work);
  std::ifstream in(argv[2]);
  if (!in) { fprintf(stderr, "cannot read %s\n", argv[2]); return 2; }
  Spec sp;
  std::string line;
  while (std::getline(in, line)) {
    std::istringstream ss(line);
    std::string op;
    ss >> op;
    if (op.empty() || op[0] == '#') continue;
    if (op == "prism") { sp = Spec(); g_prism.reset(); }
    else if (op == "syl") { std::string h; ss >> h; sp.syls.push_back(vh::unhex(h)); }
    else if (op == "formula") { std::string h; ss >> h; sp.formulas.push_back(vh::unhex(h)); }
    else if (op == "row") {
      std::string k, ds;
      ss >> k >> ds;
      std::vector<Spelling> v;
      if (ds != "-")
        for (auto& d : split(ds, ',')) {
          auto f = split(d, ':');
          if (f.size() != 3) { printf("# error: bad row\n"); continue; }
          Spelling s(vh::unhex(f[0]));
          s.properties.type = (SpellingType)atoi(f[1].c_str());
          double c = 0.0;
          if (!f[2].empty() && f[2][0] == 'x') {  // exact bit pattern of the double
            uint64_t u = strtoull(f[2].c_str() + 1, nullptr, 16);
            memcpy(&c, &u, 8);
          } else {
            for (int i = 0; i < atoi(f[2].c_str()); ++i) c += -0.6931471805599453;
          }
          s.properties.credibility = c;
          v.push_back(s);
        }
      sp.rows.push_back({vh::unhex(k), v});
    }
    else if (op == "build") {
      std::string a, b;
      ss >> a >> b;
      if (a != "script" && a != "plain" && a != "rows") printf("# error: unknown build mode %s\n", a.c_str());
      else if (!build(work, sp, a, b == "load")) { printf("# build-failed\n"); g_prism.reset(); }
    }
    else if (op == "q") {
      std::string d, c, s, i;
      ss >> d >> c >> s >> i;
      query(vh::unhex(d), c == "1", s == "1", vh::unhex(i));
    }
    else if (op == "qall") {
      std::string d, sy; int n = 0;
      ss >> d >> sy >> n;
      qall(vh::unhex(d), vh::unhex(sy), n);
    }
    else printf("# error: unknown op %s\n", op.c_str());
  }
  g_prism.reset();
  fflush(stdout);
  return 0;
}
