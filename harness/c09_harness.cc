// C09 harness: runs the REAL rime::Script / rime::Projection (boost::regex) / rime::Prism on op lines.
// For every primitive op it prints   <op line in the protocol of lean/Driver/C09.lean> \t <observation>
// so the text before the tab can be piped to the Lean driver and its output compared with the text after it.
//
// input ops (one per line):
//   case <id>
//   syl <hex>...                 Syllabary (set<string>) + script.AddSyllable in set order
//   rule <formula-hex>           parse one formula; record the outcome of Calculation::Apply on every key of the
//                                step script (the abstract rule handed to the model); apply it as a one-formula
//                                Projection to the step script
//   apply                        Projection::Load(all formulas) + Apply on a fresh script (what DictCompiler does)
//   glue                         DictCompiler::BuildPrism's `if (!p.Apply(&script)) script.clear();`
//   merge <key> <type> <cred> <tips> <n> (<str> <type> <cred> <tips>)*n     Script::Merge on the current script
//   build [noscript]             Prism::Build(syllabary, script or nullptr) + Save, then Load into a new object
//   compile                      the REAL DictCompiler::Compile on a generated <name>.dict.yaml (one entry per syllable)
//                                and <name>.schema.yaml (speller/algebra = the formulas), then Load the prism it wrote
//   reload <format-hex>          overwrite the format tag of the file, Load again
//   q <key> | x <key> <limit> | sp <id>      primitive queries on the loaded prism
//   queries <seed> <nrand> <maxkeys>         expands to q/x/sp on keys, proper prefixes, random strings
// usage: c09_harness <ops-file> <out-file> <workdir>
#include "hcommon.h"
#include <cinttypes>
#include <set>
#include <map>
#include <memory>
#include <boost/regex.hpp>
#include <rime/config.h>
#include <rime/algo/algebra.h>
#include <rime/algo/calculus.h>
#include <rime/dict/prism.h>
#include <rime/dict/table.h>
#include <rime/dict/dictionary.h>
#include <rime/dict/dict_compiler.h>

using namespace vh;
using namespace rime;

static std::vector<std::string> split(const std::string& s, char sep) {
  std::vector<std::string> out;
  size_t st = 0;
  for (;;) {
    size_t f = s.find(sep, st);
    if (f == std::string::npos) { out.push_back(s.substr(st)); break; }
    out.push_back(s.substr(st, f - st));
    st = f + 1;
  }
  return out;
}

// ---- credibility <-> penalty count.  Every credibility the algebra produces is 0 + c + c + ... (left to
// right) with c the penalty constant; chain[n] is that sum.  The constant is learned from the real Fuzzing.
static std::vector<double> chain;
static bool g_penalties_agree = true;

static void learn_penalty() {
  Calculus calc;
  std::unique_ptr<Calculation> f(calc.Parse("fuzz/^a$/b/")), a(calc.Parse("abbrev/^a$/b/"));
  Spelling s1("a"), s2("a");
  double pf = 0, pa = 0;
  if (f && f->Apply(&s1)) pf = s1.properties.credibility;
  if (a && a->Apply(&s2)) pa = s2.properties.credibility;
  g_penalties_agree = (pf == pa) && pf < 0;
  double x = 0.0;
  for (int n = 0; n < 4096; ++n) { chain.push_back(x); x += pf; }
}
static std::string cred_str(double d) {
  for (size_t n = 0; n < chain.size(); ++n)
    if (chain[n] == d) return n ? "-" + std::to_string(n) : "0";
  char b[64]; snprintf(b, sizeof b, "?%a", d); return b;
}
static std::string cred_str_f(float f) {
  for (size_t n = 0; n < chain.size(); ++n)
    if ((float)chain[n] == f) return n ? "-" + std::to_string(n) : "0";
  char b[64]; snprintf(b, sizeof b, "?%a", (double)f); return b;
}
static bool read_cred(const std::string& s, double* out) {
  long n = strtol(s.c_str(), nullptr, 10);
  if (n > 0 || -n >= (long)chain.size()) return false;
  *out = chain[-n];
  return true;
}

static std::string dump(const Script& sc) {
  if (sc.empty()) return "-";
  std::string o;
  bool firstk = true;
  for (const auto& kv : sc) {
    if (!firstk) o += "|";
    firstk = false;
    o += hex(kv.first) + "=";
    bool first = true;
    for (const Spelling& s : kv.second) {
      if (!first) o += ";";
      first = false;
      o += hex(s.str) + "," + std::to_string((int)s.properties.type) + "," + cred_str(s.properties.credibility) +
           "," + hex(s.properties.tips);
    }
  }
  return o;
}

static const char* kind_of(Calculation* x) {
  if (dynamic_cast<Fuzzing*>(x)) return "fuzz";
  if (dynamic_cast<Abbreviation*>(x)) return "abbrev";
  if (dynamic_cast<Derivation*>(x)) return "derive";
  if (dynamic_cast<Erasion*>(x)) return "erase";
  if (dynamic_cast<Transformation*>(x)) return "xform";
  if (dynamic_cast<Transliteration*>(x)) return "xlit";
  return "unknown";
}

struct PrismX : Prism {
  using Prism::Prism;
  prism::Metadata* md() { return metadata_; }
  bool has_map() { return spelling_map_ != nullptr; }
};

struct State {
  Syllabary syllabary;
  Script step, cur;
  std::vector<std::string> formulas;
  bool modified = false;
  std::unique_ptr<PrismX> loaded;
  std::vector<std::string> keys;  // key table of the built prism
  std::string alphabet;
  path file;  // the prism file the loaded object maps
  std::string compiled;  // name of the dictionary the last `compile` of this case produced (for `compile again`)
};

static FILE* out;
static void emit(const std::string& op, const std::string& obs) { fprintf(out, "%s\t%s\n", op.c_str(), obs.c_str()); }

static std::string matches(const std::vector<Prism::Match>& r) {
  if (r.empty()) return "-";
  std::string o;
  for (size_t i = 0; i < r.size(); ++i) {
    if (i) o += ",";
    o += std::to_string(r[i].value) + ":" + std::to_string(r[i].length);
  }
  return o;
}

static void do_q(State& st, const std::string& keyhex) {
  std::string op = "q " + keyhex;
  if (!st.loaded) { emit(op, "bad-op"); return; }
  std::string key = unhex(keyhex);
  int v = -1;
  bool g = st.loaded->GetValue(key, &v);
  bool h = st.loaded->HasKey(key);
  std::vector<Prism::Match> r;
  st.loaded->CommonPrefixSearch(key, &r);
  emit(op, "get=" + (g ? std::to_string(v) : std::string("-")) + " has=" + (h ? "1" : "0") + " cps=" + matches(r));
}
static void do_x(State& st, const std::string& keyhex, const std::string& limit) {
  std::string op = "x " + keyhex + " " + limit;
  if (!st.loaded) { emit(op, "bad-op"); return; }
  std::vector<Prism::Match> r;
  st.loaded->ExpandSearch(unhex(keyhex), &r, (size_t)strtoull(limit.c_str(), nullptr, 10));
  emit(op, "exp=" + matches(r));
}
static void do_sp(State& st, const std::string& id) {
  std::string op = "sp " + id;
  if (!st.loaded) { emit(op, "bad-op"); return; }
  std::string o;
  int guard = 0;
  for (SpellingAccessor a = st.loaded->QuerySpelling((SyllableId)atoi(id.c_str())); !a.exhausted() && guard < 100000;
       a.Next(), ++guard) {
    SpellingProperties p = a.properties();
    if (!o.empty()) o += ";";
    o += std::to_string(a.syllable_id()) + "," + std::to_string((int)p.type) + "," + cred_str_f((float)p.credibility) +
         "," + hex(p.tips);
  }
  emit(op, "sp=" + (o.empty() ? std::string("-") : o));
}

int main(int argc, char** argv) {
  if (argc < 4) return 2;
  std::ifstream in(argv[1]);
  out = fopen(argv[2], "w");
  std::string work = argv[3];
  std::filesystem::create_directories(work);
  path prism_path{work + "/c09.prism.bin"};
  learn_penalty();
  if (!g_penalties_agree) emit("penalty", "penalty-constants-differ");
  State st;
  RimeApi* api = nullptr;
  int ncompile = 0;
  unsigned ncases_loaded_twice = 0;
  std::string line;
  while (std::getline(in, line)) {
    std::vector<std::string> a = split(line, ' ');
    const std::string& op = a[0];
    if (op == "case") {
      st = State();
      emit(line, "ok");
    } else if (op == "syl") {
      for (size_t i = 1; i < a.size(); ++i) st.syllabary.insert(unhex(a[i]));
      for (const auto& x : st.syllabary) st.step.AddSyllable(x);
      st.cur = st.step;
      std::string s;
      for (const auto& x : st.syllabary) s += (s.empty() ? "" : ",") + hex(x);
      emit(line, "syllabary=" + s + " script=" + dump(st.step));
    } else if (op == "rule" && a.size() == 2) {
      std::string formula = unhex(a[1]);
      st.formulas.push_back(formula);
      Calculus calc;
      std::unique_ptr<Calculation> x;
      char ok = '1';
      try {
        x.reset(calc.Parse(formula));
        if (!x) ok = 'N';
      } catch (boost::regex_error&) {
        ok = 'R';
      }
      std::string rows;
      size_t nrows = 0;
      bool threw = false;
      if (x) {
        for (const auto& kv : st.step) {
          Spelling s(kv.first);
          bool applied = false;
          try {
            applied = x->Apply(&s);
          } catch (std::runtime_error&) {
            threw = true;
          }
          ++nrows;
          if (threw) { rows += " " + hex(kv.first) + " E -"; break; }
          rows += " " + hex(kv.first) + (applied ? " 1 " + hex(s.str) : " 0 -");
        }
      }
      std::string opl = "rule " + a[1] + " " + std::string(1, ok) + " " + std::to_string(nrows) + rows;
      if (!x) {
        emit(opl, "kind=null del=- add=- round=noparse mod=0 script=" + dump(st.step));
      } else {
        auto list = New<ConfigList>();
        list->Append(New<ConfigValue>(formula));
        Projection p;
        bool mod = p.Load(list) && p.Apply(&st.step);
        emit(opl, std::string("kind=") + kind_of(x.get()) + " del=" + (x->deletion() ? "1" : "0") + " add=" +
                      (x->addition() ? "1" : "0") + " round=" + (threw ? "threw" : "ok") + " mod=" + (mod ? "1" : "0") +
                      " script=" + dump(st.step));
      }
    } else if (op == "apply") {
      Script script;
      for (const auto& x : st.syllabary) script.AddSyllable(x);
      auto list = New<ConfigList>();
      for (const auto& f : st.formulas) list->Append(New<ConfigValue>(f));
      // one Projection for the whole run: a Load must replace, not extend, what an earlier Load left behind
      static Projection p;
      bool loaded = p.Load(list);
      bool mod = loaded && p.Apply(&script);
      st.cur = script;
      st.modified = mod;
      emit(line, std::string("loaded=") + (loaded ? "1" : "0") + " modified=" + (mod ? "1" : "0") + " script=" + dump(script));
    } else if (op == "glue") {
      if (!st.modified) st.cur.clear();
      emit(line, "script=" + dump(st.cur));
    } else if (op == "merge" && a.size() >= 6) {
      std::string key = unhex(a[1]);
      SpellingProperties sp;
      sp.type = (SpellingType)atoi(a[2].c_str());
      bool good = read_cred(a[3], &sp.credibility);
      sp.tips = unhex(a[4]);
      size_t n = strtoul(a[5].c_str(), nullptr, 10);
      std::vector<Spelling> v;
      for (size_t i = 0; i < n && 6 + 4 * i + 3 < a.size(); ++i) {
        Spelling s(unhex(a[6 + 4 * i]));
        s.properties.type = (SpellingType)atoi(a[7 + 4 * i].c_str());
        good = read_cred(a[8 + 4 * i], &s.properties.credibility) && good;
        s.properties.tips = unhex(a[9 + 4 * i]);
        v.push_back(s);
      }
      if (!good || v.size() != n) { emit(line, "bad-op"); continue; }
      st.cur.Merge(key, sp, v);
      emit(line, "script=" + dump(st.cur));
    } else if (op == "build") {
      bool noscript = (a.size() > 1 && a[1] == "noscript") || st.cur.empty();  // `script.empty() ? nullptr : &script`
      st.loaded.reset();
      bool ok;
      {
        PrismX prism(prism_path);
        prism.Remove();
        ok = prism.Build(st.syllabary, noscript ? nullptr : &st.cur) && prism.Save();
      }
      st.keys.clear();
      if (noscript) for (const auto& x : st.syllabary) st.keys.push_back(x);
      else for (const auto& kv : st.cur) st.keys.push_back(kv.first);
      st.file = prism_path;
      if (ok) {
        st.loaded.reset(new PrismX(prism_path));
        ok = st.loaded->Load();
        // a prism object is shared and loaded again whenever a dictionary that uses it is (re)loaded: the second Load on the
        // open object must give the same prism
        if (ok && (ncases_loaded_twice++ % 2 == 0)) ok = st.loaded->Load();
        if (!ok) st.loaded.reset();
      }
      if (!ok) { emit(line, "ok=0"); continue; }
      prism::Metadata* md = st.loaded->md();
      st.alphabet = md->alphabet;
      emit(line, "ok=1 format=" + hex(std::string(md->format, strnlen(md->format, prism::Metadata::kFormatMaxLength))) +
                     " n=" + std::to_string(md->num_spellings) + " alphabet=" + hex(st.alphabet) + " map=" +
                     (st.loaded->has_map() ? "1" : "0"));
    } else if (op == "compile") {
      // `compile again`: the schema (speller/algebra = the formulas so far) is written anew and the SAME dictionary is compiled over
      // the outputs of the previous `compile` of this case, without forcing a rebuild: DictCompiler decides from the checksums
      const bool again = a.size() > 1 && a[1] == "again" && !st.compiled.empty();
      if (!api) {   // Service + deployer directories (staging = <work>/build)
        api = start(work, work, false);
        std::error_code e0;
        std::filesystem::remove_all(work + "/build", e0);   // nothing stale from an earlier run in the same directory
        std::filesystem::create_directories(work + "/build");
      }
      std::string name = again ? st.compiled : "c09d" + std::to_string(++ncompile);
      static std::string last_name;   // of any case: its outputs are dropped by the next fresh compile
      const std::string previous = last_name;
      st.compiled = last_name = name;
      {
        std::ofstream d(work + "/" + name + ".dict.yaml");
        d << "# generated by c09_harness\n---\nname: " << name << "\nversion: \"1\"\nsort: original\n"
          << "use_preset_vocabulary: false\n...\n\n";
        int i = 0;
        // several entries per syllable: Table::Build sizes its file as 4096 + 32*syllables + 64*entries and does not
        // survive growing past that (a C06 matter: stale metadata_ after the remap; tiny dictionaries sit on the edge
        // because the string-table image alone is ~4 KB) — the extra entries buy slack, the syllabary is unchanged
        for (const auto& x : st.syllabary) {
          for (int j = 0; j < 8; ++j) d << "t" << i << (char)('a' + j) << "\t" << x << "\n";
          ++i;
        }
        std::ofstream sc(work + "/" + name + ".schema.yaml");
        sc << "schema:\n  schema_id: " << name << "\nspeller:\n  algebra:\n";
        for (const auto& f : st.formulas) {
          std::string q;
          for (char ch : f) { q.push_back(ch); if (ch == '\'') q.push_back('\''); }
          sc << "    - '" << q << "'\n";
        }
        if (st.formulas.empty()) sc << "    []\n";
        sc << "translator:\n  dictionary: " << name << "\n";
      }
      st.loaded.reset();
      if (!again && !previous.empty())   // drop the previous compile's outputs
        for (const char* ext : {".prism.bin", ".table.bin", ".reverse.bin"}) {
          std::error_code e2;
          std::filesystem::remove(work + "/build/" + previous + ext, e2);
        }
      bool ok;
      path target{work + "/build/" + name + ".prism.bin"};
      {
        auto table = New<Table>(path{work + "/build/" + name + ".table.bin"});
        auto prism = New<Prism>(target);
        Dictionary dict(name, {}, {table}, prism);
        DictCompiler dc(&dict);
        if (!(a.size() > 1 && a[1] == "again")) dc.set_options(DictCompiler::kRebuild);
        ok = dc.Compile(path{work + "/" + name + ".schema.yaml"});
      }
      // candidate keys for `queries`: the table's spellings and the raw syllables
      {
        std::set<std::string> ks(st.syllabary.begin(), st.syllabary.end());
        for (const auto& kv : st.cur) ks.insert(kv.first);
        st.keys.assign(ks.begin(), ks.end());
      }
      st.file = target;
      if (ok) {
        st.loaded.reset(new PrismX(target));
        ok = st.loaded->Load();
        if (ok && (ncases_loaded_twice++ % 2 == 0)) ok = st.loaded->Load();
        if (!ok) st.loaded.reset();
      }
      if (!ok) {
        // not C09's business: the table (not the prism) could not be built / read back — reported as `compile T`
        Table t(path{work + "/build/" + name + ".table.bin"});
        bool table_ok = t.Exists() && t.Load();
        if (!table_ok) emit("compile T", "ok=T"); else emit(line, "ok=0");
        continue;
      }
      prism::Metadata* md = st.loaded->md();
      st.alphabet = md->alphabet;
      emit(line, "ok=1 format=" + hex(std::string(md->format, strnlen(md->format, prism::Metadata::kFormatMaxLength))) +
                     " n=" + std::to_string(md->num_spellings) + " alphabet=" + hex(st.alphabet) + " map=" +
                     (st.loaded->has_map() ? "1" : "0"));
      for (const char* ext : {".dict.yaml", ".schema.yaml"}) { std::error_code e2; std::filesystem::remove(work + "/" + name + ext, e2); }
    } else if (op == "reload" && a.size() == 2) {
      std::string f = unhex(a[1]);
      st.loaded.reset();
      {
        char buf[prism::Metadata::kFormatMaxLength];
        memset(buf, 0, sizeof buf);
        memcpy(buf, f.data(), std::min(f.size(), sizeof buf - 1));
        FILE* fp = fopen(st.file.c_str(), "r+b");
        if (fp) { fwrite(buf, 1, sizeof buf, fp); fclose(fp); }
      }
      st.loaded.reset(new PrismX(st.file));
      bool ok = st.loaded->Load();
      if (!ok) st.loaded.reset();
      emit(line, ok ? "ok=1" : "ok=0");
    } else if (op == "q" && a.size() == 2) {
      do_q(st, a[1]);
    } else if (op == "x" && a.size() == 3) {
      do_x(st, a[1], a[2]);
    } else if (op == "sp" && a.size() == 2) {
      do_sp(st, a[1]);
    } else if (op == "queries" && a.size() == 4) {
      Rng rng(strtoull(a[1].c_str(), nullptr, 10));
      size_t nrand = strtoul(a[2].c_str(), nullptr, 10), maxkeys = strtoul(a[3].c_str(), nullptr, 10);
      static const char* limits[] = {"0", "1", "2", "3", "5", "8", "1000"};
      // keys (a sample if there are many)
      std::vector<std::string> ks = st.keys;
      while (ks.size() > maxkeys) ks.erase(ks.begin() + rng.below(ks.size()));
      std::set<std::string> prefixes;
      for (const auto& k : ks) {
        do_q(st, hex(k));
        do_x(st, hex(k), "0");
        do_x(st, hex(k), limits[rng.below(7)]);
        for (size_t l = 0; l < k.size(); ++l) prefixes.insert(k.substr(0, l));
      }
      for (const auto& p : prefixes) {
        do_q(st, hex(p));
        for (const char* l : limits) do_x(st, hex(p), l);
      }
      std::string letters = st.alphabet + "q";
      for (size_t i = 0; i < nrand; ++i) {
        std::string s;
        if (!st.keys.empty() && rng.chance(60)) {  // a key, extended or damaged
          s = st.keys[rng.below(st.keys.size())];
          if (rng.chance(50) && !s.empty()) s[rng.below(s.size())] = letters[rng.below(letters.size())];
          size_t ext = rng.below(3);
          for (size_t j = 0; j < ext; ++j) s.push_back(letters[rng.below(letters.size())]);
        } else {
          size_t len = 1 + rng.below(5);
          for (size_t j = 0; j < len; ++j) s.push_back(letters[rng.below(letters.size())]);
        }
        do_q(st, hex(s));
        do_x(st, hex(s), limits[rng.below(7)]);
      }
      size_t n = st.keys.size();
      for (size_t i = 0; i < n + 2; ++i)
        if (i < 40 || i >= n || rng.chance(25)) do_sp(st, std::to_string(i));
    } else {
      emit(line, "bad-op");
    }
  }
  st.loaded.reset();
  if (api) api->finalize();
  fclose(out);
  std::error_code ec;
  std::filesystem::remove(prism_path, ec);
  return 0;
}
