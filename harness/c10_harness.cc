// C10 harness: drives the real librime (API + in-process inspection) through a learning history and prints
//   E ...   abstract events in the order the real code raised them (input of the Lean driver driver_c10)
//   R ...   what the real Memory::Memorize was called with (compared with the model's own grouping)
//   O ...   observations: durable user-db dump, candidate list, committed text
// usage: c10_harness <workspace> <script> <schema_id>
// Script ops (one per line):
//   type <ascii>           process_key for every character
//   input <ascii>          set_input
//   key <code> <mask>      process_key
//   select <i>             select_candidate (index in the whole menu of the current segment)
//   select_whole <k>       select the k-th candidate that ends at the end of the input (no-op if none)
//   select_part <k>        select the k-th candidate that ends before the end of the input
//   select_text <hex>      select the first candidate with this text
//   delete <i>             delete_candidate(i)
//   delete_user <k>        delete the k-th candidate of a user type (user_phrase / user_table)
//   select_user <k>        select the k-th candidate of a user type
//   delete_text <hex>      delete the first candidate with this text
//   ctrl_delete <i>        highlight_candidate(i) then Control+Delete through process_key
//   commit | clear | restart_session | restart_service
//   reset                  start a new history: stop the service, remove every *.userdb, restart
//   clock <seconds>        advance the virtual wall clock (time() is interposed)
//   sample <n>             sample the real formula_d / formula_p on n seeded points (hypothesis sampling)
// Built with -fno-access-control: the user dictionary's Db is read through private members, read-only.
#include "hcommon.h"
#include <cmath>
#include <ctime>
#include <map>
#include <set>
#include <sstream>
#include <iostream>
#include <rime/candidate.h>
#include <rime/component.h>
#include <rime/composition.h>
#include <rime/context.h>
#include <rime/engine.h>
#include <rime/key_event.h>
#include <rime/language.h>
#include <rime/menu.h>
#include <rime/registry.h>
#include <rime/schema.h>
#include <rime/segmentation.h>
#include <rime/service.h>
#include <rime/algo/dynamics.h>
#include <rime/algo/syllabifier.h>
#include <rime/dict/corrector.h>
#include <rime/dict/db.h>
#include <rime/dict/dictionary.h>
#include <rime/dict/user_db.h>
#include <rime/dict/user_dictionary.h>
#include <rime/gear/memory.h>
#include <rime/gear/poet.h>
#include <rime/gear/unity_table_encoder.h>
#include <rime/gear/script_translator.h>
#include <rime/gear/table_translator.h>
#include <rime/gear/translator_commons.h>

using namespace vh;
using rime::an;
using rime::As;

// ---------------------------------------------------------------- virtual wall clock
static time_t g_now = 1700000000;
extern "C" time_t time(time_t* t) {
  if (t) *t = g_now;
  return g_now;
}

// ---------------------------------------------------------------- event log
static std::vector<std::string> g_lines;
static void emit(const std::string& s) { g_lines.push_back(s); }
static void flush_lines() {
  for (auto& l : g_lines) puts(l.c_str());
  g_lines.clear();
  fflush(stdout);
}

static std::string code_hex(const std::string& code_str) {
  // "ba ba " -> "6261,6261"; empty -> "-"
  std::string out, cur;
  for (char c : code_str + " ") {
    if (c == ' ') {
      if (!cur.empty()) { if (!out.empty()) out += ","; out += hex(cur); cur.clear(); }
    } else cur.push_back(c);
  }
  return out.empty() ? "-" : out;
}

struct SpyBase {
  std::string ns;
  bool script;
  rime::Memory* mem;
  rime::Engine* engine;
};
static std::vector<SpyBase*> g_spies;
static SpyBase* main_spy() {
  for (auto* s : g_spies) if (s->ns == "translator") return s;
  return nullptr;
}

// the db key code of an entry exactly as UserDictionary::UpdateEntry derives it (custom_code, else the
// syllable ids spelled through the table)
static std::string entry_code(rime::Memory* mem, const rime::DictEntry& e) {
  std::string code_str(e.custom_code);
  if (code_str.empty() && mem && mem->user_dict())
    mem->user_dict()->TranslateCodeToString(e.code, &code_str);
  return code_str;
}

static std::string memorize_line(SpyBase* spy, const rime::CommitEntry& ce) {
  std::ostringstream o;
  o << "R memorize " << spy->ns << " " << hex(ce.text) << " " << code_hex(entry_code(spy->mem, ce)) << " " << ce.elements.size();
  for (const rime::DictEntry* e : ce.elements) o << " " << hex(e->text) << " " << code_hex(entry_code(spy->mem, *e));
  return o.str();
}

class SpyScript : public rime::ScriptTranslator, public SpyBase {
 public:
  explicit SpyScript(const rime::Ticket& t) : rime::ScriptTranslator(t) {
    ns = name_space_; script = true; mem = this; engine = engine_;
    g_spies.push_back(this);
  }
  ~SpyScript() override {
    // ~Memory → ~UserDictionary commits the pending transaction
    if (user_dict_ && user_dict_->loaded()) emit("E close " + ns);
    for (size_t i = 0; i < g_spies.size(); ++i) if (g_spies[i] == this) { g_spies.erase(g_spies.begin() + i); break; }
  }
  an<rime::Translation> Query(const std::string& input, const rime::Segment& seg) override {
    if (dict_ && dict_->loaded() && seg.HasAnyTagIn(tags_) && user_dict_) {
      // does UserDictionary::Lookup get as far as FetchTickCount?  It returns early when the syllabifier
      // interprets nothing of the input (or the user dictionary is disabled for this input).
      rime::Syllabifier syl(delimiters_, enable_completion_, strict_spelling_);
      rime::SyllableGraph graph;
      syl.BuildSyllableGraph(input, *dict_->prism(), &graph);
      bool lookup = user_dict_->loaded() && !IsUserDictDisabledFor(input) && graph.interpreted_length > 0;
      emit("E query " + ns + (lookup ? " 1" : " 0"));
    }
    return rime::ScriptTranslator::Query(input, seg);
  }
  bool Memorize(const rime::CommitEntry& ce) override {
    emit(memorize_line(this, ce));
    return rime::ScriptTranslator::Memorize(ce);
  }
};

// the unity table encoder of a table translator with `enable_encoder: true`: every EncodePhrase call is reported together
// with the codes it created entries for (the rule-based encoder proper is an oracle of the model)
class SpyEncoder : public rime::UnityTableEncoder {
 public:
  explicit SpyEncoder(rime::UserDictionary* ud) : rime::UnityTableEncoder(ud) {}
  bool EncodePhrase(const std::string& phrase, const std::string& value) override {
    std::vector<std::string> outer;
    outer.swap(codes_);
    bool r = rime::UnityTableEncoder::EncodePhrase(phrase, value);
    std::ostringstream o;
    o << "E encode_phrase " << hex(phrase) << " " << (value == "0" ? "0" : "1") << " " << codes_.size();
    for (auto& c : codes_) o << " " << hex(c);
    emit(o.str());
    codes_.swap(outer);
    return r;
  }
  void CreateEntry(const std::string& word, const std::string& code_str, const std::string& weight_str) override {
    codes_.push_back(code_str);
    rime::UnityTableEncoder::CreateEntry(word, code_str, weight_str);
  }
 private:
  std::vector<std::string> codes_;
};

class SpyTable : public rime::TableTranslator, public SpyBase {
 public:
  explicit SpyTable(const rime::Ticket& t) : rime::TableTranslator(t) {
    ns = name_space_; script = false; mem = this; engine = engine_;
    if (encoder_) {
      encoder_.reset(new SpyEncoder(user_dict_.get()));
      encoder_->Load(t);
    }
    g_spies.push_back(this);
  }
  bool encoder_loaded() const { return encoder_ && encoder_->loaded(); }
  ~SpyTable() override {
    if (user_dict_ && user_dict_->loaded()) emit("E close " + ns);
    for (size_t i = 0; i < g_spies.size(); ++i) if (g_spies[i] == this) { g_spies.erase(g_spies.begin() + i); break; }
  }
  an<rime::Translation> Query(const std::string& input, const rime::Segment& seg) override {
    if (seg.HasAnyTagIn(tags_) && user_dict_) emit("E query " + ns + " 1");
    return rime::TableTranslator::Query(input, seg);
  }
  bool Memorize(const rime::CommitEntry& ce) override {
    emit(memorize_line(this, ce));
    return rime::TableTranslator::Memorize(ce);
  }
};

// ---------------------------------------------------------------- context listeners
static std::string sel_desc(SpyBase* spy, const an<rime::Candidate>& raw) {
  // "<kind> <text> <code> [<n> (<text> <code>)*]"   kind: n none, u unrecognized, p phrase, s sentence
  if (!raw) return "n - -";
  auto cand = rime::Candidate::GetGenuineCandidate(raw);
  auto phrase = As<rime::Phrase>(cand);
  bool recognized = spy && rime::Language::intelligible(phrase, spy->mem);
  if (!recognized) return "u " + hex(cand ? cand->text() : std::string()) + " -";
  std::ostringstream o;
  if (auto sentence = As<rime::Sentence>(phrase)) {
    o << "s " << hex(phrase->text()) << " " << code_hex(entry_code(spy->mem, phrase->entry())) << " " << sentence->components().size();
    for (const rime::DictEntry& e : sentence->components()) o << " " << hex(e.text) << " " << code_hex(entry_code(spy->mem, e));
  } else {
    o << "p " << hex(phrase->text()) << " " << code_hex(entry_code(spy->mem, phrase->entry()));
  }
  return o.str();
}

static void on_commit(rime::Context* ctx) {
  SpyBase* spy = main_spy();
  if (!spy || !spy->mem->user_dict() || spy->mem->user_dict()->readonly()) return;
  if (!spy->script && static_cast<SpyTable*>(spy)->encoder_loaded()) {
    // Engine::OnCommit (connected first) has already pushed this commit; Memorize read the history in this state
    std::ostringstream h;
    h << "E history " << ctx->commit_history().size();
    for (auto& r : ctx->commit_history()) h << " " << (r.type.empty() ? "-" : r.type) << " " << hex(r.text);
    emit(h.str());
  }
  std::ostringstream o;
  o << "E commit " << (long)g_now << " " << ctx->composition().size();
  for (auto& seg : ctx->composition()) o << " " << (int)seg.status << " " << sel_desc(spy, seg.GetSelectedCandidate());
  emit(o.str());
}

static void on_delete(rime::Context* ctx) {
  // connected at_front: runs before Memory::OnDeleteEntry re-translates the segment
  SpyBase* spy = main_spy();
  if (!spy || !spy->mem->user_dict() || spy->mem->user_dict()->readonly() || !ctx || !ctx->HasMenu()) return;
  emit("E delete " + sel_desc(spy, ctx->GetSelectedCandidate()));
}

static rime::Context* context();
// the candidate a delete_candidate(index) call names, described like the one the delete notifier finds selected
static void emit_delete_request(size_t index) {
  rime::Context* ctx = context();
  SpyBase* spy = main_spy();
  if (!spy || !ctx || !ctx->HasMenu()) return;
  auto cand = ctx->composition().back().GetCandidateAt(index);
  if (cand) emit("E delete_req " + sel_desc(spy, cand));
}

static void on_unhandled(rime::Context* ctx, const rime::KeyEvent& key) {
  SpyBase* spy = main_spy();
  if (!spy || !spy->mem->user_dict() || spy->mem->user_dict()->readonly()) return;
  std::ostringstream o;
  o << "E unhandled " << key.keycode() << " " << key.modifier() << " " << (long)g_now;
  emit(o.str());
}

// ---------------------------------------------------------------- observations
static RimeApi* api;
static RimeSessionId g_session = 0;
static std::string g_ws;
static std::string g_schema;

static rime::Context* context() {
  auto sess = rime::Service::instance().GetSession(g_session);
  return sess ? sess->context() : nullptr;
}

static void dump_db() {
  SpyBase* spy = main_spy();
  std::ostringstream o;
  if (!spy || !spy->mem->user_dict() || !spy->mem->user_dict()->loaded()) { emit("O db none"); return; }
  rime::UserDictionary* ud = spy->mem->user_dict();
  auto db = ud->db_;
  // durable state only: cursors read the database, whereas Fetch/MetaFetch also see the writes pending in an open
  // transaction
  std::string tick;
  if (auto meta = db->QueryMetadata()) {
    std::string k, v;
    while (meta->GetNextRecord(&k, &v))
      if (k == "/tick") tick = v;
  }
  auto tdb = As<rime::Transactional>(db);
  std::vector<std::string> rows;
  if (auto acc = db->QueryAll()) {
    std::string k, v;
    while (acc->GetNextRecord(&k, &v)) {
      size_t tab = k.find('\t');
      if (tab == std::string::npos) { rows.push_back("?" + hex(k)); continue; }
      rime::UserDbValue val;
      val.Unpack(v);
      char buf[96];
      snprintf(buf, sizeof buf, "|%d|%.17g|%llu", val.commits, val.dee, (unsigned long long)val.tick);
      rows.push_back(code_hex(k.substr(0, tab)) + "|" + hex(k.substr(tab + 1)) + buf);
    }
  }
  o << "O db tick=" << (tick.empty() ? "-" : tick) << " member=" << ud->tick() << " intxn=" << (tdb && tdb->in_transaction() ? 1 : 0)
    << " n=" << rows.size();
  for (auto& r : rows) o << " " << r;
  emit(o.str());
}

static const size_t kMaxList = 120;

struct CandInfo { std::string text, type; size_t start, end; std::string code; bool phrase; char origin; };

static std::vector<CandInfo> list_candidates() {
  std::vector<CandInfo> out;
  rime::Context* ctx = context();
  SpyBase* spy = main_spy();
  if (!ctx || !ctx->HasMenu()) return out;
  auto& seg = ctx->composition().back();
  for (size_t i = 0; i < kMaxList; ++i) {
    auto raw = seg.GetCandidateAt(i);
    if (!raw) break;
    auto cand = rime::Candidate::GetGenuineCandidate(raw);
    CandInfo c;
    c.text = raw->text();
    c.type = cand->type();
    c.start = raw->start();
    c.end = raw->end();
    auto phrase = As<rime::Phrase>(cand);
    c.phrase = phrase && spy && rime::Language::intelligible(phrase, spy->mem);
    c.code = c.phrase ? code_hex(entry_code(spy->mem, phrase->entry())) : "-";
    // origin: u = out of the user dictionary (typed so, or a completion whose entry carries the db key's code)
    c.origin = (c.type == "user_phrase" || c.type == "user_table" ||
                (c.type == "completion" && c.phrase && !phrase->entry().custom_code.empty())) ? 'u' : 's';
    out.push_back(c);
  }
  return out;
}

static void observe() {
  rime::Context* ctx = context();
  std::ostringstream o;
  if (!ctx) { emit("O cands nosession"); return; }
  o << "O cands input=" << hex(ctx->input()) << " nseg=" << ctx->composition().size();
  if (!ctx->composition().empty())
    o << " seg=" << ctx->composition().back().start << "," << ctx->composition().back().end;
  else
    o << " seg=-";
  auto cs = list_candidates();
  o << " n=" << cs.size();
  for (auto& c : cs) o << " " << hex(c.text) << ":" << c.type << ":" << c.start << ":" << c.end << ":" << c.code << ":" << c.origin;
  emit(o.str());
}

static void read_commit() {
  RIME_STRUCT(RimeCommit, commit);
  if (api->get_commit(g_session, &commit)) {
    emit("O text " + hex(commit.text ? std::string(commit.text) : std::string()));
    api->free_commit(&commit);
  }
}

// ---------------------------------------------------------------- service / session lifecycle
static void init_service(bool first) {
  api = rime_get_api();
  static std::string logdir;
  logdir = g_ws + "/log";
  std::filesystem::create_directories(logdir);
  RIME_STRUCT(RimeTraits, traits);
  traits.shared_data_dir = g_ws.c_str();
  traits.user_data_dir = g_ws.c_str();
  traits.distribution_name = "verif";
  traits.distribution_code_name = "verif";
  traits.distribution_version = "0";
  traits.app_name = "rime.verif";
  traits.min_log_level = 3;
  traits.log_dir = logdir.c_str();
  if (first) api->setup(&traits);
  api->initialize(&traits);
  if (first && api->start_maintenance(True)) api->join_maintenance_thread();
}

static void register_spies() {
  rime::Registry::instance().Register("script_translator", new rime::Component<SpyScript>);
  rime::Registry::instance().Register("table_translator", new rime::Component<SpyTable>);
}

static void connect_listeners() {
  rime::Context* ctx = context();
  if (!ctx) return;
  ctx->commit_notifier().connect([](rime::Context* c) { on_commit(c); });
  ctx->delete_notifier().connect([](rime::Context* c) { on_delete(c); }, boost::signals2::at_front);
  ctx->unhandled_key_notifier().connect([](rime::Context* c, const rime::KeyEvent& k) { on_unhandled(c, k); },
                                        boost::signals2::at_front);
}

static void new_session() {
  g_session = api->create_session();
  char cur[128] = {0};
  if (!g_schema.empty() && !(api->get_current_schema(g_session, cur, sizeof cur) && g_schema == cur))
    api->select_schema(g_session, g_schema.c_str());
  connect_listeners();
}

static void sample_formulas(uint64_t seed, int n) {
  // numeric sampling of the order hypotheses the ranking theorem assumes about formula_d / formula_p:
  //   gain:  w(b,P) <= w(a,P)  ->  w(b,P+1) < w(commit a, P+1)
  // on records reachable by UpdateEntry (dee is bounded by kM = 1/(1-exp(-1/200))), both branches of
  // formula_p around d = 20 included.  Output: counts only.
  Rng rng(seed);
  auto weight = [](int c, double d, unsigned long t, unsigned long present) {
    if (t < present) d = rime::algo::formula_d(0, (double)present, d, (double)t);
    double w = rime::algo::formula_p(0, (double)c / present, (double)present, d);
    return std::log(w > 0 ? w : 2.220446049250313e-16);
  };
  auto rnd_d = [&](void) {
    switch (rng.below(4)) {
      case 0: return 0.1 * (1 + rng.below(30));
      case 1: return 18.0 + rng.below(4000) / 1000.0;
      case 2: return rng.below(190000) / 1000.0;
      default: return (double)(1 + rng.below(12));
    }
  };
  long checked = 0, premise = 0, gain_fail = 0, mono_c_fail = 0, mono_d_fail = 0, near20 = 0;
  std::string first_fail;
  for (int i = 0; i < n; ++i) {
    unsigned long tick = 1 + rng.below(rng.chance(50) ? 400 : 40000);
    unsigned long ta = tick - rng.below(std::min<unsigned long>(tick, 300)), tb = tick - rng.below(std::min<unsigned long>(tick, 300));
    int ca = (int)rng.below(std::min<unsigned long>(ta + 1, 300)), cb = (int)rng.below(std::min<unsigned long>(tb + 1, 300));
    double da = rnd_d(), db = rng.chance(30) ? da + (rng.below(2001) - 1000.0) / 2000.0 : rnd_d();
    if (db < 0) db = 0.05;
    unsigned long P = tick + 1;
    double wa = weight(ca, da, ta, P), wb = weight(cb, db, tb, P);
    ++checked;
    // monotone in commits / dee separately (reported, not required: formula_p jumps down at d = 20)
    if (weight(ca + 1, da, ta, P) < wa) ++mono_c_fail;
    if (weight(ca, da + 0.5, ta, P) < wa) { ++mono_d_fail; if (da * std::exp(((double)ta - P) / 200) < 20) ++near20; }
    if (wb <= wa) {
      ++premise;
      // commit a at tick_ = tick: UpdateTickCount(1); dee' = formula_d(1, tick+1, dee, ta); stored through "%g"
      double da2 = rime::algo::formula_d(1, (double)(tick + 1), da, (double)ta);
      char buf[64];
      snprintf(buf, sizeof buf, "%g", da2);
      da2 = std::min(10000.0, atof(buf));
      double wa2 = weight(ca + 1, da2, tick + 1, P + 1), wb2 = weight(cb, db, tb, P + 1);
      if (!(wb2 < wa2)) {
        ++gain_fail;
        if (first_fail.empty()) {
          char m[256];
          snprintf(m, sizeof m, "a=(%d,%.9g,%lu) b=(%d,%.9g,%lu) tick=%lu", ca, da, ta, cb, db, tb, tick);
          first_fail = m;
        }
      }
    }
  }
  std::ostringstream o;
  o << "O sample checked=" << checked << " premise=" << premise << " gain_fail=" << gain_fail << " mono_commits_fail=" << mono_c_fail
    << " mono_dee_fail=" << mono_d_fail << " mono_dee_fail_below20=" << near20 << " first=" << (first_fail.empty() ? "-" : hex(first_fail));
  emit(o.str());
}

int main(int argc, char** argv) {
  if (argc < 3) { fprintf(stderr, "usage: c10_harness <workspace> <script>\n"); return 2; }
  g_ws = argv[1];
  std::ifstream script(argv[2]);
  std::vector<std::string> lines;
  for (std::string l; std::getline(script, l);) lines.push_back(l);
  setvbuf(stdout, NULL, _IOFBF, 1 << 16);
  if (argc > 3) g_schema = argv[3];
  init_service(true);
  register_spies();
  new_session();
  size_t opno = 0;
  for (auto& l : lines) {
    std::istringstream is(l);
    std::string w;
    is >> w;
    if (w.empty() || w[0] == '#') continue;
    emit("# op " + std::to_string(opno++) + " " + l);
    std::string status = "ok";
    if (w == "type") {
      std::string s; is >> s;
      for (char ch : s) api->process_key(g_session, (unsigned char)ch, 0);
    } else if (w == "input") {
      std::string s; is >> s;
      api->set_input(g_session, s == "-" ? "" : s.c_str());
    } else if (w == "key") {
      long code, mask; is >> code >> mask;
      api->process_key(g_session, (int)code, (int)mask);
    } else if (w == "select") {
      size_t i; is >> i;
      if (!api->select_candidate(g_session, i)) status = "noop";
    } else if (w == "select_whole" || w == "select_part" || w == "select_text" || w == "select_completion" || w == "select_user" || w == "delete_completion" || w == "delete_user" || w == "delete_text") {
      std::string arg; is >> arg;
      rime::Context* ctx = context();
      size_t len = ctx ? ctx->input().length() : 0;
      auto cs = list_candidates();
      long found = -1, k = (w == "select_text" || w == "delete_text") ? 0 : atol(arg.c_str());
      std::string want = (w == "select_text" || w == "delete_text") ? unhex(arg) : std::string();
      for (size_t i = 0; i < cs.size(); ++i) {
        bool ok = w == "select_whole" ? cs[i].end == len
                  : w == "select_part" ? cs[i].end < len
                  : (w == "select_completion" || w == "delete_completion") ? cs[i].type == "completion"
                  : (w == "delete_user" || w == "select_user") ? (cs[i].type == "user_phrase" || cs[i].type == "user_table")
                                       : cs[i].text == want;
        if (ok && k-- == 0) { found = (long)i; break; }
      }
      if (found < 0) status = "noop";
      else if (w[0] == 's') { if (!api->select_candidate(g_session, (size_t)found)) status = "noop"; }
      else { emit_delete_request((size_t)found); if (!api->delete_candidate(g_session, (size_t)found)) status = "noop"; }
      if (found >= 0) status += " index=" + std::to_string(found);
    } else if (w == "delete") {
      size_t i; is >> i;
      emit_delete_request(i);
      if (!api->delete_candidate(g_session, i)) status = "noop";
    } else if (w == "ctrl_delete") {
      size_t i; is >> i;
      api->highlight_candidate(g_session, i);
      api->process_key(g_session, 0xffff, 4);
    } else if (w == "commit") {
      if (!api->commit_composition(g_session)) status = "noop";
    } else if (w == "clear") {
      api->clear_composition(g_session);
    } else if (w == "restart_session") {
      api->destroy_session(g_session);
      new_session();
    } else if (w == "restart_service") {
      api->destroy_session(g_session);
      api->finalize();
      flush_lines();
      init_service(false);
      register_spies();
      new_session();
    } else if (w == "reset") {
      // a new history: fresh user dictionaries, fresh clock
      api->destroy_session(g_session);
      api->finalize();
      g_lines.clear();
      emit("# op " + std::to_string(opno - 1) + " " + l);
      for (auto& e : std::filesystem::directory_iterator(g_ws))
        if (e.is_directory() && e.path().extension() == ".userdb") std::filesystem::remove_all(e.path());
      g_now = 1700000000;
      emit("E reset");
      init_service(false);
      register_spies();
      new_session();
    } else if (w == "clock") {
      long s; is >> s;
      g_now += s;
    } else if (w == "sample") {
      int n; is >> n;
      sample_formulas(0xC10 + opno, n);
    } else {
      status = "bad-op";
    }
    emit("O status " + status);
    read_commit();
    dump_db();
    observe();
    flush_lines();
  }
  emit("# op " + std::to_string(opno) + " teardown");   // the closing flush belongs to no API call of the history
  api->destroy_session(g_session);
  api->finalize();
  emit("# end");
  flush_lines();
  return 0;
}
