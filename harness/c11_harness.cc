// C11 harness: typing histories through the real librime API on a schema with a LevelDB user dictionary,
// with (a) a virtual clock (`time` interposed, advanced only by `tick` ops), (b) the RIME_VERIF_TXN trace hook
// when the working tree has it (-DC11_HAVE_TXN_HOOK, detected by the check), (c) an in-executable interposer on
// the file-system mutation calls which counts them and `_exit`s the process at a chosen one (kill point).
//
//   c11_harness deploy <ws>
//   c11_harness run    <ws> <script> <sidelog> <scratch> [--kill N] [--torn] [--nodump]
//   c11_harness verify <ws> <dict> <scratch>
//
// All protocol lines go to <sidelog> through raw syscalls (never buffered, never counted), so a killed run leaves
// exactly the lines that were emitted before the kill:
//   call <i> <script line>         start of an API call
//   op <name> <keyhex> <valhex>    TXN hook (emitted BEFORE the effect of the operation)
//   note <kind> <session> ...      notification seen by the harness AFTER Memory's own handler ran
//   fs <n> <call> <relpath> <len>  counted file-system mutation number n (emitted before it is executed)
//   end <i> fs=<n>                 API call returned
//   dump <hex:hex,...>             durable content: the db directory is copied and the COPY opened with LevelDB
//   killed at=<n> ...              last line of a killed run
#include "hcommon.h"
#include <atomic>
#include <map>
#include <sstream>
#include <iostream>
#include <fcntl.h>
#include <unistd.h>
#include <stdarg.h>
#include <sys/syscall.h>
#include <sys/stat.h>
#include <sys/uio.h>
#include <leveldb/db.h>
#include <rime/service.h>
#include <rime/context.h>
#include <rime/deployer.h>
#include <rime/key_event.h>
#include <rime/dict/db.h>
#include <rime/dict/user_db.h>
#include <rime/dict/user_dictionary.h>

#ifdef C11_HAVE_TXN_HOOK
#include <rime/verif_hooks.h>   // rime::verif::txn_hook (hooks/C11.patch)
#endif

// ------------------------------------------------------------------ state shared with the interposers
static std::atomic<long> g_fs_count{0};     // counted mutations so far
static std::atomic<bool> g_armed{false};    // counting on
static std::atomic<int> g_bypass{0};        // >0: pass through uncounted (harness's own file work)
static long g_kill_at = -1;
static bool g_torn = false;
static int g_logfd = -1;
static std::string g_ws;                    // absolute workspace prefix, with trailing '/'
static std::atomic<long> g_ops{0};
static std::atomic<int> g_in_commit{0};
static long g_call = -1;
static long g_virtual_time = 1700000000;    // the virtual clock (seconds)

// tools/check_coverage.py (VERIF_FLAVOUR=cov): gcov writes its counters from an exit handler, which exit_group skips.
// Everything observable has been printed by now, so a measured run may leave through exit(); a checking run never does.
static void leave_for_coverage() {
  const char* f = getenv("VERIF_FLAVOUR");
  if (f && std::string(f) == "cov") { g_armed.store(false); exit(0); }
}

static void raw_line(const std::string& s) {
  if (g_logfd < 0) return;
  std::string l = s + "\n";
  size_t off = 0;
  while (off < l.size()) {
    long r = syscall(SYS_write, g_logfd, l.data() + off, l.size() - off);
    if (r <= 0) break;
    off += (size_t)r;
  }
}

static bool fd_path(int fd, std::string* out) {
  char link[64], buf[4096];
  snprintf(link, sizeof link, "/proc/self/fd/%d", fd);
  long n = syscall(SYS_readlink, link, buf, sizeof buf - 1);
  if (n <= 0) return false;
  out->assign(buf, (size_t)n);
  return true;
}

// is this path one whose mutation is a kill point?  (inside the workspace, not the log directory)
static bool relevant(const std::string& p, std::string* rel) {
  if (g_ws.empty() || p.compare(0, g_ws.size(), g_ws) != 0) return false;
  *rel = p.substr(g_ws.size());
  if (rel->compare(0, 4, "log/") == 0) return false;
  return true;
}

[[noreturn]] static void die_now(long n, const char* call, const std::string& rel, bool torn) {
  std::ostringstream o;
  o << "killed at=" << n << " call=" << call << " path=" << rel << " ops=" << g_ops.load()
    << " api_call=" << g_call << " in_commit=" << g_in_commit.load() << " torn=" << (torn ? 1 : 0);
  raw_line(o.str());
  syscall(SYS_exit_group, 137);
  __builtin_unreachable();
}

// returns true if the call is to be counted; performs the kill when its number comes up.
// torn_fd/torn_buf: for write-like calls in --torn mode, half of the buffer is written before the exit.
static bool count_call(const char* call, const std::string& path, size_t len, int torn_fd = -1,
                       const void* torn_buf = nullptr) {
  if (!g_armed.load() || g_bypass.load() > 0) return false;
  std::string rel;
  if (!relevant(path, &rel)) return false;
  long n = g_fs_count.fetch_add(1);
  {
    std::ostringstream o;
    o << "fs " << n << " " << call << " " << rel << " " << len << " c" << g_in_commit.load();
    raw_line(o.str());
  }
  if (n == g_kill_at) {
    bool torn = false;
    if (g_torn && torn_fd >= 0 && torn_buf && len >= 2) {
      syscall(SYS_write, torn_fd, torn_buf, len / 2);
      torn = true;
    }
    die_now(n, call, rel, torn);
  }
  return true;
}

static void count_fd(const char* call, int fd, size_t len, const void* buf = nullptr) {
  if (fd <= 2 || fd == g_logfd) return;
  if (!g_armed.load() || g_bypass.load() > 0) return;
  std::string p;
  if (!fd_path(fd, &p)) return;
  count_call(call, p, len, buf ? fd : -1, buf);
}

// ------------------------------------------------------------------ interposed libc entry points
extern "C" {

time_t time(time_t* t) {
  if (t) *t = g_virtual_time;
  return g_virtual_time;
}

ssize_t write(int fd, const void* buf, size_t n) {
  count_fd("write", fd, n, buf);
  return syscall(SYS_write, fd, buf, n);
}
ssize_t pwrite(int fd, const void* buf, size_t n, off_t off) {
  count_fd("pwrite", fd, n);
  return syscall(SYS_pwrite64, fd, buf, n, off);
}
ssize_t pwrite64(int fd, const void* buf, size_t n, off_t off) {
  count_fd("pwrite", fd, n);
  return syscall(SYS_pwrite64, fd, buf, n, off);
}
ssize_t writev(int fd, const struct iovec* iov, int cnt) {
  size_t n = 0;
  for (int i = 0; i < cnt; ++i) n += iov[i].iov_len;
  count_fd("writev", fd, n);
  return syscall(SYS_writev, fd, iov, cnt);
}
int fsync(int fd) {
  count_fd("fsync", fd, 0);
  return (int)syscall(SYS_fsync, fd);
}
int fdatasync(int fd) {
  count_fd("fdatasync", fd, 0);
  return (int)syscall(SYS_fdatasync, fd);
}
int ftruncate(int fd, off_t len) {
  count_fd("ftruncate", fd, (size_t)len);
  return (int)syscall(SYS_ftruncate, fd, len);
}
int ftruncate64(int fd, off_t len) {
  count_fd("ftruncate", fd, (size_t)len);
  return (int)syscall(SYS_ftruncate, fd, len);
}
int rename(const char* a, const char* b) {
  count_call("rename", b ? b : "", 0);
  return (int)syscall(SYS_rename, a, b);
}
int unlink(const char* p) {
  count_call("unlink", p ? p : "", 0);
  return (int)syscall(SYS_unlink, p);
}
int remove(const char* p) {
  count_call("remove", p ? p : "", 0);
  long r = syscall(SYS_unlink, p);
  if (r != 0 && errno == EISDIR) r = syscall(SYS_rmdir, p);
  return (int)r;
}
int rmdir(const char* p) {
  count_call("rmdir", p ? p : "", 0);
  return (int)syscall(SYS_rmdir, p);
}
int mkdir(const char* p, mode_t m) {
  count_call("mkdir", p ? p : "", 0);
  return (int)syscall(SYS_mkdir, p, m);
}
static int open_impl(const char* p, int flags, mode_t mode) {
  if (p && (flags & (O_CREAT | O_TRUNC))) count_call("open", p, (size_t)(flags & (O_CREAT | O_TRUNC)));
  return (int)syscall(SYS_openat, AT_FDCWD, p, flags, mode);
}
int open(const char* p, int flags, ...) {
  mode_t mode = 0;
  if (flags & (O_CREAT | O_TMPFILE)) { va_list ap; va_start(ap, flags); mode = va_arg(ap, mode_t); va_end(ap); }
  return open_impl(p, flags, mode);
}
int open64(const char* p, int flags, ...) {
  mode_t mode = 0;
  if (flags & (O_CREAT | O_TMPFILE)) { va_list ap; va_start(ap, flags); mode = va_arg(ap, mode_t); va_end(ap); }
  return open_impl(p, flags, mode);
}
int creat(const char* p, mode_t mode) { return open_impl(p, O_CREAT | O_WRONLY | O_TRUNC, mode); }

}  // extern "C"

// ------------------------------------------------------------------ helpers
using namespace vh;
namespace fs = std::filesystem;

struct Bypass {
  Bypass() { g_bypass.fetch_add(1); }
  ~Bypass() { g_bypass.fetch_sub(1); }
};

static std::string dump_leveldb(leveldb::DB* db) {
  std::string o;
  leveldb::ReadOptions ro; ro.fill_cache = false;
  std::unique_ptr<leveldb::Iterator> it(db->NewIterator(ro));
  for (it->SeekToFirst(); it->Valid(); it->Next()) {
    if (!o.empty()) o += ",";
    o += hex(it->key().ToString()) + ":" + hex(it->value().ToString());
  }
  return o.empty() ? "-" : o;
}

// durable content of the db directory as it is on disk right now: copy it, open the COPY with LevelDB.
// The copy is not atomic; LevelDB's background compaction thread may be adding/removing files meanwhile, so a
// copy that does not open is retried a few times (a directory frozen at one instant — a real kill — is what
// the kill-point runs test).
static std::string dump_copy_once(const fs::path& dbdir, const fs::path& scratch) {
  std::error_code ec;
  if (!fs::exists(dbdir, ec)) return "absent";
  fs::path cp = scratch / "dbcopy";
  fs::remove_all(cp, ec);
  fs::create_directories(scratch, ec);
  fs::copy(dbdir, cp, fs::copy_options::recursive, ec);
  if (ec) return "copy-failed";
  fs::remove(cp / "LOCK", ec);
  leveldb::DB* db = nullptr;
  leveldb::Options opt; opt.create_if_missing = false;
  auto st = leveldb::DB::Open(opt, cp.string(), &db);
  std::string r;
  if (!st.ok()) r = "unopenable";
  else { r = dump_leveldb(db); delete db; }
  fs::remove_all(cp, ec);
  return r;
}

static std::string dump_copy(const fs::path& dbdir, const fs::path& scratch, int tries = 40) {
  Bypass b;
  std::string r, prev;
  bool have_prev = false;
  for (int i = 0; i < tries; ++i) {
    r = dump_copy_once(dbdir, scratch);
    if (r != "unopenable" && r != "copy-failed") {
      // a copy taken while LevelDB's background thread installs a compaction (new table file, manifest edit, old log
      // removed) can open cleanly and yet miss the data of the log that was being replaced: a live directory is only
      // believed when two copies in a row read the same (a directory of a dead process, tries == 1, is static)
      if (tries == 1 || (have_prev && prev == r)) return r;
      prev = r;
      have_prev = true;
    } else {
      have_prev = false;
    }
    usleep(5000);
  }
  return r;
}

static std::string dump_rime_db(rime::Db* db) {
  std::string o;
  auto put = [&](const std::string& k, const std::string& v) {
    if (!o.empty()) o += ",";
    o += hex(k) + ":" + hex(v);
  };
  std::string k, v;
  if (auto m = db->QueryMetadata()) while (m->GetNextRecord(&k, &v)) put("\x01" + k, v);
  if (auto a = db->QueryAll()) while (a->GetNextRecord(&k, &v)) put(k, v);
  return o.empty() ? "-" : o;
}

#ifdef C11_HAVE_TXN_HOOK
static void txn_hook_fn(const char* op, const std::string& key, const std::string& value) {
  std::string o(op);
  if (o == "commit") g_in_commit = 1;
  if (o == "commit.done") g_in_commit = 0;
  if (o.compare(0, 5, "fetch") != 0) g_ops.fetch_add(1);
  raw_line("op " + o + " " + hex(key) + " " + hex(value));
}
#endif

static RimeApi* api;

static int run_main(int argc, char** argv) {
  std::string ws = fs::absolute(argv[2]).string();
  std::ifstream script(argv[3]);
  std::string sidelog = argv[4];
  fs::path scratch = argv[5];
  bool dumps = true;
  for (int i = 6; i < argc; ++i) {
    std::string a = argv[i];
    if (a == "--kill" && i + 1 < argc) g_kill_at = atol(argv[++i]);
    else if (a == "--torn") g_torn = true;
    else if (a == "--nodump") dumps = false;
  }
  g_ws = ws + "/";
  g_logfd = (int)syscall(SYS_openat, AT_FDCWD, sidelog.c_str(), O_WRONLY | O_CREAT | O_TRUNC, 0644);
  std::vector<std::string> lines;
  for (std::string l; std::getline(script, l);) lines.push_back(l);
  std::string dict = "c11";
  for (auto& l : lines) { std::istringstream is(l); std::string w; is >> w; if (w == "dict") is >> dict; }
  fs::path dbdir = fs::path(ws) / (dict + ".userdb");

  api = start(ws, ws, false);
#ifdef C11_HAVE_TXN_HOOK
  rime::verif::txn_hook = &txn_hook_fn;
  raw_line("hook 1");
#else
  raw_line("hook 0");
#endif
  g_armed = true;
  std::vector<RimeSessionId> sessions;
  RimeSessionId cur = 0;
  size_t cur_idx = 0;
  long idx = 0;
  for (auto& l : lines) {
    std::istringstream is(l);
    std::string w; is >> w;
    if (w.empty() || w == "dict" || w[0] == '#') continue;
    g_call = idx;
    raw_line("call " + std::to_string(idx) + " " + l);
    int ret = 1;
    if (w == "new") {
      cur = api->create_session();
      cur_idx = sessions.size();
      sessions.push_back(cur);
      ret = cur != 0;
      // listen AFTER the engine's own components (Memory connected when the engine was built)
      if (auto sess = rime::Service::instance().GetSession(cur)) {
        size_t me = cur_idx;
        rime::Context* ctx = sess->context();
        ctx->commit_notifier().connect([me](rime::Context*) { raw_line("note commit " + std::to_string(me)); });
        ctx->delete_notifier().connect([me](rime::Context*) { raw_line("note delete " + std::to_string(me)); });
        ctx->unhandled_key_notifier().connect([me](rime::Context*, const rime::KeyEvent& k) {
          raw_line("note unhandled " + std::to_string(me) + " " + std::to_string(k.keycode()) + " " +
                   std::to_string(k.modifier()));
        });
      }
    }
    else if (w == "use") { size_t k; is >> k; if (k < sessions.size()) { cur = sessions[k]; cur_idx = k; } else ret = 0; }
    else if (w == "destroy") { size_t k; is >> k; ret = (k < sessions.size() && sessions[k]) ? api->destroy_session(sessions[k]) : 0;
                               if (k < sessions.size()) sessions[k] = 0; }
    else if (w == "key") { long code, mask; is >> code >> mask; ret = cur ? api->process_key(cur, (int)code, (int)mask) : 0; }
    else if (w == "select") { size_t i; is >> i; ret = cur ? api->select_candidate_on_current_page(cur, i) : 0; }
    else if (w == "delete") { size_t i; is >> i; ret = cur ? api->delete_candidate_on_current_page(cur, i) : 0; }
    else if (w == "commit") { ret = cur ? api->commit_composition(cur) : 0; }
    else if (w == "clear") { if (cur) api->clear_composition(cur); }
    else if (w == "tick") { long d; is >> d; g_virtual_time += d; raw_line("note tick " + std::to_string(d)); }
    else { raw_line("bad-op"); ++idx; continue; }
    {
      std::ostringstream o;
      o << "end " << idx << " ret=" << ret << " fs=" << g_fs_count.load() << " now=" << g_virtual_time;
      if (cur) {
        RIME_STRUCT(RimeCommit, c);
        if (api->get_commit(cur, &c)) { o << " text=" << hex(c.text ? std::string(c.text) : std::string()); api->free_commit(&c); }
      }
      raw_line(o.str());
    }
    if (dumps) raw_line("dump " + dump_copy(dbdir, scratch));
    ++idx;
  }
  raw_line("total fs=" + std::to_string(g_fs_count.load()) + " ops=" + std::to_string(g_ops.load()));
  leave_for_coverage();
  // leave like a killed process would: no orderly shutdown (every kill index < total was its own run)
  syscall(SYS_exit_group, 0);
  return 0;
}

// reopen the user dictionary the way librime does (UserDictionary::Load -> LevelDb::Open, recovery task when that fails)
static int verify_main(int argc, char** argv) {
  std::string ws = fs::absolute(argv[2]).string();
  std::string dict = argv[3];
  fs::path scratch = argv[4];
  fs::path dbdir = fs::path(ws) / (dict + ".userdb");
  // 1. what is on disk, before librime touches it
  std::string pre = dump_copy(dbdir, scratch, 1);
  printf("pre %s\n", pre.c_str());
  // 2. the real open path
  api = start(ws, ws, false);
  auto* comp = rime::Db::Require("userdb");
  if (!comp) { puts("opened 0 no-userdb-component"); return 0; }
  rime::an<rime::Db> db(comp->Create(dict));
  int recovery = 0;
  {
    rime::UserDictionary ud(dict, db);
    bool ok = ud.Load();
    if (!ok) {
      // Load scheduled the recovery task on the deployer's work thread (user_dictionary.cc)
      rime::Service::instance().deployer().JoinWorkThread();
      recovery = 1;
      ok = ud.Load();
    }
    printf("opened %d recovery=%d\n", ok ? 1 : 0, recovery);
    if (ok) printf("post %s\n", dump_rime_db(db.get()).c_str());
  }
  db->Close();
  // 3. the dictionary is usable: a session can be created on it, typed into and committed
  RimeSessionId s = api->create_session();
  int usable = 0;
  if (s) {
    for (const char* p = "ja"; *p; ++p) api->process_key(s, *p, 0);
    api->process_key(s, ' ', 0);
    RIME_STRUCT(RimeCommit, c);
    if (api->get_commit(s, &c)) { usable = c.text && *c.text; api->free_commit(&c); }
    api->destroy_session(s);
  }
  printf("usable %d\n", usable);
  fflush(stdout);
  leave_for_coverage();
  syscall(SYS_exit_group, 0);
  return 0;
}

int main(int argc, char** argv) {
  if (argc >= 3 && std::string(argv[1]) == "deploy") {
    api = start(fs::absolute(argv[2]).string(), fs::absolute(argv[2]).string(), true);
    api->finalize();
    return 0;
  }
  if (argc >= 6 && std::string(argv[1]) == "run") return run_main(argc, argv);
  if (argc >= 5 && std::string(argv[1]) == "verify") return verify_main(argc, argv);
  fprintf(stderr, "usage: c11_harness run <ws> <script> <sidelog> <scratch> [--kill N] [--torn] [--nodump]\n"
                  "       c11_harness verify <ws> <dict> <scratch>\n");
  return 2;
}
