// C12 / C13 deployment harness: runs the REAL librime deployer in-process on a workspace prepared by
// the python check, and dumps the build directory through the REAL Table / Prism / ReverseDb / Config
// loaders.  One sub-command per process (the check forks one process per deployment, as the
// `rime_deployer` tool does), so a kill (`_exit` at the k-th crash point, or the LD_PRELOAD
// file-system interposer harness/killpoint_interposer.c) takes the whole deployment down.
//
//   c12_harness deploy  <shared> <user>            env VERIF_NOW=<t>  VERIF_KILL_CP=<k>  VERIF_CP_TRACE=1  VERIF_TASKS=<t,...>
//   c12_harness dump    <shared> <user>
//   c12_harness customize <source file> <dest file> <version key>
//   c12_harness cycle   <shared> <user> <schema> <input>...   sessions, deployment, sessions — all in this process
//   c12_harness session <shared> <user> <schema> <input>...
//
// Output line protocol (stdout):
//   detect <0|1>                         DetectModifications over {user, shared} before the deployment
//   decision <name> <value>              RIME_VERIF_DECISION log (only when librime has the hook)
//   cp <n> <tag>                         crash points passed (VERIF_CP_TRACE=1; only with the hook)
//   task <name> <0|1>                    result of each deployment task
//   hooks <0|1>                          whether librime was built with the C12/C13 hooks
// dump:
//   yaml <file> <hex canonical doc without __build_info/timestamps>
//   stamps <file> <rid>=<t>,...
//   table|prism|reverse <file> <checksums...> <hex text dump>
//   unloadable <kind> <file>   /   crash <kind> <file> <signal>
//   lastbuild <n>
#include "hcommon.h"
#include <algorithm>
#include <cmath>
#include <csignal>
#include <ctime>
#include <iostream>
#include <map>
#include <set>
#include <sstream>
#include <sys/wait.h>
#include <unistd.h>
#include <rime/common.h>
#include <rime/config.h>
#include <rime/deployer.h>
#include <rime/service.h>
#include <rime/setup.h>
#include <rime/dict/prism.h>
#include <rime/dict/reverse_lookup_dictionary.h>
#include <rime/dict/string_table.h>
#include <rime/dict/table.h>
#include <rime/dict/vocabulary.h>
#include <rime/lever/deployment_tasks.h>
#include <rime/lever/customizer.h>
#if __has_include(<rime/verif_hooks.h>)
#include <rime/verif_hooks.h>
#endif

namespace fs = std::filesystem;
using namespace rime;

// ---------------------------------------------------------------- virtual clock
// librime reads the wall clock through time(NULL) for last_build_time / install_time; the check
// injects it so a history replays exactly.  Defined in the executable, it pre-empts libc's symbol
// for every PLT call from librime.so.
static long g_now = 0;
extern "C" time_t time(time_t* t) {
  time_t v;
  if (g_now) {
    v = (time_t)g_now;
  } else {
    struct timespec ts;
    clock_gettime(CLOCK_REALTIME, &ts);
    v = ts.tv_sec;
  }
  if (t) *t = v;
  return v;
}

// ---------------------------------------------------------------- hooks
#ifdef RIME_VERIF_HOOKS_DEPLOY_
#define HAVE_HOOKS 1
static long g_kill_cp = 0, g_cp = 0;
static bool g_cp_trace = false;
static void on_decision(const char* name, long value) {
  printf("decision %s %ld\n", name, value);
  fflush(stdout);
}
static void on_crashpoint(const char* tag) {
  ++g_cp;
  if (g_cp_trace) {
    printf("cp %ld %s\n", g_cp, tag);
    fflush(stdout);
  }
  if (g_kill_cp && g_cp == g_kill_cp) {
    printf("killed-at-cp %ld %s\n", g_cp, tag);
    fflush(stdout);
    _exit(86);
  }
}
#else
#define HAVE_HOOKS 0
#endif

static void setup_deployer(const std::string& shared, const std::string& user) {
  Deployer& deployer(Service::instance().deployer());
  deployer.shared_data_dir = path(shared);
  deployer.user_data_dir = path(user);
  deployer.staging_dir = deployer.user_data_dir / "build";
  deployer.prebuilt_data_dir = deployer.shared_data_dir / "build";
  deployer.distribution_name = "verif";
  deployer.distribution_code_name = "verif";
  deployer.distribution_version = "0";
  deployer.app_name = "rime.verif";
}

static int cmd_deploy(const std::string& shared, const std::string& user) {
  if (const char* e = getenv("VERIF_NOW")) g_now = atol(e);
  printf("hooks %d\n", HAVE_HOOKS);
#if HAVE_HOOKS
  if (const char* e = getenv("VERIF_KILL_CP")) g_kill_cp = atol(e);
  g_cp_trace = getenv("VERIF_CP_TRACE") != nullptr;
  rime::verif::decision_hook = on_decision;
  rime::verif::crashpoint_hook = on_crashpoint;
#endif
  setup_deployer(shared, user);
  LoadModules(kDeployerModules);
  Deployer& deployer(Service::instance().deployer());
  {
    TaskInitializer args{vector<path>{deployer.user_data_dir, deployer.shared_data_dir}};
    bool d = deployer.RunTask("detect_modifications", args);
    printf("detect %d\n", d ? 1 : 0);
    fflush(stdout);
  }
  // the full deployment (RimeDeployWorkspace): each task, stop at the first failure like the API does.
  // VERIF_TASKS=<t1,t2,...> runs other registered tasks instead (`prebuild_all_schemas`, what RimePrebuildAllSchemas
  // runs); `compile:<file>` stands for what `rime_deployer --compile <file>` does: SchemaUpdate with set_verbose(true).
  bool ok = true;
  std::vector<std::string> tasks = {"installation_update", "workspace_update", "user_dict_upgrade", "cleanup_trash"};
  if (const char* e = getenv("VERIF_TASKS")) {
    tasks.clear();
    std::stringstream ss(e);
    std::string t;
    while (std::getline(ss, t, ',')) tasks.push_back(t);
  }
  // VERIF_BETWEEN=<shell command>: the tasks run twice in this process, the command in between (the sources are edited
  // while the input method keeps running, then redeployed: whatever a deployment caches in the process meets new sources)
  const char* between = getenv("VERIF_BETWEEN");
  for (int round = 0; round < (between ? 2 : 1); ++round) {
  if (round == 1) {
    fflush(stdout);
    int brc = system(between);
    printf("between %d\n", brc);
    g_now += 4;
    ok = true;
  }
  for (const std::string& ts : tasks) {
    const char* t = ts.c_str();
    bool r;
    if (ts.rfind("compile:", 0) == 0) {
      SchemaUpdate update{path(ts.substr(8))};
      update.set_verbose(true);
      r = update.Run(&deployer);
    } else if (ts.rfind("schema_update:", 0) == 0) {  // RimeDeploySchema
      r = deployer.RunTask("schema_update", path(ts.substr(14)));
    } else if (ts.rfind("config_file_update:", 0) == 0) {  // RimeDeployConfigFile  <file>:<version key>
      std::string a = ts.substr(19);
      size_t k = a.find(':');
      r = deployer.RunTask("config_file_update", std::make_pair(a.substr(0, k), k == std::string::npos ? std::string() : a.substr(k + 1)));
    } else {
      r = deployer.RunTask(t);
    }
    printf("task %s %d\n", t, r ? 1 : 0);
    fflush(stdout);
    if (!r) {
      ok = false;
      break;
    }
  }
  }
#if HAVE_HOOKS
  printf("cpcount %ld\n", g_cp);
#endif
  fflush(stdout);
  return ok ? 0 : 1;
}

// ---------------------------------------------------------------- dump
static std::string fmt_weight(double w) {
  char b[64];
  snprintf(b, sizeof b, "%.6g", w);
  return b;
}

static void walk_table(Table* table, TableQuery* query, std::vector<std::string>* out) {
  auto access = [&](TableAccessor a) {
    while (!a.exhausted()) {
      std::string line = table->GetEntryText(*a.entry()) + "\t";
      bool first = true;
      for (auto id : a.code()) {
        if (!first) line += " ";
        line += table->GetSyllableById(id);
        first = false;
      }
      line += "\t" + fmt_weight(a.entry()->weight);
      out->push_back(line);
      a.Next();
    }
  };
  for (uint32_t i = 0; i < table->metadata()->num_syllables; i++) {
    access(query->Access(i));
    if (query->Advance(i)) {
      if (query->level() < 3) {
        walk_table(table, query, out);
      } else {
        access(query->Access(0));
      }
      query->Backdate();
    }
  }
}

static int dump_table(const fs::path& f) {
  Table table{path(f)};
  if (!table.Load()) {
    printf("unloadable table %s\n", f.filename().c_str());
    return 0;
  }
  std::ostringstream o;
  Syllabary syl;
  table.GetSyllabary(&syl);
  o << "syllabary:";
  for (uint32_t i = 0; i < table.metadata()->num_syllables; ++i) o << " " << table.GetSyllableById(i);
  o << "\nnum_entries: " << table.metadata()->num_entries << "\n";
  std::vector<std::string> lines;
  TableQuery query(table.metadata()->index.get());
  walk_table(&table, &query, &lines);
  for (auto& l : lines) o << l << "\n";
  printf("table %s %u %s\n", f.filename().c_str(), table.dict_file_checksum(), vh::hex(o.str()).c_str());
  return 0;
}

static void walk_prism(Prism* prism, size_t node_pos, std::string& key, std::ostringstream& o, bool has_map) {
  // children in byte order: deterministic
  for (int c = 1; c < 256; ++c) {
    size_t n_pos = node_pos, k_pos = 0;
    char k[2] = {(char)c, 0};
    int ret = prism->trie().traverse(k, n_pos, k_pos, 1);
    if (ret <= -2) continue;
    key.push_back((char)c);
    if (ret >= 0) {
      o << key << " =>";
      if (has_map) {
        SpellingAccessor a = prism->QuerySpelling(ret);
        std::vector<std::string> items;
        while (!a.exhausted()) {
          auto p = a.properties();
          std::ostringstream it;
          it << " [" << a.syllable_id() << "," << (int)p.type << "," << fmt_weight(p.credibility) << "," << p.tips
             << "]";
          items.push_back(it.str());
          a.Next();
        }
        for (auto& s : items) o << s;
      } else {
        o << " #" << ret;
      }
      o << "\n";
    }
    walk_prism(prism, n_pos, key, o, has_map);
    key.pop_back();
  }
}

struct PrismPeek : Prism {
  using Prism::Prism;
  bool has_map() const { return spelling_map_ != nullptr; }
  prism::Metadata* md() const { return metadata_; }
};

static int dump_prism(const fs::path& f) {
  PrismPeek prism{path(f)};
  if (!prism.Load()) {
    printf("unloadable prism %s\n", f.filename().c_str());
    return 0;
  }
  std::ostringstream o;
  o << "num_syllables: " << prism.md()->num_syllables << " num_spellings: " << prism.md()->num_spellings << "\n";
  std::string key;
  walk_prism(&prism, 0, key, o, prism.has_map());
  printf("prism %s %u %u %s\n", f.filename().c_str(), prism.dict_file_checksum(), prism.schema_file_checksum(),
         vh::hex(o.str()).c_str());
  return 0;
}

static int dump_reverse(const fs::path& f) {
  ReverseDb db{path(f)};
  if (!db.Load()) {
    printf("unloadable reverse %s\n", f.filename().c_str());
    return 0;
  }
  auto* md = db.metadata();
  std::ostringstream o;
  StringTable keys(md->key_trie.get(), md->key_trie_size);
  StringTable values(md->value_trie.get(), md->value_trie_size);
  std::vector<StringId> ids;
  keys.Predict("", &ids);
  std::vector<std::string> lines;
  for (auto id : ids) {
    std::string k = keys.GetString(id);
    std::string v;
    if (id < md->index.size) v = values.GetString(md->index.at[id]);
    lines.push_back(k + " => " + v);
  }
  std::sort(lines.begin(), lines.end());
  o << "entries: " << md->index.size << "\n";
  if (!md->dict_settings.empty()) o << "settings: " << md->dict_settings.c_str() << "\n";
  for (auto& l : lines) o << l << "\n";
  printf("reverse %s %u %s\n", f.filename().c_str(), db.dict_file_checksum(), vh::hex(o.str()).c_str());
  return 0;
}

static int dump_yaml(const fs::path& f) {
  Config config;
  if (!config.LoadFromFile(path(f))) {
    printf("unloadable yaml %s\n", f.filename().c_str());
    return 0;
  }
  std::string stamps;
  if (auto ts = config.GetMap("__build_info/timestamps")) {
    for (auto it = ts->begin(); it != ts->end(); ++it) {
      auto v = As<ConfigValue>(it->second);
      if (!stamps.empty()) stamps += ",";
      stamps += it->first + "=" + (v ? v->str() : "?");
    }
    config.SetItem("__build_info/timestamps", nullptr);
  }
  std::ostringstream o;
  config.SaveToStream(o);
  printf("yaml %s %s\n", f.filename().c_str(), vh::hex(o.str()).c_str());
  printf("stamps %s %s\n", f.filename().c_str(), stamps.empty() ? "-" : stamps.c_str());
  return 0;
}

static bool ends_with(const std::string& s, const std::string& x) {
  return s.size() >= x.size() && s.compare(s.size() - x.size(), x.size(), x) == 0;
}

// every artefact is loaded and walked in its own child: a truncated mapped file faults (SIGBUS/SEGV)
// when walked, and that must be reported, not take the dump down.
static void in_child(const char* kind, const fs::path& f, int (*fn)(const fs::path&)) {
  fflush(stdout);
  pid_t pid = fork();
  if (pid == 0) {
    int r = fn(f);
    fflush(stdout);
    _exit(r);
  }
  int st = 0;
  waitpid(pid, &st, 0);
  if (WIFSIGNALED(st)) {
    printf("crash %s %s %d\n", kind, f.filename().c_str(), WTERMSIG(st));
  } else if (WEXITSTATUS(st) != 0) {
    printf("crash %s %s exit%d\n", kind, f.filename().c_str(), WEXITSTATUS(st));
  }
  fflush(stdout);
}

static int cmd_dump(const std::string& shared, const std::string& user) {
  setup_deployer(shared, user);
  fs::path build = fs::path(user) / "build";
  std::vector<fs::path> files;
  if (fs::exists(build))
    for (auto& e : fs::directory_iterator(build))
      if (e.is_regular_file()) files.push_back(e.path());
  // what the deployed-resource resolver falls back to: a file of the prebuilt directory <shared>/build is in use
  // when the staging directory has no file of that name
  fs::path prebuilt = fs::path(shared) / "build";
  if (fs::exists(prebuilt))
    for (auto& e : fs::directory_iterator(prebuilt))
      if (e.is_regular_file() && !fs::exists(build / e.path().filename())) files.push_back(e.path());
  std::sort(files.begin(), files.end(), [](const fs::path& a, const fs::path& b) { return a.filename() < b.filename(); });
  for (auto& f : files) {
    std::string n = f.filename().string();
    if (ends_with(n, ".table.bin"))
      in_child("table", f, dump_table);
    else if (ends_with(n, ".prism.bin"))
      in_child("prism", f, dump_prism);
    else if (ends_with(n, ".reverse.bin"))
      in_child("reverse", f, dump_reverse);
    else if (ends_with(n, ".yaml"))
      in_child("yaml", f, dump_yaml);
    else
      printf("other %s\n", n.c_str());
  }
  {
    Config u;
    int t = 0;
    if (u.LoadFromFile(path(fs::path(user) / "user.yaml")) && u.GetInt("var/last_build_time", &t))
      printf("lastbuild %d\n", t);
    else
      printf("lastbuild -\n");
  }
  return 0;
}

// ---------------------------------------------------------------- session transcript
static int cmd_session(const std::string& shared, const std::string& user, int argc, char** argv) {
  RimeApi* api = vh::start(shared, user, false);
  for (int i = 0; i + 1 < argc; i += 2) {
    std::string schema = argv[i], inputs = argv[i + 1];
    RimeSessionId s = api->create_session();
    if (!s) {
      printf("cand %s - no-session\n", schema.c_str());
      continue;
    }
    if (!api->select_schema(s, schema.c_str())) {
      printf("cand %s - no-schema\n", schema.c_str());
      api->destroy_session(s);
      continue;
    }
    std::stringstream ss(inputs);
    std::string input;
    while (std::getline(ss, input, ',')) {
      api->clear_composition(s);
      api->simulate_key_sequence(s, input.c_str());
      RIME_STRUCT(RimeContext, ctx);
      std::string out;
      if (api->get_context(s, &ctx)) {
        for (int k = 0; k < ctx.menu.num_candidates; ++k) {
          if (k) out += "|";
          out += ctx.menu.candidates[k].text;
          if (ctx.menu.candidates[k].comment) out += std::string("~") + ctx.menu.candidates[k].comment;
        }
        out += std::string("//") + (ctx.composition.preedit ? ctx.composition.preedit : "");
        api->free_context(&ctx);
      }
      printf("cand %s %s %s\n", schema.c_str(), input.c_str(), vh::hex(out).c_str());
    }
    api->destroy_session(s);
  }
  api->finalize();
  return 0;
}

// ---------------------------------------------------------------- one process: sessions, a deployment, sessions again
// c12_harness cycle <shared> <user> <schema> <inputs> ...      env VERIF_NOW
// What a running input method does when the user asks for a deployment: sessions are open (phase 1, kept open), the full
// deployment runs in the same process (start_maintenance(True) + join), new sessions are opened (phase 2).
//   cand1 <schema> <input> <hex>   /   maintenance <0|1>   /   cand2 <schema> <input> <hex>
static void transcript(RimeApi* api, const char* tag, int argc, char** argv, std::vector<RimeSessionId>* keep) {
  for (int i = 0; i + 1 < argc; i += 2) {
    std::string schema = argv[i], inputs = argv[i + 1];
    RimeSessionId s = api->create_session();
    if (!s) {
      printf("%s %s - no-session\n", tag, schema.c_str());
      continue;
    }
    keep->push_back(s);
    if (!api->select_schema(s, schema.c_str())) {
      printf("%s %s - no-schema\n", tag, schema.c_str());
      continue;
    }
    std::stringstream ss(inputs);
    std::string input;
    while (std::getline(ss, input, ',')) {
      api->clear_composition(s);
      api->simulate_key_sequence(s, input.c_str());
      RIME_STRUCT(RimeContext, ctx);
      std::string out;
      if (api->get_context(s, &ctx)) {
        for (int k = 0; k < ctx.menu.num_candidates; ++k) {
          if (k) out += "|";
          out += ctx.menu.candidates[k].text;
          if (ctx.menu.candidates[k].comment) out += std::string("~") + ctx.menu.candidates[k].comment;
        }
        out += std::string("//") + (ctx.composition.preedit ? ctx.composition.preedit : "");
        api->free_context(&ctx);
      }
      api->clear_composition(s);
      printf("%s %s %s %s\n", tag, schema.c_str(), input.c_str(), vh::hex(out).c_str());
    }
    fflush(stdout);
  }
}

static int cmd_cycle(const std::string& shared, const std::string& user, int argc, char** argv) {
  if (const char* e = getenv("VERIF_NOW")) g_now = atol(e);
  RimeApi* api = vh::start(shared, user, false);
  std::vector<RimeSessionId> open_sessions;
  transcript(api, "cand1", argc, argv, &open_sessions);
  Bool started = api->start_maintenance(True);
  if (started) api->join_maintenance_thread();
  printf("maintenance %d\n", started ? 1 : 0);
  fflush(stdout);
  transcript(api, "cand2", argc, argv, &open_sessions);
  for (auto s : open_sessions) api->destroy_session(s);
  api->finalize();
  return 0;
}

int main(int argc, char** argv) {
  if (argc < 4) {
    fprintf(stderr, "usage: c12_harness deploy|dump|session <shared> <user> ...\n");
    return 2;
  }
  std::string cmd = argv[1], shared = argv[2], user = argv[3];
  FLAGS_minloglevel = 3;
  FLAGS_logtostderr = false;
  if (cmd == "customize") {
    // c12_harness customize <source file> <dest file> <version key>: the old way a *.custom.yaml reaches a config
    if (argc < 5) return 2;
    Customizer customizer{path(shared), path(user), argv[4]};
    printf("customize %d\n", customizer.UpdateConfigFile() ? 1 : 0);
    return 0;
  }
  if (cmd == "deploy") return cmd_deploy(shared, user);
  if (cmd == "dump") return cmd_dump(shared, user);
  if (cmd == "session") return cmd_session(shared, user, argc - 4, argv + 4);
  if (cmd == "cycle") return cmd_cycle(shared, user, argc - 4, argv + 4);
  return 2;
}
