// C14 harness: the REAL config compiler (ConfigComponent<ConfigBuilder> with the plugin list of
// core_module.cc) on generated document sets.
//
//   c14_harness run <workdir> <casefile>       protocol below, one `case … end` block per document set
//   c14_harness translate <file.yaml>...       print `doc <namehex> <tree>` for plain-loaded YAML files
//
//   case <id>
//   doc <namehex> <tree>          tree ::= n | s <hex> | l <k> <tree>*k | m <k> (<keyhex> <tree>)*k
//   compile <namehex>             -> res <id> <namehex> ok=<0|1>  /  mem <tree>  /  saved <tree>|none
//                                    (the name may carry the `.yaml` extension or name a document in a sub-directory; `saved` is
//                                    read back through the deployed-config loader component AND by a plain load: both must agree)
//   customize <namehex> <n> (<keyhex> <tree>)*n
//                                 -> cust <id> <namehex> first=<0|1> loaded=<0|1> modified=<0|1> saved=<0|1> first_after=<0|1>
//                                    custprobe k=<hex|none> l=<hex of tree> m=<hex of tree>   (CustomSettings::GetValue/GetList/GetMap
//                                    of the deployed config, read right after Load)
//                                    custfile <tree>|none     (the real CustomSettings: IsFirstRun, Load, Customize*, Save; the
//                                    custom file as it reloads, customization/modified_time and rime_version blanked)
//   end                           -> again <namehex> <tree>   (every Config still held, dumped once more)
//                                    src <ok|changed:<namehex>>  (source files byte-compared with what was written)
#include "hcommon.h"
#include <csignal>
#include <unistd.h>
#include <sstream>
#include <map>
#include <memory>
#include <rime/service.h>
#include <rime/deployer.h>
#include <rime/config.h>
#include <rime/config/config_data.h>
#include <rime/config/plugins.h>
#include <rime/config/config_component.h>
#include <rime/lever/custom_settings.h>

using namespace rime;
using vh::hex;
using vh::unhex;
namespace fs = std::filesystem;

// ---------------------------------------------------------------- tree <-> tokens
static void dump(const an<ConfigItem>& item, std::string& out, bool root) {
  if (!item) { out += "n"; return; }
  switch (item->type()) {
    case ConfigItem::kNull: out += "n"; break;
    case ConfigItem::kScalar: out += "s " + hex(As<ConfigValue>(item)->str()); break;
    case ConfigItem::kList: {
      auto l = As<ConfigList>(item);
      out += "l " + std::to_string(l->size());
      for (auto it = l->begin(); it != l->end(); ++it) { out += " "; dump(*it, out, false); }
      break;
    }
    case ConfigItem::kMap: {
      auto m = As<ConfigMap>(item);
      size_t n = 0;
      for (auto it = m->begin(); it != m->end(); ++it)
        if (!(root && it->first == "__build_info")) ++n;
      out += "m " + std::to_string(n);
      for (auto it = m->begin(); it != m->end(); ++it) {
        if (root && it->first == "__build_info") continue;
        out += " " + hex(it->first) + " ";
        dump(it->second, out, false);
      }
      break;
    }
  }
}

static std::string yq(const std::string& s) {  // YAML double-quoted scalar
  std::string o = "\"";
  for (unsigned char c : s) {
    if (c == '"') o += "\\\"";
    else if (c == '\\') o += "\\\\";
    else if (c == '\n') o += "\\n";
    else if (c == '\t') o += "\\t";
    else if (c == '\r') o += "\\r";
    else if (c < 0x20 || c == 0x7f) { char b[8]; snprintf(b, sizeof b, "\\x%02x", c); o += b; }
    else o.push_back((char)c);
  }
  return o + "\"";
}

// tokens -> YAML text in flow style (document order = token order)
static bool toYaml(std::istringstream& in, std::string& out) {
  std::string t;
  if (!(in >> t)) return false;
  if (t == "n") { out += "~"; return true; }
  if (t == "s") { std::string h; if (!(in >> h)) return false; out += yq(unhex(h)); return true; }
  size_t k;
  if (t == "l") {
    if (!(in >> k)) return false;
    out += "[";
    for (size_t i = 0; i < k; ++i) { if (i) out += ", "; if (!toYaml(in, out)) return false; }
    out += "]";
    return true;
  }
  if (t == "m") {
    if (!(in >> k)) return false;
    out += "{";
    for (size_t i = 0; i < k; ++i) {
      std::string h;
      if (!(in >> h)) return false;
      if (i) out += ", ";
      out += yq(unhex(h)) + ": ";
      if (!toYaml(in, out)) return false;
    }
    out += "}";
    return true;
  }
  return false;
}

// tokens -> config items (for CustomSettings::Customize)
static bool toItem(std::istringstream& in, an<ConfigItem>& out) {
  std::string t;
  if (!(in >> t)) return false;
  if (t == "n") { out = nullptr; return true; }
  if (t == "s") { std::string h; if (!(in >> h)) return false; out = New<ConfigValue>(unhex(h)); return true; }
  size_t k;
  if (t == "l") {
    if (!(in >> k)) return false;
    auto l = New<ConfigList>();
    for (size_t i = 0; i < k; ++i) { an<ConfigItem> e; if (!toItem(in, e)) return false; l->Append(e); }
    out = l;
    return true;
  }
  if (t == "m") {
    if (!(in >> k)) return false;
    auto m = New<ConfigMap>();
    for (size_t i = 0; i < k; ++i) {
      std::string h;
      if (!(in >> h)) return false;
      an<ConfigItem> e;
      if (!toItem(in, e)) return false;
      m->Set(unhex(h), e);
    }
    out = m;
    return true;
  }
  return false;
}

static std::string slurp(const fs::path& p) {
  std::ifstream f(p, std::ios::binary);
  std::stringstream ss; ss << f.rdbuf();
  return ss.str();
}

// ---------------------------------------------------------------- one case
struct Case {
  std::string id;
  fs::path dir, src, build;
  std::map<std::string, std::string> written;  // file name -> bytes
  std::unique_ptr<Config::Component> component;
  std::unique_ptr<Config::Component> loader;  // the component behind Config::Require("config"): reads deployed files
  std::vector<std::pair<std::string, std::unique_ptr<Config>>> held;
};

static std::string g_case = "?";
static void on_alarm(int) {
  char buf[200];
  int n = snprintf(buf, sizeof buf, "timeout %s\n", g_case.c_str());
  if (write(1, buf, n) < 0) {}
  _exit(3);
}

static Config::Component* make_component() {
  // exactly the plugin list of rime_core_initialize (core_module.cc)
  return new ConfigComponent<ConfigBuilder>([&](ConfigBuilder* builder) {
    builder->InstallPlugin(new AutoPatchConfigPlugin);
    builder->InstallPlugin(new DefaultConfigPlugin);
    builder->InstallPlugin(new LegacyPresetConfigPlugin);
    builder->InstallPlugin(new LegacyDictionaryConfigPlugin);
    builder->InstallPlugin(new BuildInfoPlugin);
    builder->InstallPlugin(new SaveOutputPlugin);
  });
}

static void begin_case(Case& c, const fs::path& work, const std::string& id, int seq) {
  c = Case();
  c.id = id;
  g_case = id;
  c.dir = work / ("c" + std::to_string(seq));
  c.src = c.dir / "src";
  c.build = c.dir / "build";
  fs::remove_all(c.dir);
  fs::create_directories(c.src);
  fs::create_directories(c.build);
  Deployer& d = Service::instance().deployer();
  d.shared_data_dir = c.src;
  d.user_data_dir = c.src;
  d.prebuilt_data_dir = c.build;
  d.staging_dir = c.build;
  d.distribution_code_name = "verif";
  d.distribution_version = "1";
  alarm(60);
}

static void end_case(Case& c) {
  for (auto& h : c.held) {
    std::string t;
    dump(h.second->GetItem(""), t, true);
    printf("again %s %s\n", hex(h.first).c_str(), t.c_str());
  }
  std::string bad;
  for (auto& w : c.written)
    if (slurp(c.src / w.first) != w.second) { bad = w.first; break; }
  if (bad.empty()) printf("src ok\n"); else printf("src changed:%s\n", hex(bad).c_str());
  c.held.clear();
  c.component.reset();
  c.loader.reset();
  alarm(0);
  fs::remove_all(c.dir);
  fflush(stdout);
}

static int run(const fs::path& work, const char* casefile) {
  std::ifstream in(casefile);
  std::string line;
  Case c;
  int seq = 0;
  bool open = false;
  ::signal(SIGALRM, on_alarm);
  while (std::getline(in, line)) {
    std::istringstream ls(line);
    std::string op;
    if (!(ls >> op)) continue;
    if (op == "case") {
      std::string id; ls >> id;
      begin_case(c, work, id, seq++);
      open = true;
    } else if (op == "doc" && open) {
      std::string nh; ls >> nh;
      std::string name = unhex(nh), y;
      if (!toYaml(ls, y)) { printf("bad-op\n"); continue; }
      y += "\n";
      fs::create_directories((c.src / (name + ".yaml")).parent_path());
      std::ofstream f(c.src / (name + ".yaml"), std::ios::binary);
      f << y;
      f.close();
      c.written[name + ".yaml"] = y;
    } else if (op == "compile" && open) {
      std::string nh; ls >> nh;
      std::string name = unhex(nh);
      if (!c.component) c.component.reset(make_component());
      if (!c.loader) c.loader.reset(new ConfigComponent<ConfigLoader, DeployedConfigResourceProvider>);
      std::string id = name;  // the resource id: the name without the `.yaml` extension
      if (id.size() >= 5 && id.compare(id.size() - 5, 5, ".yaml") == 0) id.resize(id.size() - 5);
      fs::path staged = c.build / (id + ".yaml");
      fs::create_directories(staged.parent_path());
      bool cached = false;  // a Config of that id is still held: the component hands out the same data
      for (auto& h : c.held) cached = cached || h.first == id;
      if (!cached) fs::remove(staged);
      std::unique_ptr<Config> cfg(c.component->Create(name));
      std::string mem, saved = "none";
      dump(cfg->GetItem(""), mem, true);
      bool ok = fs::exists(staged);
      if (ok) {
        Config re;
        if (re.LoadFromFile(staged)) { saved.clear(); dump(re.GetItem(""), saved, true); }
        else saved = "unloadable";
        // the same file through the deployed-config loader (asked with the spelling the caller used)
        std::unique_ptr<Config> via(c.loader->Create(name));
        std::string s2;
        dump(via->GetItem(""), s2, true);
        if (saved != "unloadable" && s2 != saved) saved = "unloadable";
      }
      printf("res %s %s ok=%d\nmem %s\nsaved %s\n", c.id.c_str(), nh.c_str(), ok ? 1 : 0, mem.c_str(), saved.c_str());
      c.held.emplace_back(id, std::move(cfg));
    } else if (op == "customize" && open) {
      std::string nh; size_t n = 0; ls >> nh >> n;
      std::string name = unhex(nh);
      Deployer& d = Service::instance().deployer();
      CustomSettings cs(&d, name, "verif");
      bool first = cs.IsFirstRun();
      bool loaded = cs.Load();
      // what the settings front end shows: reads of the DEPLOYED config (staging, else prebuilt) through CustomSettings
      std::string probe;
      {
        auto v = cs.GetValue("k");
        auto l = cs.GetList("l");
        auto m = cs.GetMap("m");
        std::string lt = "n", mt = "n";
        if (l) { lt.clear(); dump(l, lt, false); }
        if (m) { mt.clear(); dump(m, mt, false); }
        probe = std::string("custprobe k=") + (v ? hex(v->str()) : std::string("none")) + " l=" + hex(lt) + " m=" + hex(mt);
      }
      bool bad = false;
      for (size_t i = 0; i < n && !bad; ++i) {
        std::string kh; an<ConfigItem> item;
        if (!(ls >> kh) || !toItem(ls, item)) { bad = true; break; }
        cs.Customize(unhex(kh), item);
      }
      if (bad) { printf("bad-op\n"); continue; }
      bool modified = cs.modified();
      bool saved = cs.Save();
      bool first_after = cs.IsFirstRun();
      std::string stem = name;
      if (stem.size() >= 7 && stem.compare(stem.size() - 7, 7, ".schema") == 0) stem.resize(stem.size() - 7);
      fs::path file = c.src / (stem + ".custom.yaml");
      std::string t = "none";
      if (fs::exists(file)) {
        Config re;
        if (re.LoadFromFile(file)) {
          if (re.GetValue("customization/modified_time")) re.SetString("customization/modified_time", "T");
          if (re.GetValue("customization/rime_version")) re.SetString("customization/rime_version", "V");
          t.clear();
          dump(re.GetItem(""), t, false);
        } else t = "unloadable";
        c.written[stem + ".custom.yaml"] = slurp(file);
      }
      printf("cust %s %s first=%d loaded=%d modified=%d saved=%d first_after=%d\ncustfile %s\n%s\n", c.id.c_str(), nh.c_str(),
             first, loaded, modified, saved, first_after, t.c_str(), probe.c_str());
    } else if (op == "fresh" && open) {
      // drop the component (and its cache): the next compile starts from the files again
      c.held.clear();
      c.component.reset();
    } else if (op == "end" && open) {
      end_case(c);
      open = false;
    }
  }
  return 0;
}

int main(int argc, char** argv) {
  if (argc < 3) { fprintf(stderr, "usage: c14_harness run <workdir> <casefile> | translate <yaml>...\n"); return 2; }
  std::string mode = argv[1];
  RimeApi* api = rime_get_api();
  RIME_STRUCT(RimeTraits, traits);
  std::string logdir = (mode == "run" ? std::string(argv[2]) : std::string(".")) + "/log";
  if (mode == "run") fs::create_directories(logdir);
  traits.app_name = "rime.verif";
  const char* dbg = getenv("C14_LOG");  // debugging aid: C14_LOG=<glog level> sends librime's log to stderr
  traits.min_log_level = dbg ? atoi(dbg) : 3;
  traits.log_dir = (mode == "run" && !dbg) ? logdir.c_str() : "";
  api->setup(&traits);
  if (mode == "translate") {
    for (int i = 2; i < argc; ++i) {
      fs::path p(argv[i]);
      Config cfg;
      if (!cfg.LoadFromFile(p)) { printf("unloadable %s\n", argv[i]); continue; }
      std::string t;
      dump(cfg.GetItem(""), t, false);
      printf("doc %s %s\n", hex(p.stem().string()).c_str(), t.c_str());
    }
    return 0;
  }
  return run(fs::path(argv[2]), argv[3]);
}
