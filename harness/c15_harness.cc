// C15 harness: steers the REAL Deployer / Service (librime built from the working tree) through
// schedules of the two-thread model lean/RimeModel/C15/Model.lean, and stress-runs the same client
// scripts free-running (for ThreadSanitizer).
//
//   c15_harness hooks
//        prints `hooks:1` when the tree has the RIME_VERIF yield hooks (src/rime/verif_hooks.h), else `hooks:0`
//   c15_harness sched <workdir>
//        stdin : `<script> <sched>` per line          (same lines as `driver_c15 run`)
//        stdout: `<executed sched> | <event trace>  #<monitor tokens>`
//        a schedule that does not make progress within the watchdog time prints `... | STUCK <why>` and the
//        process exits with code 3 (the check restarts it on the remaining lines): never a hang.
//   c15_harness stress <workdir> <seed> <iterations>
//        stdin : `<script>` per line; every script is run <iterations> times with both threads free-running
//        stdout: `<script> | <client events> | <worker events> | left:<ids>  #<monitor tokens>` per run
//
// script : ops joined by `,` : maint:<3 bits> maint_nochange sync:<3 bits> recover:<bit> is_maint join
//          create find ctx set_handler        (bits = outcome of the scheduled dummy tasks, in order)
//          maintq:<3 bits> (start_maintenance(False), change detected)  maint_noinst (installation_update fails)
//          run_task:<bit> run_unknown deploy_ws:<4 bits> deploy_schema:<bit> deploy_config:<bit> prebuild:<bit>
//          (Deployer::RunTask on the client thread; bits = outcomes)   start:<mode bit> (Deployer::StartMaintenance() /
//          StartWork(false) directly)   destroy cleanup_all cleanup_stale   finalize initialize   clear_handler
//          tick:<0|1|2> (1 s / Session::kLifeSpan / kLifeSpan + 1 s pass on the virtual clock)
// sched  : string over {c,w}, `-` = empty.  Policy (identical to RimeModel.C15.runSchedule): take the named
//          thread if it is enabled, else the other one, else stop; afterwards client first, else worker.
// The API functions are the real ones (RimeStartMaintenance, RimeSyncUserData, RimeIsMaintenancing,
// RimeJoinMaintenanceThread, RimeCreateSession, RimeFindSession, RimeGetContext, RimeSetNotificationHandler);
// the deployment tasks they create by name are replaced in the registry by logging dummies.  `recover`
// calls the real UserDictionary::Load (user_dictionary.cc) on a recoverable db that does not open.
#include "hcommon.h"
#include <atomic>
#include <chrono>
#include <condition_variable>
#include <deque>
#include <iostream>
#include <mutex>
#include <sstream>
#include <stdexcept>
#include <thread>
#include <unistd.h>
#include <rime/deployer.h>
#include <rime/dict/db.h>
#include <rime/dict/user_dictionary.h>
#include <rime/registry.h>
#include <rime/service.h>
#if defined(__has_include)
#if __has_include(<rime/verif_hooks.h>)
#include <rime/verif_hooks.h>
#define C15_HAVE_HOOKS 1
#endif
#endif
#ifndef C15_HAVE_HOOKS
#define C15_HAVE_HOOKS 0
#endif

using namespace vh;
using Clock = std::chrono::steady_clock;

// the clock Session::Activate and Service::CleanupStaleSessions read (time(NULL)) is virtual: it only moves by `tick` ops
static std::atomic<long> g_virtual_now{1700000000};
extern "C" time_t time(time_t* t) {
  time_t v = (time_t)g_virtual_now.load();
  if (t) *t = v;
  return v;
}

enum Role { CONTROLLER = 0, CLIENT = 1, WORKER = 2 };
// any thread the harness did not create is a librime work thread
static thread_local int tl_role = WORKER;

static RimeApi* api = nullptr;
static int g_watchdog_ms = 20000;

// ---------------------------------------------------------------- event logs
struct Logs {
  std::mutex m;                    // used in sched mode only (threads are serialised there anyway)
  bool ordered = true;             // sched mode: one global, ordered log
  std::vector<std::string> all;    // ordered log
  std::vector<std::string> client; // stress mode: appended by the client thread only
  std::vector<std::string> worker; // stress mode: appended by work threads only (they never overlap)
  std::vector<std::string> mon;    // monitor tokens (client thread / controller)
  void clear() { all.clear(); client.clear(); worker.clear(); mon.clear(); }
};
static Logs L;

static void log_ev(const std::string& e) {
  if (L.ordered) {
    std::lock_guard<std::mutex> g(L.m);
    L.all.push_back(e);
  } else if (tl_role == WORKER) {
    L.worker.push_back(e);
  } else {
    L.client.push_back(e);
  }
}
static void log_mon(const std::string& e) {
  if (L.ordered) {
    std::lock_guard<std::mutex> g(L.m);
    L.mon.push_back(e);
  } else {
    L.mon.push_back(e);  // client thread only in stress mode
  }
}

// ---------------------------------------------------------------- dummy deployment tasks
static int g_next_id = 0;               // client thread only
static std::deque<int> g_plan;          // what the next Create() calls must produce: -1 sync ok, -2 sync fail, 0/1 scheduled outcome
static int g_last_created = -1;         // id of the most recently created scheduled dummy
static int g_last_created_ok = 0;
static std::atomic<int> g_spin{0};      // busy work inside a dummy task (stress mode)
static std::atomic<int> g_lib_task_begin{0}, g_lib_task_end{0};

static void spin(int n) {
  volatile unsigned x = 0;
  for (int i = 0; i < n; ++i) x = x * 1664525u + 1013904223u;
}

struct DummyTask : rime::DeploymentTask {
  int id, ok;  // id < 0: synchronous pre-task (RunTask on the client thread), not logged
  DummyTask(int id_, int ok_) : id(id_), ok(ok_) {}
  bool Run(rime::Deployer*) override {
    if (id < 0) return ok != 0;
    log_ev("run:" + std::to_string(id) + ":" + std::to_string(ok));
    spin(g_spin.load());
    if (!ok && (id & 1)) throw std::runtime_error("dummy task failure");  // counted as a failure by Run()
    return ok != 0;
  }
};

struct DummyComponent : rime::DeploymentTask::Component {
  rime::DeploymentTask* Create(rime::TaskInitializer) override {
    if (g_plan.empty()) {
      log_mon("unplanned-task-creation");
      return new DummyTask(-1, 1);
    }
    int p = g_plan.front();
    g_plan.pop_front();
    if (p < 0) return new DummyTask(-1, p == -1);
    g_last_created = g_next_id++;
    g_last_created_ok = p;
    return new DummyTask(g_last_created, p);
  }
};

static const char* kTaskNames[] = {"clean_old_log_files", "installation_update", "detect_modifications",
                                   "workspace_update",    "user_dict_upgrade",   "cleanup_trash",
                                   "backup_config_files", "user_dict_sync",      "schema_update",
                                   "config_file_update",  "prebuild_all_schemas", "userdb_recovery_task"};

// a managed (Recoverable) user db that never opens: UserDictionary::Load takes its recovery path through the deployer
struct BrokenDb : rime::Db, rime::Recoverable {
  BrokenDb() : rime::Db(rime::path("c15_broken.userdb"), "c15_broken") {}
  bool Open() override { return false; }
  bool OpenReadOnly() override { return false; }
  bool Close() override { return true; }
  bool Backup(const rime::path&) override { return false; }
  bool Restore(const rime::path&) override { return false; }
  bool MetaFetch(const std::string&, std::string*) override { return false; }
  bool MetaUpdate(const std::string&, const std::string&) override { return false; }
  rime::an<rime::DbAccessor> QueryMetadata() override { return nullptr; }
  rime::an<rime::DbAccessor> QueryAll() override { return nullptr; }
  rime::an<rime::DbAccessor> Query(const std::string&) override { return nullptr; }
  bool Fetch(const std::string&, std::string*) override { return false; }
  bool Update(const std::string&, const std::string&) override { return false; }
  bool Erase(const std::string&) override { return false; }
  bool Recover() override { return false; }
};

static void register_dummies_impl() {
  for (auto n : kTaskNames) rime::Registry::instance().Register(n, new DummyComponent);
}

// ---------------------------------------------------------------- notification handler
// Every handler the client installs has a context object of its own.  The handler writes to it (plain memory); once
// set_notification_handler() has returned, the client takes the previous context back and writes to it too.  The service
// delivers notifications and replaces the handler under one mutex, so the two never touch a context unordered — a delivery
// still running on the replaced handler after the call returned is a data race on the context (ThreadSanitizer run).
struct HandlerCtx { long notes = 0; long taken_back = 0; };
static HandlerCtx* g_handler_ctx = nullptr;   // client thread only
static std::atomic<bool> g_slow_handler{false};
static void on_message(void* p, RimeSessionId, const char* type, const char* value) {
  if (auto* h = static_cast<HandlerCtx*>(p)) {
    h->notes++;
    if (g_slow_handler.load()) for (volatile int i = 0; i < 30000; ++i) {}
    h->notes++;
  }
  if (std::strcmp(type, "deploy") == 0) log_ev(std::string("note:") + value);
}
static bool g_handler_installed = true;       // client thread only
static void install_fresh_handler(RimeApi* api) {
  HandlerCtx* fresh = new HandlerCtx;    // never freed: a context must not be confused with a recycled one
  api->set_notification_handler(&on_message, fresh);
  if (g_handler_ctx) { g_handler_ctx->taken_back = g_handler_ctx->notes; g_handler_ctx->notes = -1; }
  g_handler_ctx = fresh;
  g_handler_installed = true;
}
// RimeSetNotificationHandler(NULL, ...) = Service::ClearNotificationHandler(): once it has returned no delivery may
// still be running on the removed handler, so the client takes its context back here too
static void remove_handler(RimeApi* api) {
  api->set_notification_handler(nullptr, nullptr);
  if (g_handler_ctx) { g_handler_ctx->taken_back = g_handler_ctx->notes; g_handler_ctx->notes = -1; }
  g_handler_ctx = nullptr;
  g_handler_installed = false;
}

// ---------------------------------------------------------------- service life cycle (finalize / initialize)
static std::string g_dir, g_logdir;
static bool g_started = true;                 // client thread only: Service::started_ as the harness left it
static void fill_traits(RimeTraits* t) {
  t->shared_data_dir = g_dir.c_str();
  t->user_data_dir = g_dir.c_str();
  t->distribution_name = "verif";
  t->distribution_code_name = "verif";
  t->distribution_version = "0";
  t->app_name = "rime.verif";
  t->min_log_level = 3;
  t->log_dir = g_logdir.c_str();
}
// load the deployer modules (RimeStartMaintenance would), then put the dummies over the real tasks
static void reload_dummies() {
  RIME_STRUCT(RimeTraits, traits);
  fill_traits(&traits);
  api->deployer_initialize(&traits);
  register_dummies_impl();
}

// ---------------------------------------------------------------- the controlled scheduler
struct Sched {
  std::mutex m;
  std::condition_variable cv;
  bool active = false;            // controlled mode on
  const char* parked[3] = {nullptr, nullptr, nullptr};
  int turn = 0;
  bool client_done = false;
  bool worker_live = false;
  std::string next_op;            // op the client is parked before, when at "boundary"
};
static Sched S;
static int g_guard_hits = 0;      // service.create_session / service.get_session hits of the client thread
// ground truth the harness keeps by itself (not asked from the library): was the live work thread launched by a
// maintenance call, and how many session objects existed when the current API call launched its thread
static bool g_cur_op_maint = false;            // client thread: the call in progress passes maintenance_mode = true
static std::atomic<bool> g_worker_maint{false};
static int g_alive_at_launch = -1;             // client thread
static std::vector<std::weak_ptr<rime::Session>> g_weak;   // client thread: every session object created in this case
static int alive_sessions() {
  int n = 0;
  for (auto& w : g_weak) n += w.expired() ? 0 : 1;
  return n;
}

static bool parks(int role, const char* p) {
  if (role == WORKER)
    return !std::strcmp(p, "service.notify") || !std::strcmp(p, "next_task") || !std::strcmp(p, "run.before_task") ||
           !std::strcmp(p, "finish_work") || !std::strcmp(p, "run.exit") ||
           !std::strcmp(p, "has_pending_tasks");  // only a tree without FinishWork() calls it from Run()
  if (role == CLIENT)
    return !std::strcmp(p, "boundary") || !std::strcmp(p, "schedule_task") || !std::strcmp(p, "start_work.enter") ||
           !std::strcmp(p, "start_work.join") || !std::strcmp(p, "start_work.launch") ||
           !std::strcmp(p, "start_work.checked");  // only a tree with the IsWorking()-based StartWork has it
  return false;
}

// parks the calling thread until the controller gives it the turn; returns where the OTHER thread is
// parked at the moment of release ("-" if it is not parked / does not exist)
static std::string park(int role, const char* point) {
  std::unique_lock<std::mutex> lk(S.m);
  if (!S.active) return "-";
  S.parked[role] = point;
  S.cv.notify_all();
  S.cv.wait(lk, [&] { return S.turn == role || !S.active; });
  if (S.turn == role) S.turn = 0;
  S.parked[role] = nullptr;
  const char* o = S.parked[role == CLIENT ? WORKER : CLIENT];
  S.cv.notify_all();
  return o ? o : "-";
}

static void yield_hook(const char* point) {
  int role = tl_role;
  if (role == CONTROLLER) return;
  if (role == CLIENT && (!std::strcmp(point, "service.create_session") || !std::strcmp(point, "service.get_session")))
    ++g_guard_hits;
  std::string other = "-";
  if (parks(role, point)) other = park(role, point);
  // the segment released from `schedule_task` pushes the task just created
  if (role == CLIENT && !std::strcmp(point, "schedule_task"))
    log_ev("sched:" + std::to_string(g_last_created) + ":" + std::to_string(g_last_created_ok));
  // where the worker stands when StartWork makes its "already working?" test (names the window of a lost task)
  if (role == CLIENT && !std::strcmp(point, "start_work.enter")) log_mon("sw:" + other);
  // released from start_work.launch: the next thing the client does is std::async
  if (role == CLIENT && !std::strcmp(point, "start_work.launch")) {
    g_worker_maint = g_cur_op_maint;
    g_alive_at_launch = alive_sessions();
  }
}

static void task_log_hook(const void*, int phase, int) {
  if (phase == 0) ++g_lib_task_begin; else ++g_lib_task_end;
}

// ---------------------------------------------------------------- client scripts
struct Op { std::string kind; std::vector<int> bits; };

static bool parse_script(const std::string& s, std::vector<Op>* out) {
  out->clear();
  if (s == "-") return true;
  std::stringstream ss(s);
  std::string tok;
  while (std::getline(ss, tok, ',')) {
    Op op;
    auto c = tok.find(':');
    op.kind = tok.substr(0, c);
    if (c != std::string::npos)
      for (char ch : tok.substr(c + 1)) {
        if (ch != '0' && ch != '1' && !(ch == '2' && op.kind == "tick")) return false;
        op.bits.push_back(ch - '0');
      }
    size_t want = (op.kind == "maint" || op.kind == "sync" || op.kind == "maintq") ? 3 : op.kind == "deploy_ws" ? 4
                  : (op.kind == "recover" || op.kind == "run_task" || op.kind == "deploy_schema" || op.kind == "deploy_config" ||
                     op.kind == "prebuild" || op.kind == "start" || op.kind == "tick") ? 1 : 0;
    static const char* kinds[] = {"maint", "maint_nochange", "sync", "recover", "is_maint", "join", "create", "find", "ctx", "set_handler",
                                  "maintq", "maint_noinst", "run_task", "run_unknown", "deploy_ws", "deploy_schema", "deploy_config",
                                  "prebuild", "start", "destroy", "cleanup_all", "cleanup_stale", "finalize", "initialize",
                                  "clear_handler", "tick"};
    bool known = false;
    for (auto k : kinds) known |= op.kind == k;
    if (!known || op.bits.size() != want || (want == 0 && c != std::string::npos)) return false;
    out->push_back(op);
  }
  return !out->empty();
}

static RimeSessionId g_last_session = 0;       // most recently created session that is still alive (top of g_sessions)
static std::vector<RimeSessionId> g_sessions;  // live sessions, oldest first (client thread only)
static std::vector<long> g_active;             // virtual time of the last accepted use of each (the harness's own bookkeeping:
                                               // it only decides WHICH id find/ctx/destroy address next; the answers are librime's)
static void sessions_dropped() { g_sessions.clear(); g_active.clear(); g_last_session = 0; }
static int plan_of(int bit) { return bit ? -1 : -2; }
static vh::Rng* g_client_rng = nullptr;   // stress mode: random gaps between calls

static void ret(const std::string& k, long v) { log_ev("ret:" + k + ":" + std::to_string(v)); }

static bool must_refuse() { return rime::Service::instance().deployer().IsMaintenanceMode(); }

static void session_mon(const std::string& k, bool maint_before, bool accepted, int guard_hits) {
  // monitor tokens: E (refused iff maintenance mode was on / the service was stopped when the call was issued), guard coverage.
  // Maintenance mode is sampled before AND after the call: only the client starts workers, so when both samples
  // agree that was the mode during the call (free-running, a worker may finish in between: then they differ).
  bool maint_after = must_refuse();
  // steered runs: is a work thread that a maintenance call launched still before its last queue check?  (the worker is
  // parked while the client runs, so its position is stable); free-running: unknown
  std::string truth = "-";
  {
    std::lock_guard<std::mutex> g(S.m);
    if (S.active)
      truth = (S.worker_live && g_worker_maint.load() && !(S.parked[WORKER] && !std::strcmp(S.parked[WORKER], "run.exit"))) ? "1" : "0";
  }
  // last field: the service was started (between RimeFinalize and RimeInitialize the property says nothing)
  log_mon("m:" + k + ":" + std::to_string(maint_before) + ":" + std::to_string(accepted) + ":" + std::to_string(guard_hits) +
          ":" + std::to_string(maint_after) + ":" + std::to_string(g_started ? 1 : 0) + ":" + truth);
}

static void do_op(const Op& op) {
  rime::Deployer& d = rime::Service::instance().deployer();
  const std::string& k = op.kind;
  g_plan.clear();
  g_cur_op_maint = k == "maint" || k == "sync" || k == "maintq" || (k == "start" && op.bits[0] == 1);
  g_alive_at_launch = -1;
  struct LaunchMon {   // after a call that launched a work thread: did the call itself touch the sessions after the launch?
    const std::string& k;
    ~LaunchMon() {
      if (g_alive_at_launch >= 0)
        log_mon("sd:" + k + ":" + std::to_string(g_alive_at_launch) + ":" + std::to_string(alive_sessions()));
    }
  } launch_mon{k};
  if (k == "maintq") {
    // clean_old_log_files, installation_update, detect_modifications (reports a change), then the three scheduled tasks
    g_plan = {-1, -1, -1, op.bits[0], op.bits[1], op.bits[2]};
    ret(k, api->start_maintenance(False));
  } else if (k == "maint_noinst") {
    g_plan = {-1, -2};
    ret(k, api->start_maintenance(True));
  } else if (k == "run_task") {
    g_plan = {plan_of(op.bits[0])};
    ret(k, api->run_task("cleanup_trash"));
  } else if (k == "run_unknown") {
    ret(k, api->run_task("c15_no_such_task"));
  } else if (k == "deploy_ws") {
    g_plan = {plan_of(op.bits[0]), plan_of(op.bits[1]), plan_of(op.bits[2]), plan_of(op.bits[3])};
    ret(k, api->deploy());
  } else if (k == "deploy_schema") {
    g_plan = {plan_of(op.bits[0])};
    ret(k, api->deploy_schema("c15.schema.yaml"));
  } else if (k == "deploy_config") {
    g_plan = {plan_of(op.bits[0])};
    ret(k, api->deploy_config_file("c15.yaml", "config_version"));
  } else if (k == "prebuild") {
    g_plan = {plan_of(op.bits[0])};
    ret(k, api->prebuild());
  } else if (k == "start") {
    ret(k, (op.bits[0] ? d.StartMaintenance() : d.StartWork(false)) ? 1 : 0);
  } else if (k == "destroy") {
    if (g_sessions.empty()) {
      ret(k, api->destroy_session(1) ? 1 : 0);
    } else {
      Bool r = api->destroy_session(g_sessions.back());
      g_sessions.pop_back();
      g_active.pop_back();
      g_last_session = g_sessions.empty() ? 0 : g_sessions.back();
      ret(k, r ? 1 : 0);
    }
  } else if (k == "cleanup_all") {
    api->cleanup_all_sessions();
    sessions_dropped();
    ret(k, 2);
  } else if (k == "cleanup_stale") {
    api->cleanup_stale_sessions();
    for (size_t i = g_sessions.size(); i-- > 0;)
      if (g_active[i] < g_virtual_now.load() - rime::Session::kLifeSpan) {
        g_sessions.erase(g_sessions.begin() + i);
        g_active.erase(g_active.begin() + i);
      }
    g_last_session = g_sessions.empty() ? 0 : g_sessions.back();
    ret(k, 2);
  } else if (k == "tick") {
    g_virtual_now += op.bits[0] == 0 ? 1 : op.bits[0] == 1 ? rime::Session::kLifeSpan : rime::Session::kLifeSpan + 1;
    ret(k, 2);
  } else if (k == "finalize") {
    api->finalize();                 // joins the work thread, stops the service, clears registry and modules
    g_started = false;
    sessions_dropped();
    reload_dummies();                // a later start_maintenance must find the dummies, not the real tasks
    ret(k, 2);
  } else if (k == "initialize") {
    RIME_STRUCT(RimeTraits, traits);
    fill_traits(&traits);
    api->initialize(&traits);
    g_started = true;
    reload_dummies();
    ret(k, 2);
  } else if (k == "clear_handler") {
    remove_handler(api);
    ret(k, 2);
  } else if (k == "maint") {
    g_plan = {-1, -1, op.bits[0], op.bits[1], op.bits[2]};
    ret(k, api->start_maintenance(True));
  } else if (k == "maint_nochange") {
    g_plan = {-1, -1, -2};
    ret(k, api->start_maintenance(False));
  } else if (k == "sync") {
    g_plan = {op.bits[0], op.bits[1], op.bits[2]};
    sessions_dropped();  // RimeSyncUserData starts with CleanupAllSessions()
    ret(k, api->sync_user_data());
  } else if (k == "recover") {
    // the real UserDictionary::Load on a recoverable db that does not open (user_dictionary.cc):
    //   if (task && Is<Recoverable>(db_) && !deployer.IsWorking()) {
    //     deployer.ScheduleTask(an<DeploymentTask>(task->Create(db_)));  deployer.StartWork(); }   return false;
    // "userdb_recovery_task" creates the planned dummy (only when the path is taken)
    g_plan = {op.bits[0]};
    rime::UserDictionary ud("c15_broken", rime::New<BrokenDb>());
    ret(k, ud.Load() ? 1 : 0);
  } else if (k == "is_maint") {
    ret(k, api->is_maintenance_mode());
  } else if (k == "join") {
    api->join_maintenance_thread();
    ret(k, 2);
  } else if (k == "create") {
    bool mb = must_refuse();
    g_guard_hits = 0;
    RimeSessionId id = api->create_session();
    if (id) {
      g_last_session = id; g_sessions.push_back(id); g_active.push_back(g_virtual_now.load());
      int hits = g_guard_hits;
      g_weak.push_back(rime::Service::instance().GetSession(id));   // only to learn when the object dies
      g_guard_hits = hits;
    }
    session_mon(k, mb, id != 0, g_guard_hits);
    ret(k, id ? 1 : 0);
  } else if (k == "find") {
    bool mb = must_refuse();
    g_guard_hits = 0;
    Bool r = api->find_session(g_last_session ? g_last_session : 1);
    if (r && g_last_session) g_active.back() = g_virtual_now.load();
    if (g_last_session) session_mon(k, mb, r != 0, g_guard_hits);
    ret(k, r ? 1 : 0);
  } else if (k == "ctx") {
    bool mb = must_refuse();
    g_guard_hits = 0;
    RIME_STRUCT(RimeContext, ctx);
    Bool r = api->get_context(g_last_session ? g_last_session : 1, &ctx);
    if (r) api->free_context(&ctx);
    if (r && g_last_session) g_active.back() = g_virtual_now.load();
    if (g_last_session) session_mon(k, mb, r != 0, g_guard_hits);
    ret(k, r ? 1 : 0);
  } else if (k == "set_handler") {
    install_fresh_handler(api);
    ret(k, 2);
  }
}

static void client_main(std::vector<Op> script, bool controlled) {
  tl_role = CLIENT;
  for (auto& op : script) {
    if (controlled) {
      { std::lock_guard<std::mutex> g(S.m); S.next_op = op.kind; }
      park(CLIENT, "boundary");
    } else if (g_client_rng) {
      spin((int)g_client_rng->below(4) * (int)g_client_rng->below(3000));
    }
    do_op(op);
  }
  if (controlled) {
    std::lock_guard<std::mutex> g(S.m);
    S.client_done = true;
    S.cv.notify_all();
  }
}

// ---------------------------------------------------------------- controller
static bool enabled(int role) {  // S.m held
  if (role == CLIENT)
    return !S.client_done && S.parked[CLIENT] &&
           !(!std::strcmp(S.parked[CLIENT], "boundary") && (S.next_op == "join" || S.next_op == "finalize") && S.worker_live) &&
           !(!std::strcmp(S.parked[CLIENT], "start_work.join") && S.worker_live);  // JoinWorkThread() would block
  return S.worker_live && S.parked[WORKER];
}

// release `role` for one segment; returns "" or the reason it got stuck
static std::string step(int role) {
  rime::Deployer& d = rime::Service::instance().deployer();
  std::unique_lock<std::mutex> lk(S.m);
  std::string pt = S.parked[role];
  bool launching = role == CLIENT && pt == "start_work.launch";
  bool exiting = role == WORKER && pt == "run.exit";
  auto deadline = Clock::now() + std::chrono::milliseconds(g_watchdog_ms);
  S.turn = role;
  S.cv.notify_all();
  bool ok = S.cv.wait_until(lk, deadline, [&] {
    if (S.turn != 0) return false;
    if (role == CLIENT) return S.parked[CLIENT] != nullptr || S.client_done;
    return exiting || S.parked[WORKER] != nullptr;
  });
  if (!ok) return std::string(role == CLIENT ? "client" : "worker") + " released from " + pt + " did not reach a parking point";
  if (launching) {
    ok = S.cv.wait_until(lk, deadline, [&] { return S.parked[WORKER] != nullptr; });
    if (!ok) return "no work thread appeared after start_work.launch";
    S.worker_live = true;
  }
  if (exiting) {
    lk.unlock();
    while (d.IsWorking()) {
      if (Clock::now() > deadline) return "future did not become ready after run.exit";
      std::this_thread::sleep_for(std::chrono::microseconds(50));
    }
    log_ev("done");
    lk.lock();
    S.worker_live = false;
  }
  return "";
}

static std::string left_ids(std::vector<rime::an<rime::DeploymentTask>>& keep) {
  rime::Deployer& d = rime::Service::instance().deployer();
  std::string left;
  while (auto t = d.NextTask()) {
    auto* dt = dynamic_cast<DummyTask*>(t.get());
    if (!left.empty()) left += ",";
    left += dt ? std::to_string(dt->id) : "?";
    keep.push_back(t);
  }
  return left.empty() ? "-" : left;
}

static std::string join_log(const std::vector<std::string>& v) {
  std::string o;
  for (auto& e : v) { if (!o.empty()) o += " "; o += e; }
  return o;
}

// after a case: stop steering, let everything finish, bring Deployer/Service back to the initial state
static std::string reset_after_case(std::thread& client) {
  rime::Deployer& d = rime::Service::instance().deployer();
  { std::lock_guard<std::mutex> g(S.m); S.active = false; S.cv.notify_all(); }
  if (client.joinable()) client.join();
  d.JoinWorkThread();
  std::vector<rime::an<rime::DeploymentTask>> keep;
  std::string left = left_ids(keep);
  d.StartWork(false);  // not working, queue empty: only resets maintenance_mode_ to false
  rime::Service::instance().CleanupAllSessions();
  if (!g_started) {
    RIME_STRUCT(RimeTraits, traits);
    fill_traits(&traits);
    api->initialize(&traits);
    g_started = true;
    reload_dummies();
  }
  if (!g_handler_installed) install_fresh_handler(api);
  return left;
}

static void fresh_case() {
  L.clear();
  g_next_id = 0; g_plan.clear(); g_last_created = -1; sessions_dropped(); g_weak.clear(); g_alive_at_launch = -1;
  g_lib_task_begin = 0; g_lib_task_end = 0;
  S.parked[CLIENT] = S.parked[WORKER] = nullptr;
  S.turn = 0; S.client_done = false; S.worker_live = false; S.next_op.clear();
}

static std::string mon_tail() {
  std::string o = "  #lib_tasks:" + std::to_string(g_lib_task_begin.load()) + ":" + std::to_string(g_lib_task_end.load());
  for (auto& e : L.mon) o += " #" + e;
  return o;
}

static int run_sched_mode() {
#if !C15_HAVE_HOOKS
  std::printf("NO-HOOKS\n");
  return 4;
#else
  std::string line;
  while (std::getline(std::cin, line)) {
    std::stringstream ss(line);
    std::string sc, sd;
    ss >> sc >> sd;
    std::vector<Op> script;
    bool okp = parse_script(sc, &script) || sc == "-";
    for (char ch : sd) okp = okp && (ch == 'c' || ch == 'w' || (sd == "-"));
    if (!okp || sd.empty()) { std::printf("bad-op\n"); std::fflush(stdout); continue; }
    if (sd == "-") sd.clear();
    fresh_case();
    S.active = true;
    std::thread client(client_main, script, true);
    std::string executed, stuck;
    {  // wait for the client to park before its first call (or to finish an empty script)
      std::unique_lock<std::mutex> lk(S.m);
      S.cv.wait(lk, [&] { return S.parked[CLIENT] != nullptr || S.client_done; });
    }
    auto pick = [&](int pref) -> int {
      std::lock_guard<std::mutex> g(S.m);
      if (enabled(pref)) return pref;
      int other = pref == CLIENT ? WORKER : CLIENT;
      return enabled(other) ? other : 0;
    };
    size_t i = 0;
    size_t budget = 4000;
    while (stuck.empty() && budget--) {
      int pref = i < sd.size() ? (sd[i] == 'c' ? CLIENT : WORKER) : CLIENT;
      ++i;
      int role = pick(pref);
      if (!role) break;
      executed.push_back(role == CLIENT ? 'c' : 'w');
      stuck = step(role);
    }
    if (!stuck.empty() || !budget) {
      std::printf("%s | %s | STUCK %s\n", executed.empty() ? "-" : executed.c_str(), join_log(L.all).c_str(),
                  stuck.empty() ? "step budget exhausted" : stuck.c_str());
      std::fflush(stdout);
      _exit(3);
    }
    bool quiescent;
    { std::lock_guard<std::mutex> g(S.m); quiescent = S.client_done && !S.worker_live; }
    std::string left = reset_after_case(client);
    std::printf("%s | %s left:%s%s%s\n", executed.empty() ? "-" : executed.c_str(), join_log(L.all).c_str(), left.c_str(),
                quiescent ? "" : " not-quiescent", mon_tail().c_str());
    std::fflush(stdout);
  }
  return 0;
#endif
}

// free-running runs have no controller that could notice a blocked thread: a watchdog thread ends the process when
// no run has finished for the watchdog time, naming the script (a reported result, never a hang)
static std::atomic<long> g_stress_progress{0};
static std::atomic<bool> g_stress_over{false};
static std::mutex g_stress_m;
static std::string g_stress_script;

static void stress_watchdog() {
  tl_role = CONTROLLER;
  long seen = -1;
  auto since = Clock::now();
  while (!g_stress_over.load()) {
    std::this_thread::sleep_for(std::chrono::milliseconds(100));
    long p = g_stress_progress.load();
    if (p != seen) { seen = p; since = Clock::now(); continue; }
    if (Clock::now() - since > std::chrono::milliseconds(2 * g_watchdog_ms)) {
      std::string sc;
      { std::lock_guard<std::mutex> g(g_stress_m); sc = g_stress_script; }
      std::printf("STRESS-STUCK %s run %ld made no progress (deadlock or blocked thread)\n", sc.c_str(), seen);
      std::fflush(stdout);
      _exit(3);
    }
  }
}

static int run_stress_mode(uint64_t seed, int iters) {
  L.ordered = false;
  g_slow_handler = true;
  vh::Rng rng(seed), crng(seed ^ 0x5151);
  g_client_rng = &crng;
  std::thread wd(stress_watchdog);
  struct Stop { std::thread& t; ~Stop() { g_stress_over = true; t.join(); } } stop{wd};
  std::string line;
  while (std::getline(std::cin, line)) {
    std::stringstream ss(line);
    std::string sc;
    ss >> sc;
    std::vector<Op> script;
    if (!parse_script(sc, &script)) { std::printf("bad-op\n"); continue; }
    { std::lock_guard<std::mutex> g(g_stress_m); g_stress_script = sc; }
    for (int it = 0; it < iters; ++it) {
      ++g_stress_progress;
      fresh_case();
      g_spin = (int)rng.below(5) * (int)rng.below(4000);
      std::thread client(client_main, script, false);
      std::string left = reset_after_case(client);
      std::string ce = join_log(L.client), we = join_log(L.worker);
      std::printf("%s | %s | %s | left:%s%s\n", sc.c_str(), ce.empty() ? "-" : ce.c_str(), we.empty() ? "-" : we.c_str(),
                  left.c_str(), mon_tail().c_str());
    }
    std::fflush(stdout);
  }
  return 0;
}

int main(int argc, char** argv) {
  tl_role = CONTROLLER;
  std::string mode = argc > 1 ? argv[1] : "";
  if (mode == "hooks") {
    std::printf("hooks:%d\n", C15_HAVE_HOOKS);
    return 0;
  }
  if ((mode != "sched" && mode != "stress") || argc < 3) {
    std::fprintf(stderr, "usage: c15_harness hooks | sched <workdir> | stress <workdir> <seed> <iterations>\n");
    return 2;
  }
  if (const char* w = std::getenv("C15_WATCHDOG_MS")) g_watchdog_ms = std::atoi(w);
  std::string dir = argv[2];
  std::filesystem::create_directories(dir);
  g_dir = dir;
  g_logdir = dir + "/log";
  api = vh::start(dir, dir, false);
  reload_dummies();
  api->set_notification_handler(&on_message, nullptr);
#if C15_HAVE_HOOKS
  if (mode == "sched") {  // the stress runs stay free of harness synchronisation (ThreadSanitizer)
    rime::verif::yield_hook.store(&yield_hook);
    rime::verif::task_log_hook.store(&task_log_hook);
  }
#endif
  int rc = mode == "sched" ? run_sched_mode() : run_stress_mode(argc > 3 ? std::strtoull(argv[3], nullptr, 10) : 1,
                                                                 argc > 4 ? std::atoi(argv[4]) : 10);
#if C15_HAVE_HOOKS
  rime::verif::yield_hook.store(nullptr);
  rime::verif::task_log_hook.store(nullptr);
#endif
  api->finalize();
  return rc;
}
