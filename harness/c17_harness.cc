// C17 harness: user-dictionary backup / restore / merge / export / import on real LevelDB user dbs
// through the real UserDictManager / UserDbHelper / UserDbMerger / UserDbImporter code.
// Reads one op per line on stdin (see lean/Driver/C17.lean for the protocol), prints one observation
// line per op.  Installations = separate user data dirs + user ids under <workdir>/inst, a shared
// sync dir <workdir>/sync, files under <workdir>/files.
// usage: c17_harness <workdir>            (ops on stdin)
//        c17_harness --version            (prints RIME_VERSION in hex)
#include "hcommon.h"
#include <iostream>
#include <sstream>
#include <new>
#include <rime/service.h>
#include <rime/deployer.h>
#include <rime/registry.h>
#include <rime/dict/db.h>
#include <rime/dict/db_utils.h>
#include <rime/dict/level_db.h>
#include <rime/dict/text_db.h>
#include <rime/dict/user_db.h>
#include <rime/lever/user_dict_manager.h>

using namespace vh;
namespace fs = std::filesystem;

static std::string g_root;
static std::string g_cur;

static rime::Deployer& dep() { return rime::Service::instance().deployer(); }

// switch to installation I: its own user data dir and user id; the "userdb" component is re-created so that
// its resource resolver points into that directory
static void use(const std::string& inst) {
  if (g_cur == inst) return;
  fs::path dir = fs::path(g_root) / "inst" / inst;
  fs::create_directories(dir);
  dep().user_data_dir = rime::path(dir.string());
  dep().shared_data_dir = rime::path(g_root + "/shared");
  // installations whose names differ only in the last character share one sync directory
  dep().sync_dir = rime::path(g_root + "/sync/" + inst.substr(0, inst.size() - 1) + "_");
  dep().user_id = inst;
  rime::Registry::instance().Register("userdb", new rime::UserDbComponent<rime::LevelDb>);
  // the format user dictionaries had before: plain text files <name>.userdb.txt in the user data directory
  // (dict_module.cc leaves "legacy_userdb" to plugins; UserDictManager::UpgradeUserDict converts what it finds)
  rime::Registry::instance().Register("legacy_userdb", new rime::UserDbComponent<rime::TextDb>);
  g_cur = inst;
}

static rime::UserDb::Component* comp() { return rime::UserDb::Require("userdb"); }

static std::string file_path(const std::string& f) { return g_root + "/files/" + f + ".userdb.txt"; }

static bool read_file(const std::string& p, std::string* out) {
  std::ifstream in(p, std::ios::binary);
  if (!in) return false;
  std::ostringstream ss;
  ss << in.rdbuf();
  *out = ss.str();
  return true;
}

static std::string show_value(const std::string& value) {
  rime::UserDbValue v;
  bool ok = v.Unpack(value);
  char buf[160];
  snprintf(buf, sizeof buf, "%d:%llu:%d d=%a", v.commits, (unsigned long long)v.tick, ok ? 1 : 0, v.dee);
  return buf;
}

static uint64_t fnv(uint64_t h, const std::string& s) {
  for (unsigned char c : s) { h ^= c; h *= 1099511628211ull; }
  h ^= 0xff; h *= 1099511628211ull;
  return h;
}

static std::string dump(const std::string& n) {
  rime::the<rime::Db> db(comp()->Create(n));
  if (!db->Exists()) return "none";
  if (!db->OpenReadOnly()) return "none";  // LevelDB leaves an empty directory behind a failed read-only open
  std::string out = "db", k, v;
  uint64_t h = 1469598103934665603ull;
  {
    auto m = db->QueryMetadata();
    while (m && m->GetNextRecord(&k, &v)) { out += " m:" + hex(k) + ":" + hex(v); h = fnv(fnv(h, k), v); }
    auto a = db->QueryAll();
    while (a && a->GetNextRecord(&k, &v)) { out += " e:" + hex(k) + ":" + show_value(v); h = fnv(fnv(h, k), v); }
  }
  db->Close();
  char buf[40];
  snprintf(buf, sizeof buf, " h=%016llx", (unsigned long long)h);
  return out + buf;
}

static std::string cat_path(const std::string& path);
static std::string cat(const std::string& f) { return cat_path(file_path(f)); }
static std::string legacy_path(const std::string& inst, const std::string& n) {
  return g_root + "/inst/" + inst + "/" + n + ".userdb.txt";
}

static std::string cat_path(const std::string& path) {
  std::string c;
  if (!read_file(path, &c)) return "nofile";
  std::string out = "file";
  size_t i = 0;
  while (i < c.size()) {                      // getline semantics: no line after a trailing '\n'
    size_t e = c.find('\n', i);
    std::string line = c.substr(i, e == std::string::npos ? std::string::npos : e - i);
    i = e == std::string::npos ? c.size() : e + 1;
    out += " |";
    size_t j = 0;
    for (;;) {
      size_t t = line.find('\t', j);
      std::string col = line.substr(j, t == std::string::npos ? std::string::npos : t - j);
      if (col.compare(0, 2, "c=") == 0) out += " v:" + show_value(col);
      else out += " x:" + hex(col);
      if (t == std::string::npos) break;
      j = t + 1;
    }
  }
  return out;
}

// ---- poisoned construction: which members does the constructor leave untouched?
struct MergerProbe : rime::UserDbMerger {
  using rime::UserDbMerger::UserDbMerger;
  template <class F> void each(F f) {
#define C17_MEMBERS_UserDbMerger
#define C17_MEMBER(name) f(#name, (const unsigned char*)&this->name, sizeof(this->name));
#include "gen/c17_members.inc"
#undef C17_MEMBER
#undef C17_MEMBERS_UserDbMerger
  }
};
struct ImporterProbe : rime::UserDbImporter {
  using rime::UserDbImporter::UserDbImporter;
  template <class F> void each(F f) {
#define C17_MEMBERS_UserDbImporter
#define C17_MEMBER(name) f(#name, (const unsigned char*)&this->name, sizeof(this->name));
#include "gen/c17_members.inc"
#undef C17_MEMBER
#undef C17_MEMBERS_UserDbImporter
  }
};

template <class P>
static std::string probe(const char* cls) {
  std::vector<std::pair<std::string, bool>> touched;   // member -> written by the constructor in some run
  const unsigned char pats[2] = {0xA5, 0x5A};
  for (int r = 0; r < 2; ++r) {
    alignas(P) static unsigned char buf[sizeof(P)];
    memset(buf, pats[r], sizeof buf);
    P* p = new (buf) P((rime::Db*)nullptr);
    size_t idx = 0;
    p->each([&](const char* name, const unsigned char* at, size_t n) {
      bool same = true;
      for (size_t i = 0; i < n; ++i) same = same && at[i] == pats[r];
      if (r == 0) touched.push_back({name, !same});
      else touched[idx].second = touched[idx].second || !same;
      ++idx;
    });
    memset(buf, 0, sizeof buf);   // db_ = null, counters 0: nothing to destroy
  }
  std::string out;
  for (auto& t : touched) out += std::string(" ") + cls + "." + t.first + (t.second ? ":init" : ":uninit");
  return out;
}

// UserDictManager::Restore with the merger constructed in storage pre-filled with `poison`
static bool poisoned_restore(const std::string& snapshot, unsigned char poison) {
  rime::the<rime::Db> temp(comp()->Create(".temp"));
  if (temp->Exists()) temp->Remove();
  if (!temp->Open()) return false;
  struct Guard { rime::Db* d; bool rm; ~Guard() { d->Close(); if (rm) d->Remove(); } } g1{temp.get(), true};
  if (!temp->Restore(rime::path(snapshot))) return false;
  if (!rime::UserDbHelper(temp).IsUserDb()) return false;
  std::string db_name = rime::UserDbHelper(temp).GetDbName();
  if (db_name.empty()) return false;
  rime::the<rime::Db> dest(comp()->Create(db_name));
  if (!dest->Open()) return false;
  Guard g2{dest.get(), false};
  rime::DbSource source(temp.get());
  alignas(rime::UserDbMerger) static unsigned char buf[sizeof(rime::UserDbMerger)];
  memset(buf, poison, sizeof buf);
  rime::UserDbMerger* merger = new (buf) rime::UserDbMerger(dest.get());
  source >> *merger;
  merger->~UserDbMerger();
  return true;
}

int main(int argc, char** argv) {
  if (argc >= 2 && std::string(argv[1]) == "--version") {
    printf("%s\n", hex(rime_get_api()->get_version()).c_str());
    return 0;
  }
  if (argc < 2) return 2;
  g_root = fs::absolute(argv[1]).string();
  fs::create_directories(g_root + "/shared");
  fs::create_directories(g_root + "/boot");
  fs::create_directories(g_root + "/files");
  fs::create_directories(g_root + "/sync");
  RimeApi* api = start(g_root + "/shared", g_root + "/boot", false);
  std::string line;
  while (std::getline(std::cin, line)) {
    std::istringstream is(line);
    std::vector<std::string> t;
    for (std::string w; is >> w;) t.push_back(w);
    std::string out = "bad-op";
    if (t.empty()) { puts(out.c_str()); continue; }
    const std::string& op = t[0];
    if (op == "version" && t.size() == 2) {
      out = unhex(t[1]) == api->get_version() ? "ok" : "version-mismatch";
    } else if ((op == "put" || op == "meta") && t.size() == 5) {
      use(t[1]);
      rime::the<rime::Db> db(comp()->Create(t[2]));
      bool ok = db->Open();
      ok = ok && (op == "put" ? db->Update(unhex(t[3]), unhex(t[4])) : db->MetaUpdate(unhex(t[3]), unhex(t[4])));
      ok = db->Close() && ok;
      out = ok ? "ok" : "fail";
    } else if (op == "drop" && t.size() == 3) {
      // the dictionary is lost (a new profile, a cleaned directory): the next Open re-creates it empty
      use(t[1]);
      rime::the<rime::Db> db(comp()->Create(t[2]));
      out = !db->Exists() || db->Remove() ? "ok" : "fail";     // (whether an empty store existed is not an observation)
    } else if (op == "file" && t.size() == 3) {
      std::ofstream o(file_path(t[1]), std::ios::binary);
      o << unhex(t[2]);
      out = "ok";
    } else if (op == "backup" && t.size() == 4) {
      use(t[1]);
      rime::UserDictManager mgr(&dep());
      bool ok = mgr.Backup(t[2]);
      if (ok) {
        fs::path snap = fs::path(dep().user_data_sync_dir().string()) / (t[2] + ".userdb.txt");
        std::error_code ec;
        fs::copy_file(snap, file_path(t[3]), fs::copy_options::overwrite_existing, ec);
        if (ec) ok = false;
      }
      out = ok ? "ok" : "fail";
    } else if (op == "restore" && t.size() == 4) {
      use(t[2]);
      rime::the<rime::Db> db(comp()->Create(t[3]));
      bool ok = db->Open();
      ok = ok && db->Restore(rime::path(file_path(t[1])));
      ok = db->Close() && ok;
      out = ok ? "ok" : "fail";
    } else if (op == "merge" && t.size() == 3) {
      use(t[2]);
      rime::UserDictManager mgr(&dep());
      out = mgr.Restore(rime::path(file_path(t[1]))) ? "ok" : "fail";
    } else if (op == "pmerge" && t.size() == 4) {
      use(t[2]);
      int b = atoi(t[3].c_str());
      if (b >= 0 && b < 256) out = poisoned_restore(file_path(t[1]), (unsigned char)b) ? "ok" : "fail";
    } else if (op == "sync" && t.size() == 4) {
      use(t[1]);
      // the peers Synchronize will meet, in the order the directory iterator yields them
      std::string order;
      fs::path sd(dep().sync_dir.string());
      if (fs::exists(sd)) {
        for (fs::directory_iterator it(sd), end; it != end; ++it) {
          if (!fs::is_directory(it->path())) continue;
          if (!fs::exists(it->path() / (t[2] + ".userdb.txt"))) continue;
          order += (order.empty() ? "" : ",") + it->path().filename().string();
        }
      }
      rime::UserDictManager mgr(&dep());
      bool ok = mgr.Synchronize(t[2]);
      fs::path snap = fs::path(dep().user_data_sync_dir().string()) / (t[2] + ".userdb.txt");
      std::error_code ec;
      if (fs::exists(snap)) fs::copy_file(snap, file_path(t[3]), fs::copy_options::overwrite_existing, ec);
      out = std::string(ok ? "ok" : "fail") + " order=" + (order.empty() ? "-" : order);
    } else if (op == "plant" && t.size() == 4) {
      // file F appears in the sync directory as the snapshot of dictionary N made by installation P (which may never
      // have run here: another machine's, an old version's, a damaged one)
      use(t[2]);
      fs::path dir(dep().user_data_sync_dir().string());
      std::error_code ec;
      fs::create_directories(dir, ec);
      fs::copy_file(file_path(t[1]), dir / (t[3] + ".userdb.txt"), fs::copy_options::overwrite_existing, ec);
      out = ec ? "fail" : "ok";
    } else if (op == "legacy" && t.size() == 4) {
      // file F is found in installation I's user data directory as the old-format dictionary N.userdb.txt
      use(t[2]);
      std::error_code ec;
      fs::copy_file(file_path(t[1]), legacy_path(t[2], t[3]), fs::copy_options::overwrite_existing, ec);
      out = ec ? "fail" : "ok";
    } else if (op == "lcat" && t.size() == 3) {
      out = cat_path(legacy_path(t[1], t[2]));
    } else if (op == "upgrade" && t.size() == 3) {
      use(t[1]);
      rime::UserDictManager mgr(&dep());
      out = mgr.UpgradeUserDict(t[2]) ? "ok" : "fail";
    } else if (op == "syncall" && t.size() == 2) {
      use(t[1]);
      // what SynchronizeAll will meet: the user dictionaries of the installation and the peer directories, both in the
      // order the directory iterator yields them
      std::string names, order;
      for (fs::directory_iterator it(fs::path(dep().user_data_dir.string())), end; it != end; ++it) {
        std::string n = it->path().filename().string();
        if (n.size() > 7 && n.compare(n.size() - 7, 7, ".userdb") == 0) names += (names.empty() ? "" : ",") + n.substr(0, n.size() - 7);
      }
      fs::path sd(dep().sync_dir.string());
      if (fs::exists(sd)) {
        for (fs::directory_iterator it(sd), end; it != end; ++it) {
          if (!fs::is_directory(it->path())) continue;
          order += (order.empty() ? "" : ",") + it->path().filename().string();
        }
      }
      rime::UserDictManager mgr(&dep());
      bool ok = mgr.SynchronizeAll();
      out = std::string(ok ? "ok" : "fail") + " names=" + (names.empty() ? "-" : names) + " order=" + (order.empty() ? "-" : order);
    } else if (op == "export" && t.size() == 4) {
      use(t[1]);
      rime::UserDictManager mgr(&dep());
      int n = mgr.Export(t[2], rime::path(file_path(t[3])));
      out = n < 0 ? "fail" : "ok " + std::to_string(n);
    } else if (op == "import" && t.size() == 4) {
      use(t[1]);
      rime::UserDictManager mgr(&dep());
      int n = mgr.Import(t[2], rime::path(file_path(t[3])));
      out = n < 0 ? "fail" : "ok " + std::to_string(n);
    } else if (op == "dump" && t.size() == 3) {
      use(t[1]);
      out = dump(t[2]);
    } else if (op == "cat" && t.size() == 2) {
      out = cat(t[1]);
    } else if (op == "probe" && t.size() == 1) {
      out = "probe" + probe<MergerProbe>("UserDbMerger") + probe<ImporterProbe>("UserDbImporter");
    }
    puts(out.c_str());
    fflush(stdout);
  }
  api->finalize();
  return 0;
}
