// C18 harness: drives the REAL rime::Config / ConfigData (and the C API config_* functions) with op lines
// and prints one observation line per op, in the protocol of lean/Driver/C18.lean.
//
//   new cpp|api                    fresh empty config; later ops go through rime::Config (cpp) or RimeApi (api)   -> ok
//   set <path> s <hex>             SetString / config_set_string                                                  -> ret=0|1
//   set <path> i <int32>           SetInt / config_set_int
//   set <path> b 0|1               SetBool / config_set_bool
//   set <path> d <bits16> <fmthex> SetDouble / config_set_double (bits = IEEE-754 pattern, fmthex = "%f" text the
//                                  model stores; the harness checks std::to_string gives that text)
//   set <path> list|map|null       SetItem(New<ConfigList/ConfigMap>/nullptr) / config_create_list/_map/config_clear
//   get <path> s|i|b|d|size|type   getter with the out-param pre-filled by a sentinel                             -> ret=.. val=..
//                                  (s: hex, sentinel "SENT"; i: sentinel -77777; b: sentinel 7; d: the scalar's
//                                  own text is not visible to a getter, so d prints ret and the %a image)
//   dump                           canonical tree: N | S<hex>; | L[..,..] | M{<keyhex>=..,..}                       -> tree=..
//   emit                           SaveToStream                                                                   -> emit ok=0|1 doc=<hex>
//   parse <hex>                    LoadFromStream into the current config                                         -> parse ok=0|1 tree=..
//   rt                             SaveToStream, LoadFromStream into a FRESH config (current one unchanged)       -> rt save=. load=. tree=..
//   alias <path>                   remember the node at <path> (cpp: GetItem, api: config_get_item into a 2nd RimeConfig) -> ok
//   aliasdump                      canonical dump of the remembered node                                          -> tree=..
//   raw <treedump>                 (cpp only) build the tree directly with ConfigMap::Set / ConfigList::Append    -> ok
//   get <path> is                  Config::IsNull/IsValue/IsList/IsMap as four digits                             -> ret=1 val=NVLM
//   iter <path> list|map           config_begin_list|map, config_next until it returns False, config_end          -> ret=0 | ret=1 n=<k> items=<keyhex>:<pathhex>,…
//   sign <signerhex>               config_update_signature (modified_time / rime_version blanked to T / V)        -> ret=0|1
//   setitem <dst> <src>            SetItem(dst, GetItem(src)) / config_get_item + config_set_item                 -> ret=0|1
//   setraw <path> <treedump>       SetItem(path, the tree built directly)                                         -> ret=0|1
//   ref <steps> <action> [args]    ConfigItemRef: (*config)[k][i]… then tos|toi|tob|is|size|has <khex>|assign s <hex>|assign i <n>|
//                                  assign b 0|1|assign null|clear|append s <hex>|aslist|asmap   (steps: `-` or k<hex>,i<n>,…)  -> val=… | ok
//   node <path> <method> [args]    the container at <path> (GetItem) used directly: valueat <i> | mapvalue <khex> | haskey <khex> |
//                                  resize <n> | clearlist | clearmap | insert <i> s <hex> | setat <i> s <hex> | appendl s <hex>
//                                  -> val=<hex>|null|0|1 | ok | no-list | no-map
//   customizer <twice01> <srcdump> <n> (<pathhex> <dump>)*n   the older patching route: source file, `<name>.custom.yaml` = {patch: {path: item…}},
//                                  no user copy yet; Customizer::UpdateConfigFile twice; the user copy loaded plainly
//                                  -> cz ret=. again=. checksum=<text> tree=<dump>|none
//   uopen <idhex> 0|1              (cpp) the config <id> of the user-config component (ConfigLoader + UserConfigResourceProvider,
//                                  auto_save as given); later ops go to it; `new` drops it (auto-save happens there)  -> ok tree=..
//   save | modified                Config::Save() / modified()                                                    -> save ret=. | modified=.
//   ufile <idhex> | urm <idhex>    the file behind <id> loaded plainly / removed                                  -> file none|tree=.. | ok
//   loadfile missing|bad|empty     LoadFromFile of a file that is not there / not YAML / empty                    -> load ok=. tree=..
// paths and values are lower-case hex of the bytes ("-" = empty).  api-mode arguments must not contain NUL.
// usage: c18_harness <ops-file> <out-file>
#include "hcommon.h"
#include <cinttypes>
#include <sstream>
#include <rime/config.h>
#include <rime/config/config_data.h>
#include <rime/config/config_types.h>
#include <rime/service.h>
#include <rime/deployer.h>
#include <rime/config/config_component.h>
#include <rime/lever/customizer.h>
#include <rime/algo/utilities.h>
#include <filesystem>
#include <functional>

using namespace vh;
using namespace rime;

static bool hexok(const std::string& h) {
  if (h == "-") return true;
  if (h.empty() || h.size() % 2) return false;
  for (char c : h)
    if (!((c >= '0' && c <= '9') || (c >= 'a' && c <= 'f'))) return false;
  return true;
}

static std::vector<std::string> split(const std::string& s, char sep) {
  std::vector<std::string> out;
  size_t st = 0;
  for (;;) {
    size_t f = s.find(sep, st);
    if (f == std::string::npos) { out.push_back(s.substr(st)); break; }
    out.push_back(s.substr(st, f - st));
    st = f + 1;
  }
  return out;
}

static void dump(const an<ConfigItem>& it, std::string* o) {
  if (!it || it->type() == ConfigItem::kNull) { *o += "N"; return; }
  if (it->type() == ConfigItem::kScalar) {
    *o += "S" + hex(As<ConfigValue>(it)->str()) + ";";
  } else if (it->type() == ConfigItem::kList) {
    auto l = As<ConfigList>(it);
    *o += "L[";
    bool first = true;
    for (auto i = l->begin(); i != l->end(); ++i) {
      if (!first) *o += ",";
      first = false;
      dump(*i, o);
    }
    *o += "]";
  } else {
    auto m = As<ConfigMap>(it);
    *o += "M{";
    bool first = true;
    for (auto i = m->begin(); i != m->end(); ++i) {
      if (!first) *o += ",";
      first = false;
      *o += hex(i->first) + "=";
      dump(i->second, o);
    }
    *o += "}";
  }
}

// parser of the dump format (for `raw`)
static bool undump(const std::string& s, size_t* i, an<ConfigItem>* out) {
  if (*i >= s.size()) return false;
  char c = s[(*i)++];
  if (c == 'N') { *out = nullptr; return true; }
  if (c == 'S') {
    size_t e = s.find(';', *i);
    if (e == std::string::npos) return false;
    std::string h = s.substr(*i, e - *i);
    if (!hexok(h)) return false;
    *out = New<ConfigValue>(unhex(h));
    *i = e + 1;
    return true;
  }
  if (c == 'L') {
    if (*i >= s.size() || s[(*i)++] != '[') return false;
    auto l = New<ConfigList>();
    if (*i < s.size() && s[*i] == ']') { ++*i; *out = l; return true; }
    for (;;) {
      an<ConfigItem> x;
      if (!undump(s, i, &x)) return false;
      l->Append(x);
      if (*i >= s.size()) return false;
      char d = s[(*i)++];
      if (d == ']') break;
      if (d != ',') return false;
    }
    *out = l;
    return true;
  }
  if (c == 'M') {
    if (*i >= s.size() || s[(*i)++] != '{') return false;
    auto m = New<ConfigMap>();
    if (*i < s.size() && s[*i] == '}') { ++*i; *out = m; return true; }
    for (;;) {
      size_t e = s.find('=', *i);
      if (e == std::string::npos) return false;
      std::string h = s.substr(*i, e - *i);
      if (!hexok(h)) return false;
      *i = e + 1;
      an<ConfigItem> x;
      if (!undump(s, i, &x)) return false;
      m->Set(unhex(h), x);
      if (*i >= s.size()) return false;
      char d = s[(*i)++];
      if (d == '}') break;
      if (d != ',') return false;
    }
    *out = m;
    return true;
  }
  return false;
}

static bool i32(const std::string& s, int* out) {
  if (s.empty() || s.size() > 11) return false;
  size_t k = 0;
  bool neg = false;
  if (s[0] == '-') { neg = true; k = 1; }
  if (k >= s.size()) return false;
  int64_t v = 0;
  for (; k < s.size(); ++k) {
    if (s[k] < '0' || s[k] > '9') return false;
    v = v * 10 + (s[k] - '0');
  }
  if (neg) v = -v;
  if (v < INT32_MIN || v > INT32_MAX) return false;
  *out = (int)v;
  return true;
}

static bool hasnul(const std::string& s) { return s.find('\0') != std::string::npos; }

int main(int argc, char** argv) {
  if (argc < 3) { fprintf(stderr, "usage: c18_harness <ops> <out>\n"); return 2; }
  std::ifstream in(argv[1]);
  FILE* out = fopen(argv[2], "w");
  if (!in || !out) { fprintf(stderr, "cannot open files\n"); return 2; }
  RimeApi* api = rime_get_api();
  the<Config::Component> ucomp;
  the<Config> cpp(new Config);
  RimeConfig ac = {nullptr};
  RimeConfig alias_api = {nullptr};
  an<ConfigItem> alias_cpp;
  bool use_api = false;
  bool have_alias = false;
  int n_new = 0;
  auto cfg = [&]() -> Config* { return use_api ? reinterpret_cast<Config*>(ac.ptr) : cpp.get(); };
  std::string line;
  while (std::getline(in, line)) {
    while (!line.empty() && (line.back() == '\r' || line.back() == ' ')) line.pop_back();
    std::vector<std::string> p = split(line, ' ');
    std::string res = "bad-op";
    if (p.size() == 2 && p[0] == "new" && (p[1] == "cpp" || p[1] == "api")) {
      ++n_new;
      use_api = p[1] == "api";
      cpp.reset(new Config);
      if (ac.ptr) api->config_close(&ac);
      if (alias_api.ptr) api->config_close(&alias_api);
      alias_cpp = nullptr;
      have_alias = false;
      if (use_api) api->config_init(&ac);
      res = "ok";
    } else if (p.size() >= 3 && p[0] == "set" && hexok(p[1])) {
      std::string path = unhex(p[1]);
      const std::string& ty = p[2];
      bool ok = false, r = false;
      if (use_api && hasnul(path)) {
        ok = false;
      } else if (ty == "s" && p.size() == 4 && hexok(p[3])) {
        std::string v = unhex(p[3]);
        if (!(use_api && hasnul(v))) {
          ok = true;
          r = use_api ? api->config_set_string(&ac, path.c_str(), v.c_str()) : cpp->SetString(path, v);
        }
      } else if (ty == "i" && p.size() == 4) {
        int v;
        if (i32(p[3], &v)) {
          ok = true;
          r = use_api ? api->config_set_int(&ac, path.c_str(), v) : cpp->SetInt(path, v);
        }
      } else if (ty == "b" && p.size() == 4 && (p[3] == "0" || p[3] == "1")) {
        ok = true;
        bool v = p[3] == "1";
        r = use_api ? api->config_set_bool(&ac, path.c_str(), v ? True : False) : cpp->SetBool(path, v);
      } else if (ty == "d" && p.size() == 5 && p[3].size() == 16 && hexok(p[3]) && hexok(p[4])) {
        uint64_t bits = strtoull(p[3].c_str(), nullptr, 16);
        double d;
        memcpy(&d, &bits, 8);
        if (std::to_string(d) == unhex(p[4])) {
          ok = true;
          r = use_api ? api->config_set_double(&ac, path.c_str(), d) : cpp->SetDouble(path, d);
        } else {
          res = "fmt-mismatch " + hex(std::to_string(d));
        }
      } else if (ty == "list" && p.size() == 3) {
        ok = true;
        r = use_api ? api->config_create_list(&ac, path.c_str()) : cpp->SetItem(path, New<ConfigList>());
      } else if (ty == "map" && p.size() == 3) {
        ok = true;
        r = use_api ? api->config_create_map(&ac, path.c_str()) : cpp->SetItem(path, New<ConfigMap>());
      } else if (ty == "null" && p.size() == 3) {
        ok = true;
        r = use_api ? api->config_clear(&ac, path.c_str()) : cpp->SetItem(path, nullptr);
      }
      if (ok) res = std::string("ret=") + (r ? "1" : "0");
    } else if (p.size() == 3 && p[0] == "get" && hexok(p[1]) && p[2] != "is") {
      std::string path = unhex(p[1]);
      const std::string& ty = p[2];
      if (use_api && hasnul(path)) {
        // not expressible through the C API
      } else if (ty == "s") {
        if (use_api) {
          // config_get_string copies into a caller buffer (C20's subject); use a buffer that always fits
          std::vector<char> buf(1 << 16, 0);
          memcpy(buf.data(), "SENT", 5);
          bool r = api->config_get_string(&ac, path.c_str(), buf.data(), buf.size());
          const char* cs = api->config_get_cstring(&ac, path.c_str());
          std::string v(buf.data());
          res = std::string("ret=") + (r ? "1" : "0") + " val=" + hex(v);
          if (r != (cs != nullptr) || (cs && v != cs)) res += " cstring-differs";
        } else {
          std::string v = "SENT";
          bool r = cpp->GetString(path, &v);
          res = std::string("ret=") + (r ? "1" : "0") + " val=" + hex(v);
        }
      } else if (ty == "i") {
        int v = -77777;
        bool r = use_api ? api->config_get_int(&ac, path.c_str(), &v) : cpp->GetInt(path, &v);
        res = std::string("ret=") + (r ? "1" : "0") + " val=" + std::to_string(v);
      } else if (ty == "b") {
        if (use_api) {
          Bool v = 7;
          bool r = api->config_get_bool(&ac, path.c_str(), &v);
          res = std::string("ret=") + (r ? "1" : "0") + " val=" + std::to_string(v);
        } else {
          // a C++ bool cannot hold a sentinel; use the two-run trick: the value must be the same from both presets
          bool v1 = false, v2 = true;
          bool r1 = cpp->GetBool(path, &v1);
          bool r2 = cpp->GetBool(path, &v2);
          int shown = (v1 == v2) ? (v1 ? 1 : 0) : 7;
          res = std::string("ret=") + (r1 ? "1" : "0") + " val=" + std::to_string(shown);
          if (r1 != r2) res += " unstable";
        }
      } else if (ty == "d") {
        double v = -77777.0;
        bool r = use_api ? api->config_get_double(&ac, path.c_str(), &v) : cpp->GetDouble(path, &v);
        char b[64];
        uint64_t bits;
        memcpy(&bits, &v, 8);
        snprintf(b, sizeof b, "%016" PRIx64, bits);
        res = std::string("ret=") + (r ? "1" : "0") + " val=" + b;
      } else if (ty == "size") {
        size_t n = use_api ? api->config_list_size(&ac, path.c_str()) : cpp->GetListSize(path);
        res = "ret=1 val=" + std::to_string(n);
      } else if (ty == "type") {
        an<ConfigItem> it = cfg()->GetItem(path);
        const char* t = !it ? "null" : it->type() == ConfigItem::kNull ? "null" : it->type() == ConfigItem::kScalar ? "scalar"
                        : it->type() == ConfigItem::kList ? "list" : "map";
        res = std::string("ret=1 val=") + t;
      }
    } else if (p.size() == 3 && p[0] == "get" && hexok(p[1]) && p[2] == "is") {
      std::string path = unhex(p[1]);
      Config* k = cfg();
      res = std::string("ret=1 val=") + (k->IsNull(path) ? "1" : "0") + (k->IsValue(path) ? "1" : "0") + (k->IsList(path) ? "1" : "0") +
            (k->IsMap(path) ? "1" : "0");
    } else if (p.size() == 3 && p[0] == "iter" && hexok(p[1]) && (p[2] == "list" || p[2] == "map")) {
      std::string path = unhex(p[1]);
      if (!hasnul(path)) {
        RimeConfig rc = {cfg()};
        RimeConfigIterator it;
        memset(&it, 0xAB, sizeof it);   // Begin must initialise every field it later relies on
        Bool b = p[2] == "list" ? api->config_begin_list(&it, &rc, path.c_str()) : api->config_begin_map(&it, &rc, path.c_str());
        if (!b) {
          res = "ret=0";
          if (it.list || it.map) res += " iterator-not-cleared";
        } else {
          std::string items;
          int n = 0;
          while (api->config_next(&it)) {
            if (n++) items += ",";
            items += hex(std::string(it.key)) + ":" + hex(std::string(it.path));
            if (it.index != n - 1) items += "!index";
            if (n > 100000) break;
          }
          api->config_end(&it);
          if (it.list || it.map || it.key || it.path) items += "!end-not-cleared";
          res = "ret=1 n=" + std::to_string(n) + " items=" + (n ? items : std::string("-"));
        }
      }
    } else if (p.size() == 2 && p[0] == "sign" && hexok(p[1])) {
      std::string signer = unhex(p[1]);
      if (!hasnul(signer)) {
        Deployer& d = Service::instance().deployer();
        d.distribution_code_name = "verif";
        d.distribution_version = "1";
        RimeConfig rc = {cfg()};
        Bool b = api->config_update_signature(&rc, signer.c_str());
        if (cfg()->GetValue("signature/modified_time")) cfg()->SetString("signature/modified_time", "T");
        if (cfg()->GetValue("signature/rime_version")) cfg()->SetString("signature/rime_version", "V");
        res = std::string("ret=") + (b ? "1" : "0");
      }
    } else if (p.size() == 3 && p[0] == "setitem" && hexok(p[1]) && hexok(p[2])) {
      std::string dst = unhex(p[1]), src = unhex(p[2]);
      if (use_api) {
        if (!hasnul(dst) && !hasnul(src)) {
          RimeConfig v = {nullptr};
          bool g = api->config_get_item(&ac, src.c_str(), &v);
          bool r = g && api->config_set_item(&ac, dst.c_str(), &v);
          if (v.ptr) api->config_close(&v);
          res = std::string("ret=") + (r ? "1" : "0");
        }
      } else {
        bool r = cpp->SetItem(dst, cpp->GetItem(src));
        res = std::string("ret=") + (r ? "1" : "0");
      }
    } else if (p.size() == 3 && p[0] == "setraw" && hexok(p[1])) {
      size_t i = 0;
      an<ConfigItem> t;
      std::string path = unhex(p[1]);
      if (undump(p[2], &i, &t) && i == p[2].size()) {
        bool r = cfg()->SetItem(path, t);
        res = std::string("ret=") + (r ? "1" : "0");
      }
    } else if (p.size() >= 3 && p[0] == "ref") {
      // navigate with operator[]; the chain of entry references is built recursively so that each lives while its child is used
      std::vector<std::string> steps = p[1] == "-" ? std::vector<std::string>() : split(p[1], ',');
      bool okst = true;
      for (auto& s_ : steps) okst = okst && s_.size() >= 2 && (s_[0] == 'k' ? hexok(s_.substr(1)) : s_[0] == 'i');
      std::function<void(ConfigItemRef&, size_t)> go = [&](ConfigItemRef& r, size_t k) {
        if (k < steps.size()) {
          if (steps[k][0] == 'k') { ConfigMapEntryRef e = r[unhex(steps[k].substr(1))]; go(e, k + 1); }
          else { ConfigListEntryRef e = r[(size_t)strtoull(steps[k].c_str() + 1, nullptr, 10)]; go(e, k + 1); }
          return;
        }
        const std::string& a = p[2];
        if (a == "tos" && p.size() == 3) res = "val=" + hex(r.ToString());
        else if (a == "toi" && p.size() == 3) res = "val=" + std::to_string(r.ToInt());
        else if (a == "tob" && p.size() == 3) res = std::string("val=") + (r.ToBool() ? "1" : "0");
        else if (a == "is" && p.size() == 3)
          res = std::string("val=") + (r.IsNull() ? "1" : "0") + (r.IsValue() ? "1" : "0") + (r.IsList() ? "1" : "0") + (r.IsMap() ? "1" : "0");
        else if (a == "size" && p.size() == 3) res = "val=" + std::to_string(r.size());
        else if (a == "has" && p.size() == 4 && hexok(p[3])) res = std::string("val=") + (r.HasKey(unhex(p[3])) ? "1" : "0");
        else if (a == "assign" && p.size() == 5 && p[3] == "s" && hexok(p[4])) { r = unhex(p[4]); res = "ok"; }
        else if (a == "assign" && p.size() == 5 && p[3] == "i") { int v; if (i32(p[4], &v)) { r = v; res = "ok"; } }
        else if (a == "assign" && p.size() == 5 && p[3] == "b") { r = (p[4] == "1"); res = "ok"; }
        else if (a == "assign" && p.size() == 4 && p[3] == "null") { r = an<ConfigItem>(); res = "ok"; }
        else if (a == "clear" && p.size() == 3) { r.Clear(); res = "ok"; }
        else if (a == "append" && p.size() == 5 && p[3] == "s" && hexok(p[4])) { res = r.Append(New<ConfigValue>(unhex(p[4]))) ? "ok" : "fail"; }
        else if (a == "aslist" && p.size() == 3) { r.AsList(); res = "ok"; }
        else if (a == "asmap" && p.size() == 3) { r.AsMap(); res = "ok"; }
      };
      if (okst) go(*cfg(), 0);
    } else if (p.size() >= 3 && p[0] == "node" && hexok(p[1])) {
      an<ConfigItem> it = cfg()->GetItem(unhex(p[1]));
      auto l = As<ConfigList>(it);
      auto m = As<ConfigMap>(it);
      const std::string& a = p[2];
      auto num = [&](const std::string& t) { return (size_t)strtoull(t.c_str(), nullptr, 10); };
      bool is_list_op = a == "valueat" || a == "resize" || a == "clearlist" || a == "insert" || a == "setat" || a == "appendl";
      if (is_list_op && !l) res = "no-list";
      else if (!is_list_op && !m) res = "no-map";
      else if (a == "valueat" && p.size() == 4) { auto v = l->GetValueAt(num(p[3])); res = v ? "val=" + hex(v->str()) : std::string("val=null"); }
      else if (a == "mapvalue" && p.size() == 4 && hexok(p[3])) { auto v = m->GetValue(unhex(p[3])); res = v ? "val=" + hex(v->str()) : std::string("val=null"); }
      else if (a == "haskey" && p.size() == 4 && hexok(p[3])) res = std::string("val=") + (m->HasKey(unhex(p[3])) ? "1" : "0");
      else if (a == "resize" && p.size() == 4) { res = l->Resize(num(p[3])) ? "ok" : "fail"; }
      else if (a == "clearlist" && p.size() == 3) { res = l->Clear() ? "ok" : "fail"; }
      else if (a == "clearmap" && p.size() == 3) { res = m->Clear() ? "ok" : "fail"; }
      else if (a == "insert" && p.size() == 6 && p[4] == "s" && hexok(p[5])) { res = l->Insert(num(p[3]), New<ConfigValue>(unhex(p[5]))) ? "ok" : "fail"; }
      else if (a == "setat" && p.size() == 6 && p[4] == "s" && hexok(p[5])) { res = l->SetAt(num(p[3]), New<ConfigValue>(unhex(p[5]))) ? "ok" : "fail"; }
      else if (a == "appendl" && p.size() == 5 && p[3] == "s" && hexok(p[4])) { res = l->Append(New<ConfigValue>(unhex(p[4]))) ? "ok" : "fail"; }
    } else if (p.size() >= 3 && p[0] == "customizer") {
      namespace sfs = std::filesystem;
      sfs::path dir = std::string(argv[2]) + ".cz";
      sfs::remove_all(dir);
      sfs::create_directories(dir / "shared");
      sfs::create_directories(dir / "user");
      size_t i = 0;
      an<ConfigItem> src;
      bool twice = p[1] == "1";
      p.erase(p.begin() + 1);
      size_t n = p.size() >= 3 ? strtoull(p[2].c_str(), nullptr, 10) : 0;
      bool ok = p.size() >= 3 && undump(p[1], &i, &src) && i == p[1].size() && p.size() == 3 + 2 * n;
      auto patch = New<ConfigMap>();
      for (size_t k = 0; ok && k < n; ++k) {
        an<ConfigItem> v;
        size_t j = 0;
        ok = hexok(p[3 + 2 * k]) && undump(p[4 + 2 * k], &j, &v) && j == p[4 + 2 * k].size();
        if (ok) patch->Set(unhex(p[3 + 2 * k]), v);
      }
      if (ok) {
        Config s0, c0;
        s0.SetItem("", src);
        s0.SaveToFile(dir / "shared" / "x.yaml");
        c0.SetItem("patch", patch);
        c0.SaveToFile(dir / "user" / "x.custom.yaml");
        Customizer cz(dir / "shared" / "x.yaml", dir / "user" / "x.yaml", "config_version");
        bool r1 = cz.UpdateConfigFile();
        bool r2 = twice ? cz.UpdateConfigFile() : false;
        std::string sum = std::to_string(Checksum(dir / "user" / "x.custom.yaml"));
        Config d0;
        std::string o = "none";
        if (sfs::exists(dir / "user" / "x.yaml") && d0.LoadFromFile(dir / "user" / "x.yaml")) { o.clear(); dump(d0.GetItem(""), &o); }
        res = std::string("cz ret=") + (r1 ? "1" : "0") + " again=" + (r2 ? "1" : "0") + " checksum=" + sum + " tree=" + o;
      }
      sfs::remove_all(dir);
    } else if (p.size() == 3 && p[0] == "uopen" && hexok(p[1]) && !use_api) {
      std::filesystem::path ud = std::string(argv[2]) + ".ud";
      std::filesystem::create_directories(ud);
      Service::instance().deployer().user_data_dir = ud;
      bool as = p[2] == "1";
      cpp.reset();
      ucomp.reset(new ConfigComponent<ConfigLoader, UserConfigResourceProvider>([&](ConfigLoader* l) { l->set_auto_save(as); }));
      cpp.reset(ucomp->Create(unhex(p[1])));
      std::string o;
      dump(cpp->GetItem(""), &o);
      res = "ok tree=" + o;
    } else if (p.size() == 1 && p[0] == "save") {
      res = std::string("save ret=") + (cfg()->Save() ? "1" : "0");
    } else if (p.size() == 1 && p[0] == "modified") {
      res = std::string("modified=") + (cfg()->modified() ? "1" : "0");
    } else if (p.size() == 2 && (p[0] == "ufile" || p[0] == "urm") && hexok(p[1])) {
      std::filesystem::path f = std::filesystem::path(std::string(argv[2]) + ".ud") / (unhex(p[1]) + ".yaml");
      if (p[0] == "urm") { std::error_code ec; std::filesystem::remove(f, ec); res = "ok"; }
      else if (!std::filesystem::exists(f)) res = "file none";
      else {
        Config fresh;
        std::string o;
        if (fresh.LoadFromFile(f)) { dump(fresh.GetItem(""), &o); res = "file tree=" + o; } else res = "file unloadable";
      }
    } else if (p.size() == 2 && p[0] == "loadfile" && (p[1] == "missing" || p[1] == "bad" || p[1] == "empty")) {
      std::string f = std::string(argv[2]) + ".lf.yaml";
      std::remove(f.c_str());
      if (p[1] != "missing") {
        std::ofstream o(f, std::ios::binary);
        if (p[1] == "bad") o << "a: [1, 2\nb: {";
      }
      bool r = cfg()->LoadFromFile(rime::path(f));
      std::string o;
      dump(cfg()->GetItem(""), &o);
      res = std::string("load ok=") + (r ? "1" : "0") + " tree=" + o;
      std::remove(f.c_str());
    } else if (p.size() == 1 && p[0] == "dump") {
      std::string o;
      dump(cfg()->GetItem(""), &o);
      res = "tree=" + o;
    } else if (p.size() == 1 && p[0] == "emit") {
      std::ostringstream oss;
      bool r = cfg()->SaveToStream(oss);
      res = std::string("emit ok=") + (r ? "1" : "0") + " doc=" + hex(oss.str());
    } else if (p.size() == 2 && p[0] == "parse" && hexok(p[1])) {
      std::string doc = unhex(p[1]);
      bool r;
      if (use_api) {
        if (hasnul(doc)) { fprintf(out, "bad-op\n"); continue; }
        r = api->config_load_string(&ac, doc.c_str());
      } else {
        std::istringstream iss(doc);
        r = cpp->LoadFromStream(iss);
      }
      std::string o;
      dump(cfg()->GetItem(""), &o);
      res = std::string("parse ok=") + (r ? "1" : "0") + " tree=" + o;
    } else if (p.size() == 1 && p[0] == "rt") {
      std::ostringstream oss;
      bool s = cfg()->SaveToStream(oss);
      Config fresh;
      std::istringstream iss(oss.str());
      bool l = fresh.LoadFromStream(iss);
      std::string o;
      dump(fresh.GetItem(""), &o);
      res = std::string("rt save=") + (s ? "1" : "0") + " load=" + (l ? "1" : "0") + " tree=" + (l ? o : "-");
    } else if (p.size() == 1 && p[0] == "frt") {
      // round trip through a FILE: SaveToFile to the file this config was saved to before (one file per `new`), then
      // LoadFromFile into a fresh config; the current config stays as it is
      std::string f = std::string(argv[2]) + ".cfg" + std::to_string(n_new) + ".yaml";
      bool s = cfg()->SaveToFile(rime::path(f));
      Config fresh;
      bool l = fresh.LoadFromFile(rime::path(f));
      std::string o;
      dump(fresh.GetItem(""), &o);
      res = std::string("frt save=") + (s ? "1" : "0") + " load=" + (l ? "1" : "0") + " tree=" + (l ? o : "-");
    } else if (p.size() == 2 && p[0] == "alias" && hexok(p[1])) {
      std::string path = unhex(p[1]);
      if (use_api) {
        if (!hasnul(path)) {
          if (alias_api.ptr) api->config_close(&alias_api);
          bool r = api->config_get_item(&ac, path.c_str(), &alias_api);
          have_alias = r;
          res = r ? "ok" : "fail";
        }
      } else {
        alias_cpp = cpp->GetItem(path);
        have_alias = true;
        res = "ok";
      }
    } else if (p.size() == 1 && p[0] == "aliasdump") {
      if (have_alias) {
        std::string o;
        dump(use_api ? reinterpret_cast<Config*>(alias_api.ptr)->GetItem("") : alias_cpp, &o);
        res = "tree=" + o;
      } else {
        res = "no-alias";
      }
    } else if (p.size() == 2 && p[0] == "raw") {
      size_t i = 0;
      an<ConfigItem> t;
      if (undump(p[1], &i, &t) && i == p[1].size()) {
        cfg()->SetItem("", t);   // TraverseWrite("") assigns the root
        res = "ok";
      }
    }
    fprintf(out, "%s\n", res.c_str());
    fflush(out);
  }
  if (ac.ptr) api->config_close(&ac);
  if (alias_api.ptr) api->config_close(&alias_api);
  fclose(out);
  return 0;
}
