// C19 harness: runs the REAL rime::KeyEvent / rime::KeySequence / key_table lookups on op lines
// and prints one observation line per op, in the protocol of lean/Driver/C19.lean:
//   repr <keycode> <mask>      -> hex of KeyEvent(keycode, mask).repr()
//   parse <hex>                -> ok <keycode> <mask> | fail
//   seqrepr <k:m,k:m,...|->    -> hex of KeySequence.repr()
//   seqparse <hex>             -> ok <k:m,...|-> | fail
//   name <keycode>             -> hex of RimeGetKeyName | null
//   code <hex>                 -> RimeGetKeycodeByName(c_str)
//   modname <mask>             -> hex of RimeGetModifierName | null
//   modcode <hex>              -> RimeGetModifierByName(c_str)
//   sim <hex>                  -> ok | fail   (RimeApi::simulate_key_sequence on a fresh session)
//   ctor <hex>                 -> <keycode> <mask> of KeyEvent(text)      (the constructor: Parse, or 0 0 when it fails)
//   seqctor <hex>              -> <k:m,...|-> of KeySequence(text)        (the constructor: Parse, or empty when it fails)
//   kbind <accept hex> <send|seq> <target hex> <k> <m>
//                              -> rec <k:m,...|-> : a fresh engine whose schema has the processors [key_binder, recorder] and
//                                 `key_binder/bindings: [{when: always, accept: <text>, send|send_sequence: <text>}]`
//                                 (KeyBindings::LoadBindings of gear/key_binder.cc); the key (k, m) is pressed and the recorder
//                                 lists the key events that reach it
//   navbind <key hex> <k> <m>  -> caret <n> : processors [navigator] with `navigator/bindings: {<text>: home}`
//                                 (KeyBindingProcessor::LoadConfig of gear/key_binding_processor_impl.h), input "abc" with the
//                                 caret at 3, the key (k, m) pressed
// key codes / masks: decimal 32-bit patterns of the C ints.
// usage: c19_harness <ops-file> <out-file> [<workdir for sim>]
#include "hcommon.h"
#include <cinttypes>
#include <rime/config.h>
#include <rime/context.h>
#include <rime/engine.h>
#include <rime/key_event.h>
#include <rime/key_table.h>
#include <rime/processor.h>
#include <rime/registry.h>
#include <rime/schema.h>

using namespace vh;

static bool u32(const std::string& s, uint32_t* out) {
  if (s.empty() || s.size() > 10) return false;
  uint64_t v = 0;
  for (char c : s) {
    if (c < '0' || c > '9') return false;
    v = v * 10 + (c - '0');
  }
  if (v > 0xffffffffull) return false;
  *out = (uint32_t)v;
  return true;
}

static bool hexok(const std::string& h) {
  if (h == "-") return true;
  if (h.empty() || h.size() % 2) return false;
  for (char c : h)
    if (!((c >= '0' && c <= '9') || (c >= 'a' && c <= 'f') || (c >= 'A' && c <= 'F'))) return false;
  return true;
}

static std::vector<std::string> split(const std::string& s, char sep) {
  std::vector<std::string> out;
  size_t st = 0;
  for (;;) {
    size_t f = s.find(sep, st);
    if (f == std::string::npos) { out.push_back(s.substr(st)); break; }
    out.push_back(s.substr(st, f - st));
    st = f + 1;
  }
  return out;
}

static std::string show(const rime::KeySequence& ks) {
  if (ks.empty()) return "-";
  std::string o;
  for (size_t i = 0; i < ks.size(); ++i) {
    if (i) o += ",";
    o += std::to_string((uint32_t)ks[i].keycode()) + ":" + std::to_string((uint32_t)ks[i].modifier());
  }
  return o;
}

// the last processor of the kbind engine: lists what reaches it
static std::string g_rec;
struct RecProcessor : rime::Processor {
  explicit RecProcessor(const rime::Ticket& t) : rime::Processor(t) {}
  rime::ProcessResult ProcessKeyEvent(const rime::KeyEvent& e) override {
    if (!g_rec.empty()) g_rec += ",";
    g_rec += std::to_string((uint32_t)e.keycode()) + ":" + std::to_string((uint32_t)e.modifier());
    return rime::kAccepted;
  }
};

static rime::an<rime::ConfigList> str_list(std::initializer_list<const char*> l) {
  auto r = rime::New<rime::ConfigList>();
  for (auto x : l) r->Append(rime::New<rime::ConfigValue>(x));
  return r;
}

int main(int argc, char** argv) {
  if (argc < 3) { fprintf(stderr, "usage: c19_harness <ops> <out> [workdir]\n"); return 2; }
  std::ifstream in(argv[1]);
  FILE* out = fopen(argv[2], "w");
  if (!in || !out) { fprintf(stderr, "cannot open files\n"); return 2; }
  std::string workdir = argc > 3 ? argv[3] : "";
  RimeApi* api = nullptr;
  RimeSessionId session = 0;
  std::string line;
  while (std::getline(in, line)) {
    while (!line.empty() && (line.back() == '\r' || line.back() == ' ')) line.pop_back();
    std::vector<std::string> p = split(line, ' ');
    std::string res = "bad-op";
    uint32_t a, b;
    if (p.size() == 3 && p[0] == "repr" && u32(p[1], &a) && u32(p[2], &b)) {
      rime::KeyEvent e((int)a, (int)b);
      res = hex(e.repr());
    } else if (p.size() == 2 && p[0] == "parse" && hexok(p[1])) {
      rime::KeyEvent e;
      if (e.Parse(unhex(p[1])))
        res = "ok " + std::to_string((uint32_t)e.keycode()) + " " + std::to_string((uint32_t)e.modifier());
      else
        res = "fail";
    } else if (p.size() == 2 && p[0] == "seqrepr") {
      rime::KeySequence ks;
      bool ok = true;
      if (p[1] != "-") {
        for (const std::string& ev : split(p[1], ',')) {
          std::vector<std::string> km = split(ev, ':');
          if (km.size() != 2 || !u32(km[0], &a) || !u32(km[1], &b)) { ok = false; break; }
          ks.push_back(rime::KeyEvent((int)a, (int)b));
        }
      }
      if (ok) res = hex(ks.repr());
    } else if (p.size() == 2 && p[0] == "seqparse" && hexok(p[1])) {
      rime::KeySequence ks;
      res = ks.Parse(unhex(p[1])) ? "ok " + show(ks) : "fail";
    } else if (p.size() == 2 && p[0] == "name" && u32(p[1], &a)) {
      const char* n = RimeGetKeyName((int)a);
      res = n ? hex(std::string(n)) : "null";
    } else if (p.size() == 2 && p[0] == "code" && hexok(p[1])) {
      res = std::to_string((uint32_t)RimeGetKeycodeByName(unhex(p[1]).c_str()));
    } else if (p.size() == 2 && p[0] == "modname" && u32(p[1], &a)) {
      const char* n = RimeGetModifierName((int)a);
      res = n ? hex(std::string(n)) : "null";
    } else if (p.size() == 2 && p[0] == "modcode" && hexok(p[1])) {
      res = std::to_string((uint32_t)RimeGetModifierByName(unhex(p[1]).c_str()));
    } else if (p.size() == 2 && p[0] == "sim" && hexok(p[1]) && !workdir.empty()) {
      if (!api) api = start(workdir, workdir, false);
      session = api->create_session();
      res = api->simulate_key_sequence(session, unhex(p[1]).c_str()) ? "ok" : "fail";
      api->destroy_session(session);
    } else if (p.size() == 2 && p[0] == "ctor" && hexok(p[1])) {
      rime::KeyEvent e(unhex(p[1]));
      res = std::to_string((uint32_t)e.keycode()) + " " + std::to_string((uint32_t)e.modifier());
    } else if (p.size() == 2 && p[0] == "seqctor" && hexok(p[1])) {
      rime::KeySequence ks(unhex(p[1]));
      res = show(ks);
    } else if (p.size() == 6 && p[0] == "kbind" && hexok(p[1]) && (p[2] == "send" || p[2] == "seq") && hexok(p[3]) &&
               u32(p[4], &a) && u32(p[5], &b) && !workdir.empty()) {
      if (!api) api = start(workdir, workdir, false);
      static bool registered = false;
      if (!registered) {
        rime::Registry::instance().Register("c19_rec", new rime::Component<RecProcessor>);
        registered = true;
      }
      auto* config = new rime::Config;
      auto engine_map = rime::New<rime::ConfigMap>();
      engine_map->Set("processors", str_list({"key_binder", "c19_rec"}));
      config->SetItem("engine", engine_map);
      auto binding = rime::New<rime::ConfigMap>();
      binding->Set("when", rime::New<rime::ConfigValue>("always"));
      binding->Set("accept", rime::New<rime::ConfigValue>(unhex(p[1])));
      binding->Set(p[2] == "send" ? "send" : "send_sequence", rime::New<rime::ConfigValue>(unhex(p[3])));
      auto bindings = rime::New<rime::ConfigList>();
      bindings->Append(binding);
      auto kb = rime::New<rime::ConfigMap>();
      kb->Set("bindings", bindings);
      config->SetItem("key_binder", kb);
      std::unique_ptr<rime::Engine> engine(rime::Engine::Create());
      engine->ApplySchema(new rime::Schema("c19_bind", config));
      g_rec.clear();
      engine->ProcessKey(rime::KeyEvent((int)a, (int)b));
      res = "rec " + (g_rec.empty() ? std::string("-") : g_rec);
    } else if (p.size() == 4 && p[0] == "navbind" && hexok(p[1]) && u32(p[2], &a) && u32(p[3], &b) && !workdir.empty()) {
      if (!api) api = start(workdir, workdir, false);
      auto* config = new rime::Config;
      auto engine_map = rime::New<rime::ConfigMap>();
      engine_map->Set("processors", str_list({"navigator"}));
      config->SetItem("engine", engine_map);
      auto bindings = rime::New<rime::ConfigMap>();
      bindings->Set(unhex(p[1]), rime::New<rime::ConfigValue>("home"));
      auto nav = rime::New<rime::ConfigMap>();
      nav->Set("bindings", bindings);
      config->SetItem("navigator", nav);
      std::unique_ptr<rime::Engine> engine(rime::Engine::Create());
      engine->ApplySchema(new rime::Schema("c19_nav", config));
      engine->context()->set_input("abc");
      engine->ProcessKey(rime::KeyEvent((int)a, (int)b));
      res = "caret " + std::to_string(engine->context()->caret_pos());
    }
    fputs(res.c_str(), out);
    fputc('\n', out);
    fflush(out);  // a sanitizer abort must not lose the observations already made
  }
  if (api) api->finalize();
  fclose(out);
  return 0;
}
