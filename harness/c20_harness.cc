// C20 harness: guard-byte grid over every API function that copies a string into a caller buffer.
// Prints one line per call:  <fn> <srchex> <n> <before-hex> <after-hex> <ret>
// A function name may carry a `#variant` suffix (same copy site, another way of reaching it): #missing (no such key),
// #list / #map (the node is not a string), #int (a scalar stored as a number), #long (stored lengths around 256 / 1024 / 4096).
// usage: c20_harness <workdir> <maxlen> <maxn>
#include "hcommon.h"
#include <rime/service.h>
#include <rime/deployer.h>
#include <rime_api_deprecated.h>

using namespace vh;

static void emit(const char* fn, const std::string& src, size_t n, const std::string& before,
                 const std::string& after, int ret) {
  printf("%s %s %zu %s %s %d\n", fn, hex(src).c_str(), n, hex(before).c_str(), hex(after).c_str(), ret);
}

template <class F>
static void grid_call(const char* fn, const std::string& src, size_t n, F call) {
  // the guard region after the buffer is longer than the source string: a write at ANY offset a copy of this string could
  // compute (not only the byte right after the buffer) lands inside the block and shows in the image
  const size_t guard = src.size() + 48;
  // heap block of exactly n+guard bytes; image printed whole
  std::vector<char> buf(n + guard, (char)0xAA);
  std::string before(buf.data(), buf.size());
  int ret = call(buf.data(), n);
  emit(fn, src, n, before, std::string(buf.data(), buf.size()), ret);
}

int main(int argc, char** argv) {
  std::string dir = argv[1];
  size_t maxlen = atoi(argv[2]), maxn = atoi(argv[3]);
  RimeApi* api = start(dir, dir, false);
  RimeSessionId s = api->create_session();
  rime::Deployer& dep = rime::Service::instance().deployer();
  RimeConfig cfg = {0};
  api->config_init(&cfg);
  // two string families per length: ASCII, and multi-byte UTF-8 (2-, 3- and 4-byte characters, so that every
  // buffer size also falls inside a character)
  static const char* kUnits[] = {"\xc3\xa9", "\xe4\xb8\xad", "\xf0\xa0\x80\x80", "x"};
  // pass 2: ASCII again, the directory spelled with a trailing separator (as a client may pass it in RimeTraits)
  for (size_t pass = 0; pass < 3; ++pass)
  for (size_t len = 0; len <= maxlen; ++len) {
    std::string v;
    if (pass == 0 || pass == 2) {
      if (pass == 2 && len < 3) continue;
      for (size_t i = 0; i < len; ++i) v.push_back("luna_pinyin"[i % 11]);
    } else {
      if (len < 2) continue;
      for (size_t u = len % 3; v.size() < len; ++u) {
        std::string unit = kUnits[u % 4];
        if (v.size() + unit.size() > len) unit = "y";
        v += unit;
      }
    }
    std::string p = len ? "/" + v.substr(1) : v;
    if (pass == 2) p[p.size() - 1] = '/';
    // length 0: a property / config value that was set and then set to the empty string (the getters report "no value")
    if (!len) api->set_property(s, "k", "x");
    api->set_property(s, "k", v.c_str());
    if (len) api->select_schema(s, v.c_str());
    api->config_set_string(&cfg, "k", v.c_str());
    rime::path pp(p); dep.shared_data_dir = pp; dep.user_data_dir = pp; dep.prebuilt_data_dir = pp;
    dep.staging_dir = pp; dep.sync_dir = pp;
    std::string sync = dep.user_data_sync_dir().string();
    for (size_t n = 1; n <= maxn; ++n) {
      grid_call("RimeGetProperty", v, n, [&](char* b, size_t k) { return api->get_property(s, "k", b, k); });
      if (len) grid_call("RimeGetCurrentSchema", v, n, [&](char* b, size_t k) { return api->get_current_schema(s, b, k); });
      grid_call("RimeConfigGetString", v, n, [&](char* b, size_t k) { return api->config_get_string(&cfg, "k", b, k); });
      grid_call("RimeGetUserDataSyncDir", sync, n, [&](char* b, size_t k) { api->get_user_data_sync_dir(b, k); return 1; });
      grid_call("RimeGetSharedDataDirSecure", p, n, [&](char* b, size_t k) { api->get_shared_data_dir_s(b, k); return 1; });
      grid_call("RimeGetUserDataDirSecure", p, n, [&](char* b, size_t k) { api->get_user_data_dir_s(b, k); return 1; });
      grid_call("RimeGetPrebuiltDataDirSecure", p, n, [&](char* b, size_t k) { api->get_prebuilt_data_dir_s(b, k); return 1; });
      grid_call("RimeGetStagingDirSecure", p, n, [&](char* b, size_t k) { api->get_staging_dir_s(b, k); return 1; });
      grid_call("RimeGetSyncDirSecure", p, n, [&](char* b, size_t k) { api->get_sync_dir_s(b, k); return 1; });
    }
    dep.user_data_dir = rime::path(dir); dep.staging_dir = rime::path(dir + "/build"); dep.shared_data_dir = rime::path(dir); dep.prebuilt_data_dir = rime::path(dir + "/build");
  }
  // ---- other ways of reaching the same sites
  {
    api->config_create_list(&cfg, "c20_list");
    api->config_create_map(&cfg, "c20_map");
    api->config_set_int(&cfg, "c20_int", -1234567);
    api->config_set_string(&cfg, "c20_map/inner", "x");
    for (size_t n = 1; n <= maxn; ++n) {
      grid_call("RimeGetProperty#missing", "", n, [&](char* b, size_t k) { return api->get_property(s, "c20_no_such_property", b, k); });
      grid_call("RimeConfigGetString#missing", "", n, [&](char* b, size_t k) { return api->config_get_string(&cfg, "c20_no_such_key", b, k); });
      grid_call("RimeConfigGetString#list", "", n, [&](char* b, size_t k) { return api->config_get_string(&cfg, "c20_list", b, k); });
      grid_call("RimeConfigGetString#map", "", n, [&](char* b, size_t k) { return api->config_get_string(&cfg, "c20_map", b, k); });
      grid_call("RimeConfigGetString#int", "-1234567", n, [&](char* b, size_t k) { return api->config_get_string(&cfg, "c20_int", b, k); });
    }
    // long values: internal fixed-size staging buffers, if any, would be 256 / 1024 / 4096 bytes
    static const size_t kLong[] = {255, 256, 257, 1023, 1024, 1025, 4095, 4096, 4097};
    for (size_t len : kLong) {
      std::string v;
      for (size_t i = 0; i < len; ++i) v.push_back("luna_pinyin"[i % 11]);
      std::string p = "/" + v.substr(1);
      api->set_property(s, "k", v.c_str());
      api->config_set_string(&cfg, "k", v.c_str());
      rime::path pp(p); dep.shared_data_dir = pp; dep.user_data_dir = pp; dep.prebuilt_data_dir = pp;
      dep.staging_dir = pp; dep.sync_dir = pp;
      std::string sync = dep.user_data_sync_dir().string();
      const size_t ns[] = {1, 2, len - 1, len, len + 1, len + 2};
      for (size_t n : ns) {
        grid_call("RimeGetProperty#long", v, n, [&](char* b, size_t k) { return api->get_property(s, "k", b, k); });
        grid_call("RimeConfigGetString#long", v, n, [&](char* b, size_t k) { return api->config_get_string(&cfg, "k", b, k); });
        grid_call("RimeGetUserDataSyncDir#long", sync, n, [&](char* b, size_t k) { api->get_user_data_sync_dir(b, k); return 1; });
        grid_call("RimeGetSharedDataDirSecure#long", p, n, [&](char* b, size_t k) { api->get_shared_data_dir_s(b, k); return 1; });
        grid_call("RimeGetUserDataDirSecure#long", p, n, [&](char* b, size_t k) { api->get_user_data_dir_s(b, k); return 1; });
        grid_call("RimeGetPrebuiltDataDirSecure#long", p, n, [&](char* b, size_t k) { api->get_prebuilt_data_dir_s(b, k); return 1; });
        grid_call("RimeGetStagingDirSecure#long", p, n, [&](char* b, size_t k) { api->get_staging_dir_s(b, k); return 1; });
        grid_call("RimeGetSyncDirSecure#long", p, n, [&](char* b, size_t k) { api->get_sync_dir_s(b, k); return 1; });
      }
      dep.user_data_dir = rime::path(dir); dep.staging_dir = rime::path(dir + "/build"); dep.shared_data_dir = rime::path(dir); dep.prebuilt_data_dir = rime::path(dir + "/build");
    }
  }
  api->config_close(&cfg);
  api->destroy_session(s);
  api->finalize();
  return 0;
}
