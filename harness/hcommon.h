// Shared helpers for the /verif harnesses (real librime, in-process).
#pragma once
#include <cstdio>
#include <cstdlib>
#include <cstring>
#include <cstdint>
#include <string>
#include <vector>
#include <filesystem>
#include <fstream>
#include <rime_api.h>

namespace vh {

inline std::string hex(const std::string& s) {
  if (s.empty()) return "-";
  static const char* d = "0123456789abcdef";
  std::string o;
  for (unsigned char c : s) { o.push_back(d[c >> 4]); o.push_back(d[c & 15]); }
  return o;
}
inline std::string hex(const char* p, size_t n) { return hex(std::string(p, n)); }
inline std::string unhex(const std::string& h) {
  std::string o;
  if (h == "-") return o;
  auto v = [](char c) { return c <= '9' ? c - '0' : (c | 32) - 'a' + 10; };
  for (size_t i = 0; i + 1 < h.size(); i += 2) o.push_back(char(v(h[i]) * 16 + v(h[i + 1])));
  return o;
}

// splitmix64 — the single PRNG of every harness; seeded from VERIF_SEED / argv
struct Rng {
  uint64_t s;
  explicit Rng(uint64_t seed) : s(seed * 0x9E3779B97F4A7C15ull + 0x1234567ull) {}
  uint64_t next() {
    uint64_t z = (s += 0x9E3779B97F4A7C15ull);
    z = (z ^ (z >> 30)) * 0xBF58476D1CE4E5B9ull;
    z = (z ^ (z >> 27)) * 0x94D049BB133111EBull;
    return z ^ (z >> 31);
  }
  uint64_t below(uint64_t n) { return n ? next() % n : 0; }
  bool chance(int pct) { return below(100) < (uint64_t)pct; }
  template <class T> const T& pick(const std::vector<T>& v) { return v[below(v.size())]; }
};

// start librime on a scratch workspace: shared = user = dir (data copied there by the check script)
inline RimeApi* start(const std::string& shared, const std::string& user, bool deploy) {
  RimeApi* api = rime_get_api();
  RIME_STRUCT(RimeTraits, traits);
  traits.shared_data_dir = shared.c_str();
  traits.user_data_dir = user.c_str();
  traits.distribution_name = "verif";
  traits.distribution_code_name = "verif";
  traits.distribution_version = "0";
  traits.app_name = "rime.verif";
  traits.min_log_level = 3;
  static std::string logdir; logdir = user + "/log";
  std::filesystem::create_directories(logdir);
  traits.log_dir = logdir.c_str();
  api->setup(&traits);
  api->initialize(&traits);
  if (deploy) {
    if (api->start_maintenance(True)) api->join_maintenance_thread();
  }
  return api;
}

}  // namespace vh
