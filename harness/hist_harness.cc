// Correspondence harness for the commit history (lean/RimeModel/C01/History.lean, driver_hist).
// Drives the real rime::CommitHistory with one op per line and prints its state after each:
//   reset | rec <type> <text> | key <code> <mask> | comp <input> <seg>;<seg>;…   (seg = start,stop,conf,<candtype|~>,<candtext>,<candend>)
//   -> repr=<hex> latest=<hex> n=<records> fault=<none|substr>
// usage: hist_harness <ops-file>
#include "hcommon.h"
#include <rime/candidate.h>
#include <rime/commit_history.h>
#include <rime/composition.h>
#include <rime/key_event.h>
#include <rime/menu.h>
#include <rime/translation.h>
#include <fstream>
#include <iostream>
#include <stdexcept>

using namespace rime;

static std::vector<std::string> split(const std::string& s, char c) {
  std::vector<std::string> out;
  std::string cur;
  for (char ch : s) {
    if (ch == c) { out.push_back(cur); cur.clear(); } else cur += ch;
  }
  out.push_back(cur);
  return out;
}

int main(int argc, char** argv) {
  if (argc < 2) { fprintf(stderr, "usage: hist_harness <ops-file>\n"); return 2; }
  std::ifstream in(argv[1]);
  CommitHistory h;
  std::string line;
  while (std::getline(in, line)) {
    auto w = split(line, ' ');
    if (w.empty()) continue;
    const char* fault = "none";
    if (w[0] == "reset") {
      h.clear();
    } else if (w[0] == "rec" && w.size() == 3) {
      h.Push(CommitRecord(vh::unhex(w[1]), vh::unhex(w[2])));
    } else if (w[0] == "key" && w.size() == 3) {
      h.Push(KeyEvent(std::stoi(w[1]), std::stoi(w[2])));
    } else if (w[0] == "comp" && w.size() == 3) {
      std::string input = vh::unhex(w[1]);
      Composition comp;
      if (w[2] != "-") {
        for (const auto& sd : split(w[2], ';')) {
          auto f = split(sd, ',');
          if (f.size() != 6) { printf("bad-op\n"); goto next; }
          Segment seg((int)std::stoul(f[0]), (int)std::stoul(f[1]));
          seg.status = f[2] == "1" ? Segment::kConfirmed : Segment::kGuess;
          if (f[3] != "~") {
            auto tr = New<FifoTranslation>();
            tr->Append(New<SimpleCandidate>(vh::unhex(f[3]), seg.start, std::stoul(f[5]), vh::unhex(f[4])));
            seg.menu = New<Menu>();
            seg.menu->AddTranslation(tr);
            seg.selected_index = 0;
          }
          comp.push_back(seg);
        }
      }
      try {
        h.Push(comp, input);
      } catch (const std::out_of_range&) {
        fault = "substr";
      }
    } else {
      printf("bad-op\n");
      goto next;
    }
    printf("repr=%s latest=%s n=%zu fault=%s\n", vh::hex(h.repr()).c_str(), vh::hex(h.latest_text()).c_str(), h.size(), fault);
  next:
    fflush(stdout);
  }
  return 0;
}
