// File-system kill-point interposer for C13 (LD_PRELOAD, `plain` flavour only — ASan and a preload
// do not mix).  Counts every mutating file-system call that touches a path under VERIF_FS_ROOT (or a
// descriptor / mapping opened from there) and `_exit(87)`s just BEFORE the VERIF_KILL_FS-th one, which
// leaves the files exactly as a SIGKILL between two system calls would (dirty MAP_SHARED pages stay in
// the page cache and are what the next process reads).  With VERIF_KILL_TORN=1 a counted write of more
// than one page is cut at the last page boundary before its end (the kernel copies a write page by page and
// looks for a fatal signal in between, so this is what a kill while a large write is in flight leaves).
//
// Counted: open(O_CREAT new | O_TRUNC non-empty | O_RDWR existing), fopen(w/a), write, pwrite, writev, ftruncate, truncate,
// rename, unlink, remove, mkdir, mmap(MAP_SHARED|PROT_WRITE), munmap / msync of such a mapping.
//
//   VERIF_FS_ROOT   absolute prefix of the workspace (required; nothing is counted without it)
//   VERIF_KILL_FS   1-based index of the op to die at (0 / unset = never)
//   VERIF_FS_TRACE  path of a file that receives one line per counted op: "<n> <op> <path-or-fd> <size>"
#define _GNU_SOURCE
#include <dlfcn.h>
#include <errno.h>
#include <fcntl.h>
#include <stdarg.h>
#include <stdio.h>
#include <stdlib.h>
#include <string.h>
#include <sys/mman.h>
#include <sys/stat.h>
#include <sys/types.h>
#include <sys/uio.h>
#include <unistd.h>

#define MAXFD 4096
#define MAXMAP 256
static char g_root[1024];
static size_t g_root_len;
static long g_kill, g_count;
static int g_torn, g_trace_fd = -1, g_init;
static char g_fdpath[MAXFD][160];
static unsigned char g_tracked[MAXFD];
static struct { void* addr; size_t len; char path[160]; } g_maps[MAXMAP];

static void init(void) {
  if (g_init) return;
  g_init = 1;
  const char* r = getenv("VERIF_FS_ROOT");
  if (r && *r) {
    strncpy(g_root, r, sizeof g_root - 1);
    g_root_len = strlen(g_root);
  }
  const char* k = getenv("VERIF_KILL_FS");
  if (k) g_kill = atol(k);
  g_torn = getenv("VERIF_KILL_TORN") != NULL;
  const char* t = getenv("VERIF_FS_TRACE");
  if (t && *t) {
    int (*ropen)(const char*, int, ...) = dlsym(RTLD_NEXT, "open");
    g_trace_fd = ropen(t, O_WRONLY | O_CREAT | O_APPEND, 0644);
  }
}

static int under_root(const char* p) {
  init();
  if (!g_root_len || !p) return 0;
  char buf[1200];
  if (p[0] != '/') {
    if (!getcwd(buf, 1000)) return 0;
    size_t n = strlen(buf);
    snprintf(buf + n, sizeof buf - n, "/%s", p);
    p = buf;
  }
  return strncmp(p, g_root, g_root_len) == 0;
}

static const char* rel(const char* p) {
  if (p && g_root_len && strncmp(p, g_root, g_root_len) == 0) return p + g_root_len;
  return p ? p : "?";
}

// returns 1 if the caller must die now (torn writes are handled by the caller)
static int tick(const char* op, const char* what, long size) {
  ++g_count;
  if (g_trace_fd >= 0) {
    char line[400];
    int n = snprintf(line, sizeof line, "%ld %s %s %ld\n", g_count, op, what, size);
    ssize_t (*rwrite)(int, const void*, size_t) = dlsym(RTLD_NEXT, "write");
    rwrite(g_trace_fd, line, n);
  }
  return g_kill && g_count == g_kill;
}

static void die(void) { _exit(87); }

// bytes of an n-byte write that reach the file when the kill comes while it is in flight
static size_t torn_len(size_t n) { return n > 4096 ? ((n - 1) / 4096) * 4096 : 0; }

static void track(int fd, const char* path) {
  if (fd >= 0 && fd < MAXFD) {
    g_tracked[fd] = 1;
    strncpy(g_fdpath[fd], rel(path), sizeof g_fdpath[fd] - 1);
    g_fdpath[fd][sizeof g_fdpath[fd] - 1] = 0;
  }
}

static int is_tracked(int fd) {
  init();
  return fd >= 0 && fd < MAXFD && g_tracked[fd];
}

// ---- open family -------------------------------------------------------------------------------
static int open_common(const char* name, const char* path, int flags, mode_t mode, int dirfd, int use_at) {
  int (*ropen)(const char*, int, ...) = dlsym(RTLD_NEXT, name);
  int (*ropenat)(int, const char*, int, ...) = dlsym(RTLD_NEXT, name);
  int mine = under_root(path);
  if (mine && (flags & (O_CREAT | O_TRUNC))) {
    struct stat st;
    int exists = stat(path, &st) == 0;
    // creating a new file or truncating an existing non-empty one changes the file system
    if ((!exists && (flags & O_CREAT)) || (exists && (flags & O_TRUNC) && st.st_size > 0)) {
      if (tick(exists ? "open-trunc" : "open-creat", rel(path), exists ? (long)st.st_size : 0)) die();
    }
  }
  else if (mine && (flags & O_RDWR)) {
    // an existing file is about to be modified in place (MappedFile after Create/Resize)
    if (access(path, F_OK) == 0 && tick("open-rw", rel(path), 0)) die();
  }
  int fd = use_at ? ropenat(dirfd, path, flags, mode) : ropen(path, flags, mode);
  if (mine && fd >= 0 && (flags & (O_WRONLY | O_RDWR))) track(fd, path);
  return fd;
}

int open(const char* path, int flags, ...) {
  mode_t mode = 0;
  if (flags & (O_CREAT | O_TMPFILE)) { va_list ap; va_start(ap, flags); mode = va_arg(ap, mode_t); va_end(ap); }
  return open_common("open", path, flags, mode, 0, 0);
}
int open64(const char* path, int flags, ...) {
  mode_t mode = 0;
  if (flags & (O_CREAT | O_TMPFILE)) { va_list ap; va_start(ap, flags); mode = va_arg(ap, mode_t); va_end(ap); }
  return open_common("open64", path, flags, mode, 0, 0);
}
int openat(int dirfd, const char* path, int flags, ...) {
  mode_t mode = 0;
  if (flags & (O_CREAT | O_TMPFILE)) { va_list ap; va_start(ap, flags); mode = va_arg(ap, mode_t); va_end(ap); }
  return open_common("openat", path, flags, mode, dirfd, 1);
}
int creat(const char* path, mode_t mode) { return open(path, O_CREAT | O_WRONLY | O_TRUNC, mode); }

static FILE* fopen_common(const char* name, const char* path, const char* m) {
  FILE* (*rfopen)(const char*, const char*) = dlsym(RTLD_NEXT, name);
  int mine = under_root(path);
  int writing = m && (strchr(m, 'w') || strchr(m, 'a') || strchr(m, '+'));
  if (mine && m && strchr(m, 'w')) {
    struct stat st;
    int exists = stat(path, &st) == 0;
    if (!exists || st.st_size > 0)
      if (tick(exists ? "open-trunc" : "open-creat", rel(path), exists ? (long)st.st_size : 0)) die();
  } else if (mine && m && strchr(m, 'a')) {
    struct stat st;
    if (stat(path, &st) != 0 && tick("open-creat", rel(path), 0)) die();
  }
  FILE* f = rfopen(path, m);
  if (mine && f && writing) track(fileno(f), path);
  return f;
}
FILE* fopen(const char* path, const char* m) { return fopen_common("fopen", path, m); }
FILE* fopen64(const char* path, const char* m) { return fopen_common("fopen64", path, m); }

int close(int fd) {
  int (*rclose)(int) = dlsym(RTLD_NEXT, "close");
  if (fd >= 0 && fd < MAXFD) g_tracked[fd] = 0;
  return rclose(fd);
}

// ---- writes ------------------------------------------------------------------------------------
ssize_t write(int fd, const void* buf, size_t n) {
  ssize_t (*rwrite)(int, const void*, size_t) = dlsym(RTLD_NEXT, "write");
  if (is_tracked(fd) && tick("write", g_fdpath[fd], (long)n)) {
    if (g_torn && torn_len(n)) rwrite(fd, buf, torn_len(n));
    die();
  }
  return rwrite(fd, buf, n);
}
ssize_t pwrite(int fd, const void* buf, size_t n, off_t off) {
  ssize_t (*r)(int, const void*, size_t, off_t) = dlsym(RTLD_NEXT, "pwrite");
  if (is_tracked(fd) && tick("pwrite", g_fdpath[fd], (long)n)) {
    if (g_torn && torn_len(n)) r(fd, buf, torn_len(n), off);
    die();
  }
  return r(fd, buf, n, off);
}
ssize_t pwrite64(int fd, const void* buf, size_t n, off_t off) {
  ssize_t (*r)(int, const void*, size_t, off_t) = dlsym(RTLD_NEXT, "pwrite64");
  if (is_tracked(fd) && tick("pwrite", g_fdpath[fd], (long)n)) {
    if (g_torn && torn_len(n)) r(fd, buf, torn_len(n), off);
    die();
  }
  return r(fd, buf, n, off);
}
ssize_t writev(int fd, const struct iovec* iov, int cnt) {
  ssize_t (*r)(int, const struct iovec*, int) = dlsym(RTLD_NEXT, "writev");
  if (is_tracked(fd)) {
    long n = 0;
    for (int i = 0; i < cnt; ++i) n += (long)iov[i].iov_len;
    if (tick("writev", g_fdpath[fd], n)) {
      if (g_torn && torn_len((size_t)n)) {
        ssize_t (*rwrite)(int, const void*, size_t) = dlsym(RTLD_NEXT, "write");
        size_t left = torn_len((size_t)n);
        for (int i = 0; i < cnt && left; ++i) {
          size_t k = iov[i].iov_len < left ? iov[i].iov_len : left;
          rwrite(fd, iov[i].iov_base, k);
          left -= k;
        }
      }
      die();
    }
  }
  return r(fd, iov, cnt);
}

// ---- size / name space -------------------------------------------------------------------------
int ftruncate(int fd, off_t len) {
  int (*r)(int, off_t) = dlsym(RTLD_NEXT, "ftruncate");
  if (is_tracked(fd) && tick("ftruncate", g_fdpath[fd], (long)len)) die();
  return r(fd, len);
}
int ftruncate64(int fd, off_t len) {
  int (*r)(int, off_t) = dlsym(RTLD_NEXT, "ftruncate64");
  if (is_tracked(fd) && tick("ftruncate", g_fdpath[fd], (long)len)) die();
  return r(fd, len);
}
int truncate(const char* path, off_t len) {
  int (*r)(const char*, off_t) = dlsym(RTLD_NEXT, "truncate");
  if (under_root(path) && tick("truncate", rel(path), (long)len)) die();
  return r(path, len);
}
int truncate64(const char* path, off_t len) {
  int (*r)(const char*, off_t) = dlsym(RTLD_NEXT, "truncate64");
  if (under_root(path) && tick("truncate", rel(path), (long)len)) die();
  return r(path, len);
}
int rename(const char* a, const char* b) {
  int (*r)(const char*, const char*) = dlsym(RTLD_NEXT, "rename");
  if ((under_root(a) || under_root(b)) && tick("rename", rel(a), 0)) die();
  return r(a, b);
}
int unlink(const char* p) {
  int (*r)(const char*) = dlsym(RTLD_NEXT, "unlink");
  if (under_root(p) && access(p, F_OK) == 0 && tick("unlink", rel(p), 0)) die();
  return r(p);
}
int remove(const char* p) {
  int (*r)(const char*) = dlsym(RTLD_NEXT, "remove");
  if (under_root(p) && access(p, F_OK) == 0 && tick("remove", rel(p), 0)) die();
  return r(p);
}
int mkdir(const char* p, mode_t m) {
  int (*r)(const char*, mode_t) = dlsym(RTLD_NEXT, "mkdir");
  if (under_root(p) && access(p, F_OK) != 0 && tick("mkdir", rel(p), 0)) die();
  return r(p, m);
}

// ---- mappings ----------------------------------------------------------------------------------
void* mmap(void* addr, size_t len, int prot, int flags, int fd, off_t off) {
  void* (*r)(void*, size_t, int, int, int, off_t) = dlsym(RTLD_NEXT, "mmap");
  if ((flags & MAP_SHARED) && (prot & PROT_WRITE) && is_tracked(fd) && tick("mmap-rw", g_fdpath[fd], (long)len)) die();
  void* p = r(addr, len, prot, flags, fd, off);
  if (p != MAP_FAILED && (flags & MAP_SHARED) && (prot & PROT_WRITE) && is_tracked(fd)) {
    for (int i = 0; i < MAXMAP; ++i)
      if (!g_maps[i].addr) {
        g_maps[i].addr = p;
        g_maps[i].len = len;
        strncpy(g_maps[i].path, g_fdpath[fd], sizeof g_maps[i].path - 1);
        break;
      }
  }
  return p;
}
void* mmap64(void* addr, size_t len, int prot, int flags, int fd, off_t off) {
  return mmap(addr, len, prot, flags, fd, off);
}
int munmap(void* addr, size_t len) {
  int (*r)(void*, size_t) = dlsym(RTLD_NEXT, "munmap");
  init();
  for (int i = 0; i < MAXMAP; ++i)
    if (g_maps[i].addr == addr && addr) {
      int d = tick("munmap", g_maps[i].path, (long)len);
      g_maps[i].addr = 0;
      if (d) die();
      break;
    }
  return r(addr, len);
}
int msync(void* addr, size_t len, int flags) {
  int (*r)(void*, size_t, int) = dlsym(RTLD_NEXT, "msync");
  init();
  for (int i = 0; i < MAXMAP; ++i)
    if (g_maps[i].addr == addr && addr) {
      if (tick("msync", g_maps[i].path, (long)len)) die();
      break;
    }
  return r(addr, len, flags);
}
