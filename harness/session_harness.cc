// Session harness: drives the real librime API with an op script and prints one canonical
// observation line per op (same protocol as lean/Driver/Session.lean).
// usage: session_harness <workspace> <script> [--monitor-only]
//   workspace: shared+user data dir with default.yaml + <schema>.schema.yaml (+ vt_table.txt)
// Header lines of the script (ignored here except `table`): `env ...`, `table <key> <text> <comment> <preedit>`
#include "hcommon.h"
#include <map>
#include <set>
#include <chrono>
#include <ctime>
#include <cstring>
#include <thread>
#include <sstream>
#include <iostream>
#include <rime/candidate.h>
#include <rime/component.h>
#include <rime/registry.h>
#include <rime/service.h>
#include <rime/context.h>
#include <rime/composition.h>
#include <rime/menu.h>
#include <rime/segmentation.h>
#include <rime/translation.h>
#include <rime/translator.h>
#include <rime/schema.h>
#include <rime/config.h>

using namespace vh;

struct Row { std::string text, comment, preedit; };
static std::map<std::string, std::vector<Row>> g_table;

// table-driven translator registered through the public registry (DESIGN §2)
class VtTranslator : public rime::Translator {
 public:
  // `vt_translator@name` reads `name/tag` (default "abc"): one translator per tag, all over the same table
  explicit VtTranslator(const rime::Ticket& t) : rime::Translator(t) {
    if (t.schema && t.schema->config()) t.schema->config()->GetString(name_space_ + "/tag", &tag_);
  }
  std::string tag_ = "abc";
  rime::an<rime::Translation> Query(const std::string& input, const rime::Segment& seg) override {
    if (!seg.HasTag(tag_)) return nullptr;
    auto tr = rime::New<rime::FifoTranslation>();
    for (size_t n = input.size(); n >= 1; --n) {
      auto it = g_table.find(input.substr(0, n));
      if (it == g_table.end()) continue;
      for (const Row& r : it->second)
        tr->Append(rime::New<rime::SimpleCandidate>("vt", seg.start, seg.start + n, r.text, r.comment, r.preedit));
    }
    if (tr->size() == 0) return nullptr;
    return tr;
  }
};

static RimeApi* api;

// Session::Activate and Service::CleanupStaleSessions read the wall clock through time(): the harness supplies it, so that a
// history can let minutes pass (`advance <seconds>`).  It stands still otherwise (the second the process started in), which also
// makes everything else the library stamps with time() a function of the script.
static time_t g_time_base = 0, g_time_offset = 0;
extern "C" time_t time(time_t* t) {
  if (!g_time_base) { struct timespec ts; clock_gettime(CLOCK_REALTIME, &ts); g_time_base = ts.tv_sec; }
  time_t v = g_time_base + g_time_offset;
  if (t) *t = v;
  return v;
}

static bool g_stall = false;   // set for one observation: see the `key` op

static void observe(RimeSessionId s, int ret, const std::string& text) {
  std::ostringstream o;
  o << "ret=" << ret;
  if (!text.empty()) o << " text=" << hex(text);
  const char* in = api->get_input(s);
  RIME_STRUCT(RimeStatus, st);
  int composing = 0;
  // cross-checks between the read paths of the API (printed only when one fails: ` xcheck=<what>`): the status flags against the
  // options they are derived from, get_option against the context, a second get_context against the first, the menu's select keys
  // against the schema's
  std::string xcheck;
  if (api->get_status(s, &st)) {
    composing = st.is_composing;
    auto sess = rime::Service::instance().GetSession(s);
    if (sess && sess->context()) {
      rime::Context* cx = sess->context();
      if (!!st.is_ascii_mode != cx->get_option("ascii_mode")) xcheck = "status:ascii_mode";
      if (!!st.is_full_shape != cx->get_option("full_shape")) xcheck = "status:full_shape";
      if (!!st.is_simplified != cx->get_option("simplification")) xcheck = "status:simplification";
      if (!!st.is_traditional != cx->get_option("traditional")) xcheck = "status:traditional";
      if (!!st.is_ascii_punct != cx->get_option("ascii_punct")) xcheck = "status:ascii_punct";
      if (!!st.is_composing != cx->IsComposing()) xcheck = "status:composing";
      if (st.is_disabled) xcheck = "status:disabled";
      if (!st.schema_id || !sess->schema() || sess->schema()->schema_id() != st.schema_id) xcheck = "status:schema_id";
      if (!st.schema_name || !sess->schema() || sess->schema()->schema_name() != st.schema_name) xcheck = "status:schema_name";
    }
    api->free_status(&st);
    if (st.schema_id || st.schema_name) xcheck = "status:not-cleared-by-free";
  }
  o << " input=" << hex(in ? std::string(in) : std::string()) << " caret=" << api->get_caret_pos(s)
    << " composing=" << composing;
  // un-read commit buffer (Session::commit_text_) and candidate end positions: read through the private
  // headers, never through a call that changes state
  std::vector<size_t> ends;
  {
    auto sess = rime::Service::instance().GetSession(s);
    o << " pending=" << hex(sess ? sess->commit_text() : std::string());
    if (sess && sess->context() && sess->context()->HasMenu()) {
      auto& seg = sess->context()->composition().back();
      int ps = sess->schema() ? sess->schema()->page_size() : 5;
      size_t start = (seg.selected_index / ps) * ps;
      for (size_t i = start; i < start + ps; ++i) {
        auto cand = seg.GetCandidateAt(i);
        if (!cand) break;
        ends.push_back(cand->end());
      }
    }
  }
  RIME_STRUCT(RimeContext, ctx);
  if (api->get_context(s, &ctx)) {
    if (ctx.composition.preedit)
      o << " preedit=" << hex(std::string(ctx.composition.preedit)) << " len=" << ctx.composition.length
        << " cur=" << ctx.composition.cursor_pos << " sel=" << ctx.composition.sel_start << "," << ctx.composition.sel_end;
    else
      o << " preedit=~";
    o << " preview=" << hex(ctx.commit_text_preview ? std::string(ctx.commit_text_preview) : std::string());
    if (ctx.menu.num_candidates > 0 || ctx.menu.page_size > 0) {
      o << " menu=" << ctx.menu.page_size << "," << ctx.menu.page_no << "," << (ctx.menu.is_last_page ? 1 : 0) << ","
        << ctx.menu.highlighted_candidate_index << "," << ctx.menu.num_candidates << ",[";
      for (int i = 0; i < ctx.menu.num_candidates; ++i) {
        if (i) o << "|";
        o << hex(std::string(ctx.menu.candidates[i].text)) << ":"
          << hex(ctx.menu.candidates[i].comment ? std::string(ctx.menu.candidates[i].comment) : std::string())
          << ":" << (i < (int)ends.size() ? (long)ends[i] : -1L);
      }
      o << "]";
    } else {
      o << " menu=~";
    }
    {
      RIME_STRUCT(RimeContext, again);
      if (!api->get_context(s, &again)) xcheck = "reread:refused";
      else {
        auto str = [](const char* p) { return p ? std::string(p) : std::string("\x01null"); };
        if (str(again.composition.preedit) != str(ctx.composition.preedit) || again.composition.length != ctx.composition.length ||
            again.composition.cursor_pos != ctx.composition.cursor_pos || again.composition.sel_start != ctx.composition.sel_start ||
            again.composition.sel_end != ctx.composition.sel_end || str(again.commit_text_preview) != str(ctx.commit_text_preview))
          xcheck = "reread:composition";
        if (again.menu.page_size != ctx.menu.page_size || again.menu.page_no != ctx.menu.page_no || again.menu.is_last_page != ctx.menu.is_last_page ||
            again.menu.highlighted_candidate_index != ctx.menu.highlighted_candidate_index || again.menu.num_candidates != ctx.menu.num_candidates ||
            str(again.menu.select_keys) != str(ctx.menu.select_keys))
          xcheck = "reread:menu";
        else
          for (int i = 0; i < ctx.menu.num_candidates; ++i)
            if (str(again.menu.candidates[i].text) != str(ctx.menu.candidates[i].text) || str(again.menu.candidates[i].comment) != str(ctx.menu.candidates[i].comment))
              xcheck = "reread:candidates";
        api->free_context(&again);
      }
      auto sess = rime::Service::instance().GetSession(s);
      if (sess && sess->schema() && ctx.menu.num_candidates > 0) {
        const std::string& sk = sess->schema()->select_keys();
        if ((ctx.menu.select_keys ? std::string(ctx.menu.select_keys) : std::string()) != sk) xcheck = "menu:select_keys";
      }
      if (ctx.composition.preedit && ctx.composition.length != (int)strlen(ctx.composition.preedit)) xcheck = "composition:length";
    }
    api->free_context(&ctx);
    if (ctx.composition.preedit || ctx.menu.candidates || ctx.commit_text_preview) xcheck = "context:not-cleared-by-free";
    // the segment list itself (never reported to a client): |composition input| and, per segment,
    // start-end-length-status-selected_index-tags (a=abc r=raw p=partial g=paging e=selected_before_editing h=phony
    // l=placeholder u=punct d=punct_number; other tags: `+<bytes of the name in decimal>`) — compared with the model and checked for geometry
    {
      auto sess = rime::Service::instance().GetSession(s);
      if (sess && sess->context()) {
        const rime::Composition& comp = sess->context()->composition();
        o << " segs=" << comp.input().length() << ":";
        if (comp.empty()) o << "-";
        for (size_t i = 0; i < comp.size(); ++i) {
          const rime::Segment& g = comp[i];
          if (i) o << "|";
          std::string t;
          if (g.HasTag("abc")) t += "a";
          if (g.HasTag("raw")) t += "r";
          if (g.HasTag("partial")) t += "p";
          if (g.HasTag("paging")) t += "g";
          if (g.HasTag("selected_before_editing")) t += "e";
          if (g.HasTag("phony")) t += "h";
          if (g.HasTag("placeholder")) t += "l";
          if (g.HasTag("punct")) t += "u";
          if (g.HasTag("punct_number")) t += "d";   // never set in the modelled schemas (digit separators off)
          // every other tag (the recognizer's pattern names, the affix segmentor's tags), in the order of the std::set:
          // `+` and the bytes of the name in decimal joined by `.` (driver: showTags)
          static const std::set<std::string> kKnown = {"abc", "raw", "partial", "paging", "selected_before_editing", "phony",
                                                       "placeholder", "punct", "punct_number"};
          for (const std::string& name : g.tags) {
            if (kKnown.count(name)) continue;
            t += "+";
            for (size_t q = 0; q < name.size(); ++q) { if (q) t += "."; t += std::to_string((unsigned char)name[q]); }
          }
          o << g.start << "-" << g.end << "-" << g.length << "-" << (int)g.status << "-" << g.selected_index << "-" << (t.empty() ? "0" : t);
        }
        // the options the modelled components read or the key binder's option actions write (driver: reportedOptions)
        static const char* kOpts[] = {"ascii_mode", "full_shape", "ascii_punct", "soft_cursor", "_linear", "_vertical", "_horizontal",
                                      "opt_a", "opt_b", "opt_c", "@9"};
        o << " opts=";
        for (const char* n : kOpts) {
          o << (sess->context()->get_option(n) ? "1" : "0");
          if (!!api->get_option(s, n) != sess->context()->get_option(n)) xcheck = std::string("get_option:") + n;
        }
      }
    }
  } else {
    o << " nocontext";
  }
  if (!xcheck.empty()) o << " xcheck=" << xcheck;
  if (g_stall) { o << " stall=1"; g_stall = false; }
  puts(o.str().c_str());
}

int main(int argc, char** argv) {
  std::string ws = argv[1];
  std::ifstream script(argv[2]);
  std::vector<std::string> lines;
  for (std::string l; std::getline(script, l);) lines.push_back(l);
  for (auto& l : lines) {
    std::istringstream is(l);
    std::string w; is >> w;
    if (w == "table") {
      std::string k, t, c, p; is >> k >> t >> c >> p;
      g_table[unhex(k)].push_back({unhex(t), unhex(c), unhex(p)});
    }
  }
  setvbuf(stdout, NULL, _IOLBF, 0);
  api = start(ws, ws, true);
  rime::Registry::instance().Register("vt_translator", new rime::Component<VtTranslator>);
  std::vector<RimeSessionId> sessions;
  std::vector<bool> alive;
  RimeSessionId cur = 0;
  // AsciiComposer toggles ascii_mode when Shift / Control is released within 500 ms of being pressed (steady_clock).  The
  // model's clock is moved by `sleep` ops only; a Shift / Control release that comes >= 450 ms after the (first) press without
  // a `sleep` in between means the process was stalled: the observation is marked `stall=1` and the check sets the history aside.
  using Clock = std::chrono::steady_clock;
  Clock::time_point t_press; bool press_pending = false, slept = false;
  for (auto& l : lines) {
    std::istringstream is(l);
    std::string w; is >> w;
    if (w.empty() || w == "env" || w == "table" || w[0] == '#') continue;
    int ret = 1; std::string text;
    if (w == "ids") {
      // live ids must be pairwise distinct (and non-zero)
      std::vector<RimeSessionId> live;
      for (size_t k = 0; k < sessions.size(); ++k) if (alive[k]) live.push_back(sessions[k]);
      bool distinct = true;
      for (size_t a = 0; a < live.size(); ++a) { if (!live[a] || !api->find_session(live[a])) distinct = false; for (size_t b = a + 1; b < live.size(); ++b) if (live[a] == live[b]) distinct = false; }
      printf("ids live=%zu distinct=%d\n", live.size(), distinct ? 1 : 0);
      continue;
    }
    if (w == "snapuser") {
      // copy the persisted user settings (user.yaml as it is on disk right now) aside; prints nothing
      std::string to; is >> to;
      std::ifstream in(ws + "/user.yaml", std::ios::binary);
      std::ofstream out(to, std::ios::binary);
      if (in) out << in.rdbuf();
      continue;
    }
    if (w == "advance") {
      // the wall clock moves on; no call is made (a call on the current session would mark it active at the new time); prints nothing
      long sec; is >> sec; g_time_offset += sec;
      continue;
    }
    if (w == "cleanup_stale") {
      // Service::CleanupStaleSessions, then every id the harness holds as live is looked up (find_session: the survivors
      // are active again at this time), then the view of the current session
      api->cleanup_stale_sessions();
      for (size_t k = 0; k < sessions.size(); ++k) if (alive[k] && !api->find_session(sessions[k])) alive[k] = false;
      observe(cur, 1, "");
      continue;
    }
    if (w == "newq") {
      // create_session and NOTHING else: no read of the new session follows (every read is a call on the id, which marks the
      // session active), so what the next op finds is the session exactly as create_session left it; prints nothing
      cur = api->create_session(); sessions.push_back(cur); alive.push_back(cur != 0);
      continue;
    }
    if (w == "new") { cur = api->create_session(); sessions.push_back(cur); alive.push_back(cur != 0); ret = cur != 0; }
    else if (w == "use") { size_t k; is >> k; cur = k < sessions.size() ? sessions[k] : 0; }
    else if (w == "cleanup_all") { api->cleanup_all_sessions(); for (size_t k = 0; k < alive.size(); ++k) alive[k] = false; }
    else if (w == "destroy") { size_t k; is >> k; ret = k < sessions.size() ? api->destroy_session(sessions[k]) : 0; if (k < alive.size() && ret) alive[k] = false; }
    else if (w == "schema") { std::string id; is >> id; ret = api->select_schema(cur, id.c_str()); }
    else if (w == "sleep") { long ms; is >> ms; std::this_thread::sleep_for(std::chrono::milliseconds(ms)); slept = true; }
    else if (w == "key") {
      long code, mask; is >> code >> mask;
      bool modkey = code >= 0xffe1 && code <= 0xffe4, release = (mask & (1L << 30)) != 0;
      if (modkey && !release && !press_pending) { t_press = Clock::now(); press_pending = true; slept = false; }
      ret = api->process_key(cur, (int)code, (int)mask);
      if (modkey && release && press_pending) {
        if (!slept && Clock::now() - t_press >= std::chrono::milliseconds(450)) g_stall = true;
        press_pending = false;
      }
    }
    else if (w == "select") { size_t i; is >> i; ret = api->select_candidate(cur, i); }
    else if (w == "select_page") { size_t i; is >> i; ret = api->select_candidate_on_current_page(cur, i); }
    else if (w == "highlight") { size_t i; is >> i; ret = api->highlight_candidate(cur, i); }
    else if (w == "highlight_page") { size_t i; is >> i; ret = api->highlight_candidate_on_current_page(cur, i); }
    else if (w == "delete") { size_t i; is >> i; ret = api->delete_candidate(cur, i); }
    else if (w == "delete_page") { size_t i; is >> i; ret = api->delete_candidate_on_current_page(cur, i); }
    else if (w == "page") { std::string d; is >> d; ret = api->change_page(cur, d == "-"); }
    else if (w == "input") { std::string h; is >> h; ret = api->set_input(cur, unhex(h).c_str()); }
    else if (w == "caret") { size_t n; is >> n; api->set_caret_pos(cur, n); }
    else if (w == "option") { std::string n; int v; is >> n >> v; api->set_option(cur, n.c_str(), v); }
    else if (w == "commit") { ret = api->commit_composition(cur); }
    else if (w == "clear") { api->clear_composition(cur); }
    else if (w == "read_commit") {
      RIME_STRUCT(RimeCommit, c);
      ret = api->get_commit(cur, &c);
      if (ret && c.text) text = c.text;
      api->free_commit(&c);
    }
    else { puts("bad-op"); continue; }
    observe(cur, ret, text);
  }
  for (auto s : sessions) api->destroy_session(s);
  api->finalize();
  return 0;
}
