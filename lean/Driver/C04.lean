import RimeModel.Basic.Hex
import RimeModel.C04.Menu
import RimeModel.C04.Seg
import RimeModel.C04.Translation
import RimeModel.Gen.Keymaps
/-! Line-protocol driver for C04 (same protocol as harness/c04_harness.cc).

menu level (the ported Menu / MergedTranslation / filters on script-defined translations):
  `reset` · `tr [cache] [distinct] [prefetch<k>] [union] [unique] <cand>*` (`/` between the pieces of a union) ·
  `menu <filter>*` (filters: uniq | olduniq | scf)
  `prepare <n>` · `page <ps> <p>` · `at <i>` · `empty` · `count` · `dump` · `tprobe <n>` · `probe <n>`
  cand = `<text>:<comment>:<start>:<end>:<quality>:<t|s>` (hex, `-` = empty) or `null`
segment level (the two read paths and paging over one candidate list):
  `seg <ps> <cycle>` (list = the current menu, drained) · `full <ps> <cycle> <text>:<comment>*` · `again`
  `ctx` · `hl <i>` · `hlp <i>` · `chpage +|-` · `key next|prior|up|down` · `list <from> <n>` · `L`
  `layout <0..3>` (text orientation | candidate list layout, as the selector numbers its keymaps) · `keyc <keycode>` (the
  selector's default binding of the key in that layout; `oos` when the selector leaves the key to the navigator)
-/
open RimeModel RimeModel.C04

abbrev Bytes := List UInt8

structure DCand where
  text : Bytes
  comment : Bytes
  start : Nat
  stop : Nat
  quality : Int
  table : Bool
  deriving DecidableEq, Inhabited

def dcmp (a b : DCand) : Int := Key.compare ⟨a.start, a.stop, a.quality⟩ ⟨b.start, b.stop, b.quality⟩

/-- `unistrlen(text) == 1` -/
def isSingle (c : DCand) : Bool := (c.text.filter (fun b => (b &&& 0xC0) != 0x80)).length == 1

inductive AnyMenu where
  | plain (m : Menu DCand)
  | f (fixed : Bool) (m : FMenu DCand Bytes)

structure DState where
  trs : List (Gen DCand) := []
  menu : Option AnyMenu := none
  seg : Option (LSeg (Bytes × Bytes)) := none
  /-- the list of the last `seg` / `full`, for `again` -/
  lastFull : List (Bytes × Bytes) := []
  cfg : Cfg := { pageSize := 5 }
  /-- `text_orientation | candidate_list_layout` of the selector (Vertical = 1, Linear = 2) -/
  layout : Nat := 0

def parseInt (s : String) : Option Int :=
  if s.startsWith "-" then (s.drop 1).toNat?.map (fun n => -(n : Int)) else s.toNat?.map (fun n => (n : Int))

def parseCand (s : String) : Option (Option DCand) :=
  if s == "null" then some none else
  match s.splitOn ":" with
  | [t, c, a, b, q, f] =>
    match Hex.decode t, Hex.decode c, a.toNat?, b.toNat?, parseInt q with
    | some t, some c, some a, some b, some q =>
      if f == "t" || f == "s" then some (some { text := t, comment := c, start := a, stop := b, quality := q, table := f == "t" })
      else none
    | _, _, _, _, _ => none
  | _ => none

def parseAll {β : Type} (f : String → Option β) : List String → Option (List β)
  | [] => some []
  | s :: ss => do
    let x ← f s
    let r ← parseAll f ss
    pure (x :: r)

/-- drive a `CacheTranslation` to exhaustion -/
def drainCache {α : Type} : Nat → CacheTr α → Gen α
  | 0, _ => []
  | fuel + 1, t =>
    if t.exhausted then [] else
    let p := t.peek
    p.1 :: drainCache fuel (p.2.next).1

def showCandA (c : DCand) (gsize : Nat) : String :=
  s!"{Hex.encode c.text}:{Hex.encode c.comment}:{c.start}:{c.stop}:{gsize}"

def showGroup (g : Group DCand) : String := showCandA g.first (1 + g.more.length)

def bracket (l : List String) : String := "[" ++ "|".intercalate l ++ "]"

def b2s (b : Bool) : String := if b then "1" else "0"

def showPairs (l : List (Bytes × Bytes)) : String :=
  bracket (l.map (fun c => s!"{Hex.encode c.1}:{Hex.encode c.2}"))

/-- SingleCharFirstTranslation over a plain translation: a null or non-table candidate stops the prefetch -/
def rearrangeGen (g : Gen DCand) : Gen DCand :=
  let isT : Option DCand → Bool := fun x => match x with | some c => c.table | none => false
  let pre := (g.takeWhile isT).filterMap id
  ((pre.filter isSingle ++ pre.filter (fun c => !isSingle c)).map some) ++ g.dropWhile isT

/-- the words between `/` separators -/
def splitSlash : List String → List (List String)
  | [] => [[]]
  | w :: ws =>
    match splitSlash ws with
    | [] => [[w]]
    | p :: ps => if w == "/" then [] :: p :: ps else (w :: p) :: ps

def showProbe (x : Option DCand × Bool × Bool) : String :=
  (match x.1 with | some c => showCandA c 1 | none => "null") ++ s!",{b2s x.2.1},{b2s x.2.2}"

def buildMenu (trs : List (Gen DCand)) (filters : List String) : Option AnyMenu :=
  let out := Merged.output dcmp (Merged.ofList dcmp trs)
  let nullFree := out.all Option.isSome
  let src := out.filterMap id
  let fx : String → Bool := fun s => s == "uniq"
  match filters with
  | [] => some (.plain { cache := [], rest := out })
  | ["scf"] => some (.plain { cache := [], rest := rearrangeGen out })
  | [u] =>
    if (u == "uniq" || u == "olduniq") && nullFree then some (.f (fx u) (FMenu.ofUniq (·.text) (fx u) src)) else none
  | [u, "scf"] =>
    if (u == "uniq" || u == "olduniq") && nullFree then
      some (.f (fx u) (FMenu.ofUniqThenSingleChar (·.text) (fx u) (·.table) isSingle src))
    else none
  | ["scf", u] =>
    if (u == "uniq" || u == "olduniq") && nullFree then
      some (.f (fx u) (FMenu.ofUniq (·.text) (fx u) (rearrangeList (·.table) isSingle src)))
    else none
  | _ => none

def showPageA (p : Option (Page (Group DCand))) : String :=
  match p with
  | none => "page null"
  | some pg => s!"page {pg.pageSize} {pg.pageNo} {b2s pg.isLast} {pg.cands.length} {bracket (pg.cands.map showGroup)}"

def plainGroup (p : Page DCand) : Page (Group DCand) :=
  { pageSize := p.pageSize, pageNo := p.pageNo, isLast := p.isLast, cands := p.cands.map (fun c => { first := c }) }

def menuOp (m : AnyMenu) (w : List String) : Option (AnyMenu × String) :=
  match m, w with
  | .plain m, ["prepare", n] => n.toNat?.map (fun n => let r := m.prepare n; (.plain r.1, s!"prepare {r.2}"))
  | .f fx m, ["prepare", n] => n.toNat?.map (fun n => let r := m.prepare (·.text) fx n; (.f fx r.1, s!"prepare {r.2}"))
  | .plain m, ["page", ps, p] =>
    match ps.toNat?, p.toNat? with
    | some ps, some p => let r := m.createPage ps p; some (.plain r.2, showPageA (r.1.map plainGroup))
    | _, _ => none
  | .f fx m, ["page", ps, p] =>
    match ps.toNat?, p.toNat? with
    | some ps, some p => let r := m.createPage (·.text) fx ps p; some (.f fx r.2, showPageA r.1)
    | _, _ => none
  | .plain m, ["at", i] =>
    i.toNat?.map (fun i => let r := m.getCandidateAt i
      (.plain r.2, match r.1 with | none => "at null" | some c => "at " ++ showCandA c 1))
  | .f fx m, ["at", i] =>
    i.toNat?.map (fun i => let r := m.getCandidateAt (·.text) fx i
      (.f fx r.2, match r.1 with | none => "at null" | some g => "at " ++ showGroup g))
  | .plain m, ["empty"] => some (.plain m, s!"empty {b2s m.empty}")
  | .f fx m, ["empty"] => some (.f fx m, s!"empty {b2s m.empty}")
  | .plain m, ["count"] => some (.plain m, s!"count {m.candidateCount}")
  | .f fx m, ["count"] => some (.f fx m, s!"count {m.cache.length}")
  | .plain m, ["dump"] => some (.plain m, "dump " ++ bracket (m.cache.map (fun c => showCandA c 1)))
  | .f fx m, ["dump"] => some (.f fx m, "dump " ++ bracket (m.cache.map showGroup))
  | _, _ => none

/-- the full list of a menu, as (text, comment) -/
def drainMenu (m : AnyMenu) : List (Bytes × Bytes) :=
  match m with
  | .plain m => m.full.map (fun c => (c.text, c.comment))
  | .f fx m =>
    let r := m.prepare (·.text) fx (m.cache.length + m.queue.length + m.u.src.length + 1)
    r.1.cache.map (fun g => (g.first.text, g.first.comment))

def parsePair (s : String) : Option (Bytes × Bytes) :=
  match s.splitOn ":" with
  | [t, c] => match Hex.decode t, Hex.decode c with
    | some t, some c => some (t, c)
    | _, _ => none
  | _ => none

def showObs (o : Obs (Bytes × Bytes)) : String :=
  match o with
  | .ret ok => s!"ret {b2s ok}"
  | .menu none _ => "ctx none"
  | .menu (some pg) hl => s!"ctx {pg.pageNo} {b2s pg.isLast} {hl} {pg.cands.length} {showPairs pg.cands}"
  | .cands l ended => s!"list {b2s ended} {l.length} {showPairs l}"

def parseSegOp (w : List String) : Option SegOp :=
  match w with
  | ["ctx"] => some .getContext
  | ["hl", i] => i.toNat?.map .highlight
  | ["hlp", i] => i.toNat?.map .highlightOnPage
  | ["chpage", "+"] => some (.changePage false)
  | ["chpage", "-"] => some (.changePage true)
  | ["key", "next"] => some .nextPage
  | ["key", "prior"] => some .prevPage
  | ["key", "down"] => some .nextCand
  | ["key", "up"] => some .prevCand
  | ["list", a, n] => match a.toNat?, n.toNat? with
    | some a, some n => some (.list a n)
    | _, _ => none
  | _ => none

def mkSeg (st : DState) (ps cycle : String) (l : List (Bytes × Bytes)) : Option (DState × String) :=
  match ps.toNat? with
  | some ps =>
    if ps == 0 then none else
    some ({ st with seg := some { menu := { cache := [], rest := l.map some }, sel := 0 }, lastFull := l,
                    cfg := { pageSize := ps, pageDownCycle := cycle == "1", linear := st.layout ≥ 2 } }, s!"seg {l.length}")
  | none => none

def step (st : DState) (line : String) : DState × String :=
  let w := if line.startsWith "#" then [] else (line.trimAscii.toString.splitOn " ").filter (· ≠ "")
  let bad := (st, "bad-op")
  match w with
  | [] => (st, "")
  | ["reset"] => ({}, "reset")
  | "tr" :: rest =>
    let useCache := rest.contains "cache"
    let useDistinct := rest.contains "distinct"
    let useUnion := rest.contains "union"
    let useUnique := rest.contains "unique"
    let isWrap : String → Bool := fun s => s == "cache" || s == "distinct" || s == "union" || s == "unique" ||
      (s.length == 9 && s.startsWith "prefetch" && (s.drop 8).toNat?.any (fun k => 1 ≤ k && k ≤ 9))
    let cs := rest.filter (fun s => !isWrap s)
    if !useUnion && cs.contains "/" then bad else
    match parseAll parseCand (cs.filter (· ≠ "/")) with
    | none => bad
    | some gAll =>
      if useUnique && (gAll.length ≠ 1 || useUnion || !gAll.all Option.isSome) then bad else
      -- the pieces of a union, joined (a `PrefetchTranslation` whose `Replenish` queues candidates unchanged and a
      -- `UniqueTranslation` of one candidate yield what a leaf translation with these candidates yields)
      let pieces : Option (List (Gen DCand)) := (splitSlash cs).mapM (parseAll parseCand)
      match pieces with
      | none => bad
      | some pieces =>
      let g := if useUnion then unionGen pieces else gAll
      let g1 : Option (Gen DCand) :=
        if useDistinct then
          if g.all Option.isSome then some ((Distinct.output (·.text) (g.filterMap id)).map some) else none
        else some g
      match g1 with
      | none => bad
      | some g1 =>
        let g2 := if useCache then drainCache (g1.length + 1) (CacheTr.create g1) else g1
        ({ st with trs := st.trs ++ [g2] }, "tr ok")
  | ["tprobe", n] =>
    match n.toNat?, st.trs.getLast? with
    | some n, some g =>
      ({ st with trs := st.trs.dropLast }, "tprobe " ++ "|".intercalate ((Gen.probe n g).map showProbe))
    | _, _ => bad
  | ["probe", n] =>
    match n.toNat? with
    | some n =>
      let m := Merged.ofList dcmp st.trs
      ({ st with trs := [] }, s!"probe {b2s m.exhausted} " ++ "|".intercalate ((Merged.probe dcmp n m).map showProbe))
    | none => bad
  | "menu" :: filters =>
    match buildMenu st.trs filters with
    | some m => ({ st with menu := some m, trs := [] }, "menu ok")
    | none => bad
  | ["seg", ps, cycle] =>
    match st.menu with
    | some m => (mkSeg st ps cycle (drainMenu m)).getD bad
    | none => bad
  | "full" :: ps :: cycle :: cs =>
    match parseAll parsePair cs with
    | some l => (mkSeg st ps cycle l).getD bad
    | none => bad
  | ["again"] =>
    -- a fresh identical state: the same list, nothing fetched, selection at 0
    match st.seg with
    | some _ => ({ st with seg := some { menu := { cache := [], rest := st.lastFull.map some }, sel := 0 } }, s!"seg {st.lastFull.length}")
    | none => bad
  | ["L"] =>
    match st.seg with
    | some g => (st, "L " ++ showPairs g.menu.full)
    | none => bad
  | ["layout", n] =>
    match n.toNat? with
    | some n => if n < 4 then ({ st with layout := n, cfg := { st.cfg with linear := n ≥ 2 } }, s!"layout {n}") else bad
    | none => bad
  | ["keyc", code] =>
    match code.toNat?, st.seg with
    | some code, some g =>
      let km := match st.layout with
        | 0 => RimeModel.Session.Gen.selectorKeymap0 | 1 => RimeModel.Session.Gen.selectorKeymap1
        | 2 => RimeModel.Session.Gen.selectorKeymap2 | _ => RimeModel.Session.Gen.selectorKeymap3
      let op : Option SegOp := match km.find (code : Int) 0 with
        | some .previousCandidate => some .prevCand | some .nextCandidate => some .nextCand
        | some .previousPage => some .prevPage | some .nextPage => some .nextPage
        | some .home => some .home | some .end_ => some .home     -- the caret is at the end of the input in these states
        | none => none
      match op with
      | none => (st, "oos")                              -- no selector binding: the key goes on to the navigator / editor
      | some op =>
        let r := g.step st.cfg op
        match r.2 with
        | .ret false => (st, "oos")                      -- Selector returned false: left to the navigator
        | o => ({ st with seg := some r.1 }, showObs o)
    | _, _ => bad
  | _ =>
    match parseSegOp w with
    | some op =>
      match st.seg with
      | some g => let r := g.step st.cfg op; ({ st with seg := some r.1 }, showObs r.2)
      | none => bad
    | none =>
      match st.menu with
      | some m => match menuOp m w with
        | some (m', out) => ({ st with menu := some m' }, out)
        | none => bad
      | none => bad

partial def loop (h : IO.FS.Stream) (out : IO.FS.Stream) (st : DState) : IO Unit := do
  let line ← h.getLine
  if line.isEmpty then return ()
  let (st', o) := step st line
  if o ≠ "" then out.putStrLn o
  loop h out st'

def main : IO Unit := do
  loop (← IO.getStdin) (← IO.getStdout) {}
