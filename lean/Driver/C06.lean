import RimeModel.Basic.Hex
import RimeModel.C06.Compile
import RimeModel.C06.Layout
/-! line protocol for C06 (see checks/C06.py):
  case <name> / sort <original|by_weight> / [fixed <hex,hex,...|->] / file <textcol> <codecol> <weightcol> <hex body> ...
  / [derived <hex body>] / run
  `derived`: the `CreateEntry` calls the phrase encoder makes in `EntryCollector::Finish` (text, code, weight column, default
  layout), computed by the check's reference encoder: they follow the rows of all files; with it rows without a code are allowed.
  `fixed`: the collector of a pack starts from this syllabary and learns nothing (`build_syllabary = false`): a row with a
  syllable outside it is dropped before anything else happens to it.
→ case <name> / syl <id> <hex> / e <index ids> <extra ids|-> <texthex> <weight> / r <keyhex> <valhex> / end <name>
-/
open RimeModel RimeModel.C06

structure St where
  name : String := ""
  original : Bool := false
  rows : List RawRow := []
  derived : List RawRow := []
  allowEncoder : Bool := false
  fixed : Option (List Bytes) := none

def optCol (s : String) : Option (Option Nat) :=
  if s == "-1" then some none else s.toNat?.map some

def ids (l : List Nat) : String :=
  if l.isEmpty then "-" else ",".intercalate (l.map toString)

def runCase (st : St) (out : IO.FS.Stream) : IO Unit := do
  out.putStrLn s!"case {st.name}"
  let all : List RawRow := st.rows ++ st.derived
  let c := match st.fixed with
    | none => collect all
    | some syl => collectPack syl all
  if c.needEncoder != 0 && !st.allowEncoder then
    out.putStrLn "unsupported rows-without-code"
  else
    let syl := c.syllabary
    let ws := c.entries.map (fun r => effectiveWeight r.weightStr)
    if ws.any Option.isNone then
      out.putStrLn "unsupported weight-syntax"
    else
      for (s, i) in syl.zipIdx do
        out.putStrLn s!"syl {i} {Hex.encode s}"
      let t := compileTable (if st.original then id else sortHomophones) modelWeight c
      out.putStrLn s!"sizes {szMetadata} {szHeadNode} {szTrunkNode} {szLongEntry} {szEntry} {szStringType} {szSyllableId} {alEntry}"
      out.putStrLn s!"layout {indexEnd t} {indexSize t} {estimatedFileSize t c.entries.length}"
      for it in enumerateRaw t do
        out.putStrLn s!"e {ids it.index} {ids it.extra} {Hex.encode it.text} {it.weight.show}"
      let rev := compileReverse modelWeight c
      for kv in rev do
        out.putStrLn s!"r {Hex.encode kv.1} {Hex.encode (joinSp kv.2)}"
  out.putStrLn s!"end {st.name}"

partial def loop (h : IO.FS.Stream) (out : IO.FS.Stream) (st : St) : IO Unit := do
  let line ← h.getLine
  if line.isEmpty then return ()
  match line.trimAscii.toString.splitOn " " with
  | ["case", n] => loop h out { name := n }
  | ["sort", "original"] => loop h out { st with original := true }
  | ["sort", _] => loop h out { st with original := false }
  | ["file", tc, cc, wc, body] =>
    match optCol tc, optCol cc, optCol wc, Hex.decode body with
    | some tc, some cc, some wc, some b =>
      loop h out { st with rows := st.rows ++ parseFile { text := tc, code := cc, weight := wc } b }
    | _, _, _, _ => do out.putStrLn "bad-op"; loop h out st
  | ["derived", body] =>
    match Hex.decode body with
    | some b => loop h out { st with allowEncoder := true,
                                     derived := st.derived ++ parseFile { text := some 0, code := some 1, weight := some 2 } b }
    | none => do out.putStrLn "bad-op"; loop h out st
  | ["fixed", syl] =>
    match (if syl == "-" then some [] else (syl.splitOn ",").mapM Hex.decode) with
    | some l => loop h out { st with fixed := some l }
    | none => do out.putStrLn "bad-op"; loop h out st
  | ["run"] => do runCase st out; loop h out {}
  | _ => do out.putStrLn "bad-op"; loop h out st

def main : IO Unit := do
  loop (← IO.getStdin) (← IO.getStdout) {}
