import RimeModel.Basic.Hex
import RimeModel.C07.Translation
/-! line protocol for C07 (see checks/C07.py).
  table / nsyl n / syl id hex / e index extra texthex f32bits / endtable
  cfg <script|table> <completion> <delims hex> <enable_sentence> / cps <start> <len> <sylls> (table)
  in hex / g interp inputlen edgeStarts / gi start syll end type credbits / sent type start end texthex /
  pv len sylls / px len sylls / go
→ lk p / L end texthex code matching remaining m e / c type start end texthex / endin
-/
open RimeModel RimeModel.C06 RimeModel.C07

def parseIds (s : String) : List Nat :=
  if s == "-" then [] else (s.splitOn ",").filterMap (·.toNat?)

def hexNat (s : String) : Nat :=
  s.toList.foldl (fun acc c => acc * 16 + (Hex.digitVal c).getD 0) 0

/-- value of an IEEE-754 binary32 bit pattern (finite) -/
def dyOfF32 (b : Nat) : Dy :=
  let sign : Nat := b / 2 ^ 31
  let ex : Nat := (b / 2 ^ 23) % 256
  let fr : Nat := b % 2 ^ 23
  let m : Nat := if ex = 0 then fr else fr + 2 ^ 23
  ⟨if sign = 1 then - Int.ofNat m else Int.ofNat m, Int.ofNat (if ex = 0 then 1 else ex) - 150⟩

def kS : Dy := Dy.ofBits 0x40326bb1bbb55516   -- 18.420680743952367 = log(1e8)

def Dy.neg (a : Dy) : Dy := ⟨-a.m, a.e⟩

def ids (l : List Nat) : String :=
  if l.isEmpty then "-" else ",".intercalate (l.map toString)

structure St where
  syllabary : List Bytes := []
  rows : List (CRow Dy) := []          -- reversed
  table : Table := { head := [] }
  kind : String := "script"
  completion : Bool := false
  enableSentence : Bool := false
  cps : List (Nat × PrismKey) := []     -- reversed
  delims : Bytes := []
  input : Bytes := []
  interp : Nat := 0
  inputLen : Nat := 0
  edgeStarts : Nat := 0
  gi : List (Nat × Nat × Edge) := []    -- reversed
  sentence : Option Cand := none
  exactKey : Option PrismKey := none
  expansion : List PrismKey := []       -- reversed

def parseSylls (s : String) : List (Nat × Nat) :=
  if s == "-" then [] else (s.splitOn ",").filterMap fun p =>
    match p.splitOn ":" with
    | [a, b] => match a.toNat?, b.toNat? with
      | some x, some y => some (x, y)
      | _, _ => none
    | _ => none

/-- group the `gi` lines (already in map order) into `indices` -/
def groupGraph (l : List (Nat × Nat × Edge)) : List (Nat × List (Nat × List Edge)) :=
  let step := fun (acc : List (Nat × List (Nat × List Edge))) (x : Nat × Nat × Edge) =>
    match acc with
    | (s, sy) :: rest =>
      if s == x.1 then
        match sy with
        | (k, ps) :: srest => if k == x.2.1 then (s, (k, x.2.2 :: ps) :: srest) :: rest else (s, (x.2.1, [x.2.2]) :: sy) :: rest
        | [] => (s, [(x.2.1, [x.2.2])]) :: rest
      else (x.1, [(x.2.1, [x.2.2])]) :: acc
    | [] => [(x.1, [(x.2.1, [x.2.2])])]
  let r := l.foldl step []
  (r.map fun (s, sy) => (s, (sy.map fun (k, ps) => (k, ps.reverse)).reverse)).reverse

def showEntry (endPos : Nat) (ce : Chunk × Entry Dy) : String :=
  let w := Dy.add (Dy.add ce.2.weight (Dy.neg kS)) ce.1.cred
  let m := if ce.1.isPredictive then ce.1.matching else 0
  s!"L {endPos} {Hex.encode ce.2.text} {ids ce.1.code} {m} {ce.1.remaining.length} {w.m} {w.e}"

def showCand (c : Cand) : String := s!"c {c.type} {c.start} {c.endPos} {Hex.encode c.text}"

def runInput (st : St) (out : IO.FS.Stream) : IO Unit := do
  out.putStrLn s!"in {Hex.encode st.input}"
  let g : Graph := { inputLen := st.inputLen, interpLen := st.interp, indices := groupGraph st.gi.reverse, edgeStarts := st.edgeStarts }
  if st.kind == "script" then
    let would := st.completion && st.interp == st.inputLen
    for p in (if would then [false, true] else [false]) do
      out.putStrLn s!"lk {if p then 1 else 0}"
      for kv in lookup st.table g 0 p Dy.zero do
        for ce in drainAll kv.2 do
          out.putStrLn (showEntry kv.1 ce)
    for c in distinct [] (scriptTranslation st.table g 0 st.inputLen st.completion st.sentence) do
      out.putStrLn (showCand c)
  else
    let cpsAll := st.cps.reverse
    let cps := fun (s : Nat) => (cpsAll.filter (fun kv => kv.1 == s)).map (·.2)
    for c in distinct [] (tableQuery st.table st.syllabary st.delims st.input 0 st.completion st.enableSentence st.exactKey
                            st.expansion.reverse cps st.sentence) do
      out.putStrLn (showCand c)
  out.putStrLn "endin"

partial def loop (h : IO.FS.Stream) (out : IO.FS.Stream) (st : St) : IO Unit := do
  let line ← h.getLine
  if line.isEmpty then return ()
  match line.trimAscii.toString.splitOn " " with
  | ["table"] => loop h out {}
  | ["nsyl", _] => loop h out st
  | ["syl", _, hx] => loop h out { st with syllabary := st.syllabary ++ [(Hex.decode hx).getD []] }
  | ["e", idx, extra, text, bits] =>
    loop h out { st with rows := { code := parseIds idx ++ parseIds extra, text := (Hex.decode text).getD [], weight := dyOfF32 (hexNat bits) } :: st.rows }
  | ["endtable"] =>
    out.putStrLn s!"table {st.syllabary.length} {st.rows.length}"
    loop h out { st with table := build id st.syllabary.length st.rows.reverse }
  | ["cfg", kind, comp, delims, sen] =>
    loop h out { st with kind := kind, completion := comp == "1", delims := (Hex.decode delims).getD [], enableSentence := sen == "1" }
  | ["cps", s, len, sy] => loop h out { st with cps := (s.toNat!, { length := len.toNat!, sylls := parseSylls sy }) :: st.cps }
  | ["in", hx] =>
    loop h out { st with input := (Hex.decode hx).getD [], gi := [], sentence := none, exactKey := none, expansion := [], cps := [],
                         interp := 0, inputLen := 0, edgeStarts := 0 }
  | ["g", a, b, c] => loop h out { st with interp := a.toNat!, inputLen := b.toNat!, edgeStarts := c.toNat! }
  | ["gi", s, y, e, ty, cr] =>
    loop h out { st with gi := (s.toNat!, y.toNat!, { endPos := e.toNat!, type := ty.toNat!, cred := Dy.ofBits (hexNat cr) }) :: st.gi }
  | ["sent", ty, s, e, text] =>
    loop h out { st with sentence := some { type := ty, start := s.toNat!, endPos := e.toNat!, text := (Hex.decode text).getD [] } }
  | ["pv", len, sy] => loop h out { st with exactKey := some { length := len.toNat!, sylls := parseSylls sy } }
  | ["px", len, sy] => loop h out { st with expansion := { length := len.toNat!, sylls := parseSylls sy } :: st.expansion }
  | ["go"] => do runInput st out; loop h out st
  | _ => do out.putStrLn "bad-op"; loop h out st

def main : IO Unit := do
  loop (← IO.getStdin) (← IO.getStdout) {}
