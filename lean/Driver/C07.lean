import RimeModel.Basic.Hex
import RimeModel.C07.Translation
import RimeModel.C07.PoetGraphs
/-! line protocol for C07 (see checks/C07.py).
  table / nsyl n / syl id hex / e index extra texthex f32bits / endtable
  cfg <script|table> <completion> <delims hex> <enable_sentence> [<word completion> [<sentence_over_completion>]] / cps <start> <len> <sylls> (table)
  in hex / g interp inputlen edgeStarts / gi start syll end type credbits / sent type start end texthex /
  pv len sylls / px len sylls / go
→ lk p / L end texthex code matching remaining m e / c type start end texthex / mf <none | start end texthex weightbits> / ms <none | start end texthex m e> / endin
  (the sentence among the `c` lines and the `ms` line is the one the PORT of the poet computes on the model's word graph;
  a `sent` line is accepted and ignored)
  poet <total> <start:end:entries>...   entries = `-` or `;`-separated  texthex/weightbits/codeids   (stand-alone op)
→ poet cw <res> la <res>   res = none | weightbits|texthex|codeids|wordlengths|end/texthex/entryweightbits;...
  computed with IEEE doubles (Lean `Float`), same operations in the same order as poet.cc
-/
open RimeModel RimeModel.C06 RimeModel.C07

def parseIds (s : String) : List Nat :=
  if s == "-" then [] else (s.splitOn ",").filterMap (·.toNat?)

def hexNat (s : String) : Nat :=
  s.toList.foldl (fun acc c => acc * 16 + (Hex.digitVal c).getD 0) 0

/-- value of an IEEE-754 binary32 bit pattern (finite) -/
def dyOfF32 (b : Nat) : Dy :=
  let sign : Nat := b / 2 ^ 31
  let ex : Nat := (b / 2 ^ 23) % 256
  let fr : Nat := b % 2 ^ 23
  let m : Nat := if ex = 0 then fr else fr + 2 ^ 23
  ⟨if sign = 1 then - Int.ofNat m else Int.ofNat m, Int.ofNat (if ex = 0 then 1 else ex) - 150⟩

def kS : Dy := Dy.ofBits 0x40326bb1bbb55516   -- 18.420680743952367 = log(1e8)

def Dy.neg (a : Dy) : Dy := ⟨-a.m, a.e⟩

def ids (l : List Nat) : String :=
  if l.isEmpty then "-" else ",".intercalate (l.map toString)

structure St where
  syllabary : List Bytes := []
  rows : List (CRow Dy) := []          -- reversed
  table : Table := { head := [] }
  kind : String := "script"
  completion : Bool := false
  wordCompletion : Bool := false        -- enable_word_completion (by default = enable_completion)
  enableSentence : Bool := false
  soc : Bool := false                   -- sentence_over_completion
  cps : List (Nat × PrismKey) := []     -- reversed
  delims : Bytes := []
  input : Bytes := []
  interp : Nat := 0
  inputLen : Nat := 0
  edgeStarts : Nat := 0
  gi : List (Nat × Nat × Edge) := []    -- reversed
  sentence : Option Cand := none
  exactKey : Option PrismKey := none
  expansion : List PrismKey := []       -- reversed

def parseSylls (s : String) : List (Nat × Nat) :=
  if s == "-" then [] else (s.splitOn ",").filterMap fun p =>
    match p.splitOn ":" with
    | [a, b] => match a.toNat?, b.toNat? with
      | some x, some y => some (x, y)
      | _, _ => none
    | _ => none

/-- group the `gi` lines (already in map order) into `indices` -/
def groupGraph (l : List (Nat × Nat × Edge)) : List (Nat × List (Nat × List Edge)) :=
  let step := fun (acc : List (Nat × List (Nat × List Edge))) (x : Nat × Nat × Edge) =>
    match acc with
    | (s, sy) :: rest =>
      if s == x.1 then
        match sy with
        | (k, ps) :: srest => if k == x.2.1 then (s, (k, x.2.2 :: ps) :: srest) :: rest else (s, (x.2.1, [x.2.2]) :: sy) :: rest
        | [] => (s, [(x.2.1, [x.2.2])]) :: rest
      else (x.1, [(x.2.1, [x.2.2])]) :: acc
    | [] => [(x.1, [(x.2.1, [x.2.2])])]
  let r := l.foldl step []
  (r.map fun (s, sy) => (s, (sy.map fun (k, ps) => (k, ps.reverse)).reverse)).reverse

def showEntry (endPos : Nat) (ce : Chunk × Entry Dy) : String :=
  let w := Dy.add (Dy.add ce.2.weight (Dy.neg kS)) ce.1.cred
  let m := if ce.1.isPredictive then ce.1.matching else 0
  s!"L {endPos} {Hex.encode ce.2.text} {ids ce.1.code} {m} {ce.1.remaining.length} {w.m} {w.e}"

def showCand (c : Cand) : String := s!"c {c.type} {c.start} {c.endPos} {Hex.encode c.text}"

/-! ### the stand-alone poet op (IEEE doubles) -/

def floatOps : WOps Float :=
  { add := fun a b => a + b, lt := fun a b => decide (a < b), eq := fun a b => a == b, zero := 0.0,
    penalty := Float.ofBits 0xC0326bb1bbb55516 }     -- kPenalty = -18.420680743952367

def hex16 (n : Nat) : String :=
  let ds := (List.range 16).reverse.map fun i => Hex.hexDigit ((n / 16 ^ i) % 16)
  String.ofList ds

def dots (l : List Nat) : String :=
  if l.isEmpty then "-" else ".".intercalate (l.map toString)

def parseDots (s : String) : Option (List Nat) :=
  if s == "-" then some [] else (s.splitOn ".").mapM (·.toNat?)

def parseHex16 (s : String) : Option Nat :=
  if s.length != 16 then none
  else s.toList.foldlM (fun acc c => (Hex.digitVal c).map (fun d => acc * 16 + d)) 0

def parsePEntry (s : String) : Option (PEntry Float) :=
  match s.splitOn "/" with
  | [t, w, c] => do
    let text ← Hex.decode t
    let bits ← parseHex16 w
    let code ← parseDots c
    pure { text := text, code := code, weight := Float.ofBits (UInt64.ofNat bits) }
  | _ => none

/-- `start:end:entries` -/
def parsePEdge (s : String) : Option (Nat × Nat × List (PEntry Float)) :=
  match s.splitOn ":" with
  | [a, b, es] => do
    let st ← a.toNat?
    let en ← b.toNat?
    let ents ← if es == "-" then some [] else (es.splitOn ";").mapM parsePEntry
    pure (st, en, ents)
  | _ => none

/-- group the edges (given in the maps' iteration order: start ascending, then end ascending) -/
def groupPEdges (l : List (Nat × Nat × List (PEntry Float))) : PGraph Float :=
  let starts := sortDedup natLt (l.map (·.1))
  starts.map fun s => (s, (l.filter (fun x => x.1 == s)).map (·.2))

/-- keys of a `std::map` come strictly increasing -/
def strictlyIncreasing : List Nat → Bool
  | a :: b :: rest => decide (a < b) && strictlyIncreasing (b :: rest)
  | _ => true

def showSentence (r : Option (Sentence Float × List (Comp Float))) : String :=
  match r with
  | none => "none"
  | some (s, cs) =>
    let comps := ";".intercalate (cs.map fun c => s!"{c.endPos}/{Hex.encode c.entry.text}/{hex16 c.entry.weight.toBits.toNat}")
    s!"{hex16 s.weight.toBits.toNat}|{Hex.encode s.text}|{dots s.code}|{dots s.wordLengths}|{comps}"

def runPoet (total : Nat) (edges : List (Nat × Nat × List (PEntry Float))) : String :=
  let g := groupPEdges edges
  let one := fun (cmp : Line Float → Line Float → Bool) =>
    showSentence ((poetComponents floatOps cmp g total).map fun cs => (cs.foldl Sentence.extend (Sentence.init floatOps), cs))
  s!"poet cw {one (compareWeight floatOps)} la {one (leftAssociateCompare floatOps)}"

/-- a dyadic number as a double (exact for the stored floats and doubles) -/
def dyToFloat (d : Dy) : Float :=
  let n := d.m.natAbs
  let bl := if n == 0 then 0 else n.log2 + 1
  -- at most 63 significant bits (the rest folded into a sticky bit) so that the single rounding of `ofNat` is the correct one
  let k := bl - 63
  let n' := if k == 0 then n else (n >>> k) ||| (if n % 2 ^ k == 0 then 0 else 1)
  let f := (Float.ofNat n').scaleB (d.e + Int.ofNat k)
  if d.m < 0 then -f else f

/-- `DictEntryIterator::Peek`: `e.weight - kS + chunk.credibility` in doubles, in that order -/
def peekF (ce : Chunk × Entry Dy) : PEntry Float :=
  { text := ce.2.text, code := ce.1.code, weight := (dyToFloat ce.2.weight - Float.ofBits 0x40326bb1bbb55516) + dyToFloat ce.1.cred }

def showFloatSentence (s : Option (Sentence Float)) : String :=
  match s with
  | some s => s!"mf 0 {s.endPos} {Hex.encode s.text} {hex16 s.weight.toBits.toNat}"
  | none => "mf none"

def showModelSentence (c : Option Cand) (w : Option Dy) : String :=
  match c, w with
  | some c, some w => s!"ms {c.start} {c.endPos} {Hex.encode c.text} {w.m} {w.e}"
  | _, _ => "ms none"

def runInput (st : St) (out : IO.FS.Stream) : IO Unit := do
  out.putStrLn s!"in {Hex.encode st.input}"
  let g : Graph := { inputLen := st.inputLen, interpLen := st.interp, indices := groupGraph st.gi.reverse, edgeStarts := st.edgeStarts }
  if st.kind == "script" then
    let would := st.wordCompletion && st.interp == st.inputLen
    for p in (if would then [false, true] else [false]) do
      out.putStrLn s!"lk {if p then 1 else 0}"
      for kv in lookup st.table g 0 p Dy.zero do
        for ce in drainAll kv.2 do
          out.putStrLn (showEntry kv.1 ce)
    -- the sentence among the candidates: the port of the poet run with IEEE doubles (bit-identical to the code, ties included);
    -- `ms`: the same port with exact dyadic arithmetic (the model the theorems speak about)
    let senF := makeSentence floatOps (compareWeight floatOps) (scriptPoetGraphW peekF st.table g) g.interpLen
    let sentF := senF.map (sentenceCand 0)
    for c in distinct [] (scriptTranslation st.table g 0 st.inputLen st.wordCompletion sentF) do
      out.putStrLn (showCand c)
    out.putStrLn (showFloatSentence senF)
    out.putStrLn (showModelSentence (scriptSentence st.table g 0)
      ((makeSentence dyOps (compareWeight dyOps) (scriptPoetGraph st.table g) g.interpLen).map (·.weight)))
  else
    let cpsAll := st.cps.reverse
    let cps := fun (s : Nat) => (cpsAll.filter (fun kv => kv.1 == s)).map (·.2)
    let senF := if st.enableSentence || st.soc then
        makeSentence floatOps (leftAssociateCompare floatOps)
          (tablePoetGraphW peekF st.table st.syllabary st.delims st.input cps) st.input.length
      else none
    let sentF := senF.map (sentenceCand 0)
    for c in distinct [] (tableQueryS st.table st.syllabary st.delims st.input 0 st.completion st.enableSentence st.soc st.exactKey
                            st.expansion.reverse cps sentF) do
      out.putStrLn (showCand c)
    if st.enableSentence || st.soc then
      out.putStrLn (showFloatSentence senF)
      out.putStrLn (showModelSentence (tableSentence st.table st.syllabary st.delims st.input cps 0)
        ((makeSentence dyOps (leftAssociateCompare dyOps) (tablePoetGraph st.table st.syllabary st.delims st.input cps) st.input.length).map (·.weight)))
  out.putStrLn "endin"

partial def loop (h : IO.FS.Stream) (out : IO.FS.Stream) (st : St) : IO Unit := do
  let line ← h.getLine
  if line.isEmpty then return ()
  match line.trimAscii.toString.splitOn " " with
  | ["table"] => loop h out {}
  | ["nsyl", _] => loop h out st
  | ["syl", _, hx] => loop h out { st with syllabary := st.syllabary ++ [(Hex.decode hx).getD []] }
  | ["e", idx, extra, text, bits] =>
    loop h out { st with rows := { code := parseIds idx ++ parseIds extra, text := (Hex.decode text).getD [], weight := dyOfF32 (hexNat bits) } :: st.rows }
  | ["endtable"] =>
    out.putStrLn s!"table {st.syllabary.length} {st.rows.length}"
    loop h out { st with table := build id st.syllabary.length st.rows.reverse }
  | ["cfg", kind, comp, delims, sen] =>
    loop h out { st with kind := kind, completion := comp == "1", wordCompletion := comp == "1", delims := (Hex.decode delims).getD [],
                         enableSentence := sen == "1" }
  | ["cfg", kind, comp, delims, sen, wc, soc] =>
    loop h out { st with kind := kind, completion := comp == "1", wordCompletion := wc == "1", delims := (Hex.decode delims).getD [],
                         enableSentence := sen == "1", soc := soc == "1" }
  | ["cfg", kind, comp, delims, sen, wc] =>
    loop h out { st with kind := kind, completion := comp == "1", wordCompletion := wc == "1", delims := (Hex.decode delims).getD [],
                         enableSentence := sen == "1" }
  | ["cps", s, len, sy] => loop h out { st with cps := (s.toNat!, { length := len.toNat!, sylls := parseSylls sy }) :: st.cps }
  | ["in", hx] =>
    loop h out { st with input := (Hex.decode hx).getD [], gi := [], sentence := none, exactKey := none, expansion := [], cps := [],
                         interp := 0, inputLen := 0, edgeStarts := 0 }
  | ["g", a, b, c] => loop h out { st with interp := a.toNat!, inputLen := b.toNat!, edgeStarts := c.toNat! }
  | ["gi", s, y, e, ty, cr] =>
    loop h out { st with gi := (s.toNat!, y.toNat!, { endPos := e.toNat!, type := ty.toNat!, cred := Dy.ofBits (hexNat cr) }) :: st.gi }
  | ["sent", ty, s, e, text] =>
    loop h out { st with sentence := some { type := ty, start := s.toNat!, endPos := e.toNat!, text := (Hex.decode text).getD [] } }
  | ["pv", len, sy] => loop h out { st with exactKey := some { length := len.toNat!, sylls := parseSylls sy } }
  | ["px", len, sy] => loop h out { st with expansion := { length := len.toNat!, sylls := parseSylls sy } :: st.expansion }
  | ["go"] => do runInput st out; loop h out st
  | "poet" :: tot :: edges => do
    match tot.toNat?, edges.mapM parsePEdge with
    | some total, some es =>
      -- what a `std::map<int, std::map<int, …>>` cannot hold is rejected: keys out of order or repeated
      let keys := es.map fun e => e.1 * 1000000 + e.2.1
      if strictlyIncreasing keys && es.all (fun e => decide (e.2.1 < 1000000)) then out.putStrLn (runPoet total es)
      else out.putStrLn "bad-op"
    | _, _ => out.putStrLn "bad-op"
    loop h out st
  | _ => do out.putStrLn "bad-op"; loop h out st

def main : IO Unit := do
  loop (← IO.getStdin) (← IO.getStdout) {}
