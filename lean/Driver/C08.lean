import RimeModel.Basic.Hex
import RimeModel.C08.Model
/-! line protocol for C08 (the same op lines `harness/c08_harness.cc` echoes):

* `P <loaded 0|1>`                                start a new prism; `1` = the object the syllabifier uses was
                                                  `Load`ed from the saved file, `0` = it only ran `Build`  → `ok`
* `K <key-hex> <syl>:<type>:<cred16>,…|-`         next spelling (id = number of `K` lines so far) with what
                                                  its `SpellingAccessor` enumerates; `cred16` = the 64-bit
                                                  pattern of the double, 16 hex digits     → `ok`
* `A`                                             the alphabet `Prism::Build` stored in the metadata for the rows
                                                  given so far                              → `<alphabet-hex>`
* `Q <delims-hex> <completion 0|1> <strict 0|1> <input-hex>`   run `BuildSyllableGraph` → one graph line

graph line: `ret=<r> il=<interpreted> in=<input_length> V=<pos>:<type>,… E=<items> I=<items>` with
E items `s` (start with no end vertex) | `s>e` (end vertex with no spelling) | `s>e>syl:type:corr:cred16`
and I items `s` | `s>syl>e:type:corr:cred16` (list order kept), `-` for an empty list.
Credibility is printed as the bit pattern of the double obtained by adding the counted penalties
to the stored double in IEEE arithmetic (exactly the additions the code performs). -/
open RimeModel RimeModel.C08

def hexNat? (s : String) : Option Nat :=
  s.toList.foldl (fun acc c => match acc, Hex.digitVal c with
    | some a, some d => some (a * 16 + d)
    | _, _ => none) (if s.isEmpty then none else some 0)

def hex16 (n : Nat) : String :=
  String.ofList ((List.range 16).reverse.map fun i => Hex.hexDigit ((n >>> (4 * i)) % 16))

def kCompletionPenalty : Float := Float.ofBits 0xbfe62e42fefa39ef          -- log(0.5)
def kPenaltyForAmbiguousSyllable : Float := Float.ofBits 0xc037069e2aa2aa5b  -- log(1e-10)

def credBits (p : Props) : Nat :=
  let f0 := Float.ofBits (UInt64.ofNat p.cred)
  let f1 := (List.range p.compl).foldl (fun f _ => f + kCompletionPenalty) f0
  let f2 := (List.range p.amb).foldl (fun f _ => f + kPenaltyForAmbiguousSyllable) f1
  f2.toBits.toNat

def showProps (p : Props) : String := s!"{p.type}:0:{hex16 (credBits p)}"

def showList (xs : List String) : String := if xs.isEmpty then "-" else ",".intercalate xs

def showEdges (e : EMap) : String :=
  showList (e.flatMap fun s =>
    if s.2.isEmpty then [s!"{s.1}"] else
    s.2.flatMap fun ev =>
      if ev.2.isEmpty then [s!"{s.1}>{ev.1}"] else
      ev.2.map fun sp => s!"{s.1}>{ev.1}>{sp.1}:{showProps sp.2}")

def showIndices (ix : IMap) : String :=
  showList (ix.flatMap fun s =>
    if s.2.isEmpty then [s!"{s.1}"] else
    s.2.flatMap fun sy => sy.2.map fun p => s!"{s.1}>{sy.1}>{p.endPos}:{showProps p}")

def showGraph (g : Graph) : String :=
  s!"ret={g.interpretedLength} il={g.interpretedLength} in={g.inputLength} V={showList (g.vertices.map fun v => s!"{v.1}:{v.2}")} E={showEdges g.edges} I={showIndices g.indices}"

def readDesc (s : String) : Option Desc :=
  match s.splitOn ":" with
  | [a, b, c] => do
    let a ← a.toNat?
    let b ← b.toNat?
    let c ← hexNat? c
    pure ⟨a, b, c⟩
  | _ => none

def readDescs (s : String) : Option (List Desc) :=
  if s == "-" then some [] else (s.splitOn ",").mapM readDesc

def readBool (s : String) : Option Bool :=
  if s == "0" then some false else if s == "1" then some true else none

structure DState where
  loaded : Bool := false
  prism : Prism := []

def step (st : DState) (line : String) : DState × String :=
  match line.trimAscii.toString.splitOn " " with
  | ["P", ld] =>
    match readBool ld with
    | some ld => ({ loaded := ld, prism := [] }, "ok")
    | none => (st, "bad-op")
  | ["A"] => (st, Hex.encode (buildAlphabet st.prism))
  | ["K", k, ds] =>
    match Hex.decode k, readDescs ds with
    | some k, some ds => ({ st with prism := st.prism ++ [(k, ds)] }, "ok")
    | _, _ => (st, "bad-op")
  | ["Q", dl, c, s, inp] =>
    match Hex.decode dl, readBool c, readBool s, Hex.decode inp with
    | some dl, some c, some s, some inp =>
      (st, showGraph (build { delims := dl, completion := c, strict := s, alphabet := searchAlphabet st.loaded st.prism } st.prism inp))
    | _, _, _, _ => (st, "bad-op")
  | _ => (st, "bad-op")

partial def loop (h : IO.FS.Stream) (out : IO.FS.Stream) (st : DState) : IO Unit := do
  let line ← h.getLine
  if line.isEmpty then return ()
  let r := step st line
  out.putStrLn r.2
  loop h out r.1

def main : IO Unit := do
  loop (← IO.getStdin) (← IO.getStdout) {}
