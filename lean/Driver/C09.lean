import RimeModel.Basic.Hex
import RimeModel.C09.Model
import RimeModel.C09.Prism
import RimeModel.C09.Regex
/-! line protocol for C09 (the lines harness/c09_harness.cc prints before the tab; the model's
observation must equal what the harness prints after the tab).  Stateful: one case at a time.

* `case <id>`                               → `ok`
* `syl <hex>…`                              → `syllabary=<hex,…> script=<dump>`   (`set<string>` + AddSyllable)
* `rule <formula> <ok:1|R|N> <n> (<key> <0|1|E> <result>)×n`
                                            → `kind=<name|null> del=<b|-> add=<b|-> round=<ok|threw|noparse> mod=<b> script=<dump>`
  one-calculation `Projection` applied to the step script; the rows are the recorded outcome of the
  real `Calculation::Apply` on each key of the script (in key order, up to the first throw).  They ARE the
  rule for xlit/xform/derive/fuzz/abbrev; for `erase` with a pattern inside the modelled regex fragment
  (RimeModel/C09/Regex.lean) the model computes `Erasion::Apply` itself on every ASCII spelling (whole-string
  `regex_match`) and the recorded rows are only required to exist
* `apply`                                   → `loaded=<b> modified=<b> script=<dump>`  whole projection on the fresh script
* `glue`                                    → `script=<dump>`   `if (!modified) script.clear()` of DictCompiler::BuildPrism
* `merge <key> <type> <cred> <tips> <n> (<str> <type> <cred> <tips>)×n` → `script=<dump>`  `Script::Merge` on the current script
* `build` | `build noscript`                → `ok=1 format=<hex> n=<#keys> alphabet=<hex> map=<b>`  Build + Save + Load
* `compile` | `compile again`               → as `build`: the real `DictCompiler::Compile` on generated dict/schema files vs `DictCompiler.prism`
  (`compile T` → `ok=T`: the table, not the prism, failed to build; nothing is compared)
* `reload <format>`                         → `ok=<b>`   Load of the same file with the format tag replaced
* `q <key>`                                 → `get=<v|-> has=<b> cps=<v:l,…|->`
* `x <key> <limit>`                         → `exp=<v:l,…|->`
* `sp <id>`                                 → `sp=<sid,type,cred,tips;…>`
Byte strings are lower-case hex, `-` = empty; credibility is the (non-positive) penalty count. -/
open RimeModel RimeModel.C09

structure St where
  syl : List Bytes := []
  init : Script := []
  step : Script := []
  rules : List (Option Rule) := []
  cur : Script := []
  modified : Bool := false
  built : Option Prism := none
  prism : Option Prism := none

def b01 (b : Bool) : String := if b then "1" else "0"

def showSpelling (x : Spelling) : String :=
  s!"{Hex.encode x.str},{x.props.type.rank},{x.props.cred},{Hex.encode x.props.tips}"

def showScript (S : Script) : String :=
  if S.isEmpty then "-" else
  "|".intercalate (S.map fun e => Hex.encode e.1 ++ "=" ++ ";".intercalate (e.2.map showSpelling))

def showMatches (ms : List Match) : String :=
  if ms.isEmpty then "-" else ",".intercalate (ms.map fun m => s!"{m.value}:{m.length}")

def showDescs (ds : List Descriptor) : String :=
  if ds.isEmpty then "-" else
  ";".intercalate (ds.map fun d => s!"{d.syllableId},{d.type.rank},{d.cred},{Hex.encode d.tips}")

def kindName : Kind → String
  | .xlit => "xlit" | .xform => "xform" | .erase => "erase" | .derive => "derive" | .fuzz => "fuzz" | .abbrev => "abbrev"

def readType (s : String) : Option SpellingType := s.toNat? >>= SpellingType.ofNat?

def readRows : List String → Option (List (Bytes × Outcome))
  | [] => some []
  | k :: o :: r :: rest => do
    let k ← Hex.decode k
    let r ← Hex.decode r
    let o ← match o with
      | "0" => some Outcome.notApplied
      | "1" => some (Outcome.applied r)
      | "E" => some Outcome.threw
      | _ => none
    let more ← readRows rest
    pure ((k, o) :: more)
  | _ => none

def readSpellings : List String → Option (List Spelling)
  | [] => some []
  | s :: t :: c :: tips :: rest => do
    let s ← Hex.decode s
    let t ← readType t
    let c ← c.toInt?
    let tips ← Hex.decode tips
    let more ← readSpellings rest
    pure (⟨s, ⟨t, c, tips⟩⟩ :: more)
  | _ => none

/-- keys of the script for which the recorded table has no row, looking no further than the first throw -/
def missingRow (tbl : List (Bytes × Outcome)) : List Bytes → Option Bytes
  | [] => none
  | k :: ks =>
    match tbl.lookup k with
    | none => some k
    | some .threw => none
    | some _ => missingRow tbl ks

/-- the pattern of an `erase` formula when it lies in the fragment the model gives a meaning to -/
def erasePattern (kind : Kind) (args : List Bytes) : Option Re :=
  if kind == .erase then parseRegex (args.getD 1 []) else none

def doRule (st : St) (formula ok : String) (rows : List String) : St × String :=
  match Hex.decode formula, readRows rows with
  | some f, some tbl =>
    let parsed := if ok == "1" then Calculus.parse f else none
    match parsed with
    | none =>
      -- R: the regex did not compile (only a regex kind can do that); N: Parse returned NULL
      let consistent : Bool := match ok, Calculus.parse f with
        | "R", some (k, _) => k != .xlit
        | "N", some (k, _) => k == .xlit   -- code-point pairing of xlit is not modelled
        | "N", none => true
        | _, _ => false
      if consistent then
        ({ st with rules := st.rules ++ [none] }, s!"kind=null del=- add=- round=noparse mod=0 script={showScript st.step}")
      else (st, "model-parse-disagrees")
    | some (kind, args) =>
      match missingRow tbl st.step.keys with
      | some k => (st, s!"missing-outcome {Hex.encode k}")
      | none =>
        let recorded : Bytes → Outcome := fun s => (tbl.lookup s).getD .threw
        let r : Rule := { kind := kind, run := match erasePattern kind args with
          | some re => fun s => if s.all (fun c => c.toNat < 128) then Erasion.run re s else recorded s
          | none => recorded }
        let threw := (round r st.step).isNone
        let res := Projection.apply [r] st.step
        ({ st with rules := st.rules ++ [some r], step := res.2 },
         s!"kind={kindName kind} del={b01 kind.deletion} add={b01 kind.addition} round={if threw then "threw" else "ok"} mod={b01 res.1} script={showScript res.2}")
  | _, _ => (st, "bad-op")

def step (st : St) (line : String) : St × String :=
  match line.trimAscii.toString.splitOn " " with
  | ["case", _] => ({}, "ok")
  | "syl" :: hs =>
    match hs.mapM Hex.decode with
    | some l =>
      let syl := Syllabary.ofList l
      let S := Script.ofSyllabary syl
      ({ syl := syl, init := S, step := S, cur := S },
       s!"syllabary={",".intercalate (syl.map Hex.encode)} script={showScript S}")
    | none => (st, "bad-op")
  | "rule" :: formula :: ok :: n :: rows =>
    if n.toNat? == some (rows.length / 3) && rows.length % 3 == 0 then doRule st formula ok rows else (st, "bad-op")
  | ["apply"] =>
    match Projection.load st.rules with
    | none => ({ st with cur := st.init, modified := false }, s!"loaded=0 modified=0 script={showScript st.init}")
    | some rs =>
      let res := Projection.apply rs st.init
      ({ st with cur := res.2, modified := res.1 }, s!"loaded=1 modified={b01 res.1} script={showScript res.2}")
  | ["glue"] =>
    -- DictCompiler::BuildPrism: `if (!p.Apply(&script)) script.clear();`
    let S := if st.modified then st.cur else []
    ({ st with cur := S }, s!"script={showScript S}")
  | "merge" :: key :: t :: c :: tips :: n :: rest =>
    match Hex.decode key, readType t, c.toInt?, Hex.decode tips, readSpellings rest with
    | some key, some t, some c, some tips, some v =>
      if n.toNat? == some v.length then
        let S := st.cur.merge key ⟨t, c, tips⟩ v
        ({ st with cur := S }, s!"script={showScript S}")
      else (st, "bad-op")
    | _, _, _, _, _ => (st, "bad-op")
  | "build" :: opt =>
    if opt == [] || opt == ["noscript"] then
      -- DictCompiler::BuildPrism: `script.empty() ? nullptr : &script`
      let b := Prism.build st.syl (if opt == [] && !st.cur.isEmpty then some st.cur else none)
      match Prism.load b.save with
      | some p =>
        ({ st with built := some b, prism := some p },
         s!"ok=1 format={Hex.encode p.format} n={p.keys.length} alphabet={Hex.encode p.alphabet} map={b01 p.spellingMap.isSome}")
      | none => ({ st with built := some b, prism := none }, "ok=0")
    else (st, "bad-op")
  | ["compile", "T"] =>
    -- the harness could not get a table out of `Table::Build` (outside this property): no prism to compare
    ({ st with built := none, prism := none }, "ok=T")
  | ["compile"] | ["compile", "again"] =>
    -- (`compile again`: the same dictionary compiled over its earlier outputs after the schema changed — or did not; what the
    -- prism must hold is the same function of the current rules)
    match DictCompiler.scriptArg (Projection.load st.rules) st.syl with
    | none => ({ st with built := none, prism := none }, "ok=0")
    | some arg =>
      let b := Prism.build st.syl arg
      match Prism.load b.save with
      | some p =>
        ({ st with built := some b, prism := some p },
         s!"ok=1 format={Hex.encode p.format} n={p.keys.length} alphabet={Hex.encode p.alphabet} map={b01 p.spellingMap.isSome}")
      | none => ({ st with built := some b, prism := none }, "ok=0")
  | ["reload", f] =>
    match Hex.decode f, st.built with
    | some f, some b =>
      match Prism.load { b.save with format := f } with
      | some p => ({ st with prism := some p }, "ok=1")
      | none => ({ st with prism := none }, "ok=0")
    | some _, none => ({ st with prism := none }, "ok=0")   -- no file was written: Load fails
    | _, _ => (st, "bad-op")
  | ["q", key] =>
    match Hex.decode key, st.prism with
    | some key, some p =>
      let g := match p.getValue key with
        | some v => toString v
        | none => "-"
      (st, s!"get={g} has={b01 (p.hasKey key)} cps={showMatches (p.commonPrefixSearch key)}")
    | _, _ => (st, "bad-op")
  | ["x", key, limit] =>
    match Hex.decode key, limit.toNat?, st.prism with
    | some key, some limit, some p => (st, s!"exp={showMatches (p.expandSearch key limit)}")
    | _, _, _ => (st, "bad-op")
  | ["sp", id] =>
    match id.toNat?, st.prism with
    | some id, some p => (st, s!"sp={showDescs (p.querySpelling id)}")
    | _, _ => (st, "bad-op")
  | _ => (st, "bad-op")

partial def loop (h : IO.FS.Stream) (out : IO.FS.Stream) (st : St) : IO Unit := do
  let line ← h.getLine
  if line.isEmpty then return ()
  let (st', o) := step st line
  out.putStrLn o
  loop h out st'

def main : IO Unit := do
  loop (← IO.getStdin) (← IO.getStdout) {}
