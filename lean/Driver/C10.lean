import RimeModel.Basic.Hex
import RimeModel.C10.Model
import RimeModel.C10.FloatDee
import RimeModel.C10.Encoder
/-!
Line protocol for C10 (same lines the harness `c10_harness` prints, plus a header written by the check):

  style script|table            which `Memorize` / `Query` the translator under test has
  predict none|script <n>|table [<completion 0|1> <max_homographs>]
                                candidate-list prediction: off / script style with fixed syllable length n / table style
                                (defaults: completion on, max_homographs 1)
  dict <text> <code> <weight>   one row of the static dictionary (for the prediction)
  E encode_phrase <phrase> <value 0|1> <k> <code>^k   one `EncodePhrase` call of the unity table encoder and the codes it created
  E history <k> (<type> <text>)^k                     the commit history (oldest first) at the commit that follows
  E reset | E query <ns> <lookup 0|1> | E commit <now> <nseg> (<status> <sel>)* | E delete <sel> | E unhandled <keycode> <mod> <now> | E close <ns>
        <sel> ::= n - - | u <text> - | p <text> <code> | s <text> <code> <k> (<text> <code>)^k
  O db …      → `M db tick=<durable tick> member=<tick_> intxn=<0|1> n=<k> <code>|<text>|<c>|<dee bits>|<t> …` (sorted by key)
  O cands …   → `M cands <text>:<class>:<end> …` (class u user, s system, t sentence) or `M cands -` when not predicted
  after every `E commit`: `M memorize <ns> <text> <code> <k> (<text> <code>)^k` per commit entry the model forms and
        `M updates <code>|<text>|<n> …` (the UpdateEntry calls in order)
`# op <n> …` is echoed as `# op <n>` (alignment); `R` and other `O` lines are skipped.  Malformed `E` lines print `bad-op`.
-/
open RimeModel RimeModel.C10

structure DictRow where
  text : Bytes
  code : Code
  weight : Int

inductive Predict where
  | none
  | script (syl : Nat)
  /-- table style; `completion` = `translator/enable_completion` (LazyTableTranslation with predictive user phrases, else
  the plain `TableTranslation` of exact matches), `maxHomo` = `translator/max_homographs` -/
  | table (completion : Bool) (maxHomo : Nat) (enc : Bool)

structure St where
  style : Style := Style.script
  predict : Predict := Predict.none
  dict : Array DictRow := #[]
  ud : UD Float := UD.empty
  /-- `translator/enable_encoder` with a loaded encoder: `encode_commit_history`, `max_phrase_length` -/
  enc : Option EncCfg := none
  /-- `E encode_phrase` events since the last commit: (phrase, value "1"?, codes) -/
  encEvents : Array (Bytes × Bool × List Bytes) := #[]
  /-- the commit history at the commit being processed, newest first -/
  hist : List (String × Bytes) := []

def hexBytes (s : String) : Option Bytes := Hex.decode s

def parseCode (s : String) : Option Code :=
  if s == "-" then some [] else (s.splitOn ",").mapM hexBytes

def showCode (c : Code) : String :=
  if c.isEmpty then "-" else ",".intercalate (c.map Hex.encode)

def parseInt (s : String) : Option Int :=
  if s.startsWith "-" then (s.drop 1).toString.toNat?.map (fun n => -(n : Int)) else s.toNat?.map (fun n => (n : Int))

/-- parse one `<sel>`; returns the selection (none for `n`) and the remaining tokens -/
def parseEntries : Nat → List String → Option (List Entry × List String)
  | 0, ts => some ([], ts)
  | k + 1, t :: c :: ts => do
    let text ← hexBytes t
    let code ← parseCode c
    let r ← parseEntries k ts
    pure ({ text := text, code := code } :: r.1, r.2)
  | _, _ => none

def parseSel : List String → Option (Option Sel × List String)
  | "n" :: _ :: _ :: ts => some (none, ts)
  | "u" :: t :: _ :: ts => do
    let text ← hexBytes t
    pure (some { recognized := false, entry := { text := text, code := [] }, comps := none }, ts)
  | "p" :: t :: c :: ts => do
    let text ← hexBytes t
    let code ← parseCode c
    pure (some { recognized := true, entry := { text := text, code := code }, comps := none }, ts)
  | "s" :: t :: c :: k :: ts => do
    let text ← hexBytes t
    let code ← parseCode c
    let k ← k.toNat?
    let r ← parseEntries k ts
    pure (some { recognized := true, entry := { text := text, code := code }, comps := some r.1 }, r.2)
  | _ => none

def parseSegs : Nat → List String → Option (List Seg)
  | 0, [] => some []
  | 0, _ => none
  | k + 1, st :: ts => do
    let status ← st.toNat?
    let r ← parseSel ts
    let rest ← parseSegs k r.2
    pure ({ status := status, sel := r.1 } :: rest)
  | _, _ => none

/-- `<type> <text>` pairs of an `E history` line, oldest first -/
def parseHistory : List String → Option (List (String × Bytes))
  | [] => some []
  | ty :: tx :: rest => do
    let t ← hexBytes tx
    let r ← parseHistory rest
    pure ((ty, t) :: r)
  | _ => none

/-- bytewise order of the db keys `code ' ' … '\t' text` -/
def keyBytes (k : Key) : Bytes := (k.code.flatMap (fun s => s ++ [32])) ++ [9] ++ k.text

def bytesLt : Bytes → Bytes → Bool
  | [], [] => false
  | [], _ :: _ => true
  | _ :: _, [] => false
  | a :: as, b :: bs => if a < b then true else if a > b then false else bytesLt as bs

def sortedDb (db : Db Float) : List (Key × Value Float) :=
  (db.toArray.qsort (fun a b => bytesLt (keyBytes a.1) (keyBytes b.1))).toList

/-- what `Db::QueryAll` shows: the cursor starts at " " (to skip the metadata), so a record whose key sorts
below a space — an empty code, written when a candidate without a code (a table-style sentence) is deleted —
is in the db but never iterated -/
def showDb (u : UD Float) : String :=
  let rows := ((sortedDb u.durable).filter fun (k, _) => !bytesLt (keyBytes k) [32]).map fun (k, v) =>
    s!"{showCode k.code}|{Hex.encode k.text}|{v.commits}|{v.dee.toBits.toNat}|{v.tick}"
  s!"M db tick={u.metaTick} member={u.tick} intxn={if u.inTxn then 1 else 0} n={rows.length}" ++
    String.join (rows.map (" " ++ ·))

def showMemorize (ns : String) (c : CommitEntry) : String :=
  s!"M memorize {ns} {Hex.encode c.text} {showCode c.code} {c.elements.length}" ++
    String.join (c.elements.map fun e => s!" {Hex.encode e.text} {showCode e.code}")

def showUpdates (ups : List (Key × Int)) : String :=
  "M updates" ++ String.join (ups.map fun (k, n) => s!" {showCode k.code}|{Hex.encode k.text}|{n}")

/-! ### candidate-list prediction (synthetic schemas) -/

def chunks (n : Nat) (xs : Bytes) : Nat → List Bytes
  | 0 => []
  | fuel + 1 => if xs.isEmpty then [] else xs.take n :: chunks n (xs.drop n) fuel

def sysRows (st : St) (code : Code) : List DictRow :=
  let rows := st.dict.toList.filter (·.code = code)
  -- by weight descending, stable
  rows.foldr (fun x acc =>
    let rec ins : List DictRow → List DictRow
      | [] => [x]
      | y :: ys => if y.weight ≤ x.weight then x :: y :: ys else y :: ins ys
    ins acc) []

def userSorted (st : St) (present : Nat) (code : Code) : List UCand :=
  rotateExact (sortByWeight (userExact FloatDee.ops (sortedDb st.ud.durable) present code))

structure PCand where
  text : Bytes
  cls : String
  end_ : Nat

def showCands (cs : List PCand) : String :=
  if cs.isEmpty then "M cands n=0" else
  s!"M cands n={cs.length}" ++ String.join (cs.map fun c => s!" {Hex.encode c.text}:{c.cls}:{c.end_}")

def dedupP : List PCand → List Bytes → List PCand
  | [], _ => []
  | c :: cs, seen => if seen.contains c.text then dedupP cs seen else c :: dedupP cs (c.text :: seen)

def clsOf (c : Cand) : String := if c.sentence then "t" else if c.user then "u" else "s"

/-- field `name=value` of an observation line -/
def field (ws : List String) (name : String) : Option String :=
  (ws.find? (·.startsWith (name ++ "="))).map (fun w => (w.drop (name.length + 1)).toString)

/-- script style, fixed syllable length: sentence oracle = first candidate of the implementation's list when
its type is `sentence` -/
def predictScript (st : St) (syl : Nat) (ws : List String) : String :=
  match field ws "input", field ws "seg", field ws "n" with
  | some inp, some seg, some _ =>
    if seg == "-" then "M cands n=0" else
    match hexBytes inp, seg.splitOn "," with
    | some input, [a, b] =>
      match a.toNat?, b.toNat? with
      | some start, some stop =>
        let w := (input.drop start).take (stop - start)
        if w.isEmpty then "M cands n=0" else
        let syllabary : List Bytes := st.dict.toList.flatMap (·.code)
        let allSyls := chunks syl w w.length
        -- the syllabifier consumes the leading run of syllables of the syllabary
        let syls := allSyls.takeWhile (fun s => syllabary.contains s)
        let n := syls.length
        if n == 0 then "M cands n=0" else
        let whole := n * syl == w.length && stop == input.length
        let present := st.ud.tick + 1
        let userAt (k : Nat) := userSorted st present (syls.take k)
        let sysAt (k : Nat) := (sysRows st (syls.take k)).map fun r => ({ text := r.text, user := false, sentence := false } : Cand)
        let oracle : Option Bytes :=
          (ws.find? (fun t => (t.splitOn ":").length == 6)).bind fun t =>
            match t.splitOn ":" with
            | [tx, ty, _, _, _, _] => if ty == "sentence" then hexBytes tx else none
            | _ => none
        let sentence : Option Bytes := if n ≥ 2 then oracle else none
        let top := scriptTop whole sentence (userAt n) (sysAt n) (!(sysAt n).isEmpty)
        let topP := top.map fun c => ({ text := c.text, cls := clsOf c, end_ := start + syl * n } : PCand)
        let firstUsed := !top.isEmpty
        let rest := (List.range (n - 1)).reverse.foldl (fun (acc : List PCand × Bool) k0 =>
          let k := k0 + 1
          let g := scriptGroup (!acc.2) (userAt k) (sysAt k) false
          (acc.1 ++ g.map (fun c => ({ text := c.text, cls := clsOf c, end_ := start + syl * k } : PCand)), acc.2 || !g.isEmpty))
          (topP, firstUsed)
        showCands (dedupP rest.1 [])
      | _, _ => "bad-op"
    | _, _ => "bad-op"
  | _, _, _ => "M cands n=0"

def startsWithB : Bytes → Bytes → Bool
  | _, [] => true
  | [], _ :: _ => false
  | a :: as, b :: bs => a == b && startsWithB as bs

/-- table style.  Oracle parts (taken from the implementation's list): the sentence text and the order of the
table completions (`completion` candidates that do not come from the user dictionary). -/
def predictTable (st : St) (completion : Bool) (maxHomo : Nat) (enc : Bool) (ws : List String) : String :=
  match field ws "input", field ws "seg" with
  | some inp, some seg =>
    if seg == "-" then "M cands n=0" else
    match hexBytes inp, seg.splitOn "," with
    | some input, [a, b] =>
      match a.toNat?, b.toNat? with
      | some start, some stop =>
        let w := (input.drop start).take (stop - start)
        if w.isEmpty then "M cands n=0" else
        let present := st.ud.tick + 1
        let db := sortedDb st.ud.durable
        let userEx (c : Bytes) := sortByWeight (userExact FloatDee.ops db present [c])
        let sysEx (c : Bytes) := (sysRows st [c]).map fun r => ({ text := r.text, user := false, sentence := false } : Cand)
        -- constructed phrases (`encoder_->LookupPhrases`): the same lookup under the prefixed key, sorted on their own
        let consEx (c : Bytes) : List UCand := if enc then sortByWeight (userExact FloatDee.ops db present [encPrefix ++ c]) else []
        -- MakeSentence: the constructed phrases of a prefix are looked up only when no plain user phrase filled the edge
        let userOrCons (c : Bytes) : List UCand := if (userEx c).isEmpty then consEx c else userEx c
        let userPred : List UCand := if !completion then [] else (db.filter fun p =>
          match p.1.code with
          | [c] => startsWithB c w && c.length > w.length
          | _ => false).filterMap (createDictEntry FloatDee.ops present false)
        -- implementation's candidates: text:type:start:end:code:origin
        let impl := ws.filterMap fun t =>
          match t.splitOn ":" with
          | [tx, ty, _, _, _, org] => (hexBytes tx).map fun x => (x, ty, org)
          | _ => none
        let sysPred : List Cand := (impl.filter fun (_, ty, org) => ty == "completion" && org == "s").map
          fun (x, _, _) => ({ text := x, user := false, sentence := false } : Cand)
        -- `PreferUserPhrase`: an exact table entry goes before a constructed user phrase
        let direct := tableList (userEx w) (sysEx w ++ (consEx w).map UCand.toCand) userPred sysPred
        if !direct.isEmpty then
          showCands (dedupP (direct.map fun c => ({ text := c.text, cls := clsOf c, end_ := stop } : PCand)) [])
        else
          -- sentence mode: `MakeSentence(include_prefix_phrases)`; the sentence itself is an oracle
          let oracle : Option Bytes := match impl with
            | (x, ty, _) :: _ => if ty == "sentence" then some x else none
            | [] => none
          match oracle with
          | none => "M cands n=0"
          | some t =>
            let n := w.length
            let ks := (List.range (n - 1)).reverse.map (· + 1)
            let cs := tableSentenceListH maxHomo (some t) (ks.map fun k => (userOrCons (w.take k), sysEx (w.take k)))
            -- end position: the sentence covers the segment, a prefix phrase its prefix
            let ends : List Nat := stop :: ks.flatMap fun k =>
              List.replicate ((userOrCons (w.take k)).length + (if (userOrCons (w.take k)).length < maxHomo then (sysEx (w.take k)).length else 0)) (start + k)
            showCands (dedupP ((cs.zip ends).map fun (c, e) => ({ text := c.text, cls := clsOf c, end_ := e } : PCand)) [])
      | _, _ => "bad-op"
    | _, _ => "bad-op"
  | _, _ => "M cands n=0"

def step (st : St) (line : String) : St × List String :=
  let ws := line.trimAscii.toString.splitOn " "
  match ws with
  | ["style", "script"] => ({ st with style := Style.script }, [])
  | ["style", "table"] => ({ st with style := Style.table }, [])
  | ["predict", "none"] => ({ st with predict := Predict.none }, [])
  | ["predict", "table"] => ({ st with predict := Predict.table true 1 false }, [])
  | ["predict", "table", c, mh] =>
    match mh.toNat? with
    | some mh => if mh == 0 || (c != "0" && c != "1") then (st, ["bad-op"]) else ({ st with predict := Predict.table (c == "1") mh false }, [])
    | none => (st, ["bad-op"])
  | ["predict", "table", c, mh, "enc", ech, mpl] =>
    match mh.toNat?, parseInt mpl with
    | some mh, some mpl =>
      if mh == 0 || (c != "0" && c != "1") || (ech != "0" && ech != "1") then (st, ["bad-op"])
      else ({ st with predict := Predict.table (c == "1") mh true, enc := some { commitHistory := ech == "1", maxPhraseLength := mpl } }, [])
    | _, _ => (st, ["bad-op"])
  | ["predict", "script", n] =>
    match n.toNat? with
    | some n => if n == 0 then (st, ["bad-op"]) else ({ st with predict := Predict.script n }, [])
    | none => (st, ["bad-op"])
  | ["dict", t, c, w] =>
    match hexBytes t, parseCode c, parseInt w with
    | some t, some c, some w => ({ st with dict := st.dict.push { text := t, code := c, weight := w } }, [])
    | _, _, _ => (st, ["bad-op"])
  | "#" :: "op" :: n :: _ => (st, ["# op " ++ n])
  | ["E", "reset"] => ({ st with ud := UD.empty, encEvents := #[], hist := [] }, [])
  | "E" :: "encode_phrase" :: ph :: val :: k :: codes =>
    match hexBytes ph, k.toNat?, codes.mapM hexBytes with
    | some ph, some k, some codes =>
      if k != codes.length || (val != "0" && val != "1") then (st, ["bad-op"])
      else ({ st with encEvents := st.encEvents.push (ph, val == "1", codes) }, [])
    | _, _, _ => (st, ["bad-op"])
  | "E" :: "history" :: k :: rest =>
    match k.toNat?, parseHistory rest with
    | some k, some h => if k != h.length then (st, ["bad-op"]) else ({ st with hist := h.reverse }, [])
    | _, _ => (st, ["bad-op"])
  | ["E", "query", ns, flag] =>
    if ns == "translator" then ({ st with ud := st.ud.onQuery st.style (flag == "1") }, []) else (st, [])
  | "E" :: "close" :: ns :: _ =>
    -- ~UserDictionary commits the pending transaction; the next instance loads the durable tick count
    if ns == "translator" then ({ st with ud := st.ud.commitPending.fetchTick }, []) else (st, [])
  | "E" :: "commit" :: now :: nseg :: rest =>
    match parseInt now, nseg.toNat? with
    | some now, some nseg =>
      match parseSegs nseg rest with
      | some segs =>
        let ces := groupCommit segs
        match st.enc, st.style with
        | some cfg, Style.table =>
          -- the encoder proper is an oracle: the codes of the first recorded call for the phrase
          let evs := st.encEvents.toList
          let oracle (p : Bytes) : List Bytes := match evs.find? (fun e => e.1 == p) with
            | some e => e.2.2
            | none => []
          let r := st.ud.onCommitEnc FloatDee.ops cfg oracle st.hist segs now
          let calls := ces.flatMap (encodeCalls cfg st.hist)
          ({ st with ud := r.1, encEvents := #[], hist := [] },
           ces.map (showMemorize "translator") ++
           calls.map (fun (p, one) => s!"M encode_phrase {Hex.encode p} {if one then 1 else 0}") ++ [showUpdates r.2])
        | _, _ =>
        let ups := commitUpdates st.style segs
        ({ st with ud := st.ud.onCommit FloatDee.ops st.style segs now },
         ces.map (showMemorize "translator") ++ [showUpdates ups])
      | none => (st, ["bad-op"])
    | _, _ => (st, ["bad-op"])
  | "E" :: "delete" :: rest =>
    match parseSel rest with
    | some (some s, []) =>
      if s.recognized then ({ st with ud := st.ud.onDelete FloatDee.ops s.entry }, []) else (st, [])
    | some (none, []) => (st, [])
    | _ => (st, ["bad-op"])
  | ["E", "unhandled", kc, md, now] =>
    match kc.toNat?, md.toNat?, parseInt now with
    | some kc, some md, some now => ({ st with ud := st.ud.unhandledKey kc md now }, [])
    | _, _, _ => (st, ["bad-op"])
  | "E" :: _ => (st, ["bad-op"])
  | "O" :: "db" :: _ => (st, [showDb st.ud])
  | "O" :: "cands" :: rest =>
    match st.predict with
    | Predict.none => (st, ["M cands -"])
    | Predict.script n => (st, [predictScript st n rest])
    | Predict.table c mh enc => (st, [predictTable st c mh enc rest])
  | _ => (st, [])

partial def loop (h : IO.FS.Stream) (out : IO.FS.Stream) (st : St) : IO Unit := do
  let line ← h.getLine
  if line.isEmpty then return ()
  let (st, outs) := step st line
  for o in outs do out.putStrLn o
  loop h out st

def main : IO Unit := do
  loop (← IO.getStdin) (← IO.getStdout) {}
