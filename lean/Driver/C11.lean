import RimeModel.Basic.Hex
import RimeModel.C11.Model
/-! Line protocol for C11.  Input: the side log of `harness/c11_harness.cc` (`call`, `op`, `note`, `end`, `dump`
lines; everything else is ignored).  Output:

* `st <i> routed=<ok|MISMATCH|-> flushed=<n> made=<m> dur=<dump>` after the i-th traced op (1-based): the M-kv
  state after running the raw trace (`Acc.step`), and whether the routing the hook reported (batch/db) is the
  one `Kv.routesToBatch` predicts;
* `ev <kind> <ok|MISMATCH> ops=<first>..<last> expected=<ops> got=<ops> done=<n> made=<m> specdur=<dump>
  specmade=<dump>` at every protocol event: the traced ops of the event against `emitOne`, and the states the
  *specification* allows (fold of the whole commits done / made);
* `fetch <ok|MISMATCH> at=<i> src=<batch|db> key=<hex> impl=<hex|miss> model=<hex|miss>` for every traced read: what
  `LevelDbWrapper::Fetch` returned against `Kv.fetch` (pending batch over durable) in the state after op i;
* `dump <dump>` for every `dump` line: the model's durable state, to be compared with the real one;
* `wf <bool> ops=<n>` at the end: `traceWellFormed` of the whole trace.
Unknown op names give `bad-op` (never defaulted). -/
open RimeModel RimeModel.C11

structure TOp where
  op : Op
  batch : Option Bool   -- routing reported by the hook, for writes
  after : Kv            -- raw-trace M-kv state after this op (filled in when the op is read)

structure DState where
  acc : Acc
  p : PState
  spec : Spec
  group : List TOp      -- traced ops since the last event boundary (oldest first)
  nops : Nat            -- traced model ops so far
  gstart : Nat          -- index (1-based) of the first op of the current group
  trace : List Op       -- whole trace, reversed
  callKind : String

def dumpStore (s : Store) : String :=
  if s.isEmpty then "-" else
  ",".intercalate (s.map (fun e => Hex.encode e.1 ++ ":" ++ Hex.encode e.2))

def showOp : Op → String
  | .begin => "begin" | .commit => "commit" | .abort => "abort"
  | .update k v => "put(" ++ Hex.encode k ++ "," ++ Hex.encode v ++ ")"
  | .erase k => "del(" ++ Hex.encode k ++ ")"
  | .close => "close" | .reopen => "open" | .crash => "crash"

def showOps (l : List Op) : String := if l.isEmpty then "[]" else "[" ++ " ".intercalate (l.map showOp) ++ "]"

def opWrite? : Op → Option Write
  | .update k v => some (.put k v)
  | .erase k => some (.del k)
  | _ => none

def mk (o : Op) (b : Option Bool) : TOp := ⟨o, b, Kv.init []⟩

def parseOp (name k v : String) : Option (Option TOp) :=
  match name, Hex.decode k, Hex.decode v with
  | "begin", _, _ => some (some (mk (.begin) (none)))
  | "commit", _, _ => some (some (mk (.commit) (none)))
  | "abort", _, _ => some (some (mk (.abort) (none)))
  | "close", _, _ => some (some (mk (.close) (none)))
  | "open", _, _ => some (some (mk (.reopen) (none)))
  | "commit.done", _, _ => some none
  | "open.fail", _, _ => some none
  | "put.batch", some k, some v => some (some (mk (.update k v) (some true)))
  | "put.db", some k, some v => some (some (mk (.update k v) (some false)))
  | "del.batch", some k, _ => some (some (mk (.erase k) (some true)))
  | "del.db", some k, _ => some (some (mk (.erase k) (some false)))
  | _, _, _ => none

/-- one event: compare the traced ops `got` with `emitOne`, advance the protocol and spec states; the kv part of
the protocol state is re-synchronised with the raw-trace state afterwards, so one mismatch is reported once -/
def fireEvent (d : DState) (kind : String) (e : Event) (got : List Op) (first last : Nat) (sync : Kv) :
    DState × String :=
  let expected := emitOne d.p e
  let ok := decide (expected = got)
  let spec' := d.spec.step e
  let p' := { d.p.step e with kv := sync }
  let line := s!"ev {kind} {if ok then "ok" else "MISMATCH"} ops={first}..{last} expected={showOps expected} got={showOps got} done={spec'.done.length} made={spec'.made.length} specdur={dumpStore (applyCommits [] spec'.done)} specmade={dumpStore (applyCommits [] spec'.made)}"
  ({ d with p := p', spec := spec' }, line)

/-- ops with no notification: `CommitPendingTransaction` from a query or a destructor, `Close`, `Open`, writes
outside the commit path.  Parsed greedily into events. -/
def residual (d : DState) (ops : List TOp) (first : Nat) (fuel : Nat) : DState × List String :=
  match fuel, ops with
  | 0, _ => (d, [])
  | _, [] => (d, [])
  | fuel + 1, a :: b :: r =>
    match a.op, b.op with
    | .commit, .close =>
      let (d1, l) := fireEvent d "closeDb" .closeDb [.commit, .close] first (first + 1) b.after
      let (d2, ls) := residual d1 r (first + 2) fuel
      (d2, l :: ls)
    | _, _ =>
      let (d1, l) := single d a first
      let (d2, ls) := residual d1 (b :: r) (first + 1) fuel
      (d2, l :: ls)
  | fuel + 1, [a] =>
    let (d1, l) := single d a first
    (d1, [l])
where
  single (d : DState) (a : TOp) (first : Nat) : DState × String :=
    match a.op with
    | .close => fireEvent d "closeDb" .closeDb [.close] first first a.after
    | .commit => fireEvent d "finish" .finish [.commit] first first a.after
    | .reopen => fireEvent d "openDb" .openDb [.reopen] first first a.after
    | o =>
      match opWrite? o with
      | some w => fireEvent d "write" (.write w) [o] first first a.after
      | none =>
        -- begin / abort with no notification: nothing in the protocol emits that
        ({ d with p := { d.p with kv := a.after } },
         s!"ev stray MISMATCH ops={first}..{first} expected=[] got={showOps [o]} done={d.spec.done.length} made={d.spec.made.length} specdur={dumpStore (applyCommits [] d.spec.done)} specmade={dumpStore (applyCommits [] d.spec.made)}")

def flushGroup (d : DState) : DState × List String :=
  let (d', ls) := residual d d.group d.gstart (d.group.length + 1)
  ({ d' with group := [], gstart := d'.nops + 1 }, ls)

def step (d : DState) (line : String) : DState × List String :=
  match line.trimAscii.toString.splitOn " " with
  | "call" :: _ :: kind :: _ => ({ d with callKind := kind }, [])
  | ["op", "fetch", k, v] =>
    match Hex.decode k, Hex.decode v with
    | some k, some v =>
      let m := d.acc.kv.fetch k
      (d, [s!"fetch {if m == some v then "ok" else "MISMATCH"} at={d.nops} src={if (lastWrite d.acc.kv.batch k).isSome then "batch" else "db"} key={Hex.encode k} impl={Hex.encode v} model={match m with | some x => Hex.encode x | none => "miss"}"])
    | _, _ => (d, ["bad-op"])
  | ["op", "fetch.miss", k, _] =>
    match Hex.decode k with
    | some k =>
      let m := d.acc.kv.fetch k
      (d, [s!"fetch {if m == none then "ok" else "MISMATCH"} at={d.nops} src={if (lastWrite d.acc.kv.batch k).isSome then "batch" else "db"} key={Hex.encode k} impl=miss model={match m with | some x => Hex.encode x | none => "miss"}"])
    | none => (d, ["bad-op"])
  | ["op", name, k, v] =>
    match parseOp name k v with
    | none => (d, ["bad-op"])
    | some none => (d, [])
    | some (some t) =>
      let routed := match d.acc.kv.routesToBatch t.op, t.batch with
        | some a, some b => if a == b then "ok" else "MISMATCH"
        | _, _ => "-"
      -- the raw track follows what the code DID: a write the hook saw going to the db is applied to durable
      let acc' := match t.op, t.batch with
        | .update k v, some false => if d.acc.kv.inTxn then
            { d.acc with kv := { d.acc.kv with durable := d.acc.kv.durable.put k v }, flushed := d.acc.flushed ++ [[.put k v]] }
          else d.acc.step t.op
        | .erase k, some false => if d.acc.kv.inTxn then
            { d.acc with kv := { d.acc.kv with durable := d.acc.kv.durable.erase k }, flushed := d.acc.flushed ++ [[.del k]] }
          else d.acc.step t.op
        | _, _ => d.acc.step t.op
      let n := d.nops + 1
      ({ d with acc := acc', group := d.group ++ [{ t with after := acc'.kv }], nops := n, trace := t.op :: d.trace },
       [s!"st {n} routed={routed} flushed={acc'.flushed.length} made={acc'.made.length} dur={dumpStore acc'.kv.durable}"])
  | ["note", "tick", n] =>
    match n.toNat? with
    | some n =>
      let (d1, ls) := flushGroup d
      let (d2, l) := fireEvent d1 "tick" (.tick n) [] (d1.nops + 1) d1.nops d1.acc.kv
      (d2, ls ++ [l])
    | none => (d, ["bad-op"])
  | ["note", "commit", u] =>
    match u.toNat? with
    | some u =>
      let ops := d.group.map (·.op)
      let ws := ops.filterMap opWrite?
      let (d1, l) := fireEvent d "onCommit" (.onCommit u ws) ops d.gstart d.nops d.acc.kv
      ({ d1 with group := [], gstart := d1.nops + 1 }, [l])
    | none => (d, ["bad-op"])
  | ["note", "delete", _] =>
    -- OnDeleteEntry: one UpdateEntry(-1) (or nothing), then the refresh may flush: same as un-notified ops
    let (d1, ls) := flushGroup d
    (d1, ls)
  | ["note", "unhandled", u, code, mask] =>
    match u.toNat?, code.toNat?, mask.toNat? with
    | some u, some code, some mask =>
      let ops := d.group.map (·.op)
      -- (key.modifier() & ~kShiftMask) == 0
      if mask ||| 1 == 1 then
        let (d1, l) :=
          if code == 0xff08 then fireEvent d "backspace" (.backspace u) ops d.gstart d.nops d.acc.kv
          else fireEvent d "finish" .finish ops d.gstart d.nops d.acc.kv
        ({ d1 with group := [], gstart := d1.nops + 1 }, [l])
      else
        let (d1, ls) := flushGroup d
        (d1, ls)
    | _, _, _ => (d, ["bad-op"])
  | "end" :: _ =>
    let (d1, ls) := flushGroup d
    (d1, ls)
  | "dump" :: _ => (d, [s!"dump {dumpStore d.acc.kv.durable}"])
  | _ => (d, [])

partial def loop (h : IO.FS.Stream) (out : IO.FS.Stream) (d : DState) : IO DState := do
  let line ← h.getLine
  if line.isEmpty then return d
  let (d', ls) := step d line
  for l in ls do out.putStrLn l
  loop h out d'

def main : IO Unit := do
  let out ← IO.getStdout
  let d0 : DState := { acc := Acc.init [], p := PState.init [] 1700000000, spec := Spec.init 1700000000, group := [], nops := 0,
                       gstart := 1, trace := [], callKind := "" }
  let d ← loop (← IO.getStdin) out d0
  out.putStrLn s!"wf {traceWellFormed d.trace.reverse} ops={d.nops}"
