import RimeModel.C12.Model
/-!
Line protocol for C12 / C13 (model side).  The check describes, for each deployment, the abstract view of the
sources (what `checks/C12.py` computes from the workspace it wrote), then asks for a deployment; the driver
keeps the staging-directory state `Arts` between deployments.

```
begin                      start a source description (clears the previous one)
src <rid> <content> <mtime>                   mtime: seconds since the epoch as a 64-bit time_t (may exceed 2^31, may be negative)
cfg <cfgid> <ok 0|1> <rid,rid,…|->          what compiling <cfgid> enumerates; ok=0: nothing is saved
proj <cfgid> <list a,b|-|none> <dict|-> <prism|-> <packs|-> <deps|->
schema <sid> <present 0|1> <ok 0|1>
dict <name> <present 0|1> <headerOk 0|1> <c1,c2,…|-|missing>
deploy <now>               → decision / write / result / state lines, then `end`
detect <lastBuild|state> <t1,t2,…|->        → `detect 0|1`   (`state`: use the model's last_build_time)
detect <lastBuild|state> error               → `detect 1`     (an entry of a data directory cannot be examined)
reset                      empty staging directory → `ok`
drop cfg|table|prism|reverse <name>          artefact missing / unloadable → `ok`
mark                       remember the staging directory (the state before a deployment that will be killed) → `ok`
old cfg|table|prism|reverse|lastbuild <name>  crash state: the slot holds again what it held at `mark` → `ok`
```
`<cfgid>` is `default` or `schema:<sid>`.  Anything else: `bad-op`.
-/
open RimeModel.C12

/-- the driver's checksum: the ideal one (everything fed to it) -/
abbrev DK := Option CfgArt × List (List Content)

structure Desc where
  src : List (Rid × Content × Time) := []
  cfg : List (CfgId × Bool × List Rid) := []
  proj : List (CfgId × Option (List String) × Option String × String × List String × List String) := []
  schema : List (String × Bool × Bool) := []
  dict : List (String × DictSrc) := []

structure DState where
  desc : Desc := {}
  arts : Arts DK := Arts.empty
  marked : Arts DK := Arts.empty
  cfgNames : List CfgId := []
  tableNames : List String := []
  prismNames : List String := []
  reverseNames : List String := []

def splitList (s : String) : List String :=
  if s == "-" then [] else s.splitOn ","

def parseCfgId (s : String) : Option CfgId :=
  if s == "default" then some .default
  else if s.startsWith "schema:" then some (.schema (s.drop 7).toString)
  else none

def showCfgId : CfgId → String
  | .default => "default"
  | .schema s => "schema:" ++ s

def cfgFile : CfgId → String
  | .default => "default.yaml"
  | .schema s => s ++ ".schema.yaml"

def parseBool (s : String) : Option Bool :=
  if s == "1" then some true else if s == "0" then some false else none

def Desc.toSrc (d : Desc) : Src := fun r =>
  match d.src.find? (·.1 == r) with
  | some (_, c, t) => some (c, t)
  | none => none

def Desc.toEnv (d : Desc) : Env DK :=
  { compile := fun id S =>
      match d.cfg.find? (·.1 == id) with
      | some (_, true, rids) =>
        let pr := match d.proj.find? (·.1 == id) with
          | some (_, l, dict, prism, packs, deps) => (l, dict, prism, packs, deps)
          | none => (none, none, "", [], [])
        some { stamps := rids.map fun r => (r, match S r with | some p => recorded p.2 | none => 0)
               inputs := rids.map fun r => (r, (S r).map (·.1))
               schemaList := pr.1, dict := pr.2.1, prism := pr.2.2.1, packs := pr.2.2.2.1, deps := pr.2.2.2.2 }
      | _ => none
    schemaPresent := fun s => match d.schema.find? (·.1 == s) with | some (_, p, _) => p | none => false
    schemaOk := fun s => match d.schema.find? (·.1 == s) with | some (_, _, o) => o | none => false
    dictSrc := fun n => match d.dict.find? (·.1 == n) with | some (_, ds) => ds | none => ⟨false, false, some []⟩
    ck := fun s l => (s.1, l :: s.2)
    zero := (none, [])
    fck := fun a => (some a, []) }

def showStamps (l : List (Rid × Stamp)) : String :=
  if l.isEmpty then "-" else ",".intercalate (l.map fun p => p.1 ++ "=" ++ toString p.2)

def showInputs (l : List (Rid × Option Content)) : String :=
  if l.isEmpty then "-" else
    ",".intercalate (l.map fun p => p.1 ++ "=" ++ (match p.2 with | some c => toString c | none => "x"))

def showCfgKey (a : CfgArt) : String := "{" ++ showStamps a.stamps ++ "|" ++ showInputs a.inputs ++ "}"

def showFiles (l : List Content) : String := "[" ++ ".".intercalate (l.map toString) ++ "]"

def showK (k : DK) : String :=
  (match k.1 with | some a => "F" ++ showCfgKey a | none => "") ++ String.join (k.2.map showFiles)

def showSyl : Syl → String
  | .empty => "empty"
  | .of f => "of" ++ showFiles f

def showEvent : Event → String
  | .cfgDecision id b => "d config_needs_update:" ++ cfgFile id ++ " " ++ (if b then "1" else "0")
  | .dictDecision d rt rp =>
    "d rebuild_table:" ++ d ++ " " ++ (if rt then "1" else "0") ++ "\nd rebuild_prism:" ++ d ++ " " ++ (if rp then "1" else "0")
  | .packDecision q b => "d rebuild_pack:" ++ q ++ " " ++ (if b then "1" else "0")
  | .wroteCfg id => "w " ++ cfgFile id
  | .wroteTable n => "w " ++ n ++ ".table.bin"
  | .wroteReverse n => "w " ++ n ++ ".reverse.bin"
  | .wrotePrism n => "w " ++ n ++ ".prism.bin"

def addName {α : Type} [BEq α] (l : List α) (x : α) : List α := if l.contains x then l else l ++ [x]

def DState.noteEvent (st : DState) : Event → DState
  | .wroteCfg id => { st with cfgNames := addName st.cfgNames id }
  | .wroteTable n => { st with tableNames := addName st.tableNames n }
  | .wroteReverse n => { st with reverseNames := addName st.reverseNames n }
  | .wrotePrism n => { st with prismNames := addName st.prismNames n }
  | _ => st

def DState.showState (st : DState) : List String :=
  (st.cfgNames.filterMap fun id => (st.arts.cfg id).map fun a =>
      "state cfg " ++ cfgFile id ++ " " ++ showStamps a.stamps ++ " " ++ showInputs a.inputs) ++
  (st.tableNames.filterMap fun n => (st.arts.table n).map fun t =>
      "state table " ++ n ++ ".table.bin " ++ showK t.ck ++ " " ++
        (match t.pack with | none => "primary" | some s => "pack:" ++ showSyl s) ++ " " ++ showFiles t.files) ++
  (st.prismNames.filterMap fun n => (st.arts.prism n).map fun q =>
      "state prism " ++ n ++ ".prism.bin " ++ showK q.dictCk ++ " " ++ showK q.schemaCk ++ " " ++ showSyl q.syl) ++
  (st.reverseNames.filterMap fun n => (st.arts.reverse n).map fun r =>
      "state reverse " ++ n ++ ".reverse.bin " ++ showK r.ck ++ " " ++ showFiles r.files) ++
  ["state lastbuild " ++ toString st.arts.lastBuild]

def parseNats (s : String) : Option (List Nat) := (splitList s).mapM (·.toNat?)

def parseInts (s : String) : Option (List Int) := (splitList s).mapM (·.toInt?)

def step (st : DState) (line : String) : DState × List String :=
  match line.trimAscii.toString.splitOn " " with
  | ["begin"] => ({ st with desc := {} }, [])
  | ["src", r, c, t] =>
    match c.toNat?, t.toInt? with
    | some c, some t => ({ st with desc := { st.desc with src := st.desc.src ++ [(r, c, t)] } }, [])
    | _, _ => (st, ["bad-op"])
  | ["cfg", id, ok, rids] =>
    match parseCfgId id, parseBool ok with
    | some id, some ok => ({ st with desc := { st.desc with cfg := st.desc.cfg ++ [(id, ok, splitList rids)] } }, [])
    | _, _ => (st, ["bad-op"])
  | ["proj", id, l, dict, prism, packs, deps] =>
    match parseCfgId id with
    | some id =>
      let l' := if l == "none" then none else some (splitList l)
      let d' := if dict == "-" then none else some dict
      let p' := if prism == "-" then "" else prism
      ({ st with desc := { st.desc with proj := st.desc.proj ++ [(id, l', d', p', splitList packs, splitList deps)] } }, [])
    | none => (st, ["bad-op"])
  | ["schema", sid, p, o] =>
    match parseBool p, parseBool o with
    | some p, some o => ({ st with desc := { st.desc with schema := st.desc.schema ++ [(sid, p, o)] } }, [])
    | _, _ => (st, ["bad-op"])
  | ["dict", n, p, h, files] =>
    match parseBool p, parseBool h with
    | some p, some h =>
      let f : Option (Option (List Content)) :=
        if files == "missing" then some none else (parseNats files).map some
      match f with
      | some f => ({ st with desc := { st.desc with dict := st.desc.dict ++ [(n, ⟨p, h, f⟩)] } }, [])
      | none => (st, ["bad-op"])
    | _, _ => (st, ["bad-op"])
  | ["deploy", now] =>
    match now.toInt? with
    | some now =>
      let r := deploy st.desc.toEnv st.desc.toSrc now st.arts
      let st1 := r.2.2.foldl DState.noteEvent { st with arts := r.1 }
      (st1, r.2.2.map showEvent ++ ["result " ++ (if r.2.1 then "1" else "0")] ++ st1.showState ++ ["end"])
    | none => (st, ["bad-op"])
  | ["detect", _, "error"] =>
    -- a directory entry whose information cannot be read (a dangling link): the `catch` of `DetectModifications::Run`
    (st, ["detect " ++ (if detectModificationsOnError then "1" else "0")])
  | ["detect", lb, ts] =>
    match (if lb == "state" then some st.arts.lastBuild else lb.toInt?), parseInts ts with
    | some lb, some ts => (st, ["detect " ++ (if detectModifications ts lb then "1" else "0")])
    | _, _ => (st, ["bad-op"])
  | ["reset"] => ({ st with arts := Arts.empty, cfgNames := [], tableNames := [], prismNames := [], reverseNames := [] }, ["ok"])
  | ["mark"] => ({ st with marked := st.arts }, ["ok"])
  | ["old", kind, name] =>
    -- a crash state: this slot still holds what it held when `mark` was issued
    if kind == "cfg" then
      match parseCfgId name with
      | some id => ({ st with arts := { st.arts with cfg := fun x => if x = id then st.marked.cfg x else st.arts.cfg x } }, ["ok"])
      | none => (st, ["bad-op"])
    else if kind == "table" then
      ({ st with arts := { st.arts with table := fun x => if x = name then st.marked.table x else st.arts.table x } }, ["ok"])
    else if kind == "prism" then
      ({ st with arts := { st.arts with prism := fun x => if x = name then st.marked.prism x else st.arts.prism x } }, ["ok"])
    else if kind == "reverse" then
      ({ st with arts := { st.arts with reverse := fun x => if x = name then st.marked.reverse x else st.arts.reverse x } }, ["ok"])
    else if kind == "lastbuild" then
      ({ st with arts := { st.arts with lastBuild := st.marked.lastBuild } }, ["ok"])
    else (st, ["bad-op"])
  | ["drop", kind, name] =>
    if kind == "cfg" then
      match parseCfgId name with
      | some id => ({ st with arts := { st.arts with cfg := fun x => if x = id then none else st.arts.cfg x } }, ["ok"])
      | none => (st, ["bad-op"])
    else if kind == "table" then
      ({ st with arts := { st.arts with table := fun x => if x = name then none else st.arts.table x } }, ["ok"])
    else if kind == "prism" then
      ({ st with arts := { st.arts with prism := fun x => if x = name then none else st.arts.prism x } }, ["ok"])
    else if kind == "reverse" then
      ({ st with arts := { st.arts with reverse := fun x => if x = name then none else st.arts.reverse x } }, ["ok"])
    else (st, ["bad-op"])
  | [""] => (st, [])
  | _ => (st, ["bad-op"])

partial def loop (h : IO.FS.Stream) (out : IO.FS.Stream) (st : DState) : IO Unit := do
  let line ← h.getLine
  if line.isEmpty then return ()
  let r := step st line
  for l in r.2 do out.putStrLn l
  loop h out r.1

def main : IO Unit := do
  loop (← IO.getStdin) (← IO.getStdout) {}
