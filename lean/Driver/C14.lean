import RimeModel.Basic.Hex
import RimeModel.C14.Doc
import RimeModel.C14.Custom
/-!
line protocol for C14 (one document set per `case … end` block):

    case <id>
    doc <namehex> <tree>            tree ::= n | s <hex> | l <k> <tree>*k | m <k> (<keyhex> <tree>)*k
    compile <namehex>               (the name may carry the `.yaml` extension: `ToResourceId` strips it)
    customize <namehex> <n> (<keyhex> <tree>)*n     (one CustomSettings session on <name>'s custom document)
    edit <mt:0|1> <keyhex> <tree value> <tree target>     (unit op: EditNode on a bare slot)
    end

per `customize`: cust <id> <namehex> first=… loaded=… modified=… saved=… first_after=…
                 custfile <tree>|none
per `compile`:   res <id> <namehex> loaded=… ok=… dirty=… fuel=… crash=…
                 mem <tree>
                 saved <tree>|none
-/
open RimeModel RimeModel.C14

partial def parseTree : List String → Option (Tree × List String)
  | "n" :: r => some (.null, r)
  | "s" :: h :: r => (Hex.decode h).map fun b => (.scalar b, r)
  | "l" :: k :: r => do
    let n ← k.toNat?
    let mut xs : Array Tree := #[]
    let mut rest := r
    for _ in [0:n] do
      let (t, r') ← parseTree rest
      xs := xs.push t
      rest := r'
    pure (.list xs.toList, rest)
  | "m" :: k :: r => do
    let n ← k.toNat?
    let mut kvs : Entries := []
    let mut rest := r
    for _ in [0:n] do
      match rest with
      | kh :: r1 =>
        let key ← Hex.decode kh
        let (t, r') ← parseTree r1
        kvs := mapSet kvs key t
        rest := r'
      | [] => none
    pure (.map kvs, rest)
  | _ => none

mutual
partial def showTree : Tree → String
  | .null => "n"
  | .scalar s => "s " ++ Hex.encode s
  | .list xs => "l " ++ toString xs.length ++ String.join (xs.map fun x => " " ++ showTree x)
  | .map kvs => "m " ++ toString kvs.length ++
      String.join (kvs.map fun kv => " " ++ Hex.encode kv.1 ++ " " ++ showTree kv.2)
end

def b01 (b : Bool) : String := if b then "1" else "0"

structure St where
  id : String := "?"
  docs : List (Str × Tree) := []

def St.lookup (s : St) : Docs := fun n => (s.docs.find? fun d => d.1 == n).map (·.2)

partial def parsePairs : Nat → List String → Option (List (Str × Tree) × List String)
  | 0, r => some ([], r)
  | n + 1, kh :: r => do
    let key ← Hex.decode kh
    let (t, r') ← parseTree r
    let (rest, r'') ← parsePairs n r'
    pure ((key, t) :: rest, r'')
  | _, [] => none

/-- the five fields `Signature::Sign` writes, with the values the harness fixes / blanks -/
def signFields : List (Str × Str) :=
  [("generator".toUTF8.toList, "verif".toUTF8.toList), ("modified_time".toUTF8.toList, "T".toUTF8.toList),
   ("distribution_code_name".toUTF8.toList, "verif".toUTF8.toList), ("distribution_version".toUTF8.toList, "1".toUTF8.toList),
   ("rime_version".toUTF8.toList, "V".toUTF8.toList)]

def stripBuildInfo : Tree → Tree
  | .map kvs => .map (mapErase kvs [95, 95, 98, 117, 105, 108, 100, 95, 105, 110, 102, 111])
  | t => t

def step (st : St) (line : String) : St × List String :=
  match line.trimAscii.toString.splitOn " " with
  | ["case", id] => ({ id := id, docs := [] }, [])
  | ["end"] => ({}, [])
  | ["fresh"] => (st, [])   -- the reference keeps no cache between compilations: a fresh compiler is the same function
  | "doc" :: nh :: toks =>
    match Hex.decode nh, parseTree toks with
    | some name, some (t, []) => ({ st with docs := st.docs ++ [(name, t)] }, [])
    | _, _ => (st, ["bad-op"])
  | ["compile", nh] =>
    match Hex.decode nh with
    | some name =>
      let r := compileDoc st.lookup 10000 400 (toResourceId name)
      (st, ["res " ++ st.id ++ " " ++ nh ++ " loaded=" ++ b01 r.loaded ++ " ok=" ++ b01 r.fl.ok ++
              " dirty=" ++ b01 r.fl.dirty ++ " fuel=" ++ b01 r.fl.fuelOut ++ " crash=" ++ b01 r.fl.crash,
            "mem " ++ showTree (stripBuildInfo r.mem),
            "saved " ++ (match r.saved with | some t => showTree (stripBuildInfo t) | none => "none")])
    | none => (st, ["bad-op"])
  | "customize" :: nh :: n :: toks =>
    match Hex.decode nh, n.toNat? with
    | some name, some k =>
      match parsePairs k toks with
      | some (kvs, []) =>
        let cname := customOf name
        let r := customSession (st.lookup cname) signFields kvs
        let docs' := match r.file with
          | some t => (st.docs.filter fun d => d.1 != cname) ++ [(cname, t)]
          | none => st.docs
        ({ st with docs := docs' },
          ["cust " ++ st.id ++ " " ++ nh ++ " first=" ++ b01 r.firstBefore ++ " loaded=" ++ b01 r.loaded ++
             " modified=" ++ b01 r.modified ++ " saved=" ++ b01 r.saved ++ " first_after=" ++ b01 (isFirstRun r.file),
           "custfile " ++ (match r.file with | some t => showTree t | none => "none")])
      | _ => (st, ["bad-op"])
    | _, _ => (st, ["bad-op"])
  | "edit" :: mt :: kh :: toks =>
    match Hex.decode kh, parseTree toks with
    | some key, some (v, rest) =>
      match parseTree rest with
      | some (tgt, []) =>
        let r := editNode tgt [] key v (mt == "1")
        (st, ["edit ok=" ++ b01 r.ok ++ " crash=" ++ b01 r.crash ++ " " ++ showTree r.base])
      | _ => (st, ["bad-op"])
    | _, _ => (st, ["bad-op"])
  | [""] => (st, [])
  | _ => (st, ["bad-op"])

partial def loop (h out : IO.FS.Stream) (st : St) : IO Unit := do
  let line ← h.getLine
  if line.isEmpty then return ()
  let (st', outs) := step st line
  for o in outs do out.putStrLn o
  loop h out st'

def main : IO Unit := do
  loop (← IO.getStdin) (← IO.getStdout) {}
