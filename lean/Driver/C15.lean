import RimeModel.C15.Model
/-!
`driver_c15` — the model side of the C15 schedule correspondence.

  driver_c15 run          stdin: `<script> <sched>` per line
                          stdout: `<executed sched> | <event trace> | <model monitors>`
  driver_c15 enum <k>     stdin: `<script>` per line
                          stdout: one such line per complete schedule with ≤ k preemptions,
                          prefixed by `<script> `; then `#count <n>`

script : ops joined by `,` : maint:<3 bits> maint_nochange sync:<3 bits> recover:<bit> is_maint join
         create find ctx set_handler  maintq:<3 bits> maint_noinst run_task:<bit> run_unknown
         deploy_ws:<4 bits> deploy_schema:<bit> deploy_config:<bit> prebuild:<bit> start:<mode bit>
         destroy cleanup_all cleanup_stale finalize initialize clear_handler
         tick:<0|1|2> (1 s, Session::kLifeSpan, kLifeSpan + 1 s pass)
sched  : string over {c,w} (`-` = empty); lenient policy + completion as in `runSchedule`.
trace  : events `ret:<op>:<v>` `sched:<id>:<ok>` `run:<id>:<ok>` `note:<n>` `done`, then `left:<ids>`
monitors (evaluated on the MODEL's states): `lost-task`, `task-twice`, `notes-grammar`, `deadlock`, or `-`
-/
open RimeModel.C15

def bits? (s : String) : Option (List Bool) :=
  s.toList.mapM (fun c => if c == '1' then some true else if c == '0' then some false else none)

def parseOp (t : String) : Option Op :=
  match t.splitOn ":" with
  | ["maint", b] => match bits? b with
    | some os => if os.length == 3 then some (.maint os) else none
    | none => none
  | ["sync", b] => match bits? b with
    | some os => if os.length == 3 then some (.sync os) else none
    | none => none
  | ["recover", b] => match bits? b with
    | some [o] => some (.recover o)
    | _ => none
  | ["maint_nochange"] => some .maintNoChange
  | ["is_maint"] => some .isMaint
  | ["join"] => some .join
  | ["create"] => some .create
  | ["find"] => some .find
  | ["ctx"] => some .ctx
  | ["set_handler"] => some .setHandler
  | ["maintq", b] => match bits? b with
    | some os => if os.length == 3 then some (.maintQuick os) else none
    | none => none
  | ["maint_noinst"] => some .maintNoInst
  | ["run_task", b] => match bits? b with
    | some [o] => some (.runSync .runTask [o])
    | _ => none
  | ["run_unknown"] => some (.runSync .runUnknown [false])
  | ["deploy_ws", b] => match bits? b with
    | some os => if os.length == 4 then some (.runSync .deployWs os) else none
    | none => none
  | ["deploy_schema", b] => match bits? b with
    | some [o] => some (.runSync .deploySchema [o])
    | _ => none
  | ["deploy_config", b] => match bits? b with
    | some [o] => some (.runSync .deployConfig [o])
    | _ => none
  | ["prebuild", b] => match bits? b with
    | some [o] => some (.runSync .prebuild [o])
    | _ => none
  | ["start", b] => match bits? b with
    | some [m] => some (.startDirect m)
    | _ => none
  | ["destroy"] => some .destroy
  | ["cleanup_all"] => some .cleanupAll
  | ["cleanup_stale"] => some .cleanupStale
  | ["finalize"] => some .finalize
  | ["initialize"] => some .initialize
  | ["clear_handler"] => some .clearHandler
  | ["tick", "0"] => some (.tick 1)
  | ["tick", "1"] => some (.tick lifeSpan)
  | ["tick", "2"] => some (.tick (lifeSpan + 1))
  | _ => none

def parseScript (s : String) : Option (List Op) :=
  if s == "-" then some [] else (s.splitOn ",").mapM parseOp

def parseSched (s : String) : Option (List Tid) :=
  if s == "-" then some [] else
  s.toList.mapM (fun c => if c == 'c' then some Tid.client else if c == 'w' then some Tid.worker else none)

def showSched (l : List Tid) : String :=
  if l.isEmpty then "-" else
  String.ofList (l.map (fun t => match t with | .client => 'c' | .worker => 'w'))

def kindName : OpKind → String
  | .maint => "maint" | .maintNoChange => "maint_nochange" | .sync => "sync" | .recover => "recover"
  | .isMaint => "is_maint" | .join => "join" | .create => "create" | .find => "find" | .ctx => "ctx"
  | .setHandler => "set_handler"
  | .maintQuick => "maintq" | .maintNoInst => "maint_noinst" | .runTask => "run_task" | .runUnknown => "run_unknown"
  | .deployWs => "deploy_ws" | .deploySchema => "deploy_schema" | .deployConfig => "deploy_config"
  | .prebuild => "prebuild" | .startDirect => "start" | .destroy => "destroy" | .cleanupAll => "cleanup_all"
  | .cleanupStale => "cleanup_stale" | .finalize => "finalize" | .initialize => "initialize"
  | .clearHandler => "clear_handler" | .tick => "tick"

def b01 (b : Bool) : String := if b then "1" else "0"

def showEv : Ev → String
  | .ret k v => s!"ret:{kindName k}:{v}"
  | .sched t => s!"sched:{t.id}:{b01 t.ok}"
  | .run t => s!"run:{t.id}:{b01 t.ok}"
  | .note .start _ => "note:start"
  | .note .success _ => "note:success"
  | .note .failure _ => "note:failure"
  | .done => "done"

def showTrace (s : State) : String :=
  let evs := (s.log.filter Ev.observable).map showEv
  let left := if s.queue.isEmpty then "-" else ",".intercalate (s.queue.map (fun t => toString t.id))
  " ".intercalate (evs ++ [s!"left:{left}"])

/-- monitors on one model state (general form of T: no worker active, client between calls,
something scheduled has not run) -/
def stateViol (s : State) : List String :=
  (if s.atBoundary && !s.working && s.scheduled != s.ran then ["lost-task"] else [])
  ++ (if (s.ran.map (·.id)).eraseDups.length != s.ran.length then ["task-twice"] else [])

def addViol (acc : List String) (v : List String) : List String :=
  v.foldl (fun a x => if a.contains x then a else a ++ [x]) acc

def finalViol (s : State) : List String :=
  (if s.working then [] else if notesOk 0 s.sent then [] else ["notes-grammar"])
  ++ (if s.quiescent && (!s.script.isEmpty || !s.atBoundary) then ["deadlock"] else [])

def showViol (v : List String) : String := if v.isEmpty then "-" else ",".intercalate v

/-- replay an executed schedule strictly, collecting monitors at every state -/
def monitorsAlong (s : State) (sched : List Tid) (acc : List String) : List String :=
  match sched with
  | [] => addViol (addViol acc (stateViol s)) (finalViol s)
  | t :: ts => match step s t with
    | none => acc ++ ["bad-sched"]
    | some s' => monitorsAlong s' ts (addViol acc (stateViol s))

def runLine (line : String) : String :=
  match line.trimAscii.toString.splitOn " " with
  | [sc, sd] =>
    match parseScript sc, parseSched sd with
    | some script, some sched =>
      let r := runSchedule script sched
      let v := monitorsAlong (init script) r.2 []
      let stuck := if r.1.quiescent then "" else " not-quiescent"
      s!"{showSched r.2} | {showTrace r.1}{stuck} | {showViol v}"
    | _, _ => "bad-op"
  | _ => "bad-op"

/-- all complete schedules with at most `k` preemptions (a preemption = leaving a thread that could
have continued).  `fuel` bounds the depth. -/
def enumSched (fuel : Nat) (s : State) (cur : Option Tid) (k : Nat) (acc : List Tid)
    (out : Array (List Tid × State)) : Array (List Tid × State) :=
  match fuel with
  | 0 => out
  | fuel + 1 =>
    let en (t : Tid) : Bool := (step s t).isSome
    if !en .client && !en .worker then out.push (acc.reverse, s)
    else
      [Tid.client, Tid.worker].foldl (fun out t =>
        match step s t with
        | none => out
        | some s' =>
          let cost := match cur with
            | some c => if c != t && en c then 1 else 0
            | none => 0
          if cost ≤ k then enumSched fuel s' (some t) (k - cost) (t :: acc) out else out) out

partial def loopRun (h out : IO.FS.Stream) : IO Unit := do
  let line ← h.getLine
  if line.isEmpty then return ()
  out.putStrLn (runLine line)
  loopRun h out

partial def loopEnum (k : Nat) (h out : IO.FS.Stream) (n : Nat) : IO Nat := do
  let line ← h.getLine
  if line.isEmpty then return n
  let sc := line.trimAscii.toString
  match parseScript sc with
  | none => out.putStrLn "bad-op"; loopEnum k h out n
  | some script =>
    let all := enumSched (fuelFor script + 1) (init script) none k [] #[]
    for (sched, s) in all do
      let v := monitorsAlong (init script) sched []
      out.putStrLn s!"{sc} {showSched sched} | {showTrace s} | {showViol v}"
    loopEnum k h out (n + all.size)

def main (args : List String) : IO UInt32 := do
  let stdin ← IO.getStdin
  let stdout ← IO.getStdout
  match args with
  | ["run"] => loopRun stdin stdout; return 0
  | ["enum", k] =>
    match k.toNat? with
    | some k =>
      let n ← loopEnum k stdin stdout 0
      stdout.putStrLn s!"#count {n}"
      return 0
    | none => IO.eprintln "usage: driver_c15 enum <k>"; return 2
  | _ => IO.eprintln "usage: driver_c15 run | enum <k>"; return 2
