import RimeModel.Basic.Hex
import RimeModel.C17.Model
import RimeModel.C17.World
import RimeModel.C17.FloatDee
import RimeModel.Gen.UserDbMembers
/-! line protocol for C17 (same op lines as harness/c17_harness.cc executes on the real code).
State = `World`: installations × named user dictionaries, and named files.

* `version <hex>`                  RIME_VERSION string the stores record                → `ok`
* `put <I> <N> <keyhex> <valhex>`  open(create) dictionary N of installation I, Update  → `ok`
* `meta <I> <N> <keyhex> <valhex>` … MetaUpdate                                        → `ok`
* `file <F> <hex>`                 define file F                                        → `ok`
* `backup <I> <N> <F>`             UserDictManager::Backup, snapshot kept as F          → `ok` | `fail`
* `restore <F> <I> <N>`            Db::Restore(F) into N (plain restore)                → `ok`
* `merge <F> <I>`                  UserDictManager::Restore(F) (merge)                  → `ok` | `fail`
* `pmerge <F> <I> <byte>`          same merge with the `UserDbMerger` constructed in storage pre-filled
                                   with <byte>; a member the constructor does not initialise keeps it → as merge
* `sync <I> <N> <F> <order>`       UserDictManager::Synchronize(N): merge the snapshots of N in the peer directories of
                                   the shared sync directory, in directory-iterator order, then back up (kept as F).
                                   <order> = comma-separated installations (`-` = none) as the harness observed it — the
                                   check copies it from the harness's answer into the driver's op → `ok|fail order=<order>`
                                   (installations whose names differ only in the last character share a sync directory)
* `plant <F> <P> <N>`              file F appears in the sync directory as installation P's snapshot of N          → `ok` | `fail`
* `legacy <F> <I> <N>`             file F appears in I's user data directory as the old-format dictionary N.userdb.txt → `ok` | `fail`
* `lcat <I> <N>`                   that file, like `cat`
* `upgrade <I> <N>`                UserDictManager::UpgradeUserDict(N) (plain-text user db as `legacy_userdb`)  → `ok` | `fail`
* `syncall <I> <names> <order>`    UserDictManager::SynchronizeAll(); <names>, <order> as the harness observed them
                                   → `ok|fail names=<names> order=<order>`
* `export <I> <N> <F>` / `import <I> <N> <F>`                                           → `ok <count>` | `fail`
* `dump <I> <N>`                   → `none` | `db m:<k>:<v>… e:<key>:<commits>:<tick>:<unpack-ok> d=<dee>…`
* `probe`                          → `probe <Class>.<member>:init|uninit …` for the scalar/pointer members of the
                                   regenerated member table (harness: poisoned construction)
* `cat <F>`                        → `nofile` | `file | <col> <col>… | …`  col = `x:<hex>` or `v:<c>:<t>:<ok> d=<dee>`

dee is printed as `<mant>p<exp>` (exact); the check compares it numerically. -/
open RimeModel RimeModel.C17

abbrev O := FloatDee.ops

def name (s : String) : Bytes := s.toUTF8.toList.map (·.toNat)

def unhex (s : String) : Option Bytes := (Hex.decode s).map (·.map (·.toNat))

def hex (b : Bytes) : String := Hex.encode (b.map UInt8.ofNat)

def showValue (s : Bytes) : String :=
  let r := unpackInto O (Value.dflt O) s
  s!"{r.1.commits}:{r.1.tick}:{if r.2 then 1 else 0} d={FloatDee.exact r.1.dee}"

def dumpDb (db : Db) : String :=
  let ms := db.queryMeta.map fun e => s!" m:{hex e.1}:{hex e.2}"
  let es := db.queryAll.map fun e => s!" e:{hex e.1}:{showValue e.2}"
  "db" ++ String.join ms ++ String.join es

def catCol (c : Bytes) : String :=
  if startsWith [99, 61] c then " v:" ++ showValue c else " x:" ++ hex c

def catFile (c : Bytes) : String :=
  "file" ++ String.join ((linesOf c).map fun l => " |" ++ String.join ((splitOn 9 l).map catCol))

/-- value an int holds when each of its four bytes is `b` -/
def poisonInt (b : Nat) : Int :=
  let u := b * 16843009
  if u ≥ 2147483648 then (u : Int) - 4294967296 else u

/-- the constructor overwrites the poison iff the regenerated member table says `merged_entries_` is initialised -/
def effectiveM0 (b : Nat) : Int :=
  if Gen.C17.members.any (fun m => m.cls == "UserDbMerger" && m.name == "merged_entries_" && !m.initialised)
  then poisonInt b else 0

def okCount : Option Nat → String
  | some k => s!"ok {k}"
  | none => "fail"

def step (w : World) (line : String) : World × String :=
  match line.trimAscii.toString.splitOn " " with
  | ["version", h] =>
    match unhex h with
    | some v => ({ w with version := v }, "ok")
    | none => (w, "bad-op")
  | ["put", i, n, k, v] =>
    match unhex k, unhex v with
    | some k, some v => (w.put (name i) (name n) k v, "ok")
    | _, _ => (w, "bad-op")
  | ["meta", i, n, k, v] =>
    match unhex k, unhex v with
    | some k, some v => (w.metaPut (name i) (name n) k v, "ok")
    | _, _ => (w, "bad-op")
  | ["drop", i, n] =>
    (w.drop (name i) (name n), "ok")
  | ["file", f, h] =>
    match unhex h with
    | some c => (w.setFile (name f) c, "ok")
    | none => (w, "bad-op")
  | ["backup", i, n, f] =>
    let r := w.backup (name i) (name n) (name f)
    (r.1, if r.2 then "ok" else "fail")
  | ["restore", f, i, n] => (w.restore (name f) (name i) (name n), "ok")
  | ["merge", f, i] =>
    let r := w.merge O 0 (name f) (name i)
    (r.1, match r.2 with | some _ => "ok" | none => "fail")
  | ["pmerge", f, i, b] =>
    match b.toNat? with
    | some b =>
      if b < 256 then
        let r := w.merge O (effectiveM0 b) (name f) (name i)
        (r.1, match r.2 with | some _ => "ok" | none => "fail")
      else (w, "bad-op")
    | none => (w, "bad-op")
  | ["sync", i, n, f, order] =>
    let ps := if order == "-" then [] else (order.splitOn ",").map name
    if ps.all (fun p => scope p == scope (name i)) then
      let r := w.synchronize O (name i) (name n) (name f) ps
      (r.1, (if r.2 then "ok" else "fail") ++ " order=" ++ order)
    else (w, "bad-op")
  | ["plant", f, p, n] =>
    let r := w.plant (name f) (name p) (name n)
    (r.1, if r.2 then "ok" else "fail")
  | ["legacy", f, i, n] =>
    let r := w.setLegacy (name f) (name i) (name n)
    (r.1, if r.2 then "ok" else "fail")
  | ["lcat", i, n] =>
    (w, match w.legacyFile (name i) (name n) with | some c => catFile c | none => "nofile")
  | ["upgrade", i, n] =>
    let r := w.upgrade O (name i) (name n)
    (r.1, if r.2 then "ok" else "fail")
  | ["syncall", i, names, order] =>
    let ns := if names == "-" then [] else (names.splitOn ",").map name
    let ps := if order == "-" then [] else (order.splitOn ",").map name
    if ps.all (fun p => scope p == scope (name i)) then
      let r := w.synchronizeAll O (name i) ns ps
      (r.1, (if r.2 then "ok" else "fail") ++ " names=" ++ names ++ " order=" ++ order)
    else (w, "bad-op")
  | ["export", i, n, f] =>
    let r := w.export O (name i) (name n) (name f)
    (r.1, okCount r.2)
  | ["import", i, n, f] =>
    let r := w.import O (name i) (name n) (name f)
    (r.1, okCount r.2)
  | ["dump", i, n] =>
    (w, match w.db (name i) (name n) with | some db => dumpDb db | none => "none")
  | ["probe"] =>
    (w, "probe" ++ String.join ((Gen.C17.members.filter (·.scalar)).map fun m =>
      s!" {m.cls}.{m.name}:{if m.initialised then "init" else "uninit"}"))
  | ["cat", f] =>
    (w, match w.file (name f) with | some c => catFile c | none => "nofile")
  | _ => (w, "bad-op")

partial def loop (h : IO.FS.Stream) (out : IO.FS.Stream) (w : World) : IO Unit := do
  let line ← h.getLine
  if line.isEmpty then return ()
  let r := step w line
  out.putStrLn r.2
  loop h out r.1

def main : IO Unit := do
  loop (← IO.getStdin) (← IO.getStdout) {}
