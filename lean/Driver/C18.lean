import RimeModel.Basic.Hex
import RimeModel.C18.Parse
import RimeModel.C18.Value
import RimeModel.C18.Ref
/-! line protocol for C18 (same ops as harness/c18_harness.cc):
  new cpp|api | set <path> <type> … | get <path> <type> | dump | emit | parse <hex> | rt |
  alias <path> | aliasdump | raw <dump> | get <path> is | iter <path> list|map | sign <signerhex> |
  setitem <dst> <src> | setraw <path> <dump> | ref <steps> <action> [args]   (steps: `-` or k<hex>,i<n>,…)
The YAML writer policy is the one regenerated from the working tree (`currentPolicy`); an optional
command-line argument `legacy` / `safe` overrides it (used by the check to ask "what would the other
policy do"). -/
open RimeModel RimeModel.C18

structure St where
  root : Cfg := .null
  alias : Option Cfg := none
  lost : Bool := false     -- the model could not follow (a `parse` outside the subset)

mutual
partial def dump : Cfg → String
  | .null => "N"
  | .scalar s => "S" ++ Hex.encode s ++ ";"
  | .list xs => "L[" ++ ",".intercalate (xs.map dump) ++ "]"
  | .map kvs => "M{" ++ ",".intercalate (kvs.map fun kv => Hex.encode kv.1 ++ "=" ++ dump kv.2) ++ "}"
end

/-- parser of the dump format -/
partial def undump (cs : List Char) : Option (Cfg × List Char) :=
  match cs with
  | 'N' :: r => some (.null, r)
  | 'S' :: r =>
    let h := r.takeWhile (· ≠ ';')
    match r.dropWhile (· ≠ ';'), Hex.decode (String.ofList h) with
    | ';' :: r', some b => some (.scalar b, r')
    | _, _ => none
  | 'L' :: '[' :: ']' :: r => some (.list [], r)
  | 'L' :: '[' :: r =>
    let rec items (cs : List Char) (acc : List Cfg) : Option (List Cfg × List Char) :=
      match undump cs with
      | some (x, ',' :: r) => items r (x :: acc)
      | some (x, ']' :: r) => some ((x :: acc).reverse, r)
      | _ => none
    match items r [] with
    | some (xs, r') => some (.list xs, r')
    | none => none
  | 'M' :: '{' :: '}' :: r => some (.map [], r)
  | 'M' :: '{' :: r =>
    let rec entries (cs : List Char) (acc : List (Bytes × Cfg)) : Option (List (Bytes × Cfg) × List Char) :=
      let h := cs.takeWhile (· ≠ '=')
      match cs.dropWhile (· ≠ '='), Hex.decode (String.ofList h) with
      | '=' :: r, some k =>
        match undump r with
        | some (x, ',' :: r') => entries r' (mapSet acc k x)
        | some (x, '}' :: r') => some (mapSet acc k x, r')
        | _ => none
      | _, _ => none
    match entries r [] with
    | some (kvs, r') => some (.map kvs, r')
    | none => none
  | _ => none

def parseInt32 (s : String) : Option Int :=
  let neg := s.startsWith "-"
  let body := if neg then (s.drop 1).toString else s
  if body.isEmpty || body.length > 10 || !body.all Char.isDigit then none
  else match body.toNat? with
    | some n =>
      let v : Int := if neg then -(n : Int) else n
      if INT_MIN ≤ v ∧ v ≤ INT_MAX then some v else none
    | none => none

def sentS : Bytes := [83, 69, 78, 84]

def showRet (r : Option Cfg) (st : St) : St × String :=
  match r with
  | some t => ({ st with root := t }, "ret=1")
  | none => (st, "ret=0")

def intStr (i : Int) : String := if i < 0 then "-" ++ toString i.natAbs else toString i.natAbs

def b01 (b : Bool) : String := if b then "1" else "0"

def flags4 (f : Bool × Bool × Bool × Bool) : String := b01 f.1 ++ b01 f.2.1 ++ b01 f.2.2.1 ++ b01 f.2.2.2

def parseSteps (s : String) : Option (List RStep) :=
  if s == "-" then some [] else
  (s.splitOn ",").mapM fun tok =>
    if tok.startsWith "k" then (Hex.decode (tok.drop 1).toString).map RStep.key
    else if tok.startsWith "i" then ((tok.drop 1).toString.toNat?).map RStep.idx
    else none

def showItems (xs : List (Bytes × Bytes)) : String :=
  "ret=1 n=" ++ toString xs.length ++ " items=" ++
    (if xs.isEmpty then "-" else ",".intercalate (xs.map fun kp => Hex.encode kp.1 ++ ":" ++ Hex.encode kp.2))

/-- the fields `Signature::Sign` writes, with the values the harness fixes / blanks -/
def signFields (signer : Bytes) : List (Bytes × Bytes) :=
  [("generator".toUTF8.toList, signer), ("modified_time".toUTF8.toList, "T".toUTF8.toList),
   ("distribution_code_name".toUTF8.toList, "verif".toUTF8.toList), ("distribution_version".toUTF8.toList, "1".toUTF8.toList),
   ("rime_version".toUTF8.toList, "V".toUTF8.toList)]

def refStep (st : St) (steps : List RStep) (act : List String) : St × String :=
  let viv := refViv st.root steps
  let cur := refGet viv steps
  match act with
  | ["tos"] => ({ st with root := viv }, "val=" ++ Hex.encode (refToString cur))
  | ["toi"] => ({ st with root := viv }, "val=" ++ intStr (refToInt cur))
  | ["tob"] => ({ st with root := viv }, "val=" ++ b01 (refToBool cur))
  | ["is"] => ({ st with root := viv }, "val=" ++ flags4 (refFlags cur))
  | ["size"] => ({ st with root := viv }, "val=" ++ toString (refSize cur))
  | ["has", k] =>
    match Hex.decode k with
    | some k => ({ st with root := viv }, "val=" ++ b01 (refHasKey cur k))
    | none => (st, "bad-op")
  | ["assign", "s", v] =>
    match Hex.decode v with
    | some v => ({ st with root := refSet st.root steps (.scalar v) }, "ok")
    | none => (st, "bad-op")
  | ["assign", "i", v] =>
    match parseInt32 v with
    | some v => ({ st with root := refSet st.root steps (valSetInt v) }, "ok")
    | none => (st, "bad-op")
  | ["assign", "b", v] => ({ st with root := refSet st.root steps (valSetBool (v == "1")) }, "ok")
  | ["assign", "null"] => ({ st with root := refSet st.root steps .null }, "ok")
  | ["clear"] => ({ st with root := refSet st.root steps .null }, "ok")
  | ["append", "s", v] =>
    match Hex.decode v with
    | some v => ({ st with root := refAppend st.root steps (.scalar v) }, "ok")
    | none => (st, "bad-op")
  | ["aslist"] => ({ st with root := refAsList st.root steps }, "ok")
  | ["asmap"] => ({ st with root := refAsMap st.root steps }, "ok")
  | _ => (st, "bad-op")

def scalarOrNull (t : Cfg) : String :=
  match t with
  | .scalar v => "val=" ++ Hex.encode v
  | _ => "val=null"

/-- the container at a path used directly (in-place `ConfigList` / `ConfigMap` methods) -/
def nodeStep (st : St) (p : Bytes) (act : List String) : St × String :=
  let node := traverse st.root p
  let put (t : Cfg) : St × String := ({ st with root := (traverseWrite st.root p t).getD st.root }, "ok")
  let listOp : Bool := ["valueat", "resize", "clearlist", "insert", "setat", "appendl"].contains (act.headD "")
  match node, listOp with
  | .list xs, true =>
    match act with
    | ["valueat", i] => (st, match i.toNat? with | some i => scalarOrNull (listGet xs i) | none => "bad-op")
    | ["resize", n] => match n.toNat? with | some n => put (.list (padTo (xs.take n) n)) | none => (st, "bad-op")
    | ["clearlist"] => put (.list [])
    | ["insert", i, "s", v] =>
      match i.toNat?, Hex.decode v with
      | some i, some v => put (.list (listInsert xs i (.scalar v)))
      | _, _ => (st, "bad-op")
    | ["setat", i, "s", v] =>
      match i.toNat?, Hex.decode v with
      | some i, some v => put (.list (listSetAt xs i (.scalar v)))
      | _, _ => (st, "bad-op")
    | ["appendl", "s", v] =>
      match Hex.decode v with
      | some v => put (.list (xs ++ [.scalar v]))
      | none => (st, "bad-op")
    | _ => (st, "bad-op")
  | _, true => (st, "no-list")
  | .map kvs, false =>
    match act with
    | ["mapvalue", k] => (st, match Hex.decode k with | some k => scalarOrNull (mapGet kvs k) | none => "bad-op")
    | ["haskey", k] => (st, match Hex.decode k with | some k => "val=" ++ b01 (!(mapGet kvs k).isNull) | none => "bad-op")
    | ["clearmap"] => put (.map [])
    | _ => (st, "bad-op")
  | _, false => (st, "no-map")

def step (pol : LitPolicy) (st : St) (line : String) : St × String :=
  match line.trimAscii.toString.splitOn " " with
  | ["new", m] => if m == "cpp" || m == "api" then ({}, "ok") else (st, "bad-op")
  | ["set", p, "s", v] =>
    match Hex.decode p, Hex.decode v with
    | some p, some v => showRet (setString st.root p v) st
    | _, _ => (st, "bad-op")
  | ["set", p, "i", v] =>
    match Hex.decode p, parseInt32 v with
    | some p, some v => showRet (setInt st.root p v) st
    | _, _ => (st, "bad-op")
  | ["set", p, "b", v] =>
    match Hex.decode p with
    | some p => if v == "0" || v == "1" then showRet (setBool st.root p (v == "1")) st else (st, "bad-op")
    | _ => (st, "bad-op")
  | ["set", p, "d", bits, fmt] =>
    match Hex.decode p, Hex.decode fmt with
    | some p, some f =>
      if bits.length == 16 then showRet (setDouble (D := Bytes) id st.root p f) st else (st, "bad-op")
    | _, _ => (st, "bad-op")
  | ["set", p, ty] =>
    match Hex.decode p with
    | some p =>
      if ty == "list" then showRet (traverseWrite st.root p (.list [])) st
      else if ty == "map" then showRet (traverseWrite st.root p (.map [])) st
      else if ty == "null" then showRet (traverseWrite st.root p .null) st
      else (st, "bad-op")
    | _ => (st, "bad-op")
  | ["get", p, "is"] =>
    match Hex.decode p with
    | some p => (st, "ret=1 val=" ++ flags4 (isFlags st.root p))
    | none => (st, "bad-op")
  | ["iter", p, kind] =>
    match Hex.decode p with
    | some p =>
      if kind == "list" then (st, match iterList st.root p with | some xs => showItems xs | none => "ret=0")
      else if kind == "map" then (st, match iterMap st.root p with | some xs => showItems xs | none => "ret=0")
      else (st, "bad-op")
    | none => (st, "bad-op")
  | ["sign", g] =>
    match Hex.decode g with
    | some g => ({ st with root := signWith st.root "signature".toUTF8.toList (signFields g) }, "ret=1")
    | none => (st, "bad-op")
  | ["setitem", d, sp] =>
    match Hex.decode d, Hex.decode sp with
    | some d, some sp => showRet (traverseWrite st.root d (traverse st.root sp)) st
    | _, _ => (st, "bad-op")
  | ["setraw", p, d] =>
    match Hex.decode p, undump d.toList with
    | some p, some (t, []) => showRet (traverseWrite st.root p t) st
    | _, _ => (st, "bad-op")
  | "node" :: p :: act =>
    match Hex.decode p with
    | some p => nodeStep st p act
    | none => (st, "bad-op")
  | "ref" :: steps :: act =>
    match parseSteps steps with
    | some ss => refStep st ss act
    | none => (st, "bad-op")
  | ["get", p, ty] =>
    match Hex.decode p with
    | some p =>
      if ty == "s" then
        match getString st.root p with
        | some v => (st, "ret=1 val=" ++ Hex.encode v)
        | none => (st, "ret=0 val=" ++ Hex.encode sentS)
      else if ty == "i" then
        match getInt st.root p with
        | some v => (st, "ret=1 val=" ++ intStr v)
        | none => (st, "ret=0 val=-77777")
      else if ty == "b" then
        match getBool st.root p with
        | some v => (st, "ret=1 val=" ++ (if v then "1" else "0"))
        | none => (st, "ret=0 val=7")
      else if ty == "d" then
        -- std::stod is a parameter of the model: print the text it would be applied to
        match asValue (traverse st.root p) with
        | some v => if v.isEmpty then (st, "ret=0") else (st, "stod=" ++ Hex.encode v)
        | none => (st, "ret=0")
      else if ty == "size" then (st, "ret=1 val=" ++ toString (getListSize st.root p))
      else if ty == "type" then
        (st, "ret=1 val=" ++ (match (traverse st.root p).ty with
          | .null => "null" | .scalar => "scalar" | .list => "list" | .map => "map"))
      else (st, "bad-op")
    | _ => (st, "bad-op")
  | ["dump"] => (st, "tree=" ++ dump st.root)
  | ["emit"] =>
    if keysModelled pol st.root then (st, "emit ok=1 doc=" ++ Hex.encode (emitDoc pol st.root))
    else (st, "emit unmodelled")
  | ["parse", h] =>
    match Hex.decode h with
    | some d =>
      match parseDoc d with
      | some t => ({ st with root := t }, "parse ok=1 tree=" ++ dump t)
      | none => ({ st with lost := true }, "parse none")
    | none => (st, "bad-op")
  | ["rt"] =>
    if keysModelled pol st.root then
      match parseDoc (emitDoc pol st.root) with
      | some t => (st, "rt save=1 load=1 tree=" ++ dump t)
      | none => (st, "rt none")
    else (st, "rt unmodelled")
  | ["alias", p] =>
    match Hex.decode p with
    | some p => ({ st with alias := some (traverse st.root p) }, "ok")
    | none => (st, "bad-op")
  | ["aliasdump"] =>
    match st.alias with
    | some t => (st, "tree=" ++ dump t)
    | none => (st, "no-alias")
  | ["raw", d] =>
    match undump d.toList with
    | some (t, []) => ({ st with root := t }, "ok")
    | _ => (st, "bad-op")
  | _ => (st, "bad-op")

partial def loop (pol : LitPolicy) (h : IO.FS.Stream) (out : IO.FS.Stream) (st : St) : IO Unit := do
  let line ← h.getLine
  if line.isEmpty then return ()
  let (st', o) := step pol st line
  out.putStrLn o
  loop pol h out st'

def main (args : List String) : IO Unit := do
  let pol : LitPolicy :=
    match args with
    | ["legacy"] => .legacy
    | ["safe"] => .safe
    | _ => (currentPolicy.getD .legacy)
  loop pol (← IO.getStdin) (← IO.getStdout) {}
