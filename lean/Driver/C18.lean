import RimeModel.Basic.Hex
import RimeModel.C18.Parse
import RimeModel.C18.Value
/-! line protocol for C18 (same ops as harness/c18_harness.cc):
  new cpp|api | set <path> <type> … | get <path> <type> | dump | emit | parse <hex> | rt |
  alias <path> | aliasdump | raw <dump>
The YAML writer policy is the one regenerated from the working tree (`currentPolicy`); an optional
command-line argument `legacy` / `safe` overrides it (used by the check to ask "what would the other
policy do"). -/
open RimeModel RimeModel.C18

structure St where
  root : Cfg := .null
  alias : Option Cfg := none
  lost : Bool := false     -- the model could not follow (a `parse` outside the subset)

mutual
partial def dump : Cfg → String
  | .null => "N"
  | .scalar s => "S" ++ Hex.encode s ++ ";"
  | .list xs => "L[" ++ ",".intercalate (xs.map dump) ++ "]"
  | .map kvs => "M{" ++ ",".intercalate (kvs.map fun kv => Hex.encode kv.1 ++ "=" ++ dump kv.2) ++ "}"
end

/-- parser of the dump format -/
partial def undump (cs : List Char) : Option (Cfg × List Char) :=
  match cs with
  | 'N' :: r => some (.null, r)
  | 'S' :: r =>
    let h := r.takeWhile (· ≠ ';')
    match r.dropWhile (· ≠ ';'), Hex.decode (String.ofList h) with
    | ';' :: r', some b => some (.scalar b, r')
    | _, _ => none
  | 'L' :: '[' :: ']' :: r => some (.list [], r)
  | 'L' :: '[' :: r =>
    let rec items (cs : List Char) (acc : List Cfg) : Option (List Cfg × List Char) :=
      match undump cs with
      | some (x, ',' :: r) => items r (x :: acc)
      | some (x, ']' :: r) => some ((x :: acc).reverse, r)
      | _ => none
    match items r [] with
    | some (xs, r') => some (.list xs, r')
    | none => none
  | 'M' :: '{' :: '}' :: r => some (.map [], r)
  | 'M' :: '{' :: r =>
    let rec entries (cs : List Char) (acc : List (Bytes × Cfg)) : Option (List (Bytes × Cfg) × List Char) :=
      let h := cs.takeWhile (· ≠ '=')
      match cs.dropWhile (· ≠ '='), Hex.decode (String.ofList h) with
      | '=' :: r, some k =>
        match undump r with
        | some (x, ',' :: r') => entries r' (mapSet acc k x)
        | some (x, '}' :: r') => some (mapSet acc k x, r')
        | _ => none
      | _, _ => none
    match entries r [] with
    | some (kvs, r') => some (.map kvs, r')
    | none => none
  | _ => none

def parseInt32 (s : String) : Option Int :=
  let neg := s.startsWith "-"
  let body := if neg then (s.drop 1).toString else s
  if body.isEmpty || body.length > 10 || !body.all Char.isDigit then none
  else match body.toNat? with
    | some n =>
      let v : Int := if neg then -(n : Int) else n
      if INT_MIN ≤ v ∧ v ≤ INT_MAX then some v else none
    | none => none

def sentS : Bytes := [83, 69, 78, 84]

def showRet (r : Option Cfg) (st : St) : St × String :=
  match r with
  | some t => ({ st with root := t }, "ret=1")
  | none => (st, "ret=0")

def intStr (i : Int) : String := if i < 0 then "-" ++ toString i.natAbs else toString i.natAbs

def step (pol : LitPolicy) (st : St) (line : String) : St × String :=
  match line.trimAscii.toString.splitOn " " with
  | ["new", m] => if m == "cpp" || m == "api" then ({}, "ok") else (st, "bad-op")
  | ["set", p, "s", v] =>
    match Hex.decode p, Hex.decode v with
    | some p, some v => showRet (setString st.root p v) st
    | _, _ => (st, "bad-op")
  | ["set", p, "i", v] =>
    match Hex.decode p, parseInt32 v with
    | some p, some v => showRet (setInt st.root p v) st
    | _, _ => (st, "bad-op")
  | ["set", p, "b", v] =>
    match Hex.decode p with
    | some p => if v == "0" || v == "1" then showRet (setBool st.root p (v == "1")) st else (st, "bad-op")
    | _ => (st, "bad-op")
  | ["set", p, "d", bits, fmt] =>
    match Hex.decode p, Hex.decode fmt with
    | some p, some f =>
      if bits.length == 16 then showRet (setDouble (D := Bytes) id st.root p f) st else (st, "bad-op")
    | _, _ => (st, "bad-op")
  | ["set", p, ty] =>
    match Hex.decode p with
    | some p =>
      if ty == "list" then showRet (traverseWrite st.root p (.list [])) st
      else if ty == "map" then showRet (traverseWrite st.root p (.map [])) st
      else if ty == "null" then showRet (traverseWrite st.root p .null) st
      else (st, "bad-op")
    | _ => (st, "bad-op")
  | ["get", p, ty] =>
    match Hex.decode p with
    | some p =>
      if ty == "s" then
        match getString st.root p with
        | some v => (st, "ret=1 val=" ++ Hex.encode v)
        | none => (st, "ret=0 val=" ++ Hex.encode sentS)
      else if ty == "i" then
        match getInt st.root p with
        | some v => (st, "ret=1 val=" ++ intStr v)
        | none => (st, "ret=0 val=-77777")
      else if ty == "b" then
        match getBool st.root p with
        | some v => (st, "ret=1 val=" ++ (if v then "1" else "0"))
        | none => (st, "ret=0 val=7")
      else if ty == "d" then
        -- std::stod is a parameter of the model: print the text it would be applied to
        match asValue (traverse st.root p) with
        | some v => if v.isEmpty then (st, "ret=0") else (st, "stod=" ++ Hex.encode v)
        | none => (st, "ret=0")
      else if ty == "size" then (st, "ret=1 val=" ++ toString (getListSize st.root p))
      else if ty == "type" then
        (st, "ret=1 val=" ++ (match (traverse st.root p).ty with
          | .null => "null" | .scalar => "scalar" | .list => "list" | .map => "map"))
      else (st, "bad-op")
    | _ => (st, "bad-op")
  | ["dump"] => (st, "tree=" ++ dump st.root)
  | ["emit"] =>
    if keysModelled pol st.root then (st, "emit ok=1 doc=" ++ Hex.encode (emitDoc pol st.root))
    else (st, "emit unmodelled")
  | ["parse", h] =>
    match Hex.decode h with
    | some d =>
      match parseDoc d with
      | some t => ({ st with root := t }, "parse ok=1 tree=" ++ dump t)
      | none => ({ st with lost := true }, "parse none")
    | none => (st, "bad-op")
  | ["rt"] =>
    if keysModelled pol st.root then
      match parseDoc (emitDoc pol st.root) with
      | some t => (st, "rt save=1 load=1 tree=" ++ dump t)
      | none => (st, "rt none")
    else (st, "rt unmodelled")
  | ["alias", p] =>
    match Hex.decode p with
    | some p => ({ st with alias := some (traverse st.root p) }, "ok")
    | none => (st, "bad-op")
  | ["aliasdump"] =>
    match st.alias with
    | some t => (st, "tree=" ++ dump t)
    | none => (st, "no-alias")
  | ["raw", d] =>
    match undump d.toList with
    | some (t, []) => ({ st with root := t }, "ok")
    | _ => (st, "bad-op")
  | _ => (st, "bad-op")

partial def loop (pol : LitPolicy) (h : IO.FS.Stream) (out : IO.FS.Stream) (st : St) : IO Unit := do
  let line ← h.getLine
  if line.isEmpty then return ()
  let (st', o) := step pol st line
  out.putStrLn o
  loop pol h out st'

def main (args : List String) : IO Unit := do
  let pol : LitPolicy :=
    match args with
    | ["legacy"] => .legacy
    | ["safe"] => .safe
    | _ => (currentPolicy.getD .legacy)
  loop pol (← IO.getStdin) (← IO.getStdout) {}
