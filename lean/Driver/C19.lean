import RimeModel.Basic.Hex
import RimeModel.C19.Model
import RimeModel.Gen.KeyTables
/-! line protocol for C19 (same lines as harness/c19_harness.cc prints observations for):

* `repr <keycode> <mask>`        → hex of `KeyEvent(keycode, mask).repr()`
* `parse <hex>`                  → `ok <keycode> <mask>` | `fail`
* `seqrepr <k:m,k:m,…|->`        → hex of `KeySequence.repr()`
* `seqparse <hex>`               → `ok <k:m,k:m,…|->` | `fail`
* `name <keycode>`               → hex of `RimeGetKeyName` | `null`
* `code <hex>`                   → `RimeGetKeycodeByName(c_str)`
* `modname <mask>`               → hex of `RimeGetModifierName` | `null`
* `modcode <hex>`                → `RimeGetModifierByName(c_str)`
* `sim <hex>`                    → `ok` | `fail`: whether `RimeSimulateKeySequence(c_str)` parses its text

Key codes and masks are the 32-bit patterns of the C `int`s, in decimal; byte strings are
lower-case hex, `-` = empty. -/
open RimeModel RimeModel.C19

def u32? (s : String) : Option Nat :=
  match s.toNat? with
  | some n => if n < 4294967296 then some n else none
  | none => none

def showEvents (es : List KeyEvent) : String :=
  if es.isEmpty then "-" else ",".intercalate (es.map fun e => s!"{e.keycode}:{e.modifier}")

def readEvent (s : String) : Option KeyEvent :=
  match s.splitOn ":" with
  | [k, m] => do
    let k ← u32? k
    let m ← u32? m
    pure ⟨k, m⟩
  | _ => none

def readEvents (s : String) : Option (List KeyEvent) :=
  if s == "-" then some [] else (s.splitOn ",").mapM readEvent

def optHex : Option Bytes → String
  | some b => Hex.encode b
  | none => "null"

def step (line : String) : String :=
  match line.trimAscii.toString.splitOn " " with
  | ["repr", k, m] =>
    match u32? k, u32? m with
    | some k, some m => Hex.encode (repr ⟨k, m⟩)
    | _, _ => "bad-op"
  | ["parse", h] =>
    match Hex.decode h with
    | some b => match parse b with
      | some e => s!"ok {e.keycode} {e.modifier}"
      | none => "fail"
    | none => "bad-op"
  | ["seqrepr", es] =>
    match readEvents es with
    | some es => Hex.encode (seqRepr es)
    | none => "bad-op"
  | ["seqparse", h] =>
    match Hex.decode h with
    | some b => match seqParse b with
      | some es => "ok " ++ showEvents es
      | none => "fail"
    | none => "bad-op"
  | ["name", k] =>
    match u32? k with
    | some k => optHex (nameByKeycode k)
    | none => "bad-op"
  | ["code", h] =>
    match Hex.decode h with
    | some b => toString (keycodeByName (cstr b))
    | none => "bad-op"
  | ["modname", m] =>
    match u32? m with
    | some m => optHex (modifierName m)
    | none => "bad-op"
  | ["modcode", h] =>
    match Hex.decode h with
    | some b => toString (modifierByName (cstr b))
    | none => "bad-op"
  | ["sim", h] =>
    match Hex.decode h with
    | some b => if (seqParse (cstr b)).isSome then "ok" else "fail"
    | none => "bad-op"
  | _ => "bad-op"

partial def loop (h : IO.FS.Stream) (out : IO.FS.Stream) : IO Unit := do
  let line ← h.getLine
  if line.isEmpty then return ()
  out.putStrLn (step line)
  loop h out

def main : IO Unit := do
  loop (← IO.getStdin) (← IO.getStdout)
