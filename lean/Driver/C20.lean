import RimeModel.Basic.Hex
import RimeModel.C20.Model
import RimeModel.Gen.CopySites
/-! line protocol for C20: `<fn> <srchex> <n> <bufhex>` → hex of the buffer image the model of
that site (as regenerated from the current source) leaves. -/
open RimeModel RimeModel.C20

def step (line : String) : String :=
  match line.trimAscii.toString.splitOn " " with
  | [fn, src, n, buf] =>
    match Gen.copySites.find? (·.fn == fn), Hex.decode src, n.toNat?, Hex.decode buf with
    | some s, some src, some n, some buf => Hex.encode (s.run src n buf)
    | none, _, _, _ => "no-such-site"
    | _, _, _, _ => "bad-op"
  | _ => "bad-op"

partial def loop (h : IO.FS.Stream) (out : IO.FS.Stream) : IO Unit := do
  let line ← h.getLine
  if line.isEmpty then return ()
  out.putStrLn (step line)
  loop h out

def main : IO Unit := do
  loop (← IO.getStdin) (← IO.getStdout)
