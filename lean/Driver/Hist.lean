import RimeModel.Basic.Hex
import RimeModel.C01.History
/-! line protocol for the commit history (same ops as harness/hist_harness.cc):
`reset | rec <type> <text> | key <code> <mask> | comp <input> <seg>;<seg>;…` → `repr=… latest=… n=… fault=…` -/
open RimeModel RimeModel.C01.History

def parseSeg (s : String) : Option SegV :=
  match s.splitOn "," with
  | [a, b, c, ty, tx, e] => do
    let a ← a.toNat?
    let b ← b.toNat?
    let e ← e.toNat?
    let tx ← Hex.decode tx
    if ty == "~" then pure ⟨a, b, c == "1", none⟩
    else do
      let ty ← Hex.decode ty
      pure ⟨a, b, c == "1", some (ty, tx, e)⟩
  | _ => none

def parseSegs (s : String) : Option (List SegV) :=
  if s == "-" then some [] else (s.splitOn ";").mapM parseSeg

def obs (h : List Rec) (fault : String) : String :=
  s!"repr={Hex.encode (repr h)} latest={Hex.encode (latestText h)} n={h.length} fault={fault}"

def step (h : List Rec) (line : String) : List Rec × String :=
  match line.trimAscii.toString.splitOn " " with
  | ["reset"] => ([], obs [] "none")
  | ["rec", ty, tx] =>
    match Hex.decode ty, Hex.decode tx with
    | some ty, some tx => let h' := push h ⟨ty, tx⟩; (h', obs h' "none")
    | _, _ => (h, "bad-op")
  | ["key", k, m] =>
    match k.toNat?, m.toNat? with
    | some k, some m => let h' := pushKey h k m; (h', obs h' "none")
    | _, _ => (h, "bad-op")
  | ["comp", inp, segs] =>
    match Hex.decode inp, parseSegs segs with
    | some inp, some segs =>
      let s := pushComposition true h segs inp
      let f := match s.fault with
        | .none => "none"
        | .dangling => "dangling"
        | .substrRange => "substr"
      (s.recs, obs s.recs f)
    | _, _ => (h, "bad-op")
  | _ => (h, "bad-op")

partial def loop (h : IO.FS.Stream) (out : IO.FS.Stream) (st : List Rec) : IO Unit := do
  let line ← h.getLine
  if line.isEmpty then return ()
  if line.trimAscii.toString.isEmpty then loop h out st else
  let (st', o) := step st line
  out.putStrLn o
  loop h out st'

def main : IO Unit := do
  loop (← IO.getStdin) (← IO.getStdout) []
