import RimeModel.Basic.Hex
import RimeModel.Session.Api
import RimeModel.Session.Compose
/-! Line-protocol driver for M-session (same protocol as harness/session_harness.cc). -/
open RimeModel RimeModel.Session

structure Row where
  text : Bytes
  comment : Bytes
  preedit : Bytes

structure SchemaCfg where
  id : String
  env : Env
  uniq : Bool
  express : Bool

structure DState where
  table : List (Bytes × Row) := []
  schemas : List (String × List (String × String)) := []   -- raw env key/values, resolved at first use
  sessions : Array (Option (Ctx × String)) := #[]         -- ctx and schema id ("" = default)
  cur : Nat := 0

def dedupByText : List Cand → List Bytes → List Cand
  | [], _ => []
  | c :: cs, seen => if seen.contains c.text then dedupByText cs seen else c :: dedupByText cs (c.text :: seen)

/-- vt_translator: rows of T[p] for every non-empty prefix p of the segment input, longest first -/
def vtTranslate (table : List (Bytes × Row)) (uniq : Bool) (inp : Bytes) (g : Seg) : List Cand :=
  if !g.tags.abc then [] else
  let lens := (List.range inp.length).reverse.map (· + 1)
  let all := lens.flatMap (fun n =>
    (table.filter (fun r => r.1 == inp.take n)).map (fun r =>
      ({ text := r.2.text, comment := r.2.comment, preedit := r.2.preedit, start := g.start, stop := g.start + n } : Cand)))
  if uniq then dedupByText all [] else all

def kv (kvs : List (String × String)) (k : String) : String :=
  match kvs.find? (·.1 == k) with | some (_, v) => v | none => ""

def hexD (s : String) : Bytes := (Hex.decode s).getD []

def parseProc (s : String) : Proc :=
  match s with
  | "speller" => .speller | "selector" => .selector | "navigator" => .navigator
  | "express_editor" => .expressEditor | "fluid_editor" => .fluidEditor | _ => .other

def mkSchema (st : DState) (id : String) : Option SchemaCfg :=
  match st.schemas.find? (·.1 == id) with
  | none => none
  | some (_, kvs) =>
    let procs := ((kv kvs "procs").splitOn ",").map parseProc
    let alphabet := hexD (kv kvs "alphabet")
    let initials0 := hexD (kv kvs "initials")
    let initials := if initials0 = [] then alphabet else initials0
    let uniq := kv kvs "uniq" == "1"
    let scfg : SegCfg := { alphabet := alphabet, initials := initials, finals := hexD (kv kvs "finals"),
                           delimiters := hexD (kv kvs "delimiters"), translate := vtTranslate st.table uniq }
    let env : Env := {
      pageSize := (kv kvs "pageSize").toNat?.getD 5, selectKeys := hexD (kv kvs "selectKeys"),
      pageDownCycle := kv kvs "pageDownCycle" == "1", alphabet := alphabet, initials := initials,
      finals := hexD (kv kvs "finals"), delimiters := hexD (kv kvs "delimiters"),
      maxCodeLength := (kv kvs "maxCodeLength").toNat?.getD 0, autoSelect := kv kvs "autoSelect" == "1",
      useSpace := kv kvs "useSpace" == "1",
      autoClear := match kv kvs "autoClear" with | "auto" => .auto | "manual" => .manual | "max_length" => .maxLength | _ => .none,
      processors := procs, recompose := compose scfg }
    some { id := id, env := env, uniq := uniq, express := procs.contains .expressEditor }

def hexO (b : Bytes) : String := Hex.encode b

def showView (v : View) (ret : Ret) (pending : Bytes := []) : String :=
  let s := s!"ret={if ret.ok then 1 else 0}"
  let s := if ret.text ≠ [] then s ++ s!" text={hexO ret.text}" else s
  let s := s ++ s!" input={hexO v.input} caret={v.caret} composing={if v.composing then 1 else 0} pending={hexO pending}"
  let s := match v.preedit with
    | some p => s ++ s!" preedit={hexO p.text} len={p.text.length} cur={p.caretPos} sel={p.selStart},{p.selEnd}"
    | none => s ++ " preedit=~"
  let s := s ++ s!" preview={hexO v.preview}"
  match v.menu with
  | some m =>
    let cs := String.intercalate "|" (m.cands.map (fun c => s!"{hexO c.text}:{hexO c.comment}:{c.stop}"))
    s ++ s!" menu={m.pageSize},{m.pageNo},{if m.isLast then 1 else 0},{m.highlighted},{m.cands.length},[{cs}]"
  | none => s ++ " menu=~"

def freshCtx (sc : SchemaCfg) (old : Option Ctx) : Ctx :=
  let keep := match old with
    | some c => c.options.filter (fun o => !(o.1.startsWith "_"))
    | none => []
  let buf := match old with | some c => c.commitBuf | none => []
  let hasEditor := sc.env.processors.contains .expressEditor || sc.env.processors.contains .fluidEditor
  { options := (if hasEditor then [("_auto_commit", sc.express)] else []) ++ keep, commitBuf := buf }

def toMask (n : Int) : Nat := if n < 0 then (n + 4294967296).toNat else n.toNat

def parseOp (ws : List String) : Option Op :=
  match ws with
  | ["key", c, m] => do let c ← c.toInt?; let m ← m.toInt?; pure (.key c (toMask m))
  | ["select", i] => do let i ← i.toNat?; pure (.select i)
  | ["select_page", i] => do let i ← i.toNat?; pure (.selectOnPage i)
  | ["highlight", i] => do let i ← i.toNat?; pure (.highlight i)
  | ["highlight_page", i] => do let i ← i.toNat?; pure (.highlightOnPage i)
  | ["delete", i] => do let i ← i.toNat?; pure (.delete i)
  | ["delete_page", i] => do let i ← i.toNat?; pure (.deleteOnPage i)
  | ["page", d] => pure (.changePage (d == "-"))
  | ["input", h] => do let b ← Hex.decode h; pure (.setInput b)
  | ["caret", n] => do let n ← n.toNat?; pure (.setCaret n)
  | ["option", n, v] => pure (.setOption n (v != "0"))
  | ["commit"] => pure .commitComposition
  | ["clear"] => pure .clearComposition
  | ["read_commit"] => pure .getCommit
  | _ => none

def deadLine (ret : Nat) : String := s!"ret={ret} input=- caret=0 composing=0 pending=- nocontext"

def step (st : DState) (line : String) : DState × Option String :=
  let ws := (line.trimAscii.toString.splitOn " ").filter (· ≠ "")
  match ws with
  | [] => (st, none)
  | "env" :: id :: rest =>
    let kvs := rest.filterMap (fun w => match w.splitOn "=" with | [k, v] => some (k, v) | _ => none)
    ({ st with schemas := st.schemas ++ [(id, kvs)] }, none)
  | ["table", k, t, c, p] =>
    ({ st with table := st.table ++ [(hexD k, { text := hexD t, comment := hexD c, preedit := hexD p })] }, none)
  | ["new"] =>
    -- a session starts on the first schema of the list
    match st.schemas.head? with
    | none => (st, some "bad-op")
    | some (id, _) =>
      match mkSchema st id with
      | none => (st, some "bad-op")
      | some sc =>
        let c := freshCtx sc none
        let st := { st with sessions := st.sessions.push (some (c, id)), cur := st.sessions.size }
        (st, some (showView (view sc.env c) ⟨true, []⟩ c.commitBuf))
  | ["use", k] =>
    match k.toNat? with
    | none => (st, some "bad-op")
    | some k =>
      let st := { st with cur := k }
      match st.sessions[k]? with
      | some (some (c, id)) =>
        match mkSchema st id with
        | some sc => (st, some (showView (view sc.env c) ⟨true, []⟩ c.commitBuf))
        | none => (st, some "bad-op")
      | _ => (st, some (deadLine 1))
  | ["destroy", k] =>
    match k.toNat? with
    | none => (st, some "bad-op")
    | some k =>
      match st.sessions[k]? with
      | some (some _) =>
        let st := { st with sessions := st.sessions.set! k none }
        match st.sessions[st.cur]? with
        | some (some (c, id)) =>
          match mkSchema st id with
          | some sc => (st, some (showView (view sc.env c) ⟨true, []⟩ c.commitBuf))
          | none => (st, some "bad-op")
        | _ => (st, some (deadLine 1))
      | _ =>
        match st.sessions[st.cur]? with
        | some (some (c, id)) =>
          match mkSchema st id with
          | some sc => (st, some (showView (view sc.env c) ⟨false, []⟩ c.commitBuf))
          | none => (st, some "bad-op")
        | _ => (st, some (deadLine 0))
  | ["schema", id] =>
    match st.sessions[st.cur]? with
    | some (some (c, _)) =>
      match mkSchema st id with
      | none => (st, some "bad-op")
      | some sc =>
        let c1 := freshCtx sc (some c)
        ({ st with sessions := st.sessions.set! st.cur (some (c1, id)) }, some (showView (view sc.env c1) ⟨true, []⟩ c1.commitBuf))
    | _ => (st, some (deadLine 0))
  | _ =>
    match parseOp ws with
    | none => (st, some "bad-op")
    | some op =>
      match st.sessions[st.cur]? with
      | some (some (c, id)) =>
        match mkSchema st id with
        | none => (st, some "bad-op")
        | some sc =>
          let (c1, r) := apiStep sc.env c op
          ({ st with sessions := st.sessions.set! st.cur (some (c1, id)) }, some (showView (view sc.env c1) r c1.commitBuf))
      | _ =>
        -- dead / never-issued session id: every call is refused
        let ret := match op with | .setCaret _ | .setOption _ _ | .clearComposition => 1 | _ => 0
        (st, some (deadLine ret))

partial def loop (h : IO.FS.Stream) (out : IO.FS.Stream) (st : DState) : IO Unit := do
  let line ← h.getLine
  if line.isEmpty then return ()
  if line.startsWith "#" then loop h out st else
  let (st', o) := step st line
  match o with
  | some s => out.putStrLn s
  | none => pure ()
  loop h out st'

def main : IO Unit := do
  loop (← IO.getStdin) (← IO.getStdout) {}
