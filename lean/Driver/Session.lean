import RimeModel.Basic.Hex
import RimeModel.Session.Api
import RimeModel.Session.Compose
import RimeModel.Session.PunctCompose
import RimeModel.Session.Shape
import RimeModel.Session.RecogCompose
import RimeModel.Session.RecogPattern
import RimeModel.C16.Model
/-! Line-protocol driver for M-session (same protocol as harness/session_harness.cc). -/
open RimeModel RimeModel.Session

structure Row where
  text : Bytes
  comment : Bytes
  preedit : Bytes

structure SchemaCfg where
  id : String
  env : Env
  uniq : Bool
  express : Bool

/-- what a session of the driver executes: an API op, or select_schema -/
inductive DOp where
  | api (op : Op)
  | schema (id : String)

structure DState where
  table : List (Bytes × Row) := []
  schemas : List (String × List (String × String)) := []   -- raw env key/values, resolved at first use
  /-- the service: RimeModel.C16.Svc over (context, schema id); ids are the harness's session indices -/
  svc : RimeModel.C16.Svc (Ctx × String) := {}
  created : Nat := 0
  cur : Nat := 0
  /-- the process-wide steady clock in ms, moved by `sleep` lines only; every session call reads it (Ctx.clock) -/
  now : Nat := 0
  /-- the wall clock in seconds (`time()`), moved by `advance` lines only -/
  wall : Nat := 0
  /-- `Session::last_active_time_` per live session index (`Session::Activate`: at creation and at every `GetSession`) -/
  lastActive : List (Nat × Nat) := []

def dedupByText : List Cand → List Bytes → List Cand
  | [], _ => []
  | c :: cs, seen => if seen.contains c.text then dedupByText cs seen else c :: dedupByText cs (c.text :: seen)

/-- vt_translator: rows of T[p] for every non-empty prefix p of the segment input, longest first -/
def vtTranslate (table : List (Bytes × Row)) (uniq : Bool) (inp : Bytes) (g : Seg) (tag : String := "abc") : List Cand :=
  if !g.tags.has tag then [] else
  let lens := (List.range inp.length).reverse.map (· + 1)
  let all := lens.flatMap (fun n =>
    (table.filter (fun r => r.1 == inp.take n)).map (fun r =>
      ({ text := r.2.text, comment := r.2.comment, preedit := r.2.preedit, start := g.start, stop := g.start + n } : Cand)))
  if uniq then dedupByText all [] else all

def kv (kvs : List (String × String)) (k : String) : String :=
  match kvs.find? (·.1 == k) with | some (_, v) => v | none => ""

def hexD (s : String) : Bytes := (Hex.decode s).getD []

def parseProc (s : String) : Proc :=
  match s with
  | "speller" => .speller | "selector" => .selector | "navigator" => .navigator
  | "express_editor" => .expressEditor | "fluid_editor" => .fluidEditor | "punctuator" => .punctuator
  | "key_binder" => .keyBinder | "ascii_composer" => .asciiComposer | "recognizer" => .recognizer | _ => .other

/-- `ascii_composer/switch_key` as loaded: `<keycode>:<style>;…` with style i = inline_ascii, t = commit_text,
c = commit_code, x = clear (noop entries are not loaded and not listed); `-` = none -/
def parseAsciiKeys (s : String) : Option (List (Int × AcStyle)) :=
  if s == "-" || s == "" then some [] else
  (s.splitOn ";").mapM (fun e => match e.splitOn ":" with
    | [code, st] => do
      let code ← code.toInt?
      let st : AcStyle ← match st with
        | "i" => some .inline | "t" => some .commitText | "c" => some .commitCode | "x" => some .clear | _ => none
      pure (code, st)
    | _ => none)

def hexStr (h : String) : Option String := do
  let b ← if h == "-" then some [] else Hex.decode h
  String.fromUTF8? (ByteArray.mk b.toArray)

def parseKeyPair (s : String) : Option (Int × Nat) :=
  match s.splitOn "." with
  | [c, m] => do let c ← c.toInt?; let m ← m.toNat?; pure (c, m)
  | _ => none

/-- one entry `<when>:<keycode>:<mask>:<kind>:<arg>` of `key_binder/bindings`: when = r predicting, p paging, m has_menu,
c composing, a always; kind s = send / send_sequence (arg: `code.mask,code.mask…`, `-` = empty sequence), t = toggle,
o = set_option, u = unset_option (arg: option name in hex).  Kind x (`select:`, schema switching) is outside the model:
the entry does not parse and the schema is refused. -/
def parseBinding (e : String) : Option KbBinding :=
  match e.splitOn ":" with
  | [w, code, mask, kind, arg] => do
    let whence : KbWhen ← match w with
      | "r" => some .predicting | "p" => some .paging | "m" => some .hasMenu | "c" => some .composing | "a" => some .always
      | _ => none
    let code ← code.toInt?
    let mask ← mask.toNat?
    let action : KbAction ← match kind with
      | "s" => (if arg == "-" then some [] else (arg.splitOn ",").mapM parseKeyPair).map KbAction.send
      | "t" => do
        let n ← hexStr arg
        -- `@<index>`: std::stoul's leniency (sign, blanks, trailing text) is not modelled
        if n.front = '@' && n ≠ "" && !((n.drop 1).toNat?.isSome) then none else some (.toggle n)
      | "o" => (hexStr arg).map KbAction.setOption
      | "u" => (hexStr arg).map KbAction.unsetOption
      | _ => none
    pure { whence := whence, code := code, mask := mask, action := action }
  | _ => none

def parseBindings (s : String) : Option (List KbBinding) :=
  if s == "-" || s == "" then some [] else (s.splitOn ";").mapM parseBinding

/-- `switches:` entries `t:<name hex>:<reset>` / `r:<name hex>,<name hex>…:<reset>` (reset -1 = not given) -/
def parseSwitch (e : String) : Option SwitchDef :=
  match e.splitOn ":" with
  | ["t", n, r] => do let n ← hexStr n; let r ← r.toInt?; pure (.toggle n r)
  | ["r", ns, r] => do let ns ← (ns.splitOn ",").mapM hexStr; let r ← r.toInt?; pure (.radio ns r)
  | _ => none

def parseSwitches (s : String) : Option (List SwitchDef) :=
  if s == "-" || s == "" then some [] else (s.splitOn ";").mapM parseSwitch

/-- can a binding of this list change `full_shape`?  (by name, through a radio group, or through a switch index) -/
def touchesShape (bs : List KbBinding) (sws : List SwitchDef) : Bool :=
  let inGroup := sws.any (fun d => match d with | .radio os _ => os.contains "full_shape" | _ => false)
  bs.any (fun b => match b.action with
    | .send _ => false
    | .toggle o => o == "full_shape" || o.front = '@' || inGroup
    | .setOption o => o == "full_shape" || inGroup
    | .unsetOption o => o == "full_shape" || inGroup)

/-- one entry `<key byte>:<kind>:<text>,<text>…` of a punctuation mapping (hex; kinds u = scalar, l = list,
c = {commit: t}, p = {pair: [a, b]}) -/
def parsePunctEntry (e : String) : Option (UInt8 × PunctDef) :=
  match e.splitOn ":" with
  | [k, kind, ts] => do
    let kb ← Hex.decode k
    let texts ← if ts == "-" then some [] else (ts.splitOn ",").mapM Hex.decode
    match kb, kind, texts with
    | [b], "u", [t] => some (b, .unique t)
    | [b], "c", [t] => some (b, .commit t)
    | [b], "p", [x, y] => some (b, .pair x y)
    | [b], "l", l => some (b, .alt l)
    | _, _, _ => none
  | _ => none

/-- `-` = no mapping; entries separated by `;` -/
def parsePunctMap (s : String) : Option (List (UInt8 × PunctDef)) :=
  if s == "-" || s == "" then some [] else (s.splitOn ";").mapM parsePunctEntry

/-! the recognizer family: patterns (the class of Session/RecogPattern.lean), affix segmentors, segmentor list -/

def hexPairs : Bytes → Option (List (UInt8 × UInt8))
  | [] => some []
  | a :: b :: rest => (hexPairs rest).map (fun l => (a, b) :: l)
  | _ => none

/-- one item `<q><ranges hex>`: q = o (exactly one), q (`?`), s (`*`), p (`+`); ranges = lo hi pairs, at least one, lo ≤ hi -/
def parsePItem (e : String) : Option PItem := do
  let q : Quant ← match (e.take 1).toString with
    | "o" => some .one | "q" => some .opt | "s" => some .star | "p" => some .plus | _ => none
  let bs ← Hex.decode (e.drop 1).toString
  let rs ← hexPairs bs
  if rs.isEmpty || rs.any (fun r => decide (r.2 < r.1)) then none else pure { ranges := rs, quant := q }

/-- one pattern `<name hex>/<S|U><E|N>/<item>,<item>…`: S = `^`, U = not anchored at the start; E = `$`, N = not anchored at
the end.  A pattern that is not in the class has no such description: the entry does not parse and the schema is refused. -/
def parseRecPattern (e : String) : Option (String × Pattern) :=
  match e.splitOn "/" with
  | [n, anch, items] => do
    let n ← hexStr n
    let (a, z) ← match anch with
      | "SE" => some (true, true) | "SN" => some (true, false) | "UE" => some (false, true) | "UN" => some (false, false) | _ => none
    let its ← (items.splitOn ",").mapM parsePItem
    pure (n, { anchoredStart := a, items := its, anchoredEnd := z })
  | _ => none

/-- insertion into a list sorted by name (std::map order; a later entry with the same name cannot occur in a YAML map) -/
def insertByName (e : String × Pattern) : List (String × Pattern) → List (String × Pattern)
  | [] => [e]
  | x :: rest => if e.1 < x.1 then e :: x :: rest else x :: insertByName e rest

def parseRecPatterns (s : String) : Option (List RecPattern) :=
  if s == "-" || s == "" then some [] else do
    let ps ← (s.splitOn ";").mapM parseRecPattern
    let sorted := ps.foldl (fun acc e => insertByName e acc) []
    pure (sorted.map (fun e => { tag := e.1, search := e.2.search }))

/-- one affix segmentor `<tag hex>/<prefix hex>/<suffix hex>/<tips hex>/<closing tips hex>/<extra tag hex>,…` (`-` = empty) -/
def parseAffix (e : String) : Option AffixCfg :=
  match e.splitOn "/" with
  | [t, p, sf, tips, ctips, ex] => do
    let t ← hexStr t
    let p ← if p == "-" then some [] else Hex.decode p
    let sf ← if sf == "-" then some [] else Hex.decode sf
    let tips ← if tips == "-" then some [] else Hex.decode tips
    let ctips ← if ctips == "-" then some [] else Hex.decode ctips
    let ex ← if ex == "-" then some [] else (ex.splitOn ",").mapM hexStr
    pure { tag := t, prefix_ := p, suffix := sf, tips := tips, closingTips := ctips, extraTags := ex }
  | _ => none

def parseAffixes (s : String) : Option (List AffixCfg) :=
  if s == "-" || s == "" then some [] else (s.splitOn ";").mapM parseAffix

/-- `engine/segmentors`: ascii, matcher, abc, punct, fallback, affix.<index into the affix list> -/
def parseSegmentors (s : String) (affixes : List AffixCfg) : Option (List Sgm) :=
  (s.splitOn ",").mapM (fun w => match w with
    | "ascii" => some Sgm.ascii | "matcher" => some .matcher | "abc" => some .abc | "punct" => some .punct
    | "fallback" => some .fallback
    | _ => match w.splitOn "." with
      | ["affix", i] => do let i ← i.toNat?; let a ← affixes[i]?; pure (.affix a)
      | _ => none)

/-- the schema in the environment of one value of `full_shape` (see Session/Shape.lean) -/
def mkSchema (st : DState) (id : String) (full : Bool := false) : Option SchemaCfg :=
  match st.schemas.find? (·.1 == id) with
  | none => none
  | some (_, kvs) =>
    let procs := ((kv kvs "procs").splitOn ",").map parseProc
    let alphabet := hexD (kv kvs "alphabet")
    let initials0 := hexD (kv kvs "initials")
    let initials := if initials0 = [] then alphabet else initials0
    let uniq := kv kvs "uniq" == "1"
    let hasPunct := kv kvs "punctHalf" != ""
    match parsePunctMap (kv kvs "punctHalf"), parsePunctMap (kv kvs "punctFull"), parseBindings (kv kvs "kb"),
          parseSwitches (kv kvs "switches"), parseAsciiKeys (kv kvs "asciiKeys") with
    | some half, some fullm, some bindings, some switches, some asciiKeys =>
      -- outside the model: a binding that can change full_shape when the key binder is not the first processor (the
      -- environment of the call is chosen from the state at its start, Session/Shape.lean) or when full_shape sits in a
      -- radio group (the group's options are stored one by one, each followed by a recomposition)
      let shapeRadio := switches.any (fun d => match d with | .radio os _ => os.contains "full_shape" | _ => false)
      if procs.contains .keyBinder && touchesShape bindings switches && (procs.head? != some .keyBinder || shapeRadio) then none else
      -- outside the model: digit separators (they read the commit history); a punctuation key that is also a letter
      -- (a segment would carry both tags and hold candidates of both translators)
      let keys := (half ++ fullm).map (·.1)
      if hasPunct && (kv kvs "punctDigitSep" != "-" || keys.any (fun b => alphabet.contains b)) then none else
      let pc : PunctCfg := { half := half, full := fullm, useSpace := kv kvs "punctUseSpace" == "1" }
      let scfg : SegCfg := { alphabet := alphabet, initials := initials, finals := hexD (kv kvs "finals"),
                             delimiters := hexD (kv kvs "delimiters"), translate := vtTranslate st.table (uniq && !hasPunct) }
      let pcfg : PSegCfg := { scfg with punct := pc.mapping full, filter := if uniq then (fun l => dedupByText l []) else (fun l => l) }
      -- the recognizer family (`segmentors=` present): patterns, affix segmentors, segmentor list, the tags of the vt translators
      let isRec := kv kvs "segmentors" != ""
      match parseRecPatterns (kv kvs "rec"), parseAffixes (kv kvs "affix") with
      | none, _ => none
      | _, none => none
      | some pats, some affixes =>
      match (if isRec then parseSegmentors (kv kvs "segmentors") affixes else some []),
            (if kv kvs "vtTags" == "" then some ["abc"] else ((kv kvs "vtTags").splitOn ",").mapM hexStr) with
      | none, _ => none
      | _, none => none
      | some sgms, some vtTags =>
      -- outside the driver: a recognizer whose patterns the schema's matcher would not see, or the other way round, is
      -- not distinguished (both read `recognizer/patterns`); translators: one vt_translator per tag, concatenated in order
      let rtr : Bytes → Seg → List Cand := fun inp g => vtTags.flatMap (fun t => vtTranslate st.table false inp g t)
      let rcfg : RSegCfg := { pcfg with translate := rtr, patterns := pats, segmentors := sgms }
      let env : Env := {
        pageSize := (kv kvs "pageSize").toNat?.getD 5, selectKeys := hexD (kv kvs "selectKeys"),
        pageDownCycle := kv kvs "pageDownCycle" == "1", alphabet := alphabet, initials := initials,
        finals := hexD (kv kvs "finals"), delimiters := hexD (kv kvs "delimiters"),
        maxCodeLength := (kv kvs "maxCodeLength").toNat?.getD 0, autoSelect := kv kvs "autoSelect" == "1",
        useSpace := kv kvs "useSpace" == "1",
        autoClear := match kv kvs "autoClear" with | "auto" => .auto | "manual" => .manual | "max_length" => .maxLength | _ => .none,
        processors := procs, punct := pc, bindings := bindings, switches := switches,
        asciiKeys := asciiKeys, goodOldCapsLock := kv kvs "goodOldCaps" == "1",
        format := if full then shapeFormat else (fun t => t),
        recPatterns := pats, recUseSpace := kv kvs "recUseSpace" == "1",
        recompose := if isRec then composeR rcfg else if hasPunct then composeP pcfg else compose scfg }
      some { id := id, env := env, uniq := uniq, express := procs.contains .expressEditor }
    | _, _, _, _, _ => none

def hexO (b : Bytes) : String := Hex.encode b

def showTags (t : Tags) : String :=
  let s := (if t.abc then "a" else "") ++ (if t.raw then "r" else "") ++ (if t.partial_ then "p" else "") ++
    (if t.paging then "g" else "") ++ (if t.selectedBeforeEditing then "e" else "") ++ (if t.phony then "h" else "") ++
    (if t.placeholder then "l" else "") ++ (if t.punct then "u" else "")
  -- every other tag, sorted by name: `+` and the bytes of the name in decimal, joined by `.`
  let ex := (t.extra.toArray.qsort (· < ·)).toList.map (fun n => "+" ++ String.intercalate "." (n.toUTF8.toList.map (fun b => toString b.toNat)))
  let s := s ++ String.join ex
  if s == "" then "0" else s

/-- the segment list itself: `|composition input|:` then start-end-length-status-selected_index-tags per segment -/
def showSegs (c : Comp) : String :=
  let body := if c.segs.isEmpty then "-" else
    String.intercalate "|" (c.segs.map (fun g =>
      s!"{g.start}-{g.stop}-{g.length}-{g.status.rank}-{g.selIdx}-{showTags g.tags}"))
  s!" segs={c.input.length}:{body}"

def showViewOnly (v : View) (ret : Ret) (pending : Bytes := []) : String :=
  let s := s!"ret={if ret.ok then 1 else 0}"
  let s := if ret.text ≠ [] then s ++ s!" text={hexO ret.text}" else s
  let s := s ++ s!" input={hexO v.input} caret={v.caret} composing={if v.composing then 1 else 0} pending={hexO pending}"
  let s := match v.preedit with
    | some p => s ++ s!" preedit={hexO p.text} len={p.text.length} cur={p.caretPos} sel={p.selStart},{p.selEnd}"
    | none => s ++ " preedit=~"
  let s := s ++ s!" preview={hexO v.preview}"
  match v.menu with
  | some m =>
    let cs := String.intercalate "|" (m.cands.map (fun c => s!"{hexO c.text}:{hexO c.comment}:{c.stop}"))
    s ++ s!" menu={m.pageSize},{m.pageNo},{if m.isLast then 1 else 0},{m.highlighted},{m.cands.length},[{cs}]"
  | none => s ++ " menu=~"

/-- the options the observation line reports (harness: same list, same order) -/
def reportedOptions : List String :=
  ["ascii_mode", "full_shape", "ascii_punct", "soft_cursor", "_linear", "_vertical", "_horizontal", "opt_a", "opt_b", "opt_c", "@9"]

def showOpts (c : Ctx) : String := " opts=" ++ String.join (reportedOptions.map (fun n => if c.getOption n then "1" else "0"))

def showView (v : View) (ret : Ret) (c : Ctx) : String := showViewOnly v ret c.commitBuf ++ showSegs c.comp ++ showOpts c

def freshCtx (sc : SchemaCfg) (old : Option Ctx) : Ctx :=
  -- ApplySchema clears the context first: the old ascii composer's update listener, if connected, turns ascii_mode off
  let old := old.map (fun c => acSettle { c with input := [], caret := 0, comp := {} })
  let keep := match old with
    | some c => c.options.filter (fun o => !(o.1.startsWith "_"))
    | none => []
  let buf := match old with | some c => c.commitBuf | none => []
  let hasEditor := sc.env.processors.contains .expressEditor || sc.env.processors.contains .fluidEditor
  -- components are created first (Editor's constructor sets _auto_commit), then ConcreteEngine::InitializeOptions
  let c := swInitOptions sc.env.switches { options := (if hasEditor then [("_auto_commit", sc.express)] else []) ++ keep, commitBuf := buf }
  -- the ghost copy of `ascii_mode` the ascii segmentor reads (Comp.ascii): the option survives a schema change
  { c with comp := { c.comp with ascii := c.getOption "ascii_mode" } }

def toMask (n : Int) : Nat := if n < 0 then (n + 4294967296).toNat else n.toNat

def parseOp (ws : List String) : Option Op :=
  match ws with
  | ["key", c, m] => do let c ← c.toInt?; let m ← m.toInt?; pure (.key c (toMask m))
  | ["select", i] => do let i ← i.toNat?; pure (.select i)
  | ["select_page", i] => do let i ← i.toNat?; pure (.selectOnPage i)
  | ["highlight", i] => do let i ← i.toNat?; pure (.highlight i)
  | ["highlight_page", i] => do let i ← i.toNat?; pure (.highlightOnPage i)
  | ["delete", i] => do let i ← i.toNat?; pure (.delete i)
  | ["delete_page", i] => do let i ← i.toNat?; pure (.deleteOnPage i)
  | ["page", d] => pure (.changePage (d == "-"))
  | ["input", h] => do let b ← Hex.decode h; pure (.setInput b)
  | ["caret", n] => do let n ← n.toNat?; pure (.setCaret n)
  | ["option", n, v] => pure (.setOption n (v != "0"))
  | ["commit"] => pure .commitComposition
  | ["clear"] => pure .clearComposition
  | ["read_commit"] => pure .getCommit
  | _ => none

def deadLine (ret : Nat) : String := s!"ret={ret} input=- caret=0 composing=0 pending=- nocontext"

/-- one session's own transition (the `step` parameter of the C16 service model) -/
def sessStep (st : DState) (cs : Ctx × String) (d : DOp) : (Ctx × String) × String :=
  match d with
  | .schema id =>
    match mkSchema st id with
    | none => (cs, "bad-op")
    | some sc =>
      let c1 := freshCtx sc (some cs.1)
      ((c1, id), showView (view sc.env c1) ⟨true, []⟩ c1)
  | .api op =>
    match mkSchema st cs.2 false, mkSchema st cs.2 true with
    | some sc, some scFull =>
      let r := apiStepK (fun b => if b then scFull.env else sc.env) { cs.1 with clock := st.now } op
      ((r.1, cs.2), showView (view sc.env r.1) r.2 r.1)
    | _, _ => (cs, "bad-op")

def showCur (st : DState) (ret : Bool) : String :=
  match st.svc.lookup st.cur with
  | some (c, id) =>
    match mkSchema st id with
    | some sc => showView (view sc.env c) ⟨ret, []⟩ c
    | none => "bad-op"
  | none => deadLine (if ret then 1 else 0)

def step (st : DState) (line : String) : DState × Option String :=
  let ws := (line.trimAscii.toString.splitOn " ").filter (· ≠ "")
  match ws with
  | [] => (st, none)
  | "env" :: id :: rest =>
    let kvs := rest.filterMap (fun w => match w.splitOn "=" with | [k, v] => some (k, v) | _ => none)
    ({ st with schemas := st.schemas ++ [(id, kvs)] }, none)
  | ["table", k, t, c, p] =>
    ({ st with table := st.table ++ [(hexD k, { text := hexD t, comment := hexD c, preedit := hexD p })] }, none)
  | ["ids"] =>
    let live := st.svc.live
    (st, some s!"ids live={live.length} distinct={if live.eraseDups.length == live.length then 1 else 0}")
  | ["new"] =>
    -- a session starts on the first schema of the list
    match st.schemas.head? with
    | none => (st, some "bad-op")
    | some (id, _) =>
      match mkSchema st id with
      | none => (st, some "bad-op")
      | some sc =>
        let fresh : Ctx × String := (freshCtx sc none, id)
        let k := st.created
        let r := RimeModel.C16.Svc.step fresh (sessStep st) st.svc (.create k)
        let st := { st with svc := r.1, created := k + 1, cur := k }
        (st, some (showCur st true))
  | ["sleep", ms] =>
    -- the environment lets `ms` milliseconds pass (for every session: the clock is the process's)
    match ms.toNat? with
    | none => (st, some "bad-op")
    | some ms => let st := { st with now := st.now + ms }; (st, some (showCur st true))
  | ["use", k] =>
    match k.toNat? with
    | none => (st, some "bad-op")
    | some k => let st := { st with cur := k }; (st, some (showCur st true))
  | ["cleanup_all"] =>
    -- Service::CleanupAllSessions: every live session is destroyed
    let dummy : Ctx × String := ({}, "")
    let svc := st.svc.live.foldl (fun s k => (RimeModel.C16.Svc.step dummy (sessStep st) s (.destroy k)).1) st.svc
    let st := { st with svc := svc }
    (st, some (showCur st true))
  | ["destroy", k] =>
    match k.toNat? with
    | none => (st, some "bad-op")
    | some k =>
      let dummy : Ctx × String := ({}, "")
      let r := RimeModel.C16.Svc.step dummy (sessStep st) st.svc (.destroy k)
      let ok := match r.2 with | .destroyed b => b | _ => false
      let st := { st with svc := r.1 }
      (st, some (showCur st ok))
  | _ =>
    let dop : Option DOp := match ws with
      | ["schema", id] => some (.schema id)
      | _ => (parseOp ws).map .api
    match dop with
    | none => (st, some "bad-op")
    | some d =>
      let dummy : Ctx × String := ({}, "")
      let r := RimeModel.C16.Svc.step dummy (sessStep st) st.svc (.call st.cur d)
      match r.2 with
      | .obs line => ({ st with svc := r.1 }, some line)
      | _ =>
        -- dead / never-issued session id: every call is refused
        let ret := match d with
          | .api (.setCaret _) | .api (.setOption _ _) | .api .clearComposition => 1
          | _ => 0
        (st, some (deadLine ret))

/-- `Session::kLifeSpan` (service.h: 5 * 60 seconds) -/
def kLifeSpan : Nat := 300

def DState.touch (st : DState) (ks : List Nat) : DState :=
  { st with lastActive := (st.lastActive.filter (fun p => !ks.contains p.1)) ++
      ((ks.filter (fun k => st.svc.live.contains k)).map (fun k => (k, st.wall))) }

/-- `step` plus the wall clock: `advance <s>` lets s seconds pass without a call; every other line marks the sessions the
harness calls into as active (the current one: each observation reads it through the API; all live ones for `ids` and
`cleanup_stale`, which look every id up); `cleanup_stale` = `Service::CleanupStaleSessions`: a live session goes when
`last_active_time < now - kLifeSpan` -/
def stepT (st : DState) (line : String) : DState × Option String :=
  let ws := (line.trimAscii.toString.splitOn " ").filter (· ≠ "")
  match ws with
  | ["advance", s] =>
    match s.toNat? with
    | some s => ({ st with wall := st.wall + s }, none)
    | none => (st, some "bad-op")
  | ["newq"] =>
    -- `create_session` without a following read: the session exists, active at the current clock (`Service::CreateSession`
    -- calls `Session::Activate`), and is the current one; no observation line
    let r := step st "new"
    (r.1.touch [r.1.cur], none)
  | ["cleanup_stale"] =>
    let stale := st.svc.live.filter (fun k =>
      match st.lastActive.find? (·.1 == k) with
      | some p => decide ((p.2 : Int) < (st.wall : Int) - (kLifeSpan : Int))
      | none => false)
    let dummy : Ctx × String := ({}, "")
    let svc := stale.foldl (fun s k => (RimeModel.C16.Svc.step dummy (sessStep st) s (.destroy k)).1) st.svc
    let st := { st with svc := svc }
    let st := st.touch st.svc.live
    (st, some (showCur st true))
  | _ =>
    let r := step st line
    match r.2 with
    | none => r
    | some _ => ((if ws == ["ids"] then r.1.touch r.1.svc.live else r.1.touch [r.1.cur]), r.2)

partial def loop (h : IO.FS.Stream) (out : IO.FS.Stream) (st : DState) : IO Unit := do
  let line ← h.getLine
  if line.isEmpty then return ()
  if line.startsWith "#" then loop h out st else
  let (st', o) := stepT st line
  match o with
  | some s => out.putStrLn s
  | none => pure ()
  loop h out st'

def main : IO Unit := do
  loop (← IO.getStdin) (← IO.getStdout) {}
