/-! hex encoding of byte lists for the line protocols (driver side only; no theorems depend on it) -/
namespace RimeModel.Hex

def hexDigit (n : Nat) : Char :=
  if n < 10 then Char.ofNat (48 + n) else Char.ofNat (87 + n)

def encode (bs : List UInt8) : String :=
  if bs.isEmpty then "-" else
  String.ofList (bs.foldr (fun b acc => hexDigit (b.toNat / 16) :: hexDigit (b.toNat % 16) :: acc) [])

def digitVal (c : Char) : Option Nat :=
  if '0' ≤ c ∧ c ≤ '9' then some (c.toNat - 48)
  else if 'a' ≤ c ∧ c ≤ 'f' then some (c.toNat - 87)
  else if 'A' ≤ c ∧ c ≤ 'F' then some (c.toNat - 55)
  else none

def decodeChars : List Char → Option (List UInt8)
  | [] => some []
  | [_] => none
  | a :: b :: rest => do
    let x ← digitVal a
    let y ← digitVal b
    let r ← decodeChars rest
    pure (UInt8.ofNat (x * 16 + y) :: r)

/-- "-" denotes the empty byte string -/
def decode (s : String) : Option (List UInt8) :=
  if s == "-" then some [] else decodeChars s.toList

end RimeModel.Hex
