/-!
# The commit history (`src/rime/commit_history.{h,cc}`)

A port of `CommitHistory` — a `std::list<CommitRecord>` bounded by `kMaxRecords = 20` — and of its three `Push`
overloads, as `ConcreteEngine` calls them (`ProcessKey` for a key nobody handled, `CommitText` for text committed
directly, `OnCommit` for a committed composition).  The history is read by the punctuator (digit separators), the table
and script translators (`GetPrecedingText`, `encode_commit_history`) and the history translator.

`Push(const Composition&, const string&)` keeps a raw pointer `last` to the record it may append to.  The port is
pointer-faithful: a record is named by its *absolute* position in the sequence of all records ever pushed, the list
holds the window `[dropped, dropped + recs.length)` of it, and dereferencing a position outside the window is the
fault `dangling` (in C++: a freed list node).  `fixed := false` is the code before /repo 0abeed3 (the pointer survives
untranslated segments), `fixed := true` the code after it.
-/
namespace RimeModel.C01.History

abbrev Bytes := List UInt8

structure Rec where
  type : Bytes
  text : Bytes
  deriving DecidableEq, Repr, Inhabited

/-- `kMaxRecords` -/
def maxRecords : Nat := 20

/-- `"raw"` -/
def rawType : Bytes := [114, 97, 119]
/-- `"thru"` -/
def thruType : Bytes := [116, 104, 114, 117]

/-- `Push(const CommitRecord&)`: `push_back(record); if (!empty() && size() > kMaxRecords) pop_front();` -/
def push (h : List Rec) (r : Rec) : List Rec :=
  if (h ++ [r]).length > maxRecords then (h ++ [r]).drop 1 else h ++ [r]

def xkBackSpace : Nat := 0xff08
def xkReturn : Nat := 0xff0d

/-- `Push(const KeyEvent&)` -/
def pushKey (h : List Rec) (keycode modifier : Nat) : List Rec :=
  if modifier = 0 then
    if keycode = xkBackSpace ∨ keycode = xkReturn then []
    else if 0x20 ≤ keycode ∧ keycode ≤ 0x7e then push h ⟨thruType, [UInt8.ofNat keycode]⟩
    else h
  else h

/-- what `Push(composition, input)` reads of a segment -/
structure SegV where
  start : Nat
  stop : Nat
  /-- `status >= Segment::kConfirmed` -/
  confirmed : Bool
  /-- `GetSelectedCandidate()`: type, text, end -/
  cand : Option (Bytes × Bytes × Nat)
  deriving Repr, Inhabited

inductive Fault where
  | none
  /-- `last->…` on a record that `pop_front` has destroyed -/
  | dangling
  /-- `input.substr(pos)` with `pos > input.size()` throws -/
  | substrRange
  deriving DecidableEq, Repr, Inhabited

/-- the list with the bookkeeping that makes pointers checkable -/
structure St where
  recs : List Rec
  /-- how many records `pop_front` has destroyed so far -/
  dropped : Nat
  /-- the pointer `last`, as an absolute position -/
  last : Option Nat
  /-- `end` -/
  endPos : Nat
  fault : Fault
  deriving Repr, Inhabited

/-- `Push(record)` on the bookkeeping state -/
def St.push (s : St) (r : Rec) : St :=
  if (s.recs ++ [r]).length > maxRecords then { s with recs := (s.recs ++ [r]).drop 1, dropped := s.dropped + 1 }
  else { s with recs := s.recs ++ [r] }

/-- `&back()` as an absolute position -/
def St.backPos (s : St) : Nat := s.dropped + s.recs.length - 1

/-- is the absolute position inside the window (the node is alive)? -/
def St.alive (s : St) (i : Nat) : Bool := s.dropped ≤ i && i < s.dropped + s.recs.length

/-- `std::string::substr(pos, n)` for `pos ≤ size` (`n = end - start` in `size_t`: a negative difference wraps to a
huge count, which takes the rest of the string) -/
def substr (input : Bytes) (start stop : Nat) : Bytes :=
  if start ≤ stop then (input.drop start).take (stop - start) else input.drop start

/-- `if (last && last->type == cand->type()) last->text += cand->text();` — `none` when the branch is not taken -/
def joinStep (s : St) (ty tx : Bytes) : Option St :=
  match s.last with
  | some i =>
    if s.alive i then
      if (s.recs.getD (i - s.dropped) default).type = ty then
        some { s with recs := s.recs.modify (i - s.dropped) (fun r => { r with text := r.text ++ tx }) }
      else none
    else some { s with fault := .dangling }
  | none => none

/-- the `else` branch: `Push({type, text}); last = &back();` -/
def newRecStep (s : St) (ty tx : Bytes) : St :=
  { s.push ⟨ty, tx⟩ with last := some (s.push ⟨ty, tx⟩).backPos }

/-- a segment with a selected candidate -/
def candStep (s : St) (ty tx : Bytes) (e : Nat) (confirmed : Bool) : St :=
  let s1 := (joinStep s ty tx).getD (newRecStep s ty tx)
  if s1.fault = .none then { s1 with last := if confirmed then none else s1.last, endPos := e } else s1

/-- a segment without translation -/
def rawStep (fixed : Bool) (input : Bytes) (s : St) (start stop : Nat) : St :=
  if start > input.length then { s with fault := .substrRange } else
  { s.push ⟨rawType, substr input start stop⟩ with
    last := if fixed then none else s.last, endPos := stop }

/-- one iteration of the loop over the segments -/
def stepSeg (fixed : Bool) (input : Bytes) (s : St) (g : SegV) : St :=
  if s.fault = .none then
    match g.cand with
    | some (ty, tx, e) => candStep s ty tx e g.confirmed
    | none => rawStep fixed input s g.start g.stop
  else s

/-- `Push(const Composition&, const string& input)` -/
def pushComposition (fixed : Bool) (h : List Rec) (segs : List SegV) (input : Bytes) : St :=
  let s0 : St := { recs := h, dropped := 0, last := none, endPos := 0, fault := .none }
  let s := segs.foldl (stepSeg fixed input) s0
  if s.fault = .none ∧ input.length > s.endPos then s.push ⟨rawType, input.drop s.endPos⟩ else s

/-- `repr()` -/
def repr (h : List Rec) : Bytes :=
  (h.map (fun r => [91] ++ r.type ++ [93] ++ r.text)).flatten

/-- `latest_text()` -/
def latestText (h : List Rec) : Bytes :=
  match h.getLast? with
  | some r => r.text
  | none => []

/-- one step of `Composition::GetCommitText` on the view: (text so far, `end`) -/
def cstep (input : Bytes) (acc : Bytes × Nat) (g : SegV) : Bytes × Nat :=
  match g.cand with
  | some (_, tx, e) => (acc.1 ++ tx, e)
  | none => (acc.1 ++ substr input g.start g.stop, g.stop)

/-- `Composition::GetCommitText` for a composition without `phony` segments, on the same view -/
def commitText (segs : List SegV) (input : Bytes) : Bytes :=
  let r := segs.foldl (cstep input) ([], 0)
  if input.length > r.2 then r.1 ++ input.drop r.2 else r.1

/-- the texts of the records, concatenated -/
def texts (h : List Rec) : Bytes := (h.map (·.text)).flatten

end RimeModel.C01.History
