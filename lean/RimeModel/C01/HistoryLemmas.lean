import RimeModel.C01.History
/-! helper lemmas for `Props/C01History.lean` -/
namespace RimeModel.C01.History

theorem push_length_le (h : List Rec) (r : Rec) (hh : h.length ≤ maxRecords) : (push h r).length ≤ maxRecords := by
  unfold push
  split
  · simp only [List.length_drop, List.length_append, List.length_cons, List.length_nil]; omega
  · rename_i hn; simp only [List.length_append, List.length_cons, List.length_nil] at hn ⊢; omega

theorem St.push_recs (s : St) (r : Rec) : (s.push r).recs = History.push s.recs r := by
  unfold St.push History.push
  split <;> rfl

theorem St.push_last (s : St) (r : Rec) : (s.push r).last = s.last := by
  unfold St.push; split <;> rfl

theorem St.push_fault (s : St) (r : Rec) : (s.push r).fault = s.fault := by
  unfold St.push; split <;> rfl

theorem St.push_endPos (s : St) (r : Rec) : (s.push r).endPos = s.endPos := by
  unfold St.push; split <;> rfl

theorem St.push_recs_ne_nil (s : St) (r : Rec) : (s.push r).recs ≠ [] := by
  rw [St.push_recs]
  unfold History.push
  split
  · rename_i hl
    intro h
    have : ((s.recs ++ [r]).drop 1).length = 0 := by rw [h]; rfl
    simp only [List.length_drop, List.length_append, List.length_cons, List.length_nil] at this hl
    unfold maxRecords at hl
    omega
  · simp

theorem St.push_length_le (s : St) (r : Rec) (h : s.recs.length ≤ maxRecords) : (s.push r).recs.length ≤ maxRecords := by
  rw [St.push_recs]; exact History.push_length_le _ _ h

theorem St.alive_backPos (s : St) (h : s.recs ≠ []) : s.alive s.backPos = true := by
  unfold St.alive St.backPos
  have : 0 < s.recs.length := List.length_pos_iff.mpr h
  simp only [Bool.and_eq_true, decide_eq_true_eq]
  omega

/-- the pointer is null or points at the last record of a non-empty list -/
def Inv (s : St) : Prop := s.last = none ∨ (s.last = some s.backPos ∧ s.recs ≠ [])

theorem newRecStep_spec (s : St) (ty tx : Bytes) :
    Inv (newRecStep s ty tx) ∧ (newRecStep s ty tx).fault = s.fault ∧ (newRecStep s ty tx).recs = (s.push ⟨ty, tx⟩).recs := by
  refine ⟨Or.inr ⟨rfl, ?_⟩, ?_, rfl⟩
  · exact St.push_recs_ne_nil s _
  · exact St.push_fault s _

/-- with the pointer at the last record the join never meets a dead node and keeps the pointer where it is -/
theorem joinStep_spec (s : St) (ty tx : Bytes) (hi : Inv s) (hf : s.fault = .none) (s' : St)
    (h : joinStep s ty tx = some s') : Inv s' ∧ s'.fault = .none ∧ s'.recs.length = s.recs.length := by
  unfold joinStep at h
  rcases hi with hl | ⟨hl, hne⟩
  · rw [hl] at h; cases h
  · rw [hl] at h
    simp only [St.alive_backPos s hne, ↓reduceIte] at h
    split at h
    · cases h
      refine ⟨Or.inr ⟨?_, ?_⟩, hf, by simp [List.length_modify]⟩
      · simpa [St.backPos, List.length_modify] using hl
      · intro hnil
        have := congrArg List.length hnil
        simp only [List.length_modify, List.length_nil] at this
        exact hne (List.eq_nil_of_length_eq_zero this)
    · cases h

theorem finishCand_spec (s1 : St) (e : Nat) (c : Bool) (hi : Inv s1) (hf : s1.fault = .none) :
    Inv (if s1.fault = .none then { s1 with last := if c then none else s1.last, endPos := e } else s1) ∧
    (if s1.fault = .none then { s1 with last := if c then none else s1.last, endPos := e } else s1).fault = .none := by
  rw [if_pos hf]
  refine ⟨?_, hf⟩
  cases c
  · simpa [Inv, St.backPos] using hi
  · exact Or.inl rfl

theorem candStep_fixed (s : St) (ty tx : Bytes) (e : Nat) (c : Bool) (hi : Inv s) (hf : s.fault = .none) :
    Inv (candStep s ty tx e c) ∧ (candStep s ty tx e c).fault = .none := by
  unfold candStep
  cases hj : joinStep s ty tx with
  | some s' =>
    obtain ⟨hi', hf', _⟩ := joinStep_spec s ty tx hi hf s' hj
    exact finishCand_spec s' e c hi' hf'
  | none =>
    obtain ⟨hi', hf', _⟩ := newRecStep_spec s ty tx
    exact finishCand_spec _ e c hi' (hf'.trans hf)

theorem rawStep_fixed (input : Bytes) (s : St) (a b : Nat) (hi : Inv s) (hf : s.fault = .none) :
    Inv (rawStep true input s a b) ∧ (rawStep true input s a b).fault ≠ .dangling := by
  unfold rawStep
  split
  · exact ⟨by simpa [Inv, St.backPos] using hi, by simp⟩
  · exact ⟨Or.inl rfl, by simp [St.push_fault, hf]⟩

theorem stepSeg_fixed_inv (input : Bytes) (s : St) (g : SegV) (hi : Inv s) (hf : s.fault ≠ .dangling) :
    Inv (stepSeg true input s g) ∧ (stepSeg true input s g).fault ≠ .dangling := by
  unfold stepSeg
  by_cases hnone : s.fault = .none
  · simp only [hnone, ↓reduceIte]
    cases hc : g.cand with
    | none => exact rawStep_fixed input s _ _ hi hnone
    | some c =>
      obtain ⟨ty, tx, e⟩ := c
      have := candStep_fixed s ty tx e g.confirmed hi hnone
      exact ⟨this.1, by simp [this.2]⟩
  · simp only [hnone, ↓reduceIte]; exact ⟨hi, hf⟩

theorem foldl_fixed_inv (input : Bytes) (segs : List SegV) (s : St) (hi : Inv s) (hf : s.fault ≠ .dangling) :
    Inv (segs.foldl (stepSeg true input) s) ∧ (segs.foldl (stepSeg true input) s).fault ≠ .dangling := by
  induction segs generalizing s with
  | nil => exact ⟨hi, hf⟩
  | cons g gs ih =>
    have := stepSeg_fixed_inv input s g hi hf
    exact ih _ this.1 this.2

theorem joinStep_length (s s' : St) (ty tx : Bytes) (h : joinStep s ty tx = some s') : s'.recs.length = s.recs.length := by
  unfold joinStep at h
  split at h
  · split at h
    · split at h
      · cases h; simp [List.length_modify]
      · cases h
    · cases h; rfl
  · cases h

/-- every step keeps the list within its bound, whatever the variant -/
theorem stepSeg_length_le (fixed : Bool) (input : Bytes) (s : St) (g : SegV) (h : s.recs.length ≤ maxRecords) :
    (stepSeg fixed input s g).recs.length ≤ maxRecords := by
  unfold stepSeg
  split
  · cases hc : g.cand with
    | none =>
      simp only
      unfold rawStep
      split
      · exact h
      · exact St.push_length_le s _ h
    | some c =>
      obtain ⟨ty, tx, e⟩ := c
      simp only
      unfold candStep
      have h1 : ((joinStep s ty tx).getD (newRecStep s ty tx)).recs.length ≤ maxRecords := by
        cases hj : joinStep s ty tx with
        | some s' => simp only [Option.getD_some]; rw [joinStep_length s s' ty tx hj]; exact h
        | none => simp only [Option.getD_none]; exact St.push_length_le s _ h
      simp only
      split
      · exact h1
      · exact h1
  · exact h

theorem foldl_length_le (fixed : Bool) (input : Bytes) (segs : List SegV) (s : St) (h : s.recs.length ≤ maxRecords) :
    (segs.foldl (stepSeg fixed input) s).recs.length ≤ maxRecords := by
  induction segs generalizing s with
  | nil => exact h
  | cons g gs ih => exact ih _ (stepSeg_length_le fixed input s g h)

end RimeModel.C01.History
