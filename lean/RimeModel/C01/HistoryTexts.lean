import RimeModel.C01.HistoryLemmas
/-! the records pushed for a composition spell the committed text (repaired code, no rotation) -/
namespace RimeModel.C01.History

theorem texts_append (l : List Rec) (r : Rec) : texts (l ++ [r]) = texts l ++ r.text := by
  simp [texts]

theorem texts_modify_last (l : List Rec) (tx : Bytes) (hne : l ≠ []) :
    texts (l.modify (l.length - 1) (fun r => { r with text := r.text ++ tx })) = texts l ++ tx := by
  induction l with
  | nil => exact absurd rfl hne
  | cons a l ih =>
    cases l with
    | nil => simp [texts, List.modify]
    | cons b l =>
      have h1 : (a :: b :: l).length - 1 = ((b :: l).length - 1) + 1 := by simp
      rw [h1, List.modify_succ_cons]
      have := ih (by simp)
      simp only [texts, List.map_cons, List.flatten_cons] at this ⊢
      rw [this]
      simp [List.append_assoc]

theorem St.push_nodrop (s : St) (r : Rec) (h : s.recs.length < maxRecords) : (s.push r).recs = s.recs ++ [r] := by
  unfold St.push
  split
  · rename_i hl; simp only [List.length_append, List.length_cons, List.length_nil] at hl; omega
  · rfl

theorem stepSeg_fault_stays (fixed : Bool) (input : Bytes) (s : St) (g : SegV) (h : s.fault ≠ .none) :
    stepSeg fixed input s g = s := by
  unfold stepSeg; simp [h]

theorem foldl_fault_stays (fixed : Bool) (input : Bytes) (segs : List SegV) (s : St) (h : s.fault ≠ .none) :
    segs.foldl (stepSeg fixed input) s = s := by
  induction segs generalizing s with
  | nil => rfl
  | cons g gs ih => simp only [List.foldl_cons]; rw [stepSeg_fault_stays fixed input s g h]; exact ih s h

/-- what one step of the repaired code does to the spelled text, as long as the list does not rotate -/
theorem stepSeg_texts (input : Bytes) (s : St) (g : SegV) (base : Bytes) (acc : Bytes × Nat)
    (hi : Inv s) (hf : s.fault = .none) (hlen : s.recs.length < maxRecords)
    (ht : texts s.recs = base ++ acc.1) (he : s.endPos = acc.2)
    (hok : (stepSeg true input s g).fault = .none) :
    texts (stepSeg true input s g).recs = base ++ (cstep input acc g).1 ∧
    (stepSeg true input s g).endPos = (cstep input acc g).2 ∧
    (stepSeg true input s g).recs.length ≤ s.recs.length + 1 := by
  unfold stepSeg at hok ⊢
  simp only [hf, ↓reduceIte] at hok ⊢
  unfold cstep
  cases hc : g.cand with
  | none =>
    simp only [hc] at hok ⊢
    unfold rawStep at hok ⊢
    by_cases hs : g.start > input.length
    · simp [hs] at hok
    · simp only [hs, ↓reduceIte]
      refine ⟨?_, by first | rfl | trivial, ?_⟩
      · show texts (s.push _).recs = _
        rw [St.push_nodrop s _ hlen, texts_append, ht, List.append_assoc]
      · show (s.push _).recs.length ≤ _
        rw [St.push_nodrop s _ hlen]; simp
  | some c =>
    obtain ⟨ty, tx, e⟩ := c
    simp only [hc] at hok ⊢
    unfold candStep at hok ⊢
    cases hj : joinStep s ty tx with
    | some s' =>
      obtain ⟨_, hf', hl'⟩ := joinStep_spec s ty tx hi hf s' hj
      simp only [Option.getD_some, hf', ↓reduceIte]
      refine ⟨?_, by first | rfl | trivial, by show s'.recs.length ≤ _; omega⟩
      show texts s'.recs = _
      -- the join happened at the last record
      unfold joinStep at hj
      rcases hi with hl | ⟨hl, hne⟩
      · rw [hl] at hj; cases hj
      · rw [hl] at hj
        simp only [St.alive_backPos s hne, ↓reduceIte] at hj
        split at hj
        · cases hj
          have hidx : s.backPos - s.dropped = s.recs.length - 1 := by
            unfold St.backPos
            have : 0 < s.recs.length := List.length_pos_iff.mpr hne
            omega
          show texts (s.recs.modify (s.backPos - s.dropped) _) = _
          rw [hidx, texts_modify_last s.recs tx hne, ht, List.append_assoc]
        · cases hj
    | none =>
      obtain ⟨_, hf', hr'⟩ := newRecStep_spec s ty tx
      have hfn : (newRecStep s ty tx).fault = .none := hf'.trans hf
      simp only [Option.getD_none, hfn, ↓reduceIte]
      refine ⟨?_, by first | rfl | trivial, ?_⟩
      · show texts (newRecStep s ty tx).recs = _
        rw [hr', St.push_nodrop s _ hlen, texts_append, ht, List.append_assoc]
      · show (newRecStep s ty tx).recs.length ≤ _
        rw [hr', St.push_nodrop s _ hlen]; simp

theorem foldl_texts (input : Bytes) (segs : List SegV) (s : St) (base : Bytes) (acc : Bytes × Nat)
    (hi : Inv s) (hf : s.fault = .none) (hlen : s.recs.length + segs.length < maxRecords + 1)
    (hlen' : s.recs.length + segs.length ≤ maxRecords)
    (ht : texts s.recs = base ++ acc.1) (he : s.endPos = acc.2)
    (hok : (segs.foldl (stepSeg true input) s).fault = .none) :
    texts (segs.foldl (stepSeg true input) s).recs = base ++ (segs.foldl (cstep input) acc).1 ∧
    (segs.foldl (stepSeg true input) s).endPos = (segs.foldl (cstep input) acc).2 ∧
    (segs.foldl (stepSeg true input) s).recs.length ≤ s.recs.length + segs.length := by
  induction segs generalizing s acc with
  | nil => exact ⟨ht, he, by simp⟩
  | cons g gs ih =>
    simp only [List.foldl_cons, List.length_cons] at hok hlen hlen' ⊢
    have hstep_ok : (stepSeg true input s g).fault = .none := by
      by_cases h : (stepSeg true input s g).fault = .none
      · exact h
      · rw [foldl_fault_stays true input gs _ h] at hok; exact absurd hok h
    have hl : s.recs.length < maxRecords := by omega
    obtain ⟨h1, h2, h3⟩ := stepSeg_texts input s g base acc hi hf hl ht he hstep_ok
    have hinv := (stepSeg_fixed_inv input s g hi (by simp [hf])).1
    obtain ⟨k1, k2, k3⟩ := ih (stepSeg true input s g) (cstep input acc g) hinv hstep_ok (by omega) (by omega) h1 h2 hok
    exact ⟨k1, k2, by omega⟩

end RimeModel.C01.History
