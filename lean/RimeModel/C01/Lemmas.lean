import RimeModel.C01.Model
namespace RimeModel.C01

/-- guards dominate uses ⇒ no null dereference, whatever is null -/
theorem guardedFrom_exec (nulls : List String) :
    ∀ (evs : List Ev) (checked : List String), (∀ v ∈ checked, nulls.contains v = false) →
      guardedFrom checked evs = true → ∀ v, exec nulls evs ≠ .nullDeref v
  | [], _, _, _, v => by simp [exec]
  | .check x :: rest, checked, hc, hg, v => by
    unfold exec
    by_cases hx : nulls.contains x = true
    · have : x ∈ nulls := by simpa using hx
      simp [this]
    · have hx' : nulls.contains x = false := by simpa using hx
      simp only [hx', Bool.false_eq_true, if_false]
      refine guardedFrom_exec nulls rest (x :: checked) ?_ (by simpa [guardedFrom] using hg) v
      intro w hw
      simp only [List.mem_cons] at hw
      rcases hw with rfl | hw
      · exact hx'
      · exact hc w hw
  | .use x :: rest, checked, hc, hg, v => by
    simp only [guardedFrom, Bool.and_eq_true] at hg
    have hx : nulls.contains x = false := hc x (by simpa using hg.1)
    unfold exec
    simp only [hx, Bool.false_eq_true, if_false]
    exact guardedFrom_exec nulls rest checked hc hg.2 v

theorem count_filter_path (owned : List (String × Nat)) (e : String × Nat) (p : String) :
    List.count e (owned.filter (fun x => x.1 == p)) = if e.1 = p then List.count e owned else 0 := by
  induction owned with
  | nil => simp
  | cons x xs ih =>
    by_cases hxp : x.1 = p
    · have : (x.1 == p) = true := by simpa using hxp
      simp only [List.filter_cons, this, if_true, List.count_cons, ih]
      by_cases hep : e.1 = p
      · simp [hep]
      · have : ¬ (x == e) = true := by
          intro h; have := congrArg Prod.fst (by simpa using h : x = e); exact hep (this ▸ hxp)
        simp [hep, this]
    · have : (x.1 == p) = false := by simpa using hxp
      simp only [List.filter_cons, this, Bool.false_eq_true, if_false, ih, List.count_cons]
      by_cases hep : e.1 = p
      · have : ¬ (x == e) = true := by
          intro h; have := congrArg Prod.fst (by simpa using h : x = e); exact hxp (this.trans hep)
        simp [hep, this]
      · simp [hep]

/-- count of an entry in the grouped-by-path flattening, for a duplicate-free path list -/
theorem count_grouped (owned : List (String × Nat)) (e : String × Nat) :
    ∀ (D : List String), D.Nodup →
      List.count e (D.flatMap (fun p => owned.filter (fun x => x.1 == p))) =
        if e.1 ∈ D then List.count e owned else 0
  | [], _ => by simp
  | p :: D, hnd => by
    have hp : p ∉ D := (List.nodup_cons.mp hnd).1
    have ih := count_grouped owned e D (List.nodup_cons.mp hnd).2
    simp only [List.flatMap_cons, List.count_append, ih, count_filter_path, List.mem_cons]
    by_cases hep : e.1 = p
    · have hnot : e.1 ∉ D := by rw [hep]; exact hp
      simp [hep, hnot, hp]
    · by_cases hd : e.1 ∈ D <;> simp [hep, hd]

end RimeModel.C01
