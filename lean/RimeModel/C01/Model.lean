/-!
C01 — two small models for the API boundary of rime_api_impl.h; their data is GENERATED from the source
(gen/c01_api.py → RimeModel/Gen/ApiGuards.lean):

1. *guards dominate uses*: an API entry point is a straight-line sequence of events on nullable things
   (the session looked up from an id, its context / schema / config, pointer out-parameters):
   `check v` = the function returns early when `v` is null, `use v` = `v` is dereferenced.
2. *ownership of handed-out structs*: a `get` function stores allocations under field paths, the matching
   `free` function deletes a list of field paths and (if `clears`) zeroes the struct.
-/
namespace RimeModel.C01

inductive Ev where
  | check (v : String)
  | use (v : String)
  deriving Repr, DecidableEq

structure ApiEntry where
  fn : String
  events : List Ev
  deriving Repr, DecidableEq

/-- outcome of executing an entry when the things in `nulls` are null -/
inductive Outcome where
  | finished        -- ran to the end
  | returnedEarly   -- a guard fired: documented failure return
  | nullDeref (v : String)
  deriving Repr, DecidableEq

def exec (nulls : List String) : List Ev → Outcome
  | [] => .finished
  | .check v :: rest => if nulls.contains v then .returnedEarly else exec nulls rest
  | .use v :: rest => if nulls.contains v then .nullDeref v else exec nulls rest

/-- syntactic criterion: every use of `v` is preceded by a check of `v` -/
def guardedFrom (checked : List String) : List Ev → Bool
  | [] => true
  | .check v :: rest => guardedFrom (v :: checked) rest
  | .use v :: rest => checked.contains v && guardedFrom checked rest

def ApiEntry.guarded (e : ApiEntry) : Bool := guardedFrom [] e.events

/-! ownership -/

/-- a handed-out struct: what it owns, as (field path, allocation id) -/
structure Obj where
  owned : List (String × Nat) := []
  deriving Repr, DecidableEq

structure FreePair where
  getFn : String
  freeFn : String
  allocFields : List String     -- field paths the get function stores `new …` into
  freeFields : List String      -- field paths the free function `delete[]`s, in order
  clears : Bool                 -- the free function zeroes the struct afterwards
  deriving Repr, DecidableEq

/-- the free function: delete every listed field (whatever the struct holds there), then clear.
Returns the struct afterwards and the list of allocation ids passed to `delete[]`, in order. -/
def freeObj (fp : FreePair) (o : Obj) : Obj × List Nat :=
  (if fp.clears then {} else o,
   (fp.freeFields.flatMap (fun p => o.owned.filter (fun e => e.1 == p))).map (·.2))

def FreePair.ok (fp : FreePair) : Bool :=
  fp.clears && fp.allocFields.all (fun a => fp.freeFields.contains a) && decide fp.freeFields.Nodup

end RimeModel.C01
