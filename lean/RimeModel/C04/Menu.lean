/-!
C04 — `Menu` (src/rime/menu.cc) over a lazily consumed translation.

A translation is a *generator*: `rest : Gen α = List (Option α)` is what it will still yield
(`none` = a null `Peek()`, which `Menu::Prepare` skips); `exhausted() ⇔ rest = []`;
`Peek() = rest.head`, `Next() = rest.tail`.  `cache` is `Menu::candidates_`.
Every function is a line-by-line port; loops are structural recursion on `rest`.
-/
namespace RimeModel.C04

/-- remaining output of a translation; `none` is a null `Peek()` -/
abbrev Gen (α : Type) := List (Option α)

/-- the candidates a generator will still deliver (nulls skipped) -/
def Gen.outputs {α : Type} (g : Gen α) : List α := g.filterMap id

structure Menu (α : Type) where
  /-- `candidates_` -/
  cache : List α := []
  /-- what `result_` will still yield -/
  rest : Gen α := []
  deriving Repr, DecidableEq

structure Page (α : Type) where
  pageSize : Nat
  pageNo : Nat
  isLast : Bool
  cands : List α
  deriving Repr, DecidableEq

variable {α : Type}

/-- `result_->exhausted()` -/
def Menu.exhausted (m : Menu α) : Bool := m.rest.isEmpty

/-- the one list the menu is a window onto: what is cached followed by what is still to come -/
def Menu.full (m : Menu α) : List α := m.cache ++ Gen.outputs m.rest

/-- `candidate_count()` -/
def Menu.candidateCount (m : Menu α) : Nat := m.cache.length

/-- body of `Menu::Prepare`:
`while (candidates_.size() < requested && !result_->exhausted()) { if (auto c = result_->Peek()) candidates_.push_back(c); result_->Next(); }` -/
def prepareLoop (requested : Nat) : List α → Gen α → Menu α
  | cache, [] => { cache := cache, rest := [] }
  | cache, x :: xs =>
    if cache.length < requested then
      prepareLoop requested (match x with | some c => cache ++ [c] | none => cache) xs
    else { cache := cache, rest := x :: xs }

/-- `Menu::Prepare(requested)`: the new menu and the returned `candidates_.size()` -/
def Menu.prepare (m : Menu α) (requested : Nat) : Menu α × Nat :=
  let m' := prepareLoop requested m.cache m.rest
  (m', m'.cache.length)

/-- the tail of `Menu::CreatePage` after `end_pos` is known: flag and `std::copy(begin+start, begin+end)` -/
def Menu.mkPage (m : Menu α) (pageSize pageNo startPos endPos : Nat) : Page α :=
  { pageSize := pageSize, pageNo := pageNo,
    isLast := m.exhausted && endPos == m.cache.length,
    cands := (m.cache.drop startPos).take (endPos - startPos) }

/-- `Menu::CreatePage(page_size, page_no)`; `none` is the NULL return -/
def Menu.createPage (m : Menu α) (pageSize pageNo : Nat) : Option (Page α) × Menu α :=
  let startPos := pageSize * pageNo
  let endPos := startPos + pageSize
  if endPos > m.cache.length then
    let r : Menu α × Nat := if m.exhausted then (m, m.cache.length) else m.prepare endPos
    if startPos ≥ r.2 then (none, r.1)
    else (some (r.1.mkPage pageSize pageNo startPos (min (startPos + pageSize) r.2)), r.1)
  else (some (m.mkPage pageSize pageNo startPos endPos), m)

/-- `Menu::GetCandidateAt(index)`: `Prepare` runs only when `index >= candidates_.size()` (short-circuit) -/
def Menu.getCandidateAt (m : Menu α) (index : Nat) : Option α × Menu α :=
  if index ≥ m.cache.length then
    let r := m.prepare (index + 1)
    if index ≥ r.2 then (none, r.1) else (r.1.cache[index]?, r.1)
  else (m.cache[index]?, m)

/-- `Menu::empty()` -/
def Menu.empty (m : Menu α) : Bool := m.cache.isEmpty && m.exhausted

/-- the calls a client can make on a menu -/
inductive MenuOp where
  | prepare (n : Nat)
  | createPage (pageSize pageNo : Nat)
  | getCandidateAt (index : Nat)
  deriving Repr, DecidableEq

def Menu.apply (m : Menu α) : MenuOp → Menu α
  | .prepare n => (m.prepare n).1
  | .createPage ps pn => (m.createPage ps pn).2
  | .getCandidateAt i => (m.getCandidateAt i).2

/-- `m` is a lazily filled view of the fixed list `full` -/
def Menu.Repr (m : Menu α) (full : List α) : Prop := m.full = full

/-- no null `Peek()` left: exhaustion is then noticed by the `Next()` that consumes the last candidate -/
def Gen.NoNull (g : Gen α) : Prop := ∀ x ∈ g, x ≠ none

/-! ## The callers' uses of the count returned by `Prepare` (selector.cc, context.cc, speller.cc,
punctuator.cc, switcher.cc).  Each is written as a function of the returned count so that
`prepare_count` can show it does not depend on how much was cached before. -/

/-- `Selector::NextPage`: new selected index, `none` = nothing changes.
`index = selected_index + page_size; page_start = (index / page_size) * page_size;
 count = Prepare(page_start + page_size)` -/
def nextPageIndex (count sel pageSize : Nat) (cycle : Bool) : Option Nat :=
  let index := sel + pageSize
  let pageStart := (index / pageSize) * pageSize
  if count ≤ pageStart then (if cycle then some 0 else none)
  else if index ≥ count then some (count - 1) else some index

/-- `Selector::NextCandidate`: `count = Prepare(index + 1)` with `index = selected_index + 1` -/
def nextCandidateIndex (count sel : Nat) : Option Nat :=
  let index := sel + 1
  if count ≤ index then none else some index

/-- `Context::Highlight(index)`: `count = Prepare(index + 1)` -/
def highlightIndex (count index : Nat) : Nat :=
  if count > 0 then min (count - 1) index else 0

/-- `Speller::AutoSelectUniqueCandidate`: `Prepare(2) == 1` -/
def uniqueCandidate (count : Nat) : Bool := count == 1

/-- `Punctuator::PairPunct`: `Prepare(2) < 2` -/
def lacksPair (count : Nat) : Bool := count < 2

/-- `Punctuator::AlternatePunct`: `Prepare(sel + 2) == 0` → none; else `(sel + 1) % candidate_count()` -/
def alternateIndex (count sel : Nat) : Option Nat :=
  if count == 0 then none else some ((sel + 1) % count)

end RimeModel.C04
