import RimeModel.C04.Menu
/-! helper lemmas about `prepareLoop` / `Menu.prepare` / `createPage` / `getCandidateAt` -/
namespace RimeModel.C04

variable {α : Type}

theorem outputs_nil : Gen.outputs ([] : Gen α) = [] := rfl

theorem outputs_cons_some (a : α) (g : Gen α) : Gen.outputs (some a :: g) = a :: Gen.outputs g := by
  simp [Gen.outputs]

theorem outputs_cons_none (g : Gen α) : Gen.outputs (none :: g) = Gen.outputs g := by
  simp [Gen.outputs]

theorem outputs_append (a b : Gen α) : Gen.outputs (a ++ b) = Gen.outputs a ++ Gen.outputs b := by
  simp [Gen.outputs]

theorem NoNull.tail {x : Option α} {g : Gen α} (h : Gen.NoNull (x :: g)) : Gen.NoNull g :=
  fun y hy => h y (List.mem_cons_of_mem _ hy)

theorem NoNull.of_append_right {a b : Gen α} (h : Gen.NoNull (a ++ b)) : Gen.NoNull b :=
  fun y hy => h y (List.mem_append_right _ hy)

theorem NoNull.outputs_length {g : Gen α} (h : Gen.NoNull g) : (Gen.outputs g).length = g.length := by
  induction g with
  | nil => rfl
  | cons x xs ih =>
    cases x with
    | none => exact absurd rfl (h none (List.mem_cons_self))
    | some a => rw [outputs_cons_some]; simp [ih (NoNull.tail h)]

theorem NoNull.eq_nil_iff {g : Gen α} (h : Gen.NoNull g) : g = [] ↔ Gen.outputs g = [] := by
  constructor
  · intro e; rw [e]; rfl
  · intro e
    have := NoNull.outputs_length h
    rw [e] at this
    exact List.length_eq_zero_iff.mp this.symm

/-- what the loop keeps: the concatenation cache ++ outputs -/
theorem prepareLoop_full (n : Nat) : ∀ (r : Gen α) (c : List α),
    (prepareLoop n c r).cache ++ Gen.outputs (prepareLoop n c r).rest = c ++ Gen.outputs r := by
  intro r
  induction r with
  | nil => intro c; simp [prepareLoop]
  | cons x xs ih =>
    intro c
    unfold prepareLoop
    by_cases h : c.length < n
    · simp only [h, if_true]
      rw [ih]
      cases x with
      | none => simp [outputs_cons_none]
      | some a => simp [outputs_cons_some]
    · simp only [h, if_false]

/-- the cache only grows at its end -/
theorem prepareLoop_prefix (n : Nat) : ∀ (r : Gen α) (c : List α),
    ∃ moved, (prepareLoop n c r).cache = c ++ moved := by
  intro r
  induction r with
  | nil => intro c; exact ⟨[], by simp [prepareLoop]⟩
  | cons x xs ih =>
    intro c
    unfold prepareLoop
    by_cases h : c.length < n
    · simp only [h, if_true]
      cases x with
      | none => exact ih c
      | some a =>
        obtain ⟨mv, hmv⟩ := ih (c ++ [a])
        exact ⟨a :: mv, by simp [hmv]⟩
    · simp only [h, if_false]; exact ⟨[], by simp⟩

/-- what remains is a suffix of what remained -/
theorem prepareLoop_suffix (n : Nat) : ∀ (r : Gen α) (c : List α),
    ∃ pre, r = pre ++ (prepareLoop n c r).rest := by
  intro r
  induction r with
  | nil => intro c; exact ⟨[], by simp [prepareLoop]⟩
  | cons x xs ih =>
    intro c
    unfold prepareLoop
    by_cases h : c.length < n
    · simp only [h, if_true]
      obtain ⟨pre, hpre⟩ := ih (match x with | some a => c ++ [a] | none => c)
      exact ⟨x :: pre, by rw [List.cons_append]; exact congrArg (x :: ·) hpre⟩
    · simp only [h, if_false]; exact ⟨[], by simp⟩

/-- size of the cache after the loop -/
theorem prepareLoop_length (n : Nat) : ∀ (r : Gen α) (c : List α),
    (prepareLoop n c r).cache.length = max c.length (min n (c.length + (Gen.outputs r).length)) := by
  intro r
  induction r with
  | nil => intro c; simp [prepareLoop, outputs_nil]; omega
  | cons x xs ih =>
    intro c
    unfold prepareLoop
    by_cases h : c.length < n
    · simp only [h, if_true]
      rw [ih]
      cases x with
      | none => simp [outputs_cons_none]
      | some a => simp [outputs_cons_some]; omega
    · simp only [h, if_false]; omega

theorem prepareLoop_noNull (n : Nat) (r : Gen α) (c : List α) (h : Gen.NoNull r) :
    Gen.NoNull (prepareLoop n c r).rest := by
  obtain ⟨pre, hpre⟩ := prepareLoop_suffix n r c
  rw [hpre] at h
  exact NoNull.of_append_right h

/-! ### `Menu` level -/

theorem Repr.length_le {m : Menu α} {full : List α} (h : m.Repr full) : m.cache.length ≤ full.length := by
  unfold Menu.Repr Menu.full at h; rw [← h]; simp

theorem Repr.length_eq {m : Menu α} {full : List α} (h : m.Repr full) :
    m.cache.length + (Gen.outputs m.rest).length = full.length := by
  unfold Menu.Repr Menu.full at h; rw [← h]; simp

theorem Repr.cache_eq_take {m : Menu α} {full : List α} (h : m.Repr full) : m.cache = full.take m.cache.length := by
  unfold Menu.Repr Menu.full at h; rw [← h]; simp

theorem Repr.getElem? {m : Menu α} {full : List α} (h : m.Repr full) {i : Nat} (hi : i < m.cache.length) :
    m.cache[i]? = full[i]? := by
  unfold Menu.Repr Menu.full at h; rw [← h, List.getElem?_append_left hi]

theorem prepare_repr {m : Menu α} {full : List α} (h : m.Repr full) (n : Nat) : (m.prepare n).1.Repr full := by
  unfold Menu.Repr Menu.full Menu.prepare at *
  simp only
  rw [prepareLoop_full]; exact h

theorem prepare_snd (m : Menu α) (n : Nat) : (m.prepare n).2 = (m.prepare n).1.cache.length := rfl

theorem prepare_count_eq {m : Menu α} {full : List α} (h : m.Repr full) (n : Nat) :
    (m.prepare n).2 = max m.cache.length (min n full.length) := by
  unfold Menu.prepare
  simp only
  rw [prepareLoop_length, Repr.length_eq h]

theorem prepare_noNull {m : Menu α} (h : Gen.NoNull m.rest) (n : Nat) : Gen.NoNull (m.prepare n).1.rest :=
  prepareLoop_noNull n m.rest m.cache h

theorem prepare_cache_prefix (m : Menu α) (n : Nat) : ∃ moved, (m.prepare n).1.cache = m.cache ++ moved :=
  prepareLoop_prefix n m.rest m.cache

/-- drop/take of a prefix that is long enough -/
theorem take_drop_of_prefix {full : List α} {k s e : Nat} (he : e ≤ k) :
    ((full.take k).drop s).take (e - s) = (full.drop s).take (e - s) := by
  rw [List.drop_take, List.take_take]
  congr 1
  omega

end RimeModel.C04
