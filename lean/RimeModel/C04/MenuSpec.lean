import RimeModel.C04.MenuLemmas
/-! specifications of `createPage` / `getCandidateAt` / `empty` against the full list -/
namespace RimeModel.C04

variable {α : Type}

theorem take_min_length (l : List α) (a : Nat) : l.take (min a l.length) = l.take a := by
  by_cases h : a ≤ l.length
  · rw [Nat.min_eq_left h]
  · have h' : l.length ≤ a := by omega
    rw [Nat.min_eq_right h', List.take_length, List.take_of_length_le h']

/-- the window `[s, e)` of a long enough prefix of `full` is the page of size `ps` at `s` when
`e - s = min ps (|full| - s)` -/
theorem window_eq {full : List α} {k s e ps : Nat} (hek : e ≤ k) (hw : e - s = min ps (full.length - s)) :
    ((full.take k).drop s).take (e - s) = (full.drop s).take ps := by
  rw [take_drop_of_prefix hek, hw]
  have : (full.drop s).length = full.length - s := by simp
  rw [← this, take_min_length]

theorem exhausted_iff (m : Menu α) : m.exhausted = true ↔ m.rest = [] := by
  unfold Menu.exhausted; exact List.isEmpty_iff

theorem Repr.full_of_exhausted {m : Menu α} {full : List α} (h : m.Repr full) (he : m.rest = []) :
    m.cache.length = full.length := by
  have := Repr.length_eq h
  rw [he, outputs_nil] at this
  simpa using this

theorem Repr.exhausted_of_noNull {m : Menu α} {full : List α} (h : m.Repr full) (hn : Gen.NoNull m.rest)
    (hl : full.length ≤ m.cache.length) : m.rest = [] := by
  have := Repr.length_eq h
  have h0 : (Gen.outputs m.rest).length = 0 := by omega
  exact (NoNull.eq_nil_iff hn).mpr (List.length_eq_zero_iff.mp h0)

/-- mkPage on a represented menu -/
theorem mkPage_spec {m : Menu α} {full : List α} (h : m.Repr full) (ps p s e : Nat)
    (hek : e ≤ m.cache.length) (hw : e - s = min ps (full.length - s)) (hse : s < e) (hee : e ≤ s + ps) :
    let pg := m.mkPage ps p s e
    pg.pageSize = ps ∧ pg.pageNo = p ∧ pg.cands = (full.drop s).take ps ∧
    (pg.isLast = true → full.length ≤ s + ps) ∧
    (Gen.NoNull m.rest → e = m.cache.length → full.length ≤ s + ps → pg.isLast = true) := by
  refine ⟨rfl, rfl, ?_, ?_, ?_⟩
  · show (m.cache.drop s).take (e - s) = _
    rw [Repr.cache_eq_take h]
    exact window_eq hek hw
  · intro hl
    simp only [Menu.mkPage, Bool.and_eq_true, beq_iff_eq] at hl
    have := Repr.full_of_exhausted h ((exhausted_iff m).mp hl.1)
    omega
  · intro hn hec hf
    simp only [Menu.mkPage, Bool.and_eq_true, beq_iff_eq]
    refine ⟨(exhausted_iff m).mpr (Repr.exhausted_of_noNull h hn ?_), hec⟩
    have := Repr.length_le h
    omega

/-- `CreatePage` against the full list -/
theorem createPage_spec {m : Menu α} {full : List α} (h : m.Repr full) (ps p : Nat) (hps : 0 < ps) :
    (m.createPage ps p).2.Repr full ∧
    (Gen.NoNull m.rest → Gen.NoNull (m.createPage ps p).2.rest) ∧
    (∃ moved, (m.createPage ps p).2.cache = m.cache ++ moved) ∧
    match (m.createPage ps p).1 with
    | none => full.length ≤ ps * p
    | some pg => ps * p < full.length ∧ pg.pageSize = ps ∧ pg.pageNo = p ∧
        pg.cands = (full.drop (ps * p)).take ps ∧
        (pg.isLast = true → full.length ≤ ps * (p + 1)) ∧
        (Gen.NoNull m.rest → full.length ≤ ps * (p + 1) → pg.isLast = true) := by
  have hmul : ps * (p + 1) = ps * p + ps := Nat.mul_succ ps p
  have hcF := Repr.length_le h
  unfold Menu.createPage
  simp only
  by_cases hA : ps * p + ps > m.cache.length
  · rw [if_pos hA]
    by_cases hB : m.exhausted = true
    · -- exhausted: nothing more to fetch
      rw [if_pos hB]
      have hrest := (exhausted_iff m).mp hB
      have hF := Repr.full_of_exhausted h hrest
      by_cases hS : ps * p ≥ m.cache.length
      · rw [if_pos hS]
        exact ⟨h, fun hn => hn, ⟨[], by simp⟩, by show full.length ≤ ps * p; omega⟩
      · rw [if_neg hS]
        refine ⟨h, fun hn => hn, ⟨[], by simp⟩, ?_⟩
        have hmin : min (ps * p + ps) m.cache.length = m.cache.length := by omega
        have hsp := mkPage_spec h ps p (ps * p) (min (ps * p + ps) m.cache.length)
          (by omega) (by omega) (by omega) (by omega)
        obtain ⟨h1, h2, h3, h4, h5⟩ := hsp
        refine ⟨by omega, h1, h2, h3, fun hl => by rw [hmul]; exact h4 hl, fun hn hf => h5 hn hmin (by omega)⟩
    · rw [if_neg hB]
      have hr := prepare_repr h (ps * p + ps)
      have hc := prepare_count_eq h (ps * p + ps)
      have hsnd := prepare_snd m (ps * p + ps)
      by_cases hS : ps * p ≥ (m.prepare (ps * p + ps)).2
      · rw [if_pos hS]
        refine ⟨hr, fun hn => prepare_noNull hn _, prepare_cache_prefix m _, ?_⟩
        show full.length ≤ ps * p
        omega
      · rw [if_neg hS]
        refine ⟨hr, fun hn => prepare_noNull hn _, prepare_cache_prefix m _, ?_⟩
        have hsp := mkPage_spec hr ps p (ps * p) (min (ps * p + ps) (m.prepare (ps * p + ps)).2)
          (by omega) (by omega) (by omega) (by omega)
        obtain ⟨h1, h2, h3, h4, h5⟩ := hsp
        refine ⟨by omega, h1, h2, h3, fun hl => by rw [hmul]; exact h4 hl,
          fun hn hf => h5 (prepare_noNull hn _) (by omega) (by omega)⟩
  · rw [if_neg hA]
    refine ⟨h, fun hn => hn, ⟨[], by simp⟩, ?_⟩
    have hsp := mkPage_spec h ps p (ps * p) (ps * p + ps) (by omega) (by omega) (by omega) (by omega)
    obtain ⟨h1, h2, h3, h4, h5⟩ := hsp
    refine ⟨by omega, h1, h2, h3, fun hl => by rw [hmul]; exact h4 hl, fun hn hf => h5 hn (by omega) (by omega)⟩

/-- `GetCandidateAt` against the full list -/
theorem getCandidateAt_spec {m : Menu α} {full : List α} (h : m.Repr full) (i : Nat) :
    (m.getCandidateAt i).1 = full[i]? ∧ (m.getCandidateAt i).2.Repr full ∧
    (Gen.NoNull m.rest → Gen.NoNull (m.getCandidateAt i).2.rest) ∧
    (∃ moved, (m.getCandidateAt i).2.cache = m.cache ++ moved) := by
  have hcF := Repr.length_le h
  unfold Menu.getCandidateAt
  by_cases hA : i ≥ m.cache.length
  · rw [if_pos hA]
    simp only
    have hr := prepare_repr h (i + 1)
    have hc := prepare_count_eq h (i + 1)
    have hsnd := prepare_snd m (i + 1)
    by_cases hB : i ≥ (m.prepare (i + 1)).2
    · rw [if_pos hB]
      refine ⟨?_, hr, fun hn => prepare_noNull hn _, prepare_cache_prefix m _⟩
      show none = full[i]?
      rw [eq_comm, List.getElem?_eq_none_iff]
      omega
    · rw [if_neg hB]
      refine ⟨?_, hr, fun hn => prepare_noNull hn _, prepare_cache_prefix m _⟩
      show (m.prepare (i + 1)).1.cache[i]? = full[i]?
      exact Repr.getElem? hr (by omega)
  · rw [if_neg hA]
    exact ⟨Repr.getElem? h (by omega), h, fun hn => hn, ⟨[], by simp⟩⟩

/-- `empty()`: sound in general, exact when no null `Peek()` is pending -/
theorem empty_spec {m : Menu α} {full : List α} (h : m.Repr full) :
    (m.empty = true → full = []) ∧ (Gen.NoNull m.rest → full = [] → m.empty = true) := by
  constructor
  · intro he
    simp only [Menu.empty, Bool.and_eq_true, List.isEmpty_iff] at he
    have := Repr.full_of_exhausted h ((exhausted_iff m).mp he.2)
    rw [he.1] at this
    exact List.length_eq_zero_iff.mp this.symm
  · intro hn hf
    have hl := Repr.length_le h
    rw [hf] at hl
    have hc : m.cache = [] := List.length_eq_zero_iff.mp (by simpa using hl)
    simp only [Menu.empty, Bool.and_eq_true, List.isEmpty_iff]
    refine ⟨hc, (exhausted_iff m).mpr (Repr.exhausted_of_noNull h hn ?_)⟩
    rw [hf]; simp

end RimeModel.C04
