import RimeModel.C04.Translation
/-! `MergedTranslation`: well-formedness invariant, `Elect` under it, the output is a merge -/
namespace RimeModel.C04

variable {α β : Type}

/-! ### what "a merge of several lists" means -/

/-- `out` is an interleaving of the lists `ls`: built by repeatedly taking the head of one of them
(an empty list may be dropped from the collection at any time) -/
inductive IsMerge : List (List β) → List β → Prop
  | done {ls : List (List β)} : (∀ l ∈ ls, l = []) → IsMerge ls []
  | take {ls : List (List β)} {out : List β} (k : Nat) (x : β) (t : List β) :
      ls[k]? = some (x :: t) → IsMerge (ls.set k t) out → IsMerge ls (x :: out)
  | drop {ls : List (List β)} {out : List β} (k : Nat) :
      ls[k]? = some [] → IsMerge (ls.eraseIdx k) out → IsMerge ls out

theorem flatten_set_perm : ∀ (ls : List (List β)) (k : Nat) (x : β) (t : List β),
    ls[k]? = some (x :: t) → ls.flatten.Perm (x :: (ls.set k t).flatten) := by
  intro ls
  induction ls with
  | nil => intro k x t h; simp at h
  | cons l ls ih =>
    intro k x t h
    cases k with
    | zero =>
      simp only [List.getElem?_cons_zero, Option.some.injEq] at h
      subst h
      simp
    | succ k =>
      simp only [List.getElem?_cons_succ] at h
      simp only [List.set_cons_succ, List.flatten_cons]
      have := ih k x t h
      exact (List.Perm.append_left l this).trans List.perm_middle

theorem flatten_eraseIdx_nil : ∀ (ls : List (List β)) (k : Nat), ls[k]? = some [] → (ls.eraseIdx k).flatten = ls.flatten := by
  intro ls
  induction ls with
  | nil => intro k h; simp at h
  | cons l ls ih =>
    intro k h
    cases k with
    | zero =>
      simp only [List.getElem?_cons_zero, Option.some.injEq] at h
      subst h
      simp
    | succ k =>
      simp only [List.getElem?_cons_succ] at h
      simp only [List.eraseIdx_cons_succ, List.flatten_cons, ih k h]

/-- a merge is a permutation of the concatenation … -/
theorem IsMerge.perm {ls : List (List β)} {out : List β} (h : IsMerge ls out) : out.Perm ls.flatten := by
  induction h with
  | done hall => rw [List.flatten_eq_nil_iff.mpr hall]
  | take k x t hk _ ih =>
    exact ((List.Perm.cons x ih)).trans (flatten_set_perm _ k x t hk).symm
  | drop k hk _ ih => rw [← flatten_eraseIdx_nil _ k hk]; exact ih

/-- … that keeps every input in its own order -/
theorem IsMerge.sublist {ls : List (List β)} {out : List β} (h : IsMerge ls out) : ∀ l ∈ ls, l.Sublist out := by
  induction h with
  | done hall => intro l hl; rw [hall l hl]; exact List.Sublist.refl _
  | @take ls out k x t hk _ ih =>
    intro l hl
    obtain ⟨j, hj⟩ := List.mem_iff_getElem?.mp hl
    by_cases hjk : k = j
    · subst hjk
      rw [hk] at hj
      have hl' : l = x :: t := (Option.some.inj hj).symm
      subst hl'
      have hlen : k < ls.length := by
        rcases Nat.lt_or_ge k ls.length with h | h
        · exact h
        · rw [List.getElem?_eq_none_iff.mpr h] at hk; cases hk
      have : t ∈ ls.set k t := by
        apply List.mem_iff_getElem?.mpr
        exact ⟨k, by rw [List.getElem?_set]; simp [hlen]⟩
      exact (ih t this).cons_cons x
    · have : l ∈ ls.set k t := by
        apply List.mem_iff_getElem?.mpr
        exact ⟨j, by rw [List.getElem?_set]; simp [hjk, hj]⟩
      exact (ih l this).cons x
  | @drop ls out k hk _ ih =>
    intro l hl
    obtain ⟨j, hj⟩ := List.mem_iff_getElem?.mp hl
    by_cases hjk : j = k
    · subst hjk
      rw [hk] at hj
      rw [← Option.some.inj hj]
      exact List.nil_sublist _
    · exact ih l (List.mem_eraseIdx_iff_getElem?.mpr ⟨j, hjk, hj⟩)

/-! ### invariant of the merged translation -/

/-- no exhausted translation is kept in `translations_` -/
def AllLive (trs : List (Gen α)) : Prop := ∀ t ∈ trs, t ≠ []

structure Merged.WF (m : Merged α) : Prop where
  live : AllLive m.trs
  exh : m.exhausted = true ↔ m.trs = []
  elected : m.exhausted = false → m.elected < m.trs.length

theorem trCompare_last (cmp : α → α → Int) (cur : Gen α) : trCompare cmp cur none = -1 := rfl

/-- under `AllLive` the loop is a plain scan: it erases nothing and stops on a valid index -/
theorem electLoop_live (cmp : α → α → Int) : ∀ (fuel : Nat) (trs : List (Gen α)) (k : Nat),
    AllLive trs → k < trs.length → trs.length - k ≤ fuel →
    (electLoop cmp fuel trs k).1 = trs ∧ (electLoop cmp fuel trs k).2 < trs.length := by
  intro fuel
  induction fuel with
  | zero => intro trs k _ hk hf; omega
  | succ fuel ih =>
    intro trs k hl hk hf
    unfold electLoop
    rw [List.getElem?_eq_getElem hk]
    simp only
    by_cases hc : trCompare cmp trs[k] trs[k + 1]? ≤ 0
    · rw [if_pos hc]
      have hne : trs[k] ≠ [] := hl _ (List.getElem_mem hk)
      have : trs[k].isEmpty = false := by
        cases h : trs[k] with
        | nil => exact absurd h hne
        | cons _ _ => rfl
      rw [this]
      exact ⟨rfl, hk⟩
    · rw [if_neg hc]
      have hk1 : k + 1 < trs.length := by
        rcases Nat.lt_or_ge (k + 1) trs.length with h | h
        · exact h
        · rw [List.getElem?_eq_none_iff.mpr h, trCompare_last] at hc
          exact absurd (by decide) hc
      exact ih trs (k + 1) hl hk1 (by omega)

theorem elect_wf (cmp : α → α → Int) (m : Merged α) (hl : AllLive m.trs) :
    (m.elect cmp).WF ∧ (m.elect cmp).trs = m.trs := by
  unfold Merged.elect
  by_cases hem : m.trs.isEmpty = true
  · rw [if_pos hem]
    have h0 : m.trs = [] := List.isEmpty_iff.mp hem
    refine ⟨⟨hl, ?_, ?_⟩, rfl⟩
    · dsimp only; simp [h0]
    · dsimp only; intro h; cases h
  · rw [if_neg hem]
    have hpos : 0 < m.trs.length := by
      cases h : m.trs with
      | nil => rw [h] at hem; exact absurd rfl hem
      | cons _ _ => simp
    have hfuel : m.trs.length - 0 ≤ (m.trs.length + 1) * (m.trs.length + 1) :=
      Nat.le_trans (Nat.sub_le _ _) (Nat.le_trans (Nat.le_succ _) (Nat.le_mul_self _))
    obtain ⟨e1, e2⟩ := electLoop_live cmp _ m.trs 0 hl hpos hfuel
    refine ⟨⟨?_, ?_, ?_⟩, e1⟩
    · dsimp only; rw [e1]; exact hl
    · dsimp only
      rw [e1]
      simp only [decide_eq_true_eq]
      constructor
      · intro h; omega
      · intro h; rw [h] at hpos; simp at hpos
    · dsimp only
      intro _
      rw [e1]; exact e2

theorem Merged.WF.empty : (({} : Merged α)).WF :=
  ⟨(by intro t h; cases h), (by simp), (by intro h; cases h)⟩

theorem mem_length_le_sum {ls : List (List β)} {l : List β} (h : l ∈ ls) : l.length ≤ (ls.map List.length).sum := by
  induction ls with
  | nil => cases h
  | cons a as ih =>
    simp only [List.map_cons, List.sum_cons]
    rcases List.mem_cons.mp h with h1 | h1
    · rw [h1]; omega
    · have := ih h1; omega

/-- `n` × `Next()` -/
def iterNext (cmp : α → α → Int) : Nat → Merged α → Merged α
  | 0, m => m
  | n + 1, m => iterNext cmp n (m.next cmp)

theorem add_wf (cmp : α → α → Int) {m : Merged α} (h : m.WF) (t : Gen α) : (m.add cmp t).WF := by
  unfold Merged.add
  cases ht : t with
  | nil => simp only [List.isEmpty_nil, if_true]; exact h
  | cons x xs =>
    simp only [List.isEmpty_cons, Bool.false_eq_true, if_false]
    refine (elect_wf cmp _ ?_).1
    intro s hs
    rcases List.mem_append.mp hs with h1 | h1
    · exact h.live s h1
    · rw [List.mem_singleton.mp h1]; intro hh; cases hh

theorem ofList_wf (cmp : α → α → Int) (ts : List (Gen α)) : (Merged.ofList cmp ts).WF := by
  unfold Merged.ofList
  have : ∀ (ts : List (Gen α)) (m : Merged α), m.WF → (ts.foldl (Merged.add cmp) m).WF := by
    intro ts
    induction ts with
    | nil => intro m h; exact h
    | cons t ts ih => intro m h; exact ih _ (add_wf cmp h t)
  exact this ts {} Merged.WF.empty

/-- the list of translations after `Next()`, before the new election -/
def nextTrs (m : Merged α) : List (Gen α) :=
  let cur := m.trs[m.elected]?.getD []
  let trs1 := m.trs.set m.elected cur.tail
  if cur.tail.isEmpty then trs1.eraseIdx m.elected else trs1

theorem next_eq (cmp : α → α → Int) (m : Merged α) (h : m.exhausted = false) :
    m.next cmp = Merged.elect cmp { m with trs := nextTrs m } := by
  unfold Merged.next nextTrs
  rw [h]; rfl

theorem mem_set_cases {l : List β} {i : Nat} {a x : β} (h : x ∈ l.set i a) : x = a ∨ x ∈ l := by
  obtain ⟨j, hj⟩ := List.mem_iff_getElem?.mp h
  rw [List.getElem?_set] at hj
  by_cases hij : i = j
  · rw [if_pos hij] at hj
    by_cases hl : i < l.length
    · rw [if_pos hl] at hj; exact Or.inl (Option.some.inj hj).symm
    · rw [if_neg hl] at hj; cases hj
  · rw [if_neg hij] at hj
    exact Or.inr (List.mem_iff_getElem?.mpr ⟨j, hj⟩)

theorem nextTrs_live {m : Merged α} (h : m.WF) : AllLive (nextTrs m) := by
  unfold nextTrs
  simp only
  by_cases he : ((m.trs[m.elected]?.getD []).tail).isEmpty = true
  · rw [if_pos he]
    intro t ht
    obtain ⟨j, hj, hjt⟩ := List.mem_eraseIdx_iff_getElem?.mp ht
    rw [List.getElem?_set] at hjt
    have : ¬ (m.elected = j) := fun e => hj e.symm
    rw [if_neg this] at hjt
    exact h.live t (List.mem_iff_getElem?.mpr ⟨j, hjt⟩)
  · rw [if_neg he]
    intro t ht
    rcases mem_set_cases ht with h1 | h1
    · rw [h1]; intro hh; rw [hh] at he; exact he rfl
    · exact h.live t h1

theorem next_wf (cmp : α → α → Int) {m : Merged α} (h : m.WF) : (m.next cmp).WF := by
  cases he : m.exhausted with
  | true => unfold Merged.next; rw [he]; exact h
  | false => rw [next_eq cmp m he]; exact (elect_wf cmp _ (nextTrs_live h)).1

theorem next_trs (cmp : α → α → Int) {m : Merged α} (h : m.WF) (he : m.exhausted = false) :
    (m.next cmp).trs = nextTrs m := by
  rw [next_eq cmp m he]; exact (elect_wf cmp _ (nextTrs_live h)).2

/-- while not exhausted the elected translation has a current element -/
theorem elected_cons {m : Merged α} (h : m.WF) (he : m.exhausted = false) :
    ∃ x t, m.trs[m.elected]? = some (x :: t) := by
  have hlt := h.elected he
  have hne := h.live _ (List.getElem_mem hlt)
  rw [List.getElem?_eq_getElem hlt]
  cases hc : m.trs[m.elected] with
  | nil => exact absurd hc hne
  | cons x t => exact ⟨x, t, rfl⟩

/-- the output of the merged translation is a merge of its translations -/
theorem drain_isMerge (cmp : α → α → Int) : ∀ (fuel : Nat) (m : Merged α), m.WF → m.size ≤ fuel →
    IsMerge m.trs (Merged.drain cmp fuel m) := by
  intro fuel
  induction fuel with
  | zero =>
    intro m h hs
    unfold Merged.drain
    apply IsMerge.done
    intro l hl
    -- size 0 but every translation is non-empty: impossible
    exfalso
    have hne := h.live l hl
    have : l.length ≤ m.size := by
      unfold Merged.size
      exact mem_length_le_sum hl
    have : l.length = 0 := by omega
    exact hne (List.length_eq_zero_iff.mp this)
  | succ fuel ih =>
    intro m h hs
    unfold Merged.drain
    cases he : m.exhausted with
    | true =>
      simp only [if_true]
      apply IsMerge.done
      rw [h.exh.mp he]; intro l hl; cases hl
    | false =>
      simp only [Bool.false_eq_true, if_false]
      obtain ⟨x, t, hxt⟩ := elected_cons h he
      have hpeek : m.peek = x := by
        unfold Merged.peek; rw [he, hxt]; rfl
      rw [hpeek]
      have hwf := next_wf cmp h
      have htrs := next_trs cmp h he
      have hlt := h.elected he
      -- size goes down by one
      have hsize : (m.next cmp).size + 1 = m.size := by
        unfold Merged.size
        rw [htrs]
        unfold nextTrs
        simp only [hxt, Option.getD_some, List.tail_cons]
        have hset : ((m.trs.set m.elected t).map List.length).sum + 1 = (m.trs.map List.length).sum := by
          have := (flatten_set_perm m.trs m.elected x t hxt).length_eq
          simp only [List.length_flatten, List.length_cons] at this
          omega
        by_cases hte : t.isEmpty = true
        · rw [if_pos hte]
          have ht0 : t = [] := List.isEmpty_iff.mp hte
          have hk : (m.trs.set m.elected t)[m.elected]? = some [] := by
            rw [List.getElem?_set]; simp [hlt, ht0]
          have := congrArg List.length (flatten_eraseIdx_nil _ _ hk)
          simp only [List.length_flatten] at this
          omega
        · rw [if_neg hte]; exact hset
      have hrec := ih (m.next cmp) hwf (by omega)
      rw [htrs] at hrec
      unfold nextTrs at hrec
      simp only [hxt, Option.getD_some, List.tail_cons] at hrec
      apply IsMerge.take m.elected x t hxt
      by_cases hte : t.isEmpty = true
      · rw [if_pos hte] at hrec
        have ht0 : t = [] := List.isEmpty_iff.mp hte
        apply IsMerge.drop m.elected _ hrec
        rw [List.getElem?_set]; simp [hlt, ht0]
      · rw [if_neg hte] at hrec
        exact hrec

/-- driving the merged translation for `size` steps exhausts it (the Peek/Next loop terminates) -/
theorem drain_terminates (cmp : α → α → Int) : ∀ (n : Nat) (m : Merged α), m.WF → m.size ≤ n →
    (iterNext cmp n m).exhausted = true := by
  intro n
  induction n with
  | zero =>
    intro m h hs
    unfold iterNext
    cases he : m.exhausted with
    | true => rfl
    | false =>
      exfalso
      obtain ⟨x, t, hxt⟩ := elected_cons h he
      have hmem : (x :: t) ∈ m.trs := List.mem_iff_getElem?.mpr ⟨_, hxt⟩
      have : (x :: t).length ≤ m.size := by
        unfold Merged.size
        exact mem_length_le_sum hmem
      simp at this; omega
  | succ n ih =>
    intro m h hs
    unfold iterNext
    cases he : m.exhausted with
    | true =>
      have : m.next cmp = m := by unfold Merged.next; rw [he]; rfl
      rw [this]
      exact ih m h (by
        have : m.size = 0 := by unfold Merged.size; rw [h.exh.mp he]; rfl
        omega)
    | false =>
      apply ih _ (next_wf cmp h)
      -- size decreases (re-derive from the merge structure: one element leaves)
      obtain ⟨x, t, hxt⟩ := elected_cons h he
      have htrs := next_trs cmp h he
      have hlt := h.elected he
      unfold Merged.size
      rw [htrs]
      unfold nextTrs
      simp only [hxt, Option.getD_some, List.tail_cons]
      have hset : ((m.trs.set m.elected t).map List.length).sum + 1 = (m.trs.map List.length).sum := by
        have := (flatten_set_perm m.trs m.elected x t hxt).length_eq
        simp only [List.length_flatten, List.length_cons] at this
        omega
      have hs' : (m.trs.map List.length).sum ≤ n + 1 := hs
      by_cases hte : t.isEmpty = true
      · rw [if_pos hte]
        have ht0 : t = [] := List.isEmpty_iff.mp hte
        have hk : (m.trs.set m.elected t)[m.elected]? = some [] := by
          rw [List.getElem?_set]; simp [hlt, ht0]
        have := congrArg List.length (flatten_eraseIdx_nil _ _ hk)
        simp only [List.length_flatten] at this
        omega
      · rw [if_neg hte]; omega

end RimeModel.C04
