import RimeModel.C04.Menu
/-!
C04 — the client's two read paths and the paging/highlight calls on the last segment, once over the
lazily filled `Menu` (what the code does) and once over the full list (what the session model
`RimeModel.Session` does: `Seg.menu : Option (List Cand)`, `Seg.prepare n = min n |full|`).
`Props/C04.lean` proves the two give the same observations for every call sequence.

Ported: `RimeGetContext` (menu part, rime_api_impl.h), `RimeCandidateListFromIndex/Next`,
`RimeHighlightCandidate(OnCurrentPage)`, `RimeChangePage`, `Context::Highlight`, `Context::HasMenu`,
`Selector::NextPage/PreviousPage/NextCandidate/PreviousCandidate/Home/End` (for a key op the observation is whether the
selector handled the key; when it does not, the navigator moves the caret, which is outside these ops).
-/
namespace RimeModel.C04

variable {α : Type}

/-- calls that read or move within the candidate list of the last segment -/
inductive SegOp where
  | getContext
  | highlight (index : Nat)
  | highlightOnPage (index : Nat)
  | changePage (backward : Bool)
  | nextPage | prevPage | nextCand | prevCand
  /-- `Selector::Home`, and `Selector::End` with the caret at the end of the input (`End` is `Home` there) -/
  | home
  /-- `candidate_list_from_index(from)` followed by up to `n` × `candidate_list_next` -/
  | list (from_ n : Nat)
  deriving Repr, DecidableEq

/-- what the client sees of one call -/
inductive Obs (α : Type) where
  | ret (ok : Bool)
  /-- `RimeGetContext`: the page (or no menu) and `highlighted_candidate_index` -/
  | menu (page : Option (Page α)) (highlighted : Nat)
  /-- iterator read: candidates delivered; `ended` = a `next` returned False -/
  | cands (l : List α) (ended : Bool)
  deriving Repr, DecidableEq

/-- schema constants the calls use -/
structure Cfg where
  pageSize : Nat
  pageDownCycle : Bool := false
  /-- `is_linear_layout(ctx)`: option `_linear` or `_horizontal` -/
  linear : Bool := false

/-! ### lazy side: the code -/

/-- last segment: its (non-null) menu and `selected_index` -/
structure LSeg (α : Type) where
  menu : Menu α
  sel : Nat := 0
  deriving Repr, DecidableEq

/-- `Context::HasMenu()` for a segment whose menu pointer is set -/
def LSeg.hasMenu (g : LSeg α) : Bool := !g.menu.empty

/-- `Context::Highlight(index)` -/
def LSeg.highlight (g : LSeg α) (index : Nat) : LSeg α × Bool :=
  let r := g.menu.prepare (index + 1)
  let newIndex := highlightIndex r.2 index
  if g.sel = newIndex then ({ g with menu := r.1 }, false)
  else ({ menu := r.1, sel := newIndex }, true)

/-- up to `n` × `RimeCandidateListNext` starting with `iterator->index = idx - 1` -/
def listLoop : Nat → Menu α → Nat → List α × Bool × Menu α
  | 0, m, _ => ([], false, m)
  | n + 1, m, idx =>
    let r := m.getCandidateAt idx
    match r.1 with
    | none => ([], true, r.2)
    | some c =>
      let t := listLoop n r.2 (idx + 1)
      (c :: t.1, t.2.1, t.2.2)

def LSeg.step (cfg : Cfg) (g : LSeg α) : SegOp → LSeg α × Obs α
  | .getContext =>
    if g.hasMenu then
      let pageNo := g.sel / cfg.pageSize
      let r := g.menu.createPage cfg.pageSize pageNo
      ({ g with menu := r.2 }, .menu r.1 (match r.1 with | some _ => g.sel % cfg.pageSize | none => 0))
    else (g, .menu none 0)
  | .highlight i => let r := g.highlight i; (r.1, .ret r.2)
  | .highlightOnPage i =>
    if !g.hasMenu then (g, .ret false)
    else if i ≥ cfg.pageSize then (g, .ret false)
    else let r := g.highlight (g.sel / cfg.pageSize * cfg.pageSize + i); (r.1, .ret r.2)
  | .changePage backward =>
    if !g.hasMenu then (g, .ret false)
    else
      let cur := g.sel
      let index := if backward then (if cur ≤ cfg.pageSize then 0 else cur - cfg.pageSize) else cur + cfg.pageSize
      let r := g.highlight index; (r.1, .ret r.2)
  | .nextPage =>
    let index := g.sel + cfg.pageSize
    let pageStart := (index / cfg.pageSize) * cfg.pageSize
    let r := g.menu.prepare (pageStart + cfg.pageSize)
    match nextPageIndex r.2 g.sel cfg.pageSize cfg.pageDownCycle with
    | some i => ({ menu := r.1, sel := i }, .ret true)
    | none => ({ g with menu := r.1 }, .ret true)
  | .prevPage =>
    ({ g with sel := if g.sel < cfg.pageSize then 0 else g.sel - cfg.pageSize }, .ret true)
  | .nextCand =>
    let r := g.menu.prepare (g.sel + 1 + 1)
    match nextCandidateIndex r.2 g.sel with
    | some i => ({ menu := r.1, sel := i }, .ret true)
    | none => ({ g with menu := r.1 }, .ret true)
  | .prevCand =>
    -- `index <= 0`: `return !is_linear_layout(ctx)` — in a linear layout the key is left to the navigator (`.ret false`)
    if g.sel = 0 then (g, .ret (!cfg.linear)) else ({ g with sel := g.sel - 1 }, .ret true)
  | .home =>
    -- `selected_index > 0`: back to the first candidate; otherwise the navigator handles the key (`.ret false`)
    if g.sel = 0 then (g, .ret false) else ({ g with sel := 0 }, .ret true)
  | .list from_ n =>
    if !g.hasMenu then (g, .ret false)
    else let t := listLoop n g.menu from_; ({ g with menu := t.2.2 }, .cands t.1 t.2.1)

/-- run a call sequence, collecting the observations -/
def LSeg.run (cfg : Cfg) : LSeg α → List SegOp → LSeg α × List (Obs α)
  | g, [] => (g, [])
  | g, op :: ops =>
    let r := g.step cfg op
    let t := LSeg.run cfg r.1 ops
    (t.1, r.2 :: t.2)

/-! ### abstract side: the session model's menu = its full list -/

structure ASeg (α : Type) where
  full : List α
  sel : Nat := 0
  deriving Repr, DecidableEq

/-- `Seg.prepare` of the session model -/
def ASeg.prepare (g : ASeg α) (n : Nat) : Nat := min n g.full.length

def ASeg.hasMenu (g : ASeg α) : Bool := !g.full.isEmpty

def ASeg.highlight (g : ASeg α) (index : Nat) : ASeg α × Bool :=
  let newIndex := highlightIndex (g.prepare (index + 1)) index
  if g.sel = newIndex then (g, false) else ({ g with sel := newIndex }, true)

/-- the page the session model's `view` computes -/
def ASeg.page (g : ASeg α) (pageSize : Nat) : Option (Page α) :=
  let pageNo := g.sel / pageSize
  let start := pageSize * pageNo
  if start ≥ g.full.length then none
  else some { pageSize := pageSize, pageNo := pageNo, isLast := decide (start + pageSize ≥ g.full.length),
              cands := (g.full.drop start).take pageSize }

def ASeg.step (cfg : Cfg) (g : ASeg α) : SegOp → ASeg α × Obs α
  | .getContext =>
    if g.hasMenu then
      let p := g.page cfg.pageSize
      (g, .menu p (match p with | some _ => g.sel % cfg.pageSize | none => 0))
    else (g, .menu none 0)
  | .highlight i => let r := g.highlight i; (r.1, .ret r.2)
  | .highlightOnPage i =>
    if !g.hasMenu then (g, .ret false)
    else if i ≥ cfg.pageSize then (g, .ret false)
    else let r := g.highlight (g.sel / cfg.pageSize * cfg.pageSize + i); (r.1, .ret r.2)
  | .changePage backward =>
    if !g.hasMenu then (g, .ret false)
    else
      let cur := g.sel
      let index := if backward then (if cur ≤ cfg.pageSize then 0 else cur - cfg.pageSize) else cur + cfg.pageSize
      let r := g.highlight index; (r.1, .ret r.2)
  | .nextPage =>
    let index := g.sel + cfg.pageSize
    let pageStart := (index / cfg.pageSize) * cfg.pageSize
    match nextPageIndex (g.prepare (pageStart + cfg.pageSize)) g.sel cfg.pageSize cfg.pageDownCycle with
    | some i => ({ g with sel := i }, .ret true)
    | none => (g, .ret true)
  | .prevPage =>
    ({ g with sel := if g.sel < cfg.pageSize then 0 else g.sel - cfg.pageSize }, .ret true)
  | .nextCand =>
    match nextCandidateIndex (g.prepare (g.sel + 1 + 1)) g.sel with
    | some i => ({ g with sel := i }, .ret true)
    | none => (g, .ret true)
  | .prevCand =>
    if g.sel = 0 then (g, .ret (!cfg.linear)) else ({ g with sel := g.sel - 1 }, .ret true)
  | .home =>
    if g.sel = 0 then (g, .ret false) else ({ g with sel := 0 }, .ret true)
  | .list from_ n =>
    if !g.hasMenu then (g, .ret false)
    else
      let got := (g.full.drop from_).take n
      (g, .cands got (decide (got.length < n)))

def ASeg.run (cfg : Cfg) : ASeg α → List SegOp → ASeg α × List (Obs α)
  | g, [] => (g, [])
  | g, op :: ops =>
    let r := g.step cfg op
    let t := ASeg.run cfg r.1 ops
    (t.1, r.2 :: t.2)

end RimeModel.C04
