import RimeModel.C04.Seg
import RimeModel.C04.MenuSpec
/-! the lazy segment (code) refines the full-list segment (session model) -/
namespace RimeModel.C04

variable {α : Type}

/-! ### the count returned by `Prepare` vs `min n |full|` at each use -/

/-- shape of the returned count: either exactly `min n F`, or at least `n` (then `min n F = n`) -/
theorem count_shape {c n F : Nat} (hc : c ≤ F) :
    max c (min n F) = min n F ∨ (n ≤ max c (min n F) ∧ min n F = n) := by omega

theorem highlightIndex_count {c F : Nat} (hc : c ≤ F) (index : Nat) :
    highlightIndex (max c (min (index + 1) F)) index = highlightIndex (min (index + 1) F) index := by
  unfold highlightIndex
  split <;> split <;> omega

theorem nextCandidateIndex_count {c F : Nat} (hc : c ≤ F) (sel : Nat) :
    nextCandidateIndex (max c (min (sel + 1 + 1) F)) sel = nextCandidateIndex (min (sel + 1 + 1) F) sel := by
  unfold nextCandidateIndex
  simp only
  split <;> split <;> first | rfl | (exfalso; omega)

theorem nextPageIndex_count {c F : Nat} (hc : c ≤ F) (sel ps : Nat) (hps : 0 < ps) (cycle : Bool) :
    nextPageIndex (max c (min ((sel + ps) / ps * ps + ps) F)) sel ps cycle
      = nextPageIndex (min ((sel + ps) / ps * ps + ps) F) sel ps cycle := by
  unfold nextPageIndex
  have hlt : sel + ps < (sel + ps) / ps * ps + ps := by
    have := Nat.div_add_mod (sel + ps) ps
    have hm := Nat.mod_lt (sel + ps) hps
    rw [Nat.mul_comm] at this
    omega
  have hle : (sel + ps) / ps * ps ≤ sel + ps := Nat.div_mul_le_self _ _
  simp only
  generalize (sel + ps) / ps * ps = pstart at *
  have e1 : (max c (min (pstart + ps) F) ≤ pstart) ↔ (min (pstart + ps) F ≤ pstart) := by omega
  by_cases h : min (pstart + ps) F ≤ pstart
  · rw [if_pos (e1.mpr h), if_pos h]
  · rw [if_neg (mt e1.mp h), if_neg h]
    by_cases h2 : sel + ps ≥ min (pstart + ps) F
    · have : max c (min (pstart + ps) F) = min (pstart + ps) F := by omega
      rw [this]
    · rw [if_neg (by omega), if_neg h2]

theorem uniqueCandidate_count {c F : Nat} (hc : c ≤ F) :
    uniqueCandidate (max c (min 2 F)) = uniqueCandidate (min 2 F) := by
  unfold uniqueCandidate
  rw [Bool.eq_iff_iff]
  simp only [beq_iff_eq]
  omega

theorem lacksPair_count {c F : Nat} (hc : c ≤ F) :
    lacksPair (max c (min 2 F)) = lacksPair (min 2 F) := by
  unfold lacksPair
  rw [Bool.eq_iff_iff]
  simp only [decide_eq_true_eq]
  omega

theorem alternateIndex_count {c F : Nat} (hc : c ≤ F) (sel : Nat) :
    alternateIndex (max c (min (sel + 2) F)) sel = alternateIndex (min (sel + 2) F) sel := by
  unfold alternateIndex
  simp only [beq_iff_eq]
  split <;> split <;> first | rfl | (exfalso; omega) | skip
  congr 1
  rcases count_shape (n := sel + 2) hc with h | ⟨h1, h2⟩
  · rw [h]
  · rw [Nat.mod_eq_of_lt (by omega), Nat.mod_eq_of_lt (by omega)]

/-! ### refinement relation -/

/-- the lazy segment `g` is a view of the abstract one `a` -/
structure Refines (g : LSeg α) (a : ASeg α) : Prop where
  repr : g.menu.Repr a.full
  noNull : Gen.NoNull g.menu.rest
  sel : g.sel = a.sel

theorem Refines.hasMenu {g : LSeg α} {a : ASeg α} (r : Refines g a) : g.hasMenu = a.hasMenu := by
  unfold LSeg.hasMenu ASeg.hasMenu
  have hs := empty_spec r.repr
  cases he : g.menu.empty with
  | true =>
    have := hs.1 he
    simp [this]
  | false =>
    cases hf : a.full.isEmpty with
    | false => rfl
    | true =>
      have := hs.2 r.noNull (List.isEmpty_iff.mp hf)
      rw [he] at this; cases this

theorem Refines.prepare {g : LSeg α} {a : ASeg α} (r : Refines g a) (n : Nat) :
    Refines { g with menu := (g.menu.prepare n).1 } a :=
  ⟨prepare_repr r.repr n, prepare_noNull r.noNull n, r.sel⟩

theorem highlight_refines {g : LSeg α} {a : ASeg α} (r : Refines g a) (index : Nat) :
    (g.highlight index).2 = (a.highlight index).2 ∧ Refines (g.highlight index).1 (a.highlight index).1 := by
  unfold LSeg.highlight ASeg.highlight ASeg.prepare
  simp only
  rw [prepare_count_eq r.repr, highlightIndex_count (Repr.length_le r.repr), r.sel]
  by_cases h : a.sel = highlightIndex (min (index + 1) a.full.length) index
  · rw [if_pos h, if_pos h]
    exact ⟨rfl, prepare_repr r.repr _, prepare_noNull r.noNull _, rfl⟩
  · rw [if_neg h, if_neg h]
    exact ⟨rfl, prepare_repr r.repr _, prepare_noNull r.noNull _, rfl⟩

theorem listLoop_spec : ∀ (n : Nat) (m : Menu α) (full : List α) (idx : Nat), m.Repr full → Gen.NoNull m.rest →
    (listLoop n m idx).1 = (full.drop idx).take n ∧
    (listLoop n m idx).2.1 = decide (((full.drop idx).take n).length < n) ∧
    (listLoop n m idx).2.2.Repr full ∧ Gen.NoNull (listLoop n m idx).2.2.rest := by
  intro n
  induction n with
  | zero => intro m full idx h hn; simp [listLoop, h, hn]
  | succ n ih =>
    intro m full idx h hn
    obtain ⟨h1, h2, h3, _⟩ := getCandidateAt_spec h idx
    unfold listLoop
    simp only
    cases hc : (m.getCandidateAt idx).1 with
    | none =>
      rw [hc] at h1
      have hlen : full.length ≤ idx := by
        have := h1.symm; rwa [List.getElem?_eq_none_iff] at this
      have hd : full.drop idx = [] := List.drop_eq_nil_of_le hlen
      refine ⟨?_, ?_, h2, h3 hn⟩ <;> simp [hd]
    | some c =>
      rw [hc] at h1
      have hlt : idx < full.length := by
        rcases Nat.lt_or_ge idx full.length with hh | hh
        · exact hh
        · have := List.getElem?_eq_none_iff.mpr hh
          rw [this] at h1; cases h1
      have hd : full.drop idx = c :: full.drop (idx + 1) := by
        rw [List.drop_eq_getElem_cons hlt]
        congr 1
        have := List.getElem?_eq_getElem hlt
        rw [this] at h1
        exact (Option.some.inj h1).symm
      obtain ⟨i1, i2, i3, i4⟩ := ih (m.getCandidateAt idx).2 full (idx + 1) h2 (h3 hn)
      simp only [hd, List.take_succ_cons, List.length_cons]
      refine ⟨by rw [i1], ?_, i3, i4⟩
      rw [i2]
      simp only [Nat.add_lt_add_iff_right]

theorem page_eq {full : List α} {pg : Page α} {ps p : Nat}
    (h1 : pg.pageSize = ps) (h2 : pg.pageNo = p) (h3 : pg.cands = (full.drop (ps * p)).take ps)
    (h4 : pg.isLast = true → full.length ≤ ps * (p + 1))
    (h5 : full.length ≤ ps * (p + 1) → pg.isLast = true) :
    pg = { pageSize := ps, pageNo := p, isLast := decide (ps * p + ps ≥ full.length),
           cands := (full.drop (ps * p)).take ps } := by
  cases pg with
  | mk a b c d =>
    simp only at h1 h2 h3 h4 h5
    subst h1; subst h2; subst h3
    congr 1
    have hmul : a * (b + 1) = a * b + a := Nat.mul_succ a b
    cases c with
    | true => simp only [true_eq_decide_iff]; have := h4 rfl; omega
    | false =>
      simp only [false_eq_decide_iff]
      intro hh
      have := h5 (by omega)
      cases this

theorem step_refines (cfg : Cfg) (hps : 0 < cfg.pageSize) {g : LSeg α} {a : ASeg α} (r : Refines g a) (op : SegOp) :
    (g.step cfg op).2 = (a.step cfg op).2 ∧ Refines (g.step cfg op).1 (a.step cfg op).1 := by
  have hm := r.hasMenu
  have hcF := Repr.length_le r.repr
  cases op with
  | getContext =>
    rw [LSeg.step, ASeg.step]
    rw [hm]
    cases hh : a.hasMenu with
    | false => exact ⟨rfl, r⟩
    | true =>
      simp only [if_true]
      obtain ⟨c1, c2, _, c4⟩ := createPage_spec r.repr cfg.pageSize (g.sel / cfg.pageSize) hps
      refine ⟨?_, c1, c2 r.noNull, r.sel⟩
      unfold ASeg.page
      simp only
      rw [← r.sel]
      cases hp : (g.menu.createPage cfg.pageSize (g.sel / cfg.pageSize)).1 with
      | none =>
        rw [hp] at c4
        have c4' : a.full.length ≤ cfg.pageSize * (g.sel / cfg.pageSize) := c4
        rw [if_pos c4']
      | some pg =>
        rw [hp] at c4
        obtain ⟨d0, d1, d2, d3, d4, d5⟩ := c4
        have : ¬ (cfg.pageSize * (g.sel / cfg.pageSize) ≥ a.full.length) := by omega
        rw [if_neg this]
        rw [page_eq d1 d2 d3 d4 (d5 r.noNull)]
  | highlight i =>
    rw [LSeg.step, ASeg.step]
    obtain ⟨h1, h2⟩ := highlight_refines r i
    exact ⟨by simp only [h1], h2⟩
  | highlightOnPage i =>
    rw [LSeg.step, ASeg.step]
    rw [hm, r.sel]
    by_cases h1 : (!a.hasMenu) = true
    · rw [if_pos h1, if_pos h1]; exact ⟨rfl, r⟩
    · rw [if_neg h1, if_neg h1]
      by_cases h2 : i ≥ cfg.pageSize
      · rw [if_pos h2, if_pos h2]; exact ⟨rfl, r⟩
      · rw [if_neg h2, if_neg h2]
        obtain ⟨k1, k2⟩ := highlight_refines r (a.sel / cfg.pageSize * cfg.pageSize + i)
        exact ⟨by simp only [k1], k2⟩
  | changePage backward =>
    rw [LSeg.step, ASeg.step]
    rw [hm, r.sel]
    by_cases h1 : (!a.hasMenu) = true
    · rw [if_pos h1, if_pos h1]; exact ⟨rfl, r⟩
    · rw [if_neg h1, if_neg h1]
      simp only
      obtain ⟨k1, k2⟩ := highlight_refines r
        (if backward = true then (if a.sel ≤ cfg.pageSize then 0 else a.sel - cfg.pageSize) else a.sel + cfg.pageSize)
      exact ⟨by simp only [k1], k2⟩
  | nextPage =>
    rw [LSeg.step, ASeg.step]
    unfold ASeg.prepare
    try dsimp only
    rw [prepare_count_eq r.repr, r.sel, nextPageIndex_count hcF a.sel cfg.pageSize hps]
    cases nextPageIndex (min ((a.sel + cfg.pageSize) / cfg.pageSize * cfg.pageSize + cfg.pageSize) a.full.length)
        a.sel cfg.pageSize cfg.pageDownCycle with
    | none => exact ⟨rfl, prepare_repr r.repr _, prepare_noNull r.noNull _, rfl⟩
    | some i => exact ⟨rfl, prepare_repr r.repr _, prepare_noNull r.noNull _, rfl⟩
  | prevPage =>
    rw [LSeg.step, ASeg.step]
    rw [r.sel]
    exact ⟨rfl, r.repr, r.noNull, rfl⟩
  | nextCand =>
    rw [LSeg.step, ASeg.step]
    unfold ASeg.prepare
    try dsimp only
    rw [prepare_count_eq r.repr, r.sel, nextCandidateIndex_count hcF a.sel]
    cases nextCandidateIndex (min (a.sel + 1 + 1) a.full.length) a.sel with
    | none => exact ⟨rfl, prepare_repr r.repr _, prepare_noNull r.noNull _, rfl⟩
    | some i => exact ⟨rfl, prepare_repr r.repr _, prepare_noNull r.noNull _, rfl⟩
  | prevCand =>
    rw [LSeg.step, ASeg.step]
    rw [r.sel]
    by_cases h : a.sel = 0
    · rw [if_pos h, if_pos h]; exact ⟨rfl, r⟩
    · rw [if_neg h, if_neg h]; exact ⟨rfl, r.repr, r.noNull, rfl⟩
  | home =>
    rw [LSeg.step, ASeg.step]
    rw [r.sel]
    by_cases h : a.sel = 0
    · rw [if_pos h, if_pos h]; exact ⟨rfl, r⟩
    · rw [if_neg h, if_neg h]; exact ⟨rfl, r.repr, r.noNull, rfl⟩
  | list from_ n =>
    rw [LSeg.step, ASeg.step]
    rw [hm]
    by_cases h1 : (!a.hasMenu) = true
    · rw [if_pos h1, if_pos h1]; exact ⟨rfl, r⟩
    · rw [if_neg h1, if_neg h1]
      obtain ⟨l1, l2, l3, l4⟩ := listLoop_spec n g.menu a.full from_ r.repr r.noNull
      simp only
      rw [l1, l2]
      exact ⟨rfl, l3, l4, r.sel⟩

theorem run_refines (cfg : Cfg) (hps : 0 < cfg.pageSize) : ∀ (ops : List SegOp) {g : LSeg α} {a : ASeg α},
    Refines g a → (LSeg.run cfg g ops).2 = (ASeg.run cfg a ops).2 ∧ Refines (LSeg.run cfg g ops).1 (ASeg.run cfg a ops).1 := by
  intro ops
  induction ops with
  | nil => intro g a r; exact ⟨rfl, r⟩
  | cons op ops ih =>
    intro g a r
    obtain ⟨s1, s2⟩ := step_refines cfg hps r op
    obtain ⟨t1, t2⟩ := ih s2
    unfold LSeg.run ASeg.run
    simp only
    exact ⟨by rw [s1, t1], t2⟩

end RimeModel.C04
