import RimeModel.C04.Menu
/-!
C04 — the translations that feed a menu (src/rime/translation.cc, candidate.cc, gear/uniquifier.cc,
gear/single_char_filter.cc), ported line by line.

* `Gen α` (Menu.lean) is any leaf translation: `exhausted ⇔ = []`, `Peek = head`, `Next = tail`.
* `Merged`      — `MergedTranslation` with the exact `Elect` scheme.
* `CacheTr`     — `CacheTranslation`.
* `Distinct`    — `DistinctTranslation`.
* `Uniq`        — `UniquifiedTranslation`; it shares `candidates_` with the menu, so `create`/`next`
                  take the *currently visible* menu cache as an argument and hand back the mutated one.
                  `fixed = true` is the code as it is now (remembers the texts it handed out in `emitted_`);
                  `fixed = false` is the code before commit 59481ca (`old…` in Props).
* `rearrange`   — `SingleCharFirstTranslation::Rearrange` (the prefetching consumer of the finding).
* `FMenu`       — `Menu::Prepare` over `result_ = [Prefetch ∘] Uniquified`, the stateful pair.
-/
namespace RimeModel.C04

variable {α τ : Type}

/-! ## Candidate::compare -/

/-- what `Candidate::compare` reads.  `quality` is an abstract rank (the C++ value is a double that is
only ever compared) -/
structure Key where
  start : Nat
  stop : Nat
  quality : Int
  deriving Repr, DecidableEq

/-- `Candidate::compare`: start ascending, end descending, quality descending, else draw -/
def Key.compare (a b : Key) : Int :=
  let k : Int := (a.start : Int) - (b.start : Int)
  if k ≠ 0 then k
  else
    let k : Int := (a.stop : Int) - (b.stop : Int)
    if k ≠ 0 then -k
    else if a.quality ≠ b.quality then (if a.quality > b.quality then -1 else 1)
    else 0

/-! ## leaf translations -/

/-- `Peek()` -/
def Gen.peek : Gen α → Option α
  | [] => none
  | x :: _ => x

/-- `UnionTranslation` over leaf translations: `operator+=` keeps the non-exhausted ones, `Peek` / `Next` work on the front
one and drop it when it is exhausted — the pieces one after the other -/
def unionGen (ts : List (Gen α)) : Gen α := (ts.filter (fun t => !t.isEmpty)).flatten

/-- `Peek` / `Next` / `exhausted` called `n` times on a leaf translation, past its exhaustion: `Peek` is null and `Next`
false once it is exhausted (`UniqueTranslation`, `FifoTranslation`, `UnionTranslation`, `CacheTranslation`,
`DistinctTranslation`, `PrefetchTranslation` all start with `if (exhausted()) return …`) -/
def Gen.probe : Nat → Gen α → List (Option α × Bool × Bool)
  | 0, _ => []
  | n + 1, [] => (none, false, true) :: Gen.probe n []
  | n + 1, x :: xs => (x, true, xs.isEmpty) :: Gen.probe n xs

/-! ## MergedTranslation -/

structure Merged (α : Type) where
  /-- `translations_` -/
  trs : List (Gen α) := []
  /-- `elected_` -/
  elected : Nat := 0
  exhausted : Bool := true
  deriving Repr, DecidableEq

/-- `current->Compare(next, previous_candidates_)` (`Translation::Compare`; the candidate list argument
is unused by the base class) -/
def trCompare (cmp : α → α → Int) (cur : Gen α) (other : Option (Gen α)) : Int :=
  match other with
  | none => -1                                  -- !other
  | some o =>
    if o.isEmpty then -1                        -- other->exhausted()
    else if cur.isEmpty then 1                  -- exhausted()
    else match cur.peek, o.peek with
      | some a, some b => cmp a b
      | _, _ => 1                               -- !ours || !theirs

/-- the `for` loop of `MergedTranslation::Elect`.  Note the C++ `k = 0; continue;` after an erase
re-enters the loop through `++k`, i.e. at `k = 1` — ported as is.  (`fuel` bounds the iterations; the
erase branch is dead under `Merged.Live`, see `Lemmas`.) -/
def electLoop (cmp : α → α → Int) : Nat → List (Gen α) → Nat → List (Gen α) × Nat
  | 0, trs, k => (trs, k)
  | fuel + 1, trs, k =>
    match trs[k]? with
    | none => (trs, k)                          -- k >= size: loop ends
    | some cur =>
      if trCompare cmp cur trs[k + 1]? ≤ 0 then
        if cur.isEmpty then electLoop cmp fuel (trs.eraseIdx k) 1
        else (trs, k)                           -- break
      else electLoop cmp fuel trs (k + 1)

/-- `MergedTranslation::Elect` -/
def Merged.elect (cmp : α → α → Int) (m : Merged α) : Merged α :=
  if m.trs.isEmpty then { m with exhausted := true }
  else
    let r := electLoop cmp ((m.trs.length + 1) * (m.trs.length + 1)) m.trs 0
    { trs := r.1, elected := r.2, exhausted := decide (r.2 ≥ r.1.length) }

/-- `operator+=` -/
def Merged.add (cmp : α → α → Int) (m : Merged α) (t : Gen α) : Merged α :=
  if t.isEmpty then m else Merged.elect cmp { m with trs := m.trs ++ [t] }

/-- `MergedTranslation::Peek` -/
def Merged.peek (m : Merged α) : Option α :=
  if m.exhausted then none else (m.trs[m.elected]?.getD []).peek

/-- `MergedTranslation::Next` -/
def Merged.next (cmp : α → α → Int) (m : Merged α) : Merged α :=
  if m.exhausted then m
  else
    let cur := m.trs[m.elected]?.getD []
    let trs1 := m.trs.set m.elected cur.tail                        -- translations_[elected_]->Next()
    let trs2 := if cur.tail.isEmpty then trs1.eraseIdx m.elected else trs1   -- erase if now exhausted
    Merged.elect cmp { m with trs := trs2 }

/-- `Peek`, then `Next` (its value: `!exhausted()`), then `exhausted()`, `n` times, past the exhaustion -/
def Merged.probe (cmp : α → α → Int) : Nat → Merged α → List (Option α × Bool × Bool)
  | 0, _ => []
  | n + 1, m =>
    let m' := m.next cmp
    (m.peek, !m'.exhausted, m'.exhausted) :: Merged.probe cmp n m'

/-- `Menu::Menu` + `AddTranslation` for each translation in turn -/
def Merged.ofList (cmp : α → α → Int) (ts : List (Gen α)) : Merged α :=
  ts.foldl (Merged.add cmp) {}

/-- what the merged translation yields when driven to exhaustion by Peek/Next (fuel = steps) -/
def Merged.drain (cmp : α → α → Int) : Nat → Merged α → Gen α
  | 0, _ => []
  | fuel + 1, m => if m.exhausted then [] else m.peek :: Merged.drain cmp fuel (m.next cmp)

def Merged.size (m : Merged α) : Nat := (m.trs.map List.length).sum

/-- the merged translation as a generator -/
def Merged.output (cmp : α → α → Int) (m : Merged α) : Gen α := Merged.drain cmp m.size m

/-! ## CacheTranslation -/

structure CacheTr (α : Type) where
  /-- `translation_` -/
  inner : Gen α
  /-- `cache_` -/
  cache : Option α := none
  exhausted : Bool
  deriving Repr, DecidableEq

def CacheTr.create (inner : Gen α) : CacheTr α := { inner := inner, cache := none, exhausted := inner.isEmpty }

def CacheTr.next (t : CacheTr α) : CacheTr α × Bool :=
  if t.exhausted then (t, false)
  else
    let inner := t.inner.tail
    ({ inner := inner, cache := none, exhausted := inner.isEmpty }, true)

def CacheTr.peek (t : CacheTr α) : Option α × CacheTr α :=
  if t.exhausted then (none, t)
  else match t.cache with
    | some c => (some c, t)
    | none => (t.inner.peek, { t with cache := t.inner.peek })

/-! ## DistinctTranslation (a `CacheTranslation` over a null-free source: `Peek()->text()` is
dereferenced unconditionally; `src.head` is `CacheTranslation::Peek()`, `src.tail` its `Next()`) -/

structure Distinct (α τ : Type) where
  src : List α
  /-- `candidate_set_` -/
  seen : List τ := []
  deriving Repr, DecidableEq

/-- `while (!exhausted() && AlreadyHas(Peek()->text())) CacheTranslation::Next();` -/
def skipSeen [DecidableEq τ] (text : α → τ) (seen : List τ) : List α → List α
  | [] => []
  | y :: ys => if text y ∈ seen then skipSeen text seen ys else y :: ys

/-- `DistinctTranslation::Next` -/
def Distinct.next [DecidableEq τ] (text : α → τ) (d : Distinct α τ) : Distinct α τ :=
  match d.src with
  | [] => d
  | x :: xs =>
    let seen := text x :: d.seen
    { src := skipSeen text seen xs, seen := seen }

def Distinct.drain [DecidableEq τ] (text : α → τ) : Nat → Distinct α τ → List α
  | 0, _ => []
  | fuel + 1, d =>
    match d.src with
    | [] => []
    | x :: _ => x :: Distinct.drain text fuel (d.next text)

def Distinct.output [DecidableEq τ] (text : α → τ) (src : List α) : List α :=
  Distinct.drain text src.length { src := src }

/-- keep the first occurrence of every text not in `seen` -/
def dedupBy [DecidableEq τ] (text : α → τ) : List α → List τ → List α
  | [], _ => []
  | x :: xs, seen => if text x ∈ seen then dedupBy text xs seen else x :: dedupBy text xs (text x :: seen)

/-! ## UniquifiedTranslation -/

/-- a menu cache entry as the uniquifier sees it: the genuine first item and the items appended to
its `UniquifiedCandidate` (text, comment and preedit shown are those of `first`) -/
structure Group (α : Type) where
  first : α
  more : List α := []
  deriving Repr, DecidableEq

def Group.append (g : Group α) (x : α) : Group α := { g with more := g.more ++ [x] }

structure Uniq (α τ : Type) where
  /-- the `CacheTranslation` part over the wrapped translation: head = `Peek()` -/
  src : List α
  /-- `emitted_` -/
  emitted : List τ := []
  deriving Repr, DecidableEq

/-- `UniquifiedTranslation::Uniquify()` on (source, emitted_, *candidates_) -/
def uniquify [DecidableEq τ] (text : α → τ) (fixed : Bool) : List α → List τ → List (Group α) → Uniq α τ × List (Group α)
  | [], em, vis => ({ src := [], emitted := em }, vis)              -- exhausted: return false
  | x :: xs, em, vis =>
    match vis.findIdx? (fun g => text g.first == text x) with      -- find_text_match
    | some j => uniquify text fixed xs em (vis.modify j (·.append x))   -- Append(next); CacheTranslation::Next()
    | none =>
      if fixed then
        if text x ∈ em then uniquify text fixed xs em vis           -- !emitted_.insert(..).second: drop
        else ({ src := x :: xs, emitted := text x :: em }, vis)     -- a unique candidate
      else ({ src := x :: xs, emitted := em }, vis)

/-- constructor: `CacheTranslation(translation)`, then `Uniquify()` -/
def Uniq.create [DecidableEq τ] (text : α → τ) (fixed : Bool) (src : List α) (vis : List (Group α)) : Uniq α τ × List (Group α) :=
  uniquify text fixed src [] vis

def Uniq.exhausted (u : Uniq α τ) : Bool := u.src.isEmpty

def Uniq.peek (u : Uniq α τ) : Option α := u.src.head?

/-- `Next()`: `CacheTranslation::Next() && Uniquify()` -/
def Uniq.next [DecidableEq τ] (text : α → τ) (fixed : Bool) (u : Uniq α τ) (vis : List (Group α)) : Uniq α τ × List (Group α) :=
  match u.src with
  | [] => (u, vis)
  | _ :: xs => uniquify text fixed xs u.emitted vis

/-- what a consumer pulls (Peek, then Next) when it shows the uniquifier the caches `vs` in turn;
the pulls stop when the translation is exhausted or the consumer stops asking -/
def Uniq.pulls [DecidableEq τ] (text : α → τ) (fixed : Bool) : List (List (Group α)) → Uniq α τ → List α
  | [], _ => []
  | v :: vs, u =>
    match u.src with
    | [] => []
    | x :: _ => x :: Uniq.pulls text fixed vs (u.next text fixed v).1

/-! ## SingleCharFirstTranslation (a `PrefetchTranslation`) -/

/-- the `while` loop of `Rearrange` over a uniquified translation, with the menu cache `vis` as it is
while the filter chain is being built: returns (top, bottom, remaining translation, cache) -/
def rearrangeLoop [DecidableEq τ] (text : α → τ) (fixed : Bool) (isTable : α → Bool) (single : α → Bool) :
    Nat → Uniq α τ → List (Group α) → List α → List α → List α × List α × Uniq α τ × List (Group α)
  | 0, u, vis, top, bottom => (top, bottom, u, vis)
  | fuel + 1, u, vis, top, bottom =>
    match u.src with
    | [] => (top, bottom, u, vis)
    | x :: _ =>
      if !isTable x then (top, bottom, u, vis)                   -- break
      else
        let r := u.next text fixed vis
        if single x then rearrangeLoop text fixed isTable single fuel r.1 r.2 (top ++ [x]) bottom
        else rearrangeLoop text fixed isTable single fuel r.1 r.2 top (bottom ++ [x])

/-- `Rearrange` over a plain generator (the filter placed before the uniquifier or without it):
the rearranged output as a list -/
def rearrangeList (isTable : α → Bool) (single : α → Bool) (src : List α) : List α :=
  let pre := src.takeWhile isTable
  pre.filter single ++ pre.filter (fun x => !single x) ++ src.dropWhile isTable

/-! ## Menu over `result_ = [SingleCharFirst ∘] Uniquified` -/

/-- the stateful pair: menu cache + uniquified translation, with the prefetch queue of a
`PrefetchTranslation` applied after the uniquifier in between (`queue = []` when there is none) -/
structure FMenu (α τ : Type) where
  cache : List (Group α) := []
  queue : List α := []
  u : Uniq α τ
  deriving Repr, DecidableEq

def FMenu.exhausted (m : FMenu α τ) : Bool := m.queue.isEmpty && m.u.exhausted

/-- `Menu::Prepare` over this `result_` (fuel = iterations; each consumes a queue or source element) -/
def FMenu.prepareLoop [DecidableEq τ] (text : α → τ) (fixed : Bool) (requested : Nat) : Nat → FMenu α τ → FMenu α τ
  | 0, m => m
  | fuel + 1, m =>
    if m.cache.length < requested then
      match m.queue with
      | q :: qs =>                                                -- PrefetchTranslation: cache_ non-empty
        FMenu.prepareLoop text fixed requested fuel { m with cache := m.cache ++ [{ first := q }], queue := qs }
      | [] =>
        match m.u.src with
        | [] => m                                                 -- exhausted
        | x :: _ =>
          let cache1 := m.cache ++ [{ first := x }]               -- candidates_.push_back(Peek())
          let r := m.u.next text fixed cache1                     -- Next() → Uniquify() sees the new cache
          FMenu.prepareLoop text fixed requested fuel { cache := r.2, queue := [], u := r.1 }
    else m

def FMenu.prepare [DecidableEq τ] (text : α → τ) (fixed : Bool) (m : FMenu α τ) (requested : Nat) : FMenu α τ × Nat :=
  let m' := FMenu.prepareLoop text fixed requested (m.queue.length + m.u.src.length) m
  (m', m'.cache.length)

/-- engine.cc builds the menu: translations merged, then `uniquifier` applied to an empty cache -/
def FMenu.ofUniq [DecidableEq τ] (text : α → τ) (fixed : Bool) (src : List α) : FMenu α τ :=
  let r := Uniq.create text fixed src []
  { cache := r.2, queue := [], u := r.1 }

/-- … then `single_char_filter` applied after it (cangjie5's order) -/
def FMenu.ofUniqThenSingleChar [DecidableEq τ] (text : α → τ) (fixed : Bool) (isTable single : α → Bool) (src : List α) : FMenu α τ :=
  let r := Uniq.create text fixed src []
  let t := rearrangeLoop text fixed isTable single (src.length + 1) r.1 r.2 [] []
  { cache := t.2.2.2, queue := t.1 ++ t.2.1, u := t.2.2.1 }

/-! the remaining `Menu` members over this `result_` — the same code as `Menu.createPage` /
`getCandidateAt` / `empty` (Menu.lean), calling this `Prepare` -/

def FMenu.mkPage (m : FMenu α τ) (pageSize pageNo startPos endPos : Nat) : Page (Group α) :=
  { pageSize := pageSize, pageNo := pageNo,
    isLast := m.exhausted && endPos == m.cache.length,
    cands := (m.cache.drop startPos).take (endPos - startPos) }

def FMenu.createPage [DecidableEq τ] (text : α → τ) (fixed : Bool) (m : FMenu α τ) (pageSize pageNo : Nat) :
    Option (Page (Group α)) × FMenu α τ :=
  let startPos := pageSize * pageNo
  let endPos := startPos + pageSize
  if endPos > m.cache.length then
    let r : FMenu α τ × Nat := if m.exhausted then (m, m.cache.length) else m.prepare text fixed endPos
    if startPos ≥ r.2 then (none, r.1)
    else (some (r.1.mkPage pageSize pageNo startPos (min (startPos + pageSize) r.2)), r.1)
  else (some (m.mkPage pageSize pageNo startPos endPos), m)

def FMenu.getCandidateAt [DecidableEq τ] (text : α → τ) (fixed : Bool) (m : FMenu α τ) (index : Nat) :
    Option (Group α) × FMenu α τ :=
  if index ≥ m.cache.length then
    let r := m.prepare text fixed (index + 1)
    if index ≥ r.2 then (none, r.1) else (r.1.cache[index]?, r.1)
  else (m.cache[index]?, m)

def FMenu.empty (m : FMenu α τ) : Bool := m.cache.isEmpty && m.exhausted

end RimeModel.C04
