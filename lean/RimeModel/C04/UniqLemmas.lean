import RimeModel.C04.Translation
/-! `CacheTranslation`, `DistinctTranslation`, `UniquifiedTranslation`, and the menu over them -/
namespace RimeModel.C04

variable {α τ : Type}

/-! ### CacheTranslation is transparent -/

structure CacheTr.Inv (t : CacheTr α) : Prop where
  exh : t.exhausted = t.inner.isEmpty
  cache : ∀ c, t.cache = some c → t.inner.peek = some c

theorem CacheTr.create_inv (g : Gen α) : (CacheTr.create g).Inv :=
  ⟨rfl, by intro c h; cases h⟩

theorem CacheTr.peek_spec {t : CacheTr α} (h : t.Inv) :
    (t.peek).1 = t.inner.peek ∧ (t.peek).2.inner = t.inner ∧ (t.peek).2.Inv := by
  unfold CacheTr.peek
  cases he : t.exhausted with
  | true =>
    rw [if_pos rfl]
    have : t.inner = [] := List.isEmpty_iff.mp (by rw [← h.exh]; exact he)
    exact ⟨by rw [this]; rfl, rfl, h⟩
  | false =>
    rw [if_neg Bool.false_ne_true]
    cases hc : t.cache with
    | some c => exact ⟨(h.cache c hc).symm, rfl, h⟩
    | none =>
      refine ⟨rfl, rfl, ⟨?_, ?_⟩⟩
      · show false = t.inner.isEmpty
        rw [← h.exh, he]
      · intro c hcc; exact hcc

theorem CacheTr.next_spec {t : CacheTr α} (h : t.Inv) :
    (t.next).1.inner = t.inner.tail ∧ (t.next).1.Inv ∧ ((t.next).2 = !t.inner.isEmpty) := by
  unfold CacheTr.next
  cases he : t.exhausted with
  | true =>
    rw [if_pos rfl]
    have hi : t.inner = [] := List.isEmpty_iff.mp (by rw [← h.exh]; exact he)
    exact ⟨by rw [hi]; rfl, h, by rw [hi]; rfl⟩
  | false =>
    rw [if_neg Bool.false_ne_true]
    refine ⟨rfl, ⟨rfl, by intro c hc; cases hc⟩, ?_⟩
    show true = !t.inner.isEmpty
    rw [← h.exh, he]; rfl

/-! ### DistinctTranslation -/

section
variable [DecidableEq τ] (text : α → τ)

theorem skipSeen_length (seen : List τ) : ∀ xs : List α, (skipSeen text seen xs).length ≤ xs.length := by
  intro xs
  induction xs with
  | nil => simp [skipSeen]
  | cons y ys ih =>
    unfold skipSeen
    by_cases h : text y ∈ seen
    · rw [if_pos h]; simp only [List.length_cons]; omega
    · rw [if_neg h]; simp

theorem dedupBy_skipSeen (seen : List τ) : ∀ xs : List α, dedupBy text (skipSeen text seen xs) seen = dedupBy text xs seen := by
  intro xs
  induction xs with
  | nil => rfl
  | cons y ys ih =>
    unfold skipSeen
    by_cases h : text y ∈ seen
    · rw [if_pos h, ih]
      conv => rhs; unfold dedupBy
      rw [if_pos h]
    · rw [if_neg h]

theorem skipSeen_head (seen : List τ) : ∀ (xs : List α) (y : α) (ys : List α), skipSeen text seen xs = y :: ys → text y ∉ seen := by
  intro xs
  induction xs with
  | nil => intro y ys h; cases h
  | cons x xs ih =>
    intro y ys h
    unfold skipSeen at h
    by_cases hx : text x ∈ seen
    · rw [if_pos hx] at h; exact ih y ys h
    · rw [if_neg hx] at h
      cases h; exact hx

/-- the distinct translation yields exactly the first occurrences -/
theorem Distinct.drain_eq : ∀ (fuel : Nat) (d : Distinct α τ), d.src.length ≤ fuel →
    (∀ x xs, d.src = x :: xs → text x ∉ d.seen) → Distinct.drain text fuel d = dedupBy text d.src d.seen := by
  intro fuel
  induction fuel with
  | zero =>
    intro d hl _
    have : d.src = [] := List.length_eq_zero_iff.mp (by omega)
    unfold Distinct.drain; rw [this]; rfl
  | succ fuel ih =>
    intro d hl hh
    unfold Distinct.drain
    cases hs : d.src with
    | nil => rfl
    | cons x xs =>
      simp only
      have hx := hh x xs hs
      conv => rhs; unfold dedupBy
      rw [if_neg hx]
      congr 1
      have hn : d.next text = { src := skipSeen text (text x :: d.seen) xs, seen := text x :: d.seen } := by
        unfold Distinct.next; rw [hs]
      rw [hn, ih]
      · exact dedupBy_skipSeen text _ xs
      · have := skipSeen_length text (text x :: d.seen) xs
        rw [hs] at hl
        simp only [List.length_cons] at hl
        show (skipSeen text (text x :: d.seen) xs).length ≤ fuel
        omega
      · intro y ys hy
        exact skipSeen_head text _ xs y ys hy

theorem dedupBy_spec : ∀ (xs : List α) (seen : List τ),
    ((dedupBy text xs seen).map text).Nodup ∧ (∀ t ∈ (dedupBy text xs seen).map text, t ∉ seen) ∧
    (dedupBy text xs seen).Sublist xs := by
  intro xs
  induction xs with
  | nil => intro seen; simp [dedupBy]
  | cons x xs ih =>
    intro seen
    unfold dedupBy
    by_cases h : text x ∈ seen
    · rw [if_pos h]
      obtain ⟨a, b, c⟩ := ih seen
      exact ⟨a, b, c.cons x⟩
    · rw [if_neg h]
      obtain ⟨a, b, c⟩ := ih (text x :: seen)
      refine ⟨?_, ?_, c.cons_cons x⟩
      · simp only [List.map_cons, List.nodup_cons]
        refine ⟨?_, a⟩
        intro hm
        exact b _ hm (List.mem_cons_self)
      · intro t ht
        simp only [List.map_cons, List.mem_cons] at ht
        rcases ht with h1 | h1
        · rw [h1]; exact h
        · intro hs; exact b t h1 (List.mem_cons_of_mem _ hs)

/-- every text of the source that is not in `seen` survives -/
theorem dedupBy_complete : ∀ (xs : List α) (seen : List τ) (x : α), x ∈ xs → text x ∉ seen →
    text x ∈ (dedupBy text xs seen).map text := by
  intro xs
  induction xs with
  | nil => intro seen x h; cases h
  | cons y ys ih =>
    intro seen x hx hns
    unfold dedupBy
    by_cases h : text y ∈ seen
    · rw [if_pos h]
      rcases List.mem_cons.mp hx with h1 | h1
      · rw [h1] at hns; exact absurd h hns
      · exact ih seen x h1 hns
    · rw [if_neg h]
      simp only [List.map_cons, List.mem_cons]
      by_cases hxy : text x = text y
      · exact Or.inl hxy
      · rcases List.mem_cons.mp hx with h1 | h1
        · rw [h1] at hxy; exact absurd rfl hxy
        · right
          apply ih (text y :: seen) x h1
          intro hm
          rcases List.mem_cons.mp hm with h2 | h2
          · exact hxy h2
          · exact hns h2

/-! ### UniquifiedTranslation -/

/-- the texts the uniquifier can see in the menu cache -/
def gtexts (vis : List (Group α)) : List τ := vis.map (fun g => text g.first)

omit [DecidableEq τ] in
theorem gtexts_modify_append (x : α) : ∀ (vis : List (Group α)) (j : Nat),
    gtexts text (vis.modify j (·.append x)) = gtexts text vis := by
  intro vis
  induction vis with
  | nil => intro j; simp [gtexts]
  | cons g gs ih =>
    intro j
    cases j with
    | zero => simp [gtexts, List.modify, Group.append]
    | succ j =>
      have := ih j
      simp only [gtexts, List.modify_succ_cons, List.map_cons] at this ⊢
      rw [this]

omit [DecidableEq τ] in
theorem gtexts_append_one (vis : List (Group α)) (x : α) :
    gtexts text (vis ++ [{ first := x }]) = gtexts text vis ++ [text x] := by
  simp [gtexts]

theorem findIdx?_none_iff (vis : List (Group α)) (x : α) :
    vis.findIdx? (fun g => text g.first == text x) = none ↔ text x ∉ gtexts text vis := by
  rw [List.findIdx?_eq_none_iff]
  unfold gtexts
  constructor
  · intro h hm
    obtain ⟨g, hg, hgt⟩ := List.mem_map.mp hm
    have := h g hg
    rw [hgt] at this
    simp at this
  · intro h g hg
    cases hb : (text g.first == text x) with
    | false => rfl
    | true =>
      exfalso
      apply h
      rw [← eq_of_beq hb]
      exact List.mem_map_of_mem hg

/-- what one run of `Uniquify()` does -/
theorem uniquify_spec (fixed : Bool) (em : List τ) : ∀ (xs : List α) (vis : List (Group α)),
    let r := uniquify text fixed xs em vis
    gtexts text r.2 = gtexts text vis ∧
    (∃ pre, xs = pre ++ r.1.src) ∧
    ((r.1.src = [] ∧ r.1.emitted = em) ∨
     (∃ y ys, r.1.src = y :: ys ∧ text y ∉ gtexts text vis ∧
        ((fixed = true ∧ text y ∉ em ∧ r.1.emitted = text y :: em) ∨ (fixed = false ∧ r.1.emitted = em)))) := by
  intro xs
  induction xs with
  | nil => intro vis; exact ⟨rfl, ⟨[], rfl⟩, Or.inl ⟨rfl, rfl⟩⟩
  | cons x xs ih =>
    intro vis
    dsimp only
    unfold uniquify
    cases hf : vis.findIdx? (fun g => text g.first == text x) with
    | some j =>
      dsimp only
      obtain ⟨a, ⟨pre, hpre⟩, c⟩ := ih (vis.modify j (·.append x))
      rw [gtexts_modify_append] at a c
      exact ⟨a, ⟨x :: pre, by rw [List.cons_append]; exact congrArg (x :: ·) hpre⟩, c⟩
    | none =>
      dsimp only
      have hx := (findIdx?_none_iff text vis x).mp hf
      cases fixed with
      | false =>
        rw [if_neg Bool.false_ne_true]
        exact ⟨rfl, ⟨[], rfl⟩, Or.inr ⟨x, xs, rfl, hx, Or.inr ⟨rfl, rfl⟩⟩⟩
      | true =>
        rw [if_pos rfl]
        by_cases he : text x ∈ em
        · rw [if_pos he]
          obtain ⟨a, ⟨pre, hpre⟩, c⟩ := ih vis
          exact ⟨a, ⟨x :: pre, by rw [List.cons_append]; exact congrArg (x :: ·) hpre⟩, c⟩
        · rw [if_neg he]
          exact ⟨rfl, ⟨[], rfl⟩, Or.inr ⟨x, xs, rfl, hx, Or.inl ⟨rfl, he, rfl⟩⟩⟩

/-- the fixed uniquifier has recorded the text of its current candidate -/
def Uniq.HeadIn (u : Uniq α τ) : Prop := ∀ x xs, u.src = x :: xs → text x ∈ u.emitted

theorem create_headIn (src : List α) (vis : List (Group α)) : (Uniq.create text true src vis).1.HeadIn text := by
  unfold Uniq.create
  obtain ⟨_, _, c⟩ := uniquify_spec text true [] src vis
  intro x xs hx
  rcases c with ⟨h1, _⟩ | ⟨y, ys, h1, _, h3⟩
  · rw [h1] at hx; cases hx
  · rw [h1] at hx
    cases hx
    rcases h3 with ⟨_, _, h⟩ | ⟨h, _⟩
    · rw [h]; exact List.mem_cons_self
    · cases h

/-- consumer-independent core: whatever caches the consumer shows, the fixed uniquifier never hands
out the same text twice -/
theorem pulls_nodup_aux : ∀ (vs : List (List (Group α))) (u : Uniq α τ), u.HeadIn text →
    ((Uniq.pulls text true vs u).map text).Nodup ∧
    (∀ t ∈ (Uniq.pulls text true vs u).map text, t ∈ u.emitted → ∃ x xs, u.src = x :: xs ∧ t = text x) := by
  intro vs
  induction vs with
  | nil => intro u _; simp [Uniq.pulls]
  | cons v vs ih =>
    intro u hu
    unfold Uniq.pulls
    cases hs : u.src with
    | nil => simp
    | cons x xs =>
      simp only
      have hxe : text x ∈ u.emitted := hu x xs hs
      have hnext : (u.next text true v) = uniquify text true xs u.emitted v := by
        unfold Uniq.next; rw [hs]
      rw [hnext]
      obtain ⟨_, _, c⟩ := uniquify_spec text true u.emitted xs v
      rcases c with ⟨h1, h2⟩ | ⟨y, ys, h1, _, h3⟩
      · -- exhausted after this pull
        have : Uniq.pulls text true vs (uniquify text true xs u.emitted v).1 = [] := by
          cases vs with
          | nil => rfl
          | cons w ws => unfold Uniq.pulls; rw [h1]
        rw [this]
        refine ⟨by simp, ?_⟩
        intro t ht _
        simp only [List.map_cons, List.map_nil, List.mem_singleton] at ht
        exact ⟨x, xs, rfl, ht⟩
      · rcases h3 with ⟨_, hyn, hem⟩ | ⟨hff, _⟩
        · have hu' : (uniquify text true xs u.emitted v).1.HeadIn text := by
            intro z zs hz
            rw [h1] at hz; cases hz
            rw [hem]; exact List.mem_cons_self
          obtain ⟨n1, n2⟩ := ih _ hu'
          refine ⟨?_, ?_⟩
          · simp only [List.map_cons, List.nodup_cons]
            refine ⟨?_, n1⟩
            intro hm
            obtain ⟨z, zs, hz, htz⟩ := n2 (text x) hm (by rw [hem]; exact List.mem_cons_of_mem _ hxe)
            rw [h1] at hz; cases hz
            rw [htz] at hxe
            exact hyn hxe
          · intro t ht hte
            simp only [List.map_cons, List.mem_cons] at ht
            rcases ht with h | h
            · exact ⟨x, xs, rfl, h⟩
            · exfalso
              obtain ⟨z, zs, hz, htz⟩ := n2 t h (by rw [hem]; exact List.mem_cons_of_mem _ hte)
              rw [h1] at hz; cases hz
              rw [htz] at hte
              exact hyn hte
        · cases hff

/-! ### the menu over the uniquified translation -/

/-- invariant of the stateful pair (menu cache, prefetch queue, uniquified translation).
`S` = texts in the cache followed by texts in the queue -/
structure FMenu.Inv (fixed : Bool) (m : FMenu α τ) : Prop where
  nodup : (gtexts text m.cache ++ m.queue.map text).Nodup
  /-- the current candidate of the uniquifier is new -/
  head : ∀ x xs, m.u.src = x :: xs → text x ∉ gtexts text m.cache ++ m.queue.map text
  /-- a prefetch queue is only sound over the fixed uniquifier, which has recorded everything it handed out -/
  queue : m.queue ≠ [] → fixed = true
  emitted : fixed = true → (∀ t ∈ gtexts text m.cache ++ m.queue.map text, t ∈ m.u.emitted) ∧ m.u.HeadIn text

theorem FMenu.prepareLoop_inv (fixed : Bool) (n : Nat) : ∀ (fuel : Nat) (m : FMenu α τ), FMenu.Inv text fixed m →
    FMenu.Inv text fixed (FMenu.prepareLoop text fixed n fuel m) := by
  intro fuel
  induction fuel with
  | zero => intro m h; exact h
  | succ fuel ih =>
    intro m h
    unfold FMenu.prepareLoop
    by_cases hc : m.cache.length < n
    · rw [if_pos hc]
      cases hq : m.queue with
      | cons q qs =>
        simp only
        apply ih
        have e : gtexts text (m.cache ++ [{ first := q }]) ++ qs.map text = gtexts text m.cache ++ m.queue.map text := by
          rw [gtexts_append_one, hq]; simp
        refine ⟨?_, ?_, ?_, ?_⟩
        · show (gtexts text (m.cache ++ [{ first := q }]) ++ qs.map text).Nodup
          rw [e]; exact h.nodup
        · show ∀ x xs, m.u.src = x :: xs → text x ∉ gtexts text (m.cache ++ [{ first := q }]) ++ qs.map text
          rw [e]; exact h.head
        · intro _; exact h.queue (by rw [hq]; intro hh; cases hh)
        · intro hf
          show (∀ t ∈ gtexts text (m.cache ++ [{ first := q }]) ++ qs.map text, t ∈ m.u.emitted) ∧ m.u.HeadIn text
          rw [e]; exact h.emitted hf
      | nil =>
        simp only
        cases hs : m.u.src with
        | nil => simp only; exact h
        | cons x xs =>
          simp only
          apply ih
          have hnext : m.u.next text fixed (m.cache ++ [{ first := x }]) =
              uniquify text fixed xs m.u.emitted (m.cache ++ [{ first := x }]) := by
            unfold Uniq.next; rw [hs]
          rw [hnext]
          obtain ⟨a, _, c⟩ := uniquify_spec text fixed m.u.emitted xs (m.cache ++ [{ first := x }])
          have hxn : text x ∉ gtexts text m.cache := by
            have := h.head x xs hs
            rw [hq] at this
            simpa using this
          have hnd : (gtexts text m.cache ++ [text x]).Nodup := by
            have := h.nodup
            rw [hq] at this
            simp only [List.map_nil, List.append_nil] at this
            rw [List.nodup_append]
            refine ⟨this, by simp, ?_⟩
            intro a ha b hb
            simp only [List.mem_singleton] at hb
            rw [hb]; intro hab; rw [hab] at ha; exact hxn ha
          refine ⟨?_, ?_, ?_, ?_⟩
          · show (gtexts text (uniquify text fixed xs m.u.emitted (m.cache ++ [{ first := x }])).2 ++ ([] : List α).map text).Nodup
            rw [a, gtexts_append_one]; simpa using hnd
          · show ∀ y ys, (uniquify text fixed xs m.u.emitted (m.cache ++ [{ first := x }])).1.src = y :: ys →
                text y ∉ gtexts text (uniquify text fixed xs m.u.emitted (m.cache ++ [{ first := x }])).2 ++ ([] : List α).map text
            intro y ys hy
            rw [a]
            rcases c with ⟨h1, _⟩ | ⟨z, zs, h1, h2, _⟩
            · rw [h1] at hy; cases hy
            · rw [h1] at hy; cases hy
              simpa using h2
          · intro hh; exact absurd rfl hh
          · intro hf
            obtain ⟨e1, e2⟩ := h.emitted hf
            have hxe : text x ∈ m.u.emitted := e2 x xs hs
            show (∀ t ∈ gtexts text (uniquify text fixed xs m.u.emitted (m.cache ++ [{ first := x }])).2 ++ ([] : List α).map text,
                    t ∈ (uniquify text fixed xs m.u.emitted (m.cache ++ [{ first := x }])).1.emitted) ∧
                 (uniquify text fixed xs m.u.emitted (m.cache ++ [{ first := x }])).1.HeadIn text
            rw [a, gtexts_append_one]
            have hold : ∀ t ∈ gtexts text m.cache ++ [text x] ++ ([] : List α).map text, t ∈ m.u.emitted := by
              intro t ht
              simp only [List.map_nil, List.append_nil, List.mem_append, List.mem_singleton] at ht
              rcases ht with h1 | h1
              · exact e1 t (by rw [hq]; simpa using h1)
              · rw [h1]; exact hxe
            rcases c with ⟨h1, h2⟩ | ⟨z, zs, h1, _, h3⟩
            · refine ⟨by rw [h2]; exact hold, ?_⟩
              intro y ys hy; rw [h1] at hy; cases hy
            · rcases h3 with ⟨_, _, hem⟩ | ⟨hff, _⟩
              · refine ⟨?_, ?_⟩
                · intro t ht; rw [hem]; exact List.mem_cons_of_mem _ (hold t ht)
                · intro y ys hy; rw [h1] at hy; cases hy; rw [hem]; exact List.mem_cons_self
              · rw [hf] at hff; cases hff
    · rw [if_neg hc]; exact h

/-- the loop stops only when enough is cached or nothing is left -/
theorem FMenu.prepareLoop_done (fixed : Bool) (n : Nat) : ∀ (fuel : Nat) (m : FMenu α τ),
    m.queue.length + m.u.src.length ≤ fuel →
    let m' := FMenu.prepareLoop text fixed n fuel m
    n ≤ m'.cache.length ∨ (m'.queue = [] ∧ m'.u.src = []) := by
  intro fuel
  induction fuel with
  | zero =>
    intro m hf
    simp only [FMenu.prepareLoop]
    right
    exact ⟨List.length_eq_zero_iff.mp (by omega), List.length_eq_zero_iff.mp (by omega)⟩
  | succ fuel ih =>
    intro m hf
    simp only
    unfold FMenu.prepareLoop
    by_cases hc : m.cache.length < n
    · rw [if_pos hc]
      cases hq : m.queue with
      | cons q qs =>
        simp only
        apply ih
        rw [hq] at hf
        simp only [List.length_cons] at hf
        show qs.length + m.u.src.length ≤ fuel
        omega
      | nil =>
        simp only
        cases hs : m.u.src with
        | nil => simp only; right; exact ⟨hq, hs⟩
        | cons x xs =>
          simp only
          apply ih
          have hnext : m.u.next text fixed (m.cache ++ [{ first := x }]) =
              uniquify text fixed xs m.u.emitted (m.cache ++ [{ first := x }]) := by
            unfold Uniq.next; rw [hs]
          rw [hnext]
          obtain ⟨_, ⟨pre, hpre⟩, _⟩ := uniquify_spec text fixed m.u.emitted xs (m.cache ++ [{ first := x }])
          have : (uniquify text fixed xs m.u.emitted (m.cache ++ [{ first := x }])).1.src.length ≤ xs.length := by
            have := congrArg List.length hpre
            simp only [List.length_append] at this
            omega
          rw [hq, hs] at hf
          simp only [List.length_cons, List.length_nil] at hf
          show ([] : List α).length + _ ≤ fuel
          simp only [List.length_nil]
          omega
    · rw [if_neg hc]; left; omega

/-- a menu built by engine.cc with the uniquifier as last filter starts in the invariant -/
theorem FMenu.ofUniq_inv (fixed : Bool) (src : List α) : FMenu.Inv text fixed (FMenu.ofUniq text fixed src) := by
  unfold FMenu.ofUniq Uniq.create
  obtain ⟨a, _, c⟩ := uniquify_spec text fixed [] src []
  refine ⟨?_, ?_, ?_, ?_⟩
  · show (gtexts text (uniquify text fixed src [] []).2 ++ ([] : List α).map text).Nodup
    rw [a]; simp [gtexts]
  · show ∀ x xs, (uniquify text fixed src [] []).1.src = x :: xs →
        text x ∉ gtexts text (uniquify text fixed src [] []).2 ++ ([] : List α).map text
    intro x xs hx
    rw [a]; simp [gtexts]
  · intro h; exact absurd rfl h
  · intro hf
    show (∀ t ∈ gtexts text (uniquify text fixed src [] []).2 ++ ([] : List α).map text, t ∈ _) ∧ _
    rw [a]
    refine ⟨by intro t ht; simp [gtexts] at ht, ?_⟩
    subst hf
    exact create_headIn text src []

/-! ### `single_char_filter` applied after the (fixed) uniquifier -/

omit [DecidableEq τ] in
theorem nodup_insert_mid {l1 l2 : List τ} {a : τ} (h : (l1 ++ l2).Nodup) (ha : a ∉ l1 ++ l2) :
    (l1 ++ [a] ++ l2).Nodup := by
  have e : l1 ++ [a] ++ l2 = l1 ++ a :: l2 := by simp
  rw [e, List.perm_middle.nodup_iff]
  exact List.nodup_cons.mpr ⟨ha, h⟩

omit [DecidableEq τ] in
theorem mem_insert_mid {l1 l2 : List τ} {a t : τ} : t ∈ l1 ++ [a] ++ l2 ↔ t = a ∨ t ∈ l1 ++ l2 := by
  simp only [List.mem_append, List.mem_singleton]
  constructor
  · rintro ((h | h) | h)
    · exact Or.inr (Or.inl h)
    · exact Or.inl h
    · exact Or.inr (Or.inr h)
  · rintro (h | h | h)
    · exact Or.inl (Or.inr h)
    · exact Or.inl (Or.inl h)
    · exact Or.inr h

/-- state of `Rearrange` while it drains the fixed uniquifier against the (still empty) menu cache -/
structure RearrInv (u : Uniq α τ) (vis : List (Group α)) (top bottom : List α) : Prop where
  vis : gtexts text vis = []
  nodup : ((top ++ bottom).map text).Nodup
  emitted : ∀ t ∈ (top ++ bottom).map text, t ∈ u.emitted
  headIn : u.HeadIn text
  head : ∀ x xs, u.src = x :: xs → text x ∉ (top ++ bottom).map text

theorem rearrangeLoop_inv (isTable single : α → Bool) : ∀ (fuel : Nat) (u : Uniq α τ) (vis : List (Group α)) (top bottom : List α),
    RearrInv text u vis top bottom →
    let t := rearrangeLoop text true isTable single fuel u vis top bottom
    RearrInv text t.2.2.1 t.2.2.2 t.1 t.2.1 := by
  intro fuel
  induction fuel with
  | zero => intro u vis top bottom h; exact h
  | succ fuel ih =>
    intro u vis top bottom h
    dsimp only
    unfold rearrangeLoop
    cases hs : u.src with
    | nil => exact h
    | cons x xs =>
      dsimp only
      by_cases ht : (!isTable x) = true
      · rw [if_pos ht]; exact h
      · rw [if_neg ht]
        have hnext : u.next text true vis = uniquify text true xs u.emitted vis := by
          unfold Uniq.next; rw [hs]
        rw [hnext]
        obtain ⟨a, _, c⟩ := uniquify_spec text true u.emitted xs vis
        have hxe : text x ∈ u.emitted := h.headIn x xs hs
        have hxn : text x ∉ (top ++ bottom).map text := h.head x xs hs
        -- facts about the uniquifier after this Next()
        have hmono : ∀ t, t ∈ u.emitted → t ∈ (uniquify text true xs u.emitted vis).1.emitted := by
          intro t ht'
          rcases c with ⟨_, h2⟩ | ⟨y, ys, _, _, h3⟩
          · rw [h2]; exact ht'
          · rcases h3 with ⟨_, _, hem⟩ | ⟨hff, _⟩
            · rw [hem]; exact List.mem_cons_of_mem _ ht'
            · cases hff
        have hhead' : (uniquify text true xs u.emitted vis).1.HeadIn text := by
          intro y ys hy
          rcases c with ⟨h1, _⟩ | ⟨z, zs, h1, _, h3⟩
          · rw [h1] at hy; cases hy
          · rw [h1] at hy; cases hy
            rcases h3 with ⟨_, _, hem⟩ | ⟨hff, _⟩
            · rw [hem]; exact List.mem_cons_self
            · cases hff
        have hfresh : ∀ y ys, (uniquify text true xs u.emitted vis).1.src = y :: ys → text y ∉ u.emitted := by
          intro y ys hy
          rcases c with ⟨h1, _⟩ | ⟨z, zs, h1, _, h3⟩
          · rw [h1] at hy; cases hy
          · rw [h1] at hy; cases hy
            rcases h3 with ⟨_, hn, _⟩ | ⟨hff, _⟩
            · exact hn
            · cases hff
        have hvis : gtexts text (uniquify text true xs u.emitted vis).2 = [] := by rw [a]; exact h.vis
        by_cases hsg : single x = true
        · rw [if_pos hsg]
          apply ih
          have e : ((top ++ [x] ++ bottom).map text) = top.map text ++ [text x] ++ bottom.map text := by simp
          have e0 : ((top ++ bottom).map text) = top.map text ++ bottom.map text := by simp
          refine ⟨hvis, ?_, ?_, hhead', ?_⟩
          · rw [e]; rw [e0] at hxn; exact nodup_insert_mid (by rw [← e0]; exact h.nodup) hxn
          · intro t ht'
            rw [e, mem_insert_mid] at ht'
            rcases ht' with h1 | h1
            · rw [h1]; exact hmono _ hxe
            · exact hmono _ (h.emitted t (by rw [e0]; exact h1))
          · intro y ys hy hm
            rw [e, mem_insert_mid] at hm
            rcases hm with h1 | h1
            · exact hfresh y ys hy (by rw [h1]; exact hxe)
            · exact hfresh y ys hy (h.emitted _ (by rw [e0]; exact h1))
        · rw [if_neg hsg]
          apply ih
          have e : ((top ++ (bottom ++ [x])).map text) = (top.map text ++ bottom.map text) ++ [text x] ++ [] := by simp
          have e0 : ((top ++ bottom).map text) = top.map text ++ bottom.map text := by simp
          refine ⟨hvis, ?_, ?_, hhead', ?_⟩
          · rw [e]
            apply nodup_insert_mid
            · simpa [e0] using h.nodup
            · simpa [e0] using hxn
          · intro t ht'
            rw [e, mem_insert_mid] at ht'
            rcases ht' with h1 | h1
            · rw [h1]; exact hmono _ hxe
            · exact hmono _ (h.emitted t (by rw [e0]; simpa using h1))
          · intro y ys hy hm
            rw [e, mem_insert_mid] at hm
            rcases hm with h1 | h1
            · exact hfresh y ys hy (by rw [h1]; exact hxe)
            · exact hfresh y ys hy (h.emitted _ (by rw [e0]; simpa using h1))

/-- cangjie5's filter order with the fixed uniquifier starts in the menu invariant -/
theorem FMenu.ofUniqThenSingleChar_inv (isTable single : α → Bool) (src : List α) :
    FMenu.Inv text true (FMenu.ofUniqThenSingleChar text true isTable single src) := by
  unfold FMenu.ofUniqThenSingleChar
  dsimp only
  have h0 : RearrInv text (Uniq.create text true src []).1 (Uniq.create text true src []).2 [] [] := by
    obtain ⟨a, _, _⟩ := uniquify_spec text true [] src []
    refine ⟨a, by simp, by intro t ht; simp at ht, create_headIn text src [], by intro x xs _; simp⟩
  have h := rearrangeLoop_inv text isTable single (src.length + 1) _ _ [] [] h0
  dsimp only at h
  refine ⟨?_, ?_, fun _ => rfl, fun _ => ⟨?_, h.headIn⟩⟩
  · dsimp only; rw [h.vis]; exact h.nodup
  · dsimp only; rw [h.vis]; exact h.head
  · dsimp only; rw [h.vis]; exact h.emitted

end

end RimeModel.C04
