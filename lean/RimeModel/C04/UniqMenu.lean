import RimeModel.C04.UniqLemmas
import RimeModel.C04.MenuLemmas
/-!
The menu over a uniquified translation (with or without a prefetch queue) *is* a `Menu` over one fixed
list, as far as the genuine first item of every entry goes: projecting the stateful pair
(cache of groups, queue, uniquifier) to `Menu α` commutes with `Prepare`.  Hence every `Menu` law
(`cache_prefix`, `prepare_count`, `page_window`, …) holds for uniquified menus at the level of what the
client sees (text, comment, preedit of the first item).
-/
namespace RimeModel.C04

variable {α τ : Type}

/-- the genuine first items of the cache entries -/
def firsts (vis : List (Group α)) : List α := vis.map (·.first)

theorem firsts_modify_append (x : α) : ∀ (vis : List (Group α)) (j : Nat),
    firsts (vis.modify j (·.append x)) = firsts vis := by
  intro vis
  induction vis with
  | nil => intro j; simp [firsts]
  | cons g gs ih =>
    intro j
    cases j with
    | zero => simp [firsts, List.modify, Group.append]
    | succ j =>
      have := ih j
      simp only [firsts, List.modify_succ_cons, List.map_cons] at this ⊢
      rw [this]

theorem firsts_append_one (vis : List (Group α)) (x : α) : firsts (vis ++ [{ first := x }]) = firsts vis ++ [x] := by
  simp [firsts]

theorem firsts_length (vis : List (Group α)) : (firsts vis).length = vis.length := by simp [firsts]

section
variable [DecidableEq τ] (text : α → τ)

/-- `Uniquify()` keeps the first items of the cache, and everything it skips was visible or already emitted -/
theorem uniquify_dropped (fixed : Bool) (em : List τ) : ∀ (xs : List α) (vis : List (Group α)),
    firsts (uniquify text fixed xs em vis).2 = firsts vis ∧
    ∃ pre, xs = pre ++ (uniquify text fixed xs em vis).1.src ∧
      ∀ p ∈ pre, text p ∈ gtexts text vis ∨ (fixed = true ∧ text p ∈ em) := by
  intro xs
  induction xs with
  | nil => intro vis; exact ⟨rfl, [], rfl, by intro p hp; cases hp⟩
  | cons x xs ih =>
    intro vis
    unfold uniquify
    cases hf : vis.findIdx? (fun g => text g.first == text x) with
    | some j =>
      dsimp only
      obtain ⟨a, pre, hpre, hall⟩ := ih (vis.modify j (·.append x))
      rw [firsts_modify_append] at a
      rw [gtexts_modify_append] at hall
      refine ⟨a, x :: pre, by rw [List.cons_append]; exact congrArg (x :: ·) hpre, ?_⟩
      intro p hp
      rcases List.mem_cons.mp hp with h | h
      · left
        rw [h]
        have : ¬ (vis.findIdx? (fun g => text g.first == text x) = none) := by rw [hf]; intro hh; cases hh
        exact Classical.not_not.mp (fun hn => this ((findIdx?_none_iff text vis x).mpr hn))
      · exact hall p h
    | none =>
      dsimp only
      cases fixed with
      | false =>
        rw [if_neg Bool.false_ne_true]
        exact ⟨rfl, [], rfl, by intro p hp; cases hp⟩
      | true =>
        rw [if_pos rfl]
        by_cases he : text x ∈ em
        · rw [if_pos he]
          obtain ⟨a, pre, hpre, hall⟩ := ih vis
          refine ⟨a, x :: pre, by rw [List.cons_append]; exact congrArg (x :: ·) hpre, ?_⟩
          intro p hp
          rcases List.mem_cons.mp hp with h | h
          · right; rw [h]; exact ⟨rfl, he⟩
          · exact hall p h
        · rw [if_neg he]
          exact ⟨rfl, [], rfl, by intro p hp; cases hp⟩

theorem dedupBy_congr : ∀ (xs : List α) (s1 s2 : List τ), (∀ t, t ∈ s1 ↔ t ∈ s2) →
    dedupBy text xs s1 = dedupBy text xs s2 := by
  intro xs
  induction xs with
  | nil => intro s1 s2 _; rfl
  | cons x xs ih =>
    intro s1 s2 h
    unfold dedupBy
    by_cases h1 : text x ∈ s1
    · rw [if_pos h1, if_pos ((h _).mp h1)]; exact ih s1 s2 h
    · rw [if_neg h1, if_neg (fun hh => h1 ((h _).mpr hh))]
      congr 1
      apply ih
      intro t
      simp only [List.mem_cons]
      rw [h t]

theorem dedupBy_drop_prefix : ∀ (pre xs : List α) (seen : List τ), (∀ p ∈ pre, text p ∈ seen) →
    dedupBy text (pre ++ xs) seen = dedupBy text xs seen := by
  intro pre
  induction pre with
  | nil => intro xs seen _; rfl
  | cons p ps ih =>
    intro xs seen h
    rw [List.cons_append, dedupBy, if_pos (h p List.mem_cons_self)]
    exact ih xs seen (fun q hq => h q (List.mem_cons_of_mem _ hq))

/-- what the menu will still receive: the prefetch queue, then the first occurrences of new texts -/
def FMenu.pending (m : FMenu α τ) : List α :=
  m.queue ++ dedupBy text m.u.src (gtexts text m.cache ++ m.queue.map text)

/-- the uniquified menu seen as a plain `Menu` of first items -/
def FMenu.proj (m : FMenu α τ) : Menu α :=
  { cache := firsts m.cache, rest := (FMenu.pending text m).map some }

/-- the fixed uniquifier has emitted nothing but what is cached, queued or current -/
def FMenu.EmittedSub (fixed : Bool) (m : FMenu α τ) : Prop :=
  fixed = true → ∀ t ∈ m.u.emitted, t ∈ gtexts text m.cache ++ m.queue.map text ∨ ∃ x xs, m.u.src = x :: xs ∧ t = text x

theorem prepareLoop_nil_or_full (n : Nat) (c : List α) (r : Gen α) (h : ¬ c.length < n) :
    prepareLoop n c r = { cache := c, rest := r } := by
  cases r with
  | nil => rfl
  | cons x xs => unfold prepareLoop; rw [if_neg h]

/-- `Prepare` on the stateful pair = `Prepare` on its projection -/
theorem fmenu_prepareLoop_proj (fixed : Bool) (n : Nat) : ∀ (fuel : Nat) (m : FMenu α τ),
    FMenu.Inv text fixed m → FMenu.EmittedSub text fixed m → m.queue.length + m.u.src.length ≤ fuel →
    FMenu.proj text (FMenu.prepareLoop text fixed n fuel m) = RimeModel.C04.prepareLoop n (FMenu.proj text m).cache (FMenu.proj text m).rest ∧
    FMenu.EmittedSub text fixed (FMenu.prepareLoop text fixed n fuel m) := by
  intro fuel
  induction fuel with
  | zero =>
    intro m _ hsub hf
    have hq : m.queue = [] := List.length_eq_zero_iff.mp (by omega)
    have hs : m.u.src = [] := List.length_eq_zero_iff.mp (by omega)
    refine ⟨?_, hsub⟩
    show FMenu.proj text m = _
    unfold FMenu.proj FMenu.pending
    rw [hq, hs]
    simp [dedupBy, RimeModel.C04.prepareLoop]
  | succ fuel ih =>
    intro m hinv hsub hf
    unfold FMenu.prepareLoop
    by_cases hc : m.cache.length < n
    · rw [if_pos hc]
      cases hq : m.queue with
      | cons q qs =>
        dsimp only
        -- one element of the queue moves to the cache
        have hinv' := FMenu.prepareLoop_inv text fixed (m.cache.length + 1) 1 m hinv
        have hstep : FMenu.prepareLoop text fixed (m.cache.length + 1) 1 m =
            { m with cache := m.cache ++ [{ first := q }], queue := qs } := by
          unfold FMenu.prepareLoop
          rw [if_pos (Nat.lt_succ_self _), hq]
          rfl
        rw [hstep] at hinv'
        have e : gtexts text (m.cache ++ [{ first := q }]) ++ qs.map text = gtexts text m.cache ++ m.queue.map text := by
          rw [gtexts_append_one, hq]; simp
        have hsub' : FMenu.EmittedSub text fixed { m with cache := m.cache ++ [{ first := q }], queue := qs } := by
          intro hfx t ht
          show t ∈ gtexts text (m.cache ++ [{ first := q }]) ++ qs.map text ∨ _
          rw [e]; exact hsub hfx t ht
        obtain ⟨i1, i2⟩ := ih { m with cache := m.cache ++ [{ first := q }], queue := qs } hinv' hsub'
          (by rw [hq] at hf; simp only [List.length_cons] at hf; show qs.length + m.u.src.length ≤ fuel; omega)
        refine ⟨?_, i2⟩
        rw [i1]
        -- the projection of the stepped menu is one `prepareLoop` step of the projection
        have hp : FMenu.proj text m = (⟨firsts m.cache,
            some q :: (qs ++ dedupBy text m.u.src (gtexts text m.cache ++ m.queue.map text)).map some⟩ : Menu α) := by
          unfold FMenu.proj FMenu.pending
          rw [hq]; simp
        have hp' : FMenu.proj text { m with cache := m.cache ++ [{ first := q }], queue := qs } =
            (⟨firsts m.cache ++ [q],
              (qs ++ dedupBy text m.u.src (gtexts text m.cache ++ m.queue.map text)).map some⟩ : Menu α) := by
          unfold FMenu.proj FMenu.pending
          dsimp only
          rw [e, firsts_append_one]
        rw [hp, hp']
        dsimp only
        conv => rhs; unfold RimeModel.C04.prepareLoop
        rw [if_pos (by rw [firsts_length]; exact hc)]
      | nil =>
        dsimp only
        cases hs : m.u.src with
        | nil =>
          dsimp only
          refine ⟨?_, hsub⟩
          unfold FMenu.proj FMenu.pending
          rw [hq, hs]
          simp [dedupBy, RimeModel.C04.prepareLoop]
        | cons x xs =>
          dsimp only
          have hnext : m.u.next text fixed (m.cache ++ [{ first := x }]) =
              uniquify text fixed xs m.u.emitted (m.cache ++ [{ first := x }]) := by
            unfold Uniq.next; rw [hs]
          rw [hnext]
          -- invariants of the stepped menu (one iteration of the loop)
          have hstep : FMenu.prepareLoop text fixed (m.cache.length + 1) 1 m =
              { cache := (uniquify text fixed xs m.u.emitted (m.cache ++ [{ first := x }])).2, queue := [],
                u := (uniquify text fixed xs m.u.emitted (m.cache ++ [{ first := x }])).1 } := by
            unfold FMenu.prepareLoop
            rw [if_pos (Nat.lt_succ_self _), hq]
            dsimp only
            rw [hs]
            dsimp only
            rw [hnext]
            rfl
          have hinv' := FMenu.prepareLoop_inv text fixed (m.cache.length + 1) 1 m hinv
          rw [hstep] at hinv'
          obtain ⟨sa, _, sc⟩ := uniquify_spec text fixed m.u.emitted xs (m.cache ++ [{ first := x }])
          obtain ⟨fa, pre, hpre, hall⟩ := uniquify_dropped text fixed m.u.emitted xs (m.cache ++ [{ first := x }])
          have hxn : text x ∉ gtexts text m.cache := by
            have := hinv.head x xs hs
            rw [hq] at this
            simpa using this
          -- emitted ⊆ visible ∪ current, after the step
          have hsub' : FMenu.EmittedSub text fixed
              { cache := (uniquify text fixed xs m.u.emitted (m.cache ++ [{ first := x }])).2, queue := [],
                u := (uniquify text fixed xs m.u.emitted (m.cache ++ [{ first := x }])).1 } := by
            intro hfx t ht
            show t ∈ gtexts text (uniquify text fixed xs m.u.emitted (m.cache ++ [{ first := x }])).2 ++ ([] : List α).map text ∨
              ∃ y ys, (uniquify text fixed xs m.u.emitted (m.cache ++ [{ first := x }])).1.src = y :: ys ∧ t = text y
            rw [sa, gtexts_append_one]
            have hold : ∀ t, t ∈ m.u.emitted → t ∈ gtexts text m.cache ++ [text x] ++ ([] : List α).map text := by
              intro t ht
              rcases hsub hfx t ht with h1 | ⟨y, ys, hy, hty⟩
              · rw [hq] at h1
                simp only [List.map_nil, List.append_nil] at h1 ⊢
                exact List.mem_append_left _ h1
              · rw [hs] at hy; cases hy
                simp [hty]
            rcases sc with ⟨_, h2⟩ | ⟨z, zs, h1, _, h3⟩
            · left; rw [h2] at ht; exact hold t ht
            · rcases h3 with ⟨_, _, hem⟩ | ⟨hff, _⟩
              · rw [hem] at ht
                rcases List.mem_cons.mp ht with h | h
                · right; exact ⟨z, zs, h1, h⟩
                · left; exact hold t h
              · rw [hfx] at hff; cases hff
          have hlen : (uniquify text fixed xs m.u.emitted (m.cache ++ [{ first := x }])).1.src.length ≤ xs.length := by
            have := congrArg List.length hpre
            simp only [List.length_append] at this
            omega
          obtain ⟨i1, i2⟩ := ih _ hinv' hsub' (by
            rw [hq, hs] at hf
            simp only [List.length_cons, List.length_nil] at hf
            show ([] : List α).length + _ ≤ fuel
            simp only [List.length_nil]
            omega)
          refine ⟨?_, i2⟩
          rw [i1]
          -- projections before and after the step
          have hp : FMenu.proj text m = (⟨firsts m.cache,
              some x :: (dedupBy text xs (text x :: gtexts text m.cache)).map some⟩ : Menu α) := by
            unfold FMenu.proj FMenu.pending
            rw [hq, hs]
            simp only [List.nil_append, List.map_nil, List.append_nil]
            conv => lhs; unfold dedupBy
            rw [if_neg hxn]
            simp
          have hseen : ∀ p ∈ pre, text p ∈ gtexts text m.cache ++ [text x] := by
            intro p hp
            rcases hall p hp with h | ⟨hfx, h⟩
            · rw [gtexts_append_one] at h; exact h
            · rcases hsub hfx _ h with h1 | ⟨y, ys, hy, hty⟩
              · rw [hq] at h1
                simp only [List.map_nil, List.append_nil] at h1
                exact List.mem_append_left _ h1
              · rw [hs] at hy; cases hy
                simp [hty]
          have hp' : FMenu.proj text
              { cache := (uniquify text fixed xs m.u.emitted (m.cache ++ [{ first := x }])).2, queue := [],
                u := (uniquify text fixed xs m.u.emitted (m.cache ++ [{ first := x }])).1 } =
              (⟨firsts m.cache ++ [x], (dedupBy text xs (text x :: gtexts text m.cache)).map some⟩ : Menu α) := by
            unfold FMenu.proj FMenu.pending
            dsimp only
            rw [fa, firsts_append_one, sa, gtexts_append_one]
            simp only [List.nil_append, List.map_nil, List.append_nil]
            congr 2
            have e1 : dedupBy text xs (gtexts text m.cache ++ [text x]) =
                dedupBy text (uniquify text fixed xs m.u.emitted (m.cache ++ [{ first := x }])).1.src (gtexts text m.cache ++ [text x]) := by
              conv => lhs; rw [hpre]
              exact dedupBy_drop_prefix text pre _ _ hseen
            rw [← e1]
            apply dedupBy_congr
            intro t
            simp only [List.mem_append, List.mem_cons, List.not_mem_nil, or_false]
            constructor
            · rintro (h | h)
              · exact Or.inr h
              · exact Or.inl h
            · rintro (h | h)
              · exact Or.inr h
              · exact Or.inl h
          rw [hp, hp']
          dsimp only
          conv => rhs; unfold RimeModel.C04.prepareLoop
          rw [if_pos (by rw [firsts_length]; exact hc)]
    · rw [if_neg hc]
      refine ⟨?_, hsub⟩
      rw [prepareLoop_nil_or_full]
      show ¬ (firsts m.cache).length < n
      rw [firsts_length]; exact hc

theorem fmenu_ofUniq_emittedSub (fixed : Bool) (src : List α) :
    FMenu.EmittedSub text fixed (FMenu.ofUniq text fixed src) := by
  unfold FMenu.ofUniq Uniq.create
  intro hfx t ht
  obtain ⟨_, _, c⟩ := uniquify_spec text fixed [] src []
  right
  change t ∈ (uniquify text fixed src [] []).1.emitted at ht
  show ∃ x xs, (uniquify text fixed src [] []).1.src = x :: xs ∧ t = text x
  rcases c with ⟨_, h2⟩ | ⟨z, zs, h1, _, h3⟩
  · rw [h2] at ht; cases ht
  · rcases h3 with ⟨_, _, hem⟩ | ⟨hff, _⟩
    · rw [hem] at ht
      rcases List.mem_cons.mp ht with h | h
      · exact ⟨z, zs, h1, h⟩
      · cases h
    · rw [hfx] at hff; cases hff

/-- the uniquifier as last filter over an empty cache: the menu's list is the first occurrences of the
source — the `dedupByText` of the session driver -/
theorem fmenu_ofUniq_full (fixed : Bool) (src : List α) :
    (FMenu.proj text (FMenu.ofUniq text fixed src)).full = dedupBy text src [] := by
  unfold FMenu.ofUniq Uniq.create
  obtain ⟨fa, pre, hpre, hall⟩ := uniquify_dropped text fixed [] src []
  obtain ⟨sa, _, _⟩ := uniquify_spec text fixed [] src []
  have hpre0 : pre = [] := by
    cases pre with
    | nil => rfl
    | cons p ps =>
      rcases hall p List.mem_cons_self with h | ⟨_, h⟩
      · simp [gtexts] at h
      · cases h
  rw [hpre0, List.nil_append] at hpre
  unfold Menu.full FMenu.proj FMenu.pending Gen.outputs
  dsimp only
  have hf : firsts (uniquify text fixed src [] []).2 = [] := by rw [fa]; rfl
  have hg : gtexts text (uniquify text fixed src [] []).2 = [] := by rw [sa]; rfl
  rw [hf, hg, ← hpre]
  simp

/-- `Rearrange` keeps "emitted ⊆ prefetched ∪ current" -/
theorem rearrangeLoop_emittedSub (isTable single : α → Bool) : ∀ (fuel : Nat) (u : Uniq α τ) (vis : List (Group α)) (top bottom : List α),
    (∀ t ∈ u.emitted, t ∈ (top ++ bottom).map text ∨ ∃ x xs, u.src = x :: xs ∧ t = text x) →
    let r := rearrangeLoop text true isTable single fuel u vis top bottom
    ∀ t ∈ r.2.2.1.emitted, t ∈ (r.1 ++ r.2.1).map text ∨ ∃ x xs, r.2.2.1.src = x :: xs ∧ t = text x := by
  intro fuel
  induction fuel with
  | zero => intro u vis top bottom h; exact h
  | succ fuel ih =>
    intro u vis top bottom h
    dsimp only
    unfold rearrangeLoop
    cases hs : u.src with
    | nil => exact h
    | cons x xs =>
      dsimp only
      by_cases ht : (!isTable x) = true
      · rw [if_pos ht]; exact h
      · rw [if_neg ht]
        have hnext : u.next text true vis = uniquify text true xs u.emitted vis := by
          unfold Uniq.next; rw [hs]
        rw [hnext]
        obtain ⟨_, _, c⟩ := uniquify_spec text true u.emitted xs vis
        -- after moving x to `top` or `bottom` and advancing the uniquifier
        have key : ∀ (tb : List α), (∀ t, t ∈ (top ++ bottom).map text ∨ t = text x → t ∈ tb.map text) →
            ∀ t ∈ (uniquify text true xs u.emitted vis).1.emitted,
              t ∈ tb.map text ∨ ∃ y ys, (uniquify text true xs u.emitted vis).1.src = y :: ys ∧ t = text y := by
          intro tb htb t ht'
          have hold : ∀ t, t ∈ u.emitted → t ∈ tb.map text := by
            intro t hte
            rcases h t hte with h1 | ⟨y, ys, hy, hty⟩
            · exact htb t (Or.inl h1)
            · rw [hs] at hy; cases hy; exact htb t (Or.inr hty)
          rcases c with ⟨_, h2⟩ | ⟨z, zs, h1, _, h3⟩
          · left; rw [h2] at ht'; exact hold t ht'
          · rcases h3 with ⟨_, _, hem⟩ | ⟨hff, _⟩
            · rw [hem] at ht'
              rcases List.mem_cons.mp ht' with h | h
              · right; exact ⟨z, zs, h1, h⟩
              · left; exact hold t h
            · cases hff
        by_cases hsg : single x = true
        · rw [if_pos hsg]
          apply ih
          apply key (top ++ [x] ++ bottom)
          intro t ht'
          simp only [List.map_append, List.map_cons, List.map_nil, List.mem_append, List.mem_singleton] at ht' ⊢
          rcases ht' with (h1 | h1) | h1
          · exact Or.inl (Or.inl h1)
          · exact Or.inr h1
          · exact Or.inl (Or.inr h1)
        · rw [if_neg hsg]
          apply ih
          apply key (top ++ (bottom ++ [x]))
          intro t ht'
          simp only [List.map_append, List.map_cons, List.map_nil, List.mem_append, List.mem_singleton] at ht' ⊢
          rcases ht' with (h1 | h1) | h1
          · exact Or.inl h1
          · exact Or.inr (Or.inl h1)
          · exact Or.inr (Or.inr h1)

theorem fmenu_ofUniqThenSingleChar_emittedSub (isTable single : α → Bool) (src : List α) :
    FMenu.EmittedSub text true (FMenu.ofUniqThenSingleChar text true isTable single src) := by
  unfold FMenu.ofUniqThenSingleChar
  dsimp only
  intro _ t ht
  have h0 : ∀ t ∈ (Uniq.create text true src []).1.emitted,
      t ∈ (([] : List α) ++ []).map text ∨ ∃ x xs, (Uniq.create text true src []).1.src = x :: xs ∧ t = text x := by
    intro t ht
    have := fmenu_ofUniq_emittedSub text true src rfl t ht
    rcases this with h | h
    · left
      have hg : gtexts text (FMenu.ofUniq text true src).cache = [] := by
        unfold FMenu.ofUniq Uniq.create
        obtain ⟨sa, _, _⟩ := uniquify_spec text true [] src []
        exact sa
      rw [hg] at h
      simp [FMenu.ofUniq] at h
    · right; exact h
  have hinv0 : RearrInv text (Uniq.create text true src []).1 (Uniq.create text true src []).2 [] [] := by
    obtain ⟨a, _, _⟩ := uniquify_spec text true [] src []
    exact ⟨a, by simp, by intro t ht; simp at ht, create_headIn text src [], by intro x xs _; simp⟩
  have hinv := rearrangeLoop_inv text isTable single (src.length + 1) _ _ [] [] hinv0
  have h := rearrangeLoop_emittedSub text isTable single (src.length + 1) _ (Uniq.create text true src []).2 [] [] h0
  dsimp only at h hinv
  rcases h t ht with h1 | h1
  · left
    show t ∈ gtexts text _ ++ _
    rw [hinv.vis]
    simpa using h1
  · right; exact h1

end

end RimeModel.C04
