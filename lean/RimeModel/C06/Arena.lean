/-!
# M-arena — `MappedFile` as (capacity, size, bytes), `Allocate`, `OffsetPtr`
(src/rime/dict/mapped_file.h:137-157 `Allocate<T>`, 20-51 `OffsetPtr`; mapped_file.cc `Create`, `Resize`)

`Allocate<T>(count)`: `used = RIME_ALIGNED(size_, T)`; if `used + sizeof(T)*count > capacity` the file is
resized to `max(used + required, 2*capacity)` (the mapping is closed and re-opened — every raw pointer into
the old mapping is dead from here on; the model has no raw pointers, only offsets, which is exactly why it
cannot exhibit that defect); the block is zero-filled; `size_ = used + required`; the block starts at
offset `used`.  `RIME_ALIGNED(n, T) = (n + alignof(T) - 1) & ~(alignof(T) - 1)`, which for the powers of two
`alignof` yields is `alignUp` below.  `resize_file` extends with zero bytes and keeps the old content.
-/
namespace RimeModel.Arena

structure Arena where
  capacity : Nat
  size : Nat
  bytes : List UInt8
deriving Repr

def Arena.WF (a : Arena) : Prop := a.bytes.length = a.capacity ∧ a.size ≤ a.capacity

/-- `MappedFile::Create(capacity)`: a file of `capacity` zero bytes, nothing used -/
def create (capacity : Nat) : Arena := { capacity := capacity, size := 0, bytes := List.replicate capacity 0 }

/-- round `n` up to a multiple of `al` -/
def alignUp (al n : Nat) : Nat := (n + al - 1) / al * al

def newCapacity (a : Arena) (need : Nat) : Nat :=
  if a.capacity < need then max need (2 * a.capacity) else a.capacity

/-- `Allocate<T>(count)` with `al = alignof(T)`, `sz = sizeof(T) * count`: the new arena and the block's offset -/
def allocate (a : Arena) (al sz : Nat) : Arena × Nat :=
  let used := alignUp al a.size
  let cap := newCapacity a (used + sz)
  let grown := a.bytes ++ List.replicate (cap - a.capacity) 0
  ({ capacity := cap, size := used + sz,
     bytes := grown.take used ++ List.replicate sz 0 ++ grown.drop (used + sz) }, used)

/-! ## `OffsetPtr<T, int32_t>`: a signed 32-bit offset relative to the address of the field itself -/

/-- conversion of a pointer difference to `int32_t` (two's complement wrap) -/
def wrap32 (x : Int) : Int := (x + 2 ^ 31) % 2 ^ 32 - 2 ^ 31

/-- `to_offset(ptr)` for a field at address `self`: `ptr ? ptr - &offset_ : 0` (`none` = null pointer) -/
def ptrSet (self : Nat) (target : Option Nat) : Int :=
  match target with
  | none => 0
  | some t => wrap32 ((t : Int) - (self : Int))

/-- `get()`: `offset_ ? (char*)&offset_ + offset_ : NULL` -/
def ptrGet (self : Nat) (off : Int) : Option Int :=
  if off = 0 then none else some ((self : Int) + off)

end RimeModel.Arena
