import RimeModel.C06.Arena
/-! helper lemmas for M-arena (free to change) -/
namespace RimeModel.Arena

theorem le_alignUp (al n : Nat) (h : 0 < al) : n ≤ alignUp al n := by
  unfold alignUp
  have h1 := Nat.div_add_mod (n + al - 1) al
  have h2 := Nat.mod_lt (n + al - 1) h
  have h3 : al * ((n + al - 1) / al) = (n + al - 1) / al * al := Nat.mul_comm _ _
  omega

theorem alignUp_lt (al n : Nat) (h : 0 < al) : alignUp al n < n + al := by
  unfold alignUp
  have h1 := Nat.div_add_mod (n + al - 1) al
  have h3 : al * ((n + al - 1) / al) = (n + al - 1) / al * al := Nat.mul_comm _ _
  omega

theorem alignUp_dvd (al n : Nat) : al ∣ alignUp al n := by
  unfold alignUp
  exact Nat.dvd_mul_left _ _

theorem alignUp_of_dvd (al n : Nat) (h : 0 < al) (hd : al ∣ n) : alignUp al n = n := by
  obtain ⟨k, rfl⟩ := hd
  unfold alignUp
  have : (al * k + al - 1) / al = k := by
    have e : al * k + al - 1 = al * k + (al - 1) := by omega
    rw [e, Nat.mul_add_div h, Nat.div_eq_of_lt (by omega)]
    simp
  rw [this, Nat.mul_comm]

theorem le_newCapacity (a : Arena) (need : Nat) : a.capacity ≤ newCapacity a need ∧ need ≤ newCapacity a need := by
  unfold newCapacity
  split <;> omega

end RimeModel.Arena

namespace RimeModel.Arena

theorem grown_length (a : Arena) (hw : a.WF) (cap : Nat) (h : a.capacity ≤ cap) :
    (a.bytes ++ List.replicate (cap - a.capacity) 0).length = cap := by
  simp [hw.1]; omega

theorem allocate_bytes_length (a : Arena) (hw : a.WF) (al sz : Nat) :
    (allocate a al sz).1.bytes.length = (allocate a al sz).1.capacity := by
  have hc := le_newCapacity a (alignUp al a.size + sz)
  simp only [allocate, List.length_append, List.length_take, List.length_replicate, List.length_drop, hw.1]
  omega

theorem allocate_get_below (a : Arena) (hw : a.WF) (al sz : Nat) (hal : 0 < al) (i : Nat) (hi : i < a.size) :
    (allocate a al sz).1.bytes[i]? = a.bytes[i]? := by
  have hc := le_newCapacity a (alignUp al a.size + sz)
  have hu := le_alignUp al a.size hal
  have hg := grown_length a hw _ hc.1
  simp only [allocate]
  rw [List.append_assoc, List.getElem?_append_left (by simp [hw.1]; omega)]
  rw [List.getElem?_take_of_lt (by omega)]
  rw [List.getElem?_append_left (by rw [hw.1]; exact Nat.lt_of_lt_of_le hi hw.2)]

theorem allocate_get_block (a : Arena) (hw : a.WF) (al sz : Nat) (i : Nat) (hi : i < sz) :
    (allocate a al sz).1.bytes[(allocate a al sz).2 + i]? = some 0 := by
  have hc := le_newCapacity a (alignUp al a.size + sz)
  have hg := grown_length a hw _ hc.1
  simp only [allocate]
  rw [List.append_assoc, List.getElem?_append_right (by simp [hw.1]; omega)]
  have hl : (List.take (alignUp al a.size) (a.bytes ++ List.replicate (newCapacity a (alignUp al a.size + sz) - a.capacity) 0)).length
      = alignUp al a.size := by
    rw [List.length_take, hg]; omega
  rw [hl, List.getElem?_append_left (by simp; omega)]
  simp [List.getElem?_replicate]
  omega

end RimeModel.Arena
