/-!
# C06 — basics: byte strings, `std::string` order, sorted sets (`std::set`, `std::map` key order)

Everything here is executable and core-only.  `std::set<string>` / `std::map<int, …>` are modelled as
strictly ascending lists; iteration order of the C++ containers is the list order.
-/
namespace RimeModel.C06

abbrev Bytes := List UInt8

/-- `std::string::operator<` : lexicographic on unsigned bytes, a proper prefix is smaller. -/
def bytesLt : Bytes → Bytes → Bool
  | [], [] => false
  | [], _ :: _ => true
  | _ :: _, [] => false
  | a :: as, b :: bs => if a < b then true else if b < a then false else bytesLt as bs

/-- What a strict total order has to satisfy for the sorted-set lemmas. -/
structure StrictTotal {α : Type} (lt : α → α → Bool) : Prop where
  irrefl : ∀ a, lt a a = false
  trans : ∀ a b c, lt a b = true → lt b c = true → lt a c = true
  tri : ∀ a b, lt a b = false → lt b a = false → a = b

/-- insertion into a strictly ascending list (`std::set::insert`) -/
def insertSet {α : Type} (lt : α → α → Bool) (x : α) : List α → List α
  | [] => [x]
  | y :: ys => if lt x y then x :: y :: ys else if lt y x then y :: insertSet lt x ys else y :: ys

/-- the sorted set of the members of a list -/
def sortDedup {α : Type} (lt : α → α → Bool) (l : List α) : List α :=
  l.foldl (fun acc x => insertSet lt x acc) []

def natLt (a b : Nat) : Bool := a < b

end RimeModel.C06
