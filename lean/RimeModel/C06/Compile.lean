import RimeModel.C06.Source
import RimeModel.C06.Table
import RimeModel.C06.Reverse
import RimeModel.C06.Weight
/-!
# C06 — `DictCompiler::BuildTable` (dict_compiler.cc:216-278): from collected entries to the table

syllable ids = ranks in the ascending syllabary; an entry whose code has no syllable is refused by
`LocateEntries` ("Error locating entries") and dropped; `SortHomophones` unless `sort: original`;
`Table::Build` with `collector.syllabary.size()` head nodes; `ReverseDb::Build` on the same vocabulary.
`wt` is the weight the compiler derives from the weight column (Weight.lean: `effectiveWeight`).
-/
namespace RimeModel.C06

section
variable {W : Type}

def compileRows (wt : Bytes → W) (c : Collector) : List (CRow W) :=
  (c.entries.filter (fun r => !r.code.isEmpty)).map fun r =>
    { code := r.code.map (syllableId c.syllabary), text := r.text, weight := wt r.weightStr }

def compileTable (S : List (CRow W) → List (CRow W)) (wt : Bytes → W) (c : Collector) : Tree W :=
  build S c.syllabary.length (compileRows wt c)

def compileReverse (wt : Bytes → W) (c : Collector) : List (Bytes × List Bytes) :=
  reverseTable c.syllabary (compileRows wt c)

/-- an enumerated row with its code spelled out again (`Table::GetSyllableById` per id) -/
def decodeRow (syl : List Bytes) (r : CRow W) : Bytes × List Bytes × W :=
  (r.text, r.code.map (fun i => syl.getD i []), r.weight)

/-- the source row an entry stands for: (text, syllables, weight) -/
def sourceTriple (wt : Bytes → W) (r : SRow) : Bytes × List Bytes × W := (r.text, r.code, wt r.weightStr)

end

/-- `Vocabulary::SortHomophones` on one page as the model runs it: stable merge sort, weight descending
(`std::sort` is unstable; the theorems accept any weight-sorted permutation) -/
def sortHomophones (l : List (CRow Wt)) : List (CRow Wt) := l.mergeSort (fun a b => Wt.le b.weight a.weight)

/-- the weight reading the model runs: `effectiveWeight`, with `eps` where the syntax is outside the model
(the driver refuses such sources before it gets here) -/
def modelWeight (w : Bytes) : Wt := (effectiveWeight w).getD .eps

end RimeModel.C06
