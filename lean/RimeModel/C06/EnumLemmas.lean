import RimeModel.C06.Lemmas
/-! C06: the walk over the built index meets every row exactly once (helper lemmas; free to change) -/
namespace RimeModel.C06

theorem flatMap_congr' {α β : Type} {f g : α → List β} : ∀ (l : List α), (∀ x ∈ l, f x = g x) →
    l.flatMap f = l.flatMap g
  | [], _ => rfl
  | x :: xs, h => by
    simp only [List.flatMap_cons]
    rw [h x (by simp), flatMap_congr' xs (fun y hy => h y (by simp [hy]))]

theorem flatMap_perm_congr {α β : Type} {f g : α → List β} : ∀ (l : List α), (∀ x ∈ l, (f x).Perm (g x)) →
    (l.flatMap f).Perm (l.flatMap g)
  | [], _ => by simp
  | x :: xs, h => by
    simp only [List.flatMap_cons]
    exact List.Perm.append (h x (by simp)) (flatMap_perm_congr xs (fun y hy => h y (by simp [hy])))

/-- rows split by a key into the blocks of a duplicate-free key list that covers them -/
theorem perm_flatMap_filter_key {α : Type} (key : α → Nat) : ∀ (ks : List Nat), ks.Nodup → ∀ (l : List α),
    (∀ x ∈ l, key x ∈ ks) → (ks.flatMap fun k => l.filter (fun x => key x == k)).Perm l
  | [], _, l, hall => by
    cases l with
    | nil => simp
    | cons x xs => exact absurd (hall x (by simp)) (by simp)
  | k :: ks, hnd, l, hall => by
    simp only [List.flatMap_cons]
    have hnd' := List.nodup_cons.mp hnd
    refine List.Perm.trans ?_ (List.filter_append_perm (fun x => key x == k) l)
    refine List.Perm.append_left _ ?_
    have h2 : ks.flatMap (fun k' => l.filter (fun x => key x == k'))
        = ks.flatMap (fun k' => (l.filter (fun x => !(key x == k))).filter (fun x => key x == k')) := by
      apply flatMap_congr'
      intro k' hk'
      rw [List.filter_filter]
      apply List.filter_congr
      intro x _
      have hne : k' ≠ k := fun e => hnd'.1 (e ▸ hk')
      by_cases hx : key x = k'
      · subst hx; simp [hne]
      · simp [hx]
    rw [h2]
    apply perm_flatMap_filter_key key ks hnd'.2
    intro x hx
    simp only [List.mem_filter] at hx
    have := hall x hx.1
    rcases List.mem_cons.mp this with h | h
    · simp [h] at hx
    · exact h

theorem flatMap_single {α β : Type} [DecidableEq α] (f : α → List β) (k0 : α) : ∀ (ks : List α), ks.Nodup →
    (∀ k ∈ ks, k ≠ k0 → f k = []) → ks.flatMap f = if k0 ∈ ks then f k0 else []
  | [], _, _ => by simp
  | k :: ks, hnd, h => by
    have hnd' := List.nodup_cons.mp hnd
    simp only [List.flatMap_cons]
    by_cases hk : k = k0
    · subst hk
      have : ks.flatMap f = [] := by
        rw [flatMap_single f k ks hnd'.2 (fun k' hk' hne => h k' (by simp [hk']) hne)]
        simp [hnd'.1]
      simp [this]
    · rw [h k (by simp) hk, flatMap_single f k0 ks hnd'.2 (fun k' hk' hne => h k' (by simp [hk']) hne)]
      have : (k0 = k) = False := by simp; exact fun e => hk e.symm
      simp [List.mem_cons, this]

section Enum
variable {W : Type}

/-- the rows in the order the walk meets them below page `p`, with `d` trunk levels still to go
(`d = 0`: the level whose `next_level` is the tail page) -/
def enumD (S : List (CRow W) → List (CRow W)) : Nat → List Nat → List (CRow W) → List (CRow W)
  | 0, p, rs => S (pageAt p rs) ++ S (pageBelow p rs)
  | d + 1, p, rs => S (pageAt p rs) ++ (childKeys p rs).flatMap (fun k => enumD S d (p ++ [k]) rs)

theorem prefix_snoc_iff (p c : List Nat) (k : Nat) :
    (p ++ [k]) <+: c ↔ (p <+: c ∧ p.length < c.length ∧ c.getD p.length 0 = k) := by
  constructor
  · rintro ⟨t, rfl⟩
    refine ⟨⟨[k] ++ t, by simp⟩, by simp, ?_⟩
    simp [List.getD, List.getElem?_append_left, List.getElem?_append_right]
  · rintro ⟨⟨t, rfl⟩, hlen, hk⟩
    cases t with
    | nil => simp at hlen
    | cons a t =>
      simp [List.getD, List.getElem?_append_right] at hk
      subst hk
      exact ⟨t, by simp⟩

theorem pageUnder_split (p : List Nat) (rs : List (CRow W)) :
    (pageAt p rs ++ pageBelow p rs).Perm (pageUnder p rs) := by
  unfold pageAt pageBelow pageUnder
  have h := List.filter_append_perm (fun r : CRow W => r.code == p) (rs.filter (fun r => p.isPrefixOf r.code))
  refine List.Perm.trans ?_ h
  rw [List.filter_filter, List.filter_filter]
  have e1 : rs.filter (fun r => r.code == p) = rs.filter (fun a => a.code == p && p.isPrefixOf a.code) := by
    apply List.filter_congr
    intro x _
    by_cases hx : x.code = p
    · simp [hx]
    · simp [hx]
  have e2 : rs.filter (fun r => p.isPrefixOf r.code && decide (p.length < r.code.length))
      = rs.filter (fun a => (!(a.code == p)) && p.isPrefixOf a.code) := by
    apply List.filter_congr
    intro x _
    by_cases hp : p.isPrefixOf x.code = true
    · have hp' := List.isPrefixOf_iff_prefix.mp hp
      obtain ⟨t, ht⟩ := hp'
      by_cases hx : x.code = p
      · simp [hx]
      · have : p.length < x.code.length := by
          rw [← ht]; cases t with
          | nil => simp at ht; exact absurd ht.symm hx
          | cons a t => simp
        simp [hp, hx, this]
    · simp [hp]
  rw [e1, e2]

theorem pageBelow_split (p : List Nat) (rs : List (CRow W)) :
    ((childKeys p rs).flatMap fun k => pageUnder (p ++ [k]) rs).Perm (pageBelow p rs) := by
  have hk := perm_flatMap_filter_key (fun r : CRow W => r.code.getD p.length 0) (childKeys p rs)
    (nodup_sortDedup natLt_strict _) (pageBelow p rs)
    (by
      intro x hx
      unfold childKeys
      rw [mem_sortDedup natLt_strict]
      exact List.mem_map_of_mem hx)
  refine List.Perm.trans (List.Perm.of_eq ?_) hk
  apply flatMap_congr'
  intro k _
  unfold pageUnder pageBelow
  rw [List.filter_filter]
  apply List.filter_congr
  intro x _
  rw [Bool.eq_iff_iff]
  simp only [Bool.and_eq_true, beq_iff_eq, decide_eq_true_eq, List.isPrefixOf_iff_prefix]
  rw [prefix_snoc_iff]
  constructor
  · rintro ⟨a, b, c⟩; exact ⟨c, a, b⟩
  · rintro ⟨c, a, b⟩; exact ⟨a, b, c⟩

theorem enumD_perm (S : List (CRow W) → List (CRow W)) (hS : ∀ l, (S l).Perm l) (rs : List (CRow W)) :
    ∀ (d : Nat) (p : List Nat), (enumD S d p rs).Perm (pageUnder p rs)
  | 0, p => by
    unfold enumD
    exact List.Perm.trans (List.Perm.append (hS _) (hS _)) (pageUnder_split p rs)
  | d + 1, p => by
    unfold enumD
    refine List.Perm.trans ?_ (pageUnder_split p rs)
    refine List.Perm.append (hS _) ?_
    refine List.Perm.trans ?_ (pageBelow_split p rs)
    apply flatMap_perm_congr
    intro k _
    exact enumD_perm S hS rs d (p ++ [k])

/-- all rows with a non-empty code whose first syllable id is below `n`, by first syllable -/
theorem head_split (n : Nat) (rs : List (CRow W)) (h : ∀ r ∈ rs, r.code ≠ [] ∧ r.code.getD 0 0 < n) :
    ((List.range n).flatMap fun s => pageUnder [s] rs).Perm rs := by
  have hk := perm_flatMap_filter_key (fun r : CRow W => r.code.getD 0 0) (List.range n) List.nodup_range rs
    (by intro x hx; exact List.mem_range.mpr (h x hx).2)
  refine List.Perm.trans (List.Perm.of_eq ?_) hk
  apply flatMap_congr'
  intro s _
  unfold pageUnder
  apply List.filter_congr
  intro x hx
  have hne := (h x hx).1
  cases hc : x.code with
  | nil => exact absurd hc hne
  | cons a t =>
    by_cases ha : a = s
    · subst ha; simp [List.isPrefixOf]
    · have h1 : (s == a) = false := by simpa using fun e => ha e.symm
      have h2 : (a == s) = false := by simpa using ha
      simp [List.isPrefixOf, List.getD, h1, h2]

end Enum
end RimeModel.C06
