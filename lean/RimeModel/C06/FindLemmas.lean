import RimeModel.C06.Lemmas
/-! C06: `LocateEntries` in closed form, `find_node` on ascending keys (helper lemmas; free to change) -/
namespace RimeModel.C06

theorem locate_closed (code : List Nat) : locate code = if code = [] then none else some (pagePath code) := by
  match code with
  | [] => simp [locate, locateLoop]
  | [a] => simp [locate, locateLoop, pagePath, indexDepth]
  | [a, b] => simp [locate, locateLoop, pagePath, indexDepth]
  | [a, b, c] => simp [locate, locateLoop, pagePath, indexDepth]
  | a :: b :: c :: d :: rest =>
    simp [locate, locateLoop, pagePath, indexDepth]

/-! ### binary search -/

theorem asc_getD_lt {ks : List Nat} (hs : Ascending natLt ks) {i j : Nat} (hij : i < j) (hj : j < ks.length) :
    ks.getD i 0 < ks.getD j 0 := by
  have hi : i < ks.length := Nat.lt_trans hij hj
  have := (List.pairwise_iff_getElem.mp hs) i j hi hj hij
  simp only [natLt, decide_eq_true_eq] at this
  simpa [List.getD, List.getElem?_eq_getElem hi, List.getElem?_eq_getElem hj] using this

theorem asc_getD_le {ks : List Nat} (hs : Ascending natLt ks) {i j : Nat} (hij : i ≤ j) (hj : j < ks.length) :
    ks.getD i 0 ≤ ks.getD j 0 := by
  rcases Nat.lt_or_eq_of_le hij with h | h
  · exact Nat.le_of_lt (asc_getD_lt hs h hj)
  · subst h; exact Nat.le_refl _

theorem lowerBound_spec (ks : List Nat) (key : Nat) (hs : Ascending natLt ks) : ∀ (fuel lo len : Nat),
    len ≤ fuel → lo + len ≤ ks.length →
    (∀ j, j < lo → ks.getD j 0 < key) → (∀ j, lo + len ≤ j → j < ks.length → key ≤ ks.getD j 0) →
    lowerBound ks key fuel lo len ≤ ks.length ∧
    (∀ j, j < lowerBound ks key fuel lo len → ks.getD j 0 < key) ∧
    (∀ j, lowerBound ks key fuel lo len ≤ j → j < ks.length → key ≤ ks.getD j 0)
  | 0, lo, len, hf, hb, hlo, hhi => by
    have : len = 0 := by omega
    subst this
    simp only [lowerBound]
    exact ⟨by omega, hlo, fun j hj => hhi j (by omega)⟩
  | fuel + 1, lo, len, hf, hb, hlo, hhi => by
    simp only [lowerBound]
    by_cases h0 : len = 0
    · subst h0
      simp only [beq_self_eq_true, if_true]
      exact ⟨by omega, hlo, fun j hj => hhi j (by omega)⟩
    · have hne : (len == 0) = false := by simpa using h0
      simp only [hne]
      have hhalf : len / 2 < len := Nat.div_lt_self (by omega) (by omega)
      by_cases hm : ks.getD (lo + len / 2) 0 < key
      · simp only [hm, if_true]
        apply lowerBound_spec ks key hs fuel (lo + len / 2 + 1) (len - len / 2 - 1) (by omega) (by omega)
        · intro j hj
          have : j ≤ lo + len / 2 := by omega
          exact Nat.lt_of_le_of_lt (asc_getD_le hs this (by omega)) hm
        · intro j hj hjl
          exact hhi j (by omega) hjl
      · simp only [hm, if_false]
        apply lowerBound_spec ks key hs fuel lo (len / 2) (by omega) (by omega) hlo
        intro j hj hjl
        have : key ≤ ks.getD (lo + len / 2) 0 := by omega
        exact Nat.le_trans this (asc_getD_le hs hj hjl)

theorem findNode_iff (ks : List Nat) (key : Nat) (hs : Ascending natLt ks) (i : Nat) :
    findNode ks key = some i ↔ (i < ks.length ∧ ks.getD i 0 = key) := by
  have sp := lowerBound_spec ks key hs ks.length 0 ks.length (Nat.le_refl _) (by omega)
    (fun j hj => by omega) (fun j hj hjl => by omega)
  unfold findNode
  simp only
  generalize lowerBound ks key ks.length 0 ks.length = r at sp
  obtain ⟨hr, hlt, hge⟩ := sp
  constructor
  · intro h
    split at h
    · exact absurd h (by simp)
    · rename_i hc
      simp only [Bool.or_eq_true, beq_iff_eq, decide_eq_true_eq, not_or] at hc
      have hri : r = i := by simpa using h
      subst hri
      have hl : r < ks.length := by omega
      exact ⟨hl, by have := hge r (Nat.le_refl _) hl; omega⟩
  · rintro ⟨hi, hk⟩
    have h1 : r ≤ i := by
      apply Nat.le_of_not_lt
      intro hlt'
      have := hlt i hlt'
      omega
    have h2 : r = i := by
      rcases Nat.lt_or_eq_of_le h1 with h | h
      · have := asc_getD_lt hs h hi
        have := hge r (Nat.le_refl _) (by omega)
        omega
      · exact h
    subst h2
    have hc : (r == ks.length || decide (key < ks.getD r 0)) = false := by
      rw [Bool.or_eq_false_iff]
      exact ⟨by simpa using (by omega : r ≠ ks.length), by simpa using (by omega : ks.getD r 0 ≤ key)⟩
    rw [hc]; rfl

end RimeModel.C06
