import RimeModel.C06.Table
import RimeModel.C06.Arena
/-!
# C06 — the allocations `Table::Build` issues, and the size bound that keeps the file from growing
(table.cc: `Build` 382-440, `BuildHeadIndex/BuildTrunkIndex/BuildTailIndex/BuildEntryList`,
`EntryListSize/TailIndexSize/TrunkIndexSize/HeadIndexSize` 325-380 — the repair of the table-growth defect)

While the index is being built the C++ code holds raw pointers and references into the mapping (index
nodes, entry lists, the `StringId*` the string-table builder patches later).  They survive only if no
`Allocate` between `Create` and `OnBuildFinish` has to grow (= close, resize, re-map) the file.  The repair
creates the file with `kReservedSize + index_size` bytes where `index_size` is computed by the four size
functions below; `index_fits_estimate` (Props/C06.lean) proves that the allocation sequence of *any* index
stays inside that many bytes.  The record sizes are the `sizeof`s of table.h (checked against the compiled
headers on every run by the harness: `sizes` line).
-/
namespace RimeModel.C06
open RimeModel.Arena

def szMetadata : Nat := 68        -- sizeof(table::Metadata): char[32] + 9 four-byte fields
def szHeadNode : Nat := 12        -- sizeof(table::HeadIndexNode)
def szTrunkNode : Nat := 16       -- sizeof(table::TrunkIndexNode)
def szLongEntry : Nat := 16       -- sizeof(table::LongEntry)
def szEntry : Nat := 8            -- sizeof(table::Entry)
def szStringType : Nat := 4       -- sizeof(table::StringType)
def szSyllableId : Nat := 4       -- sizeof(SyllableId)
def szArrayHeader : Nat := 4      -- sizeof(Array<T>) - sizeof(T): the `size` field
def alEntry : Nat := 4            -- alignof(table::Entry) = alignof(SyllableId) = alignof(table::Metadata)
def kAllocPadding : Nat := 4      -- the repair's per-allocation allowance (= alignof(table::Entry))
def kReservedSize : Nat := 4096

section
variable {W : Type}

/-! ## the allocation requests (alignment, bytes), in the order `Build` issues them -/

/-- `CreateArray<T>(n)` = `Allocate<char>(sizeof(Array<T>) + sizeof(T)*(n-1))`: byte alignment -/
def arrayAlloc (elem n : Nat) : Nat × Nat := (1, szArrayHeader + elem * n)

/-- `BuildEntryList`: `Allocate<table::Entry>(n)` (also issued for an empty list) -/
def entryListAlloc (n : Nat) : Nat × Nat := (alEntry, szEntry * n)

/-- `BuildTailIndex`: the array of long entries, then one `Allocate<SyllableId>(extra_code_length)` per entry -/
def tailAllocs (t : List (LongEntry W)) : List (Nat × Nat) :=
  arrayAlloc szLongEntry t.length :: t.map (fun e => (alEntry, szSyllableId * e.extra.length))

def node3Allocs (n : Node3 W) : List (Nat × Nat) :=
  entryListAlloc n.entries.length :: (match n.tail with | none => [] | some t => tailAllocs t)

/-- `BuildTrunkIndex` for third-level nodes -/
def trunk3Allocs (ns : List (Node3 W)) : List (Nat × Nat) :=
  arrayAlloc szTrunkNode ns.length :: ns.flatMap node3Allocs

def node2Allocs (n : Node2 W) : List (Nat × Nat) :=
  entryListAlloc n.entries.length :: (match n.next with | none => [] | some ns => trunk3Allocs ns)

def trunk2Allocs (ns : List (Node2 W)) : List (Nat × Nat) :=
  arrayAlloc szTrunkNode ns.length :: ns.flatMap node2Allocs

/-- a head node is visited only if its syllable id is a key of the vocabulary (it then has entries or a next level) -/
def Node1.present (n : Node1 W) : Bool := !n.entries.isEmpty || n.next.isSome

def node1Allocs (n : Node1 W) : List (Nat × Nat) :=
  if n.present then
    entryListAlloc n.entries.length :: (match n.next with | none => [] | some ns => trunk2Allocs ns)
  else []

/-- `BuildHeadIndex` -/
def headAllocs (t : Tree W) : List (Nat × Nat) :=
  arrayAlloc szHeadNode t.head.length :: t.head.flatMap node1Allocs

/-- everything `Table::Build` allocates before `OnBuildFinish`: metadata, syllabary array, index -/
def buildAllocs (t : Tree W) : List (Nat × Nat) :=
  (alEntry, szMetadata) :: arrayAlloc szStringType t.head.length :: headAllocs t

/-! ## the size functions of the repair -/

def entryListSize (n : Nat) : Nat := szEntry * n + kAllocPadding

def tailIndexSize (t : List (LongEntry W)) : Nat :=
  szArrayHeader + szLongEntry * t.length + kAllocPadding +
    (t.map (fun e => szSyllableId * e.extra.length + kAllocPadding)).sum

def node3Size (n : Node3 W) : Nat :=
  entryListSize n.entries.length + (match n.tail with | none => 0 | some t => tailIndexSize t)

def trunk3Size (ns : List (Node3 W)) : Nat :=
  szArrayHeader + szTrunkNode * ns.length + kAllocPadding + (ns.map node3Size).sum

def node2Size (n : Node2 W) : Nat :=
  entryListSize n.entries.length + (match n.next with | none => 0 | some ns => trunk3Size ns)

def trunk2Size (ns : List (Node2 W)) : Nat :=
  szArrayHeader + szTrunkNode * ns.length + kAllocPadding + (ns.map node2Size).sum

def node1Size (n : Node1 W) : Nat :=
  if n.present then
    entryListSize n.entries.length + (match n.next with | none => 0 | some ns => trunk2Size ns)
  else 0

/-- `HeadIndexSize(vocabulary, num_syllables)` -/
def headIndexSize (t : Tree W) : Nat :=
  szArrayHeader + szHeadNode * t.head.length + kAllocPadding + (t.head.map node1Size).sum

/-- `index_size` of `Table::Build` -/
def indexSize (t : Tree W) : Nat :=
  szMetadata + szArrayHeader + szStringType * t.head.length + 2 * kAllocPadding + headIndexSize t

/-- `estimated_file_size` -/
def estimatedFileSize (t : Tree W) (numEntries : Nat) : Nat :=
  max (kReservedSize + 32 * t.head.length + 64 * numEntries) (kReservedSize + indexSize t)

end

/-! ## running a request list on the arena -/

/-- the arena after a list of `Allocate` calls -/
def allocateAll (a : Arena) : List (Nat × Nat) → Arena
  | [] => a
  | (al, sz) :: rest => allocateAll (allocate a al sz).1 rest

/-- no `Allocate` of the list has to grow the file -/
def NeverGrows (a : Arena) : List (Nat × Nat) → Prop
  | [] => True
  | (al, sz) :: rest => (allocate a al sz).1.capacity = a.capacity ∧ NeverGrows (allocate a al sz).1 rest

instance instDecidableNeverGrows : (a : Arena) → (l : List (Nat × Nat)) → Decidable (NeverGrows a l)
  | _, [] => isTrue trivial
  | a, (al, sz) :: rest =>
    match decEq (allocate a al sz).1.capacity a.capacity, instDecidableNeverGrows (allocate a al sz).1 rest with
    | isTrue h1, isTrue h2 => isTrue ⟨h1, h2⟩
    | isFalse h1, _ => isFalse (fun h => h1 h.1)
    | _, isFalse h2 => isFalse (fun h => h2 h.2)

/-- worst-case bytes a request list consumes: size plus up to `alignment - 1` of padding each -/
def allocCost (l : List (Nat × Nat)) : Nat := (l.map (fun r => r.1 - 1 + r.2)).sum

/-- `size_` after a request list, without the bytes (`allocateAll_size`: it is the arena's size) -/
def allocEnd (s : Nat) : List (Nat × Nat) → Nat
  | [] => s
  | (al, sz) :: rest => allocEnd (alignUp al s + sz) rest

/-- end of the index in the file (= offset of the string table image): what the harness reads off the real table -/
def indexEnd {W : Type} (t : Tree W) : Nat := allocEnd 0 (buildAllocs t)

end RimeModel.C06
