import RimeModel.C06.Layout
import RimeModel.C06.ArenaLemmas
/-! C06: the allocation sequence of `Table::Build` fits the size bound (helper lemmas; free to change) -/
namespace RimeModel.C06
open RimeModel.Arena

theorem allocCost_cons (r : Nat × Nat) (l : List (Nat × Nat)) : allocCost (r :: l) = (r.1 - 1 + r.2) + allocCost l := by
  simp [allocCost]

theorem allocCost_append (l1 l2 : List (Nat × Nat)) : allocCost (l1 ++ l2) = allocCost l1 + allocCost l2 := by
  simp [allocCost]

theorem allocCost_nil : allocCost [] = 0 := rfl

theorem allocCost_flatMap {α : Type} (f : α → List (Nat × Nat)) : ∀ (l : List α),
    allocCost (l.flatMap f) = (l.map (fun x => allocCost (f x))).sum
  | [] => by simp [allocCost]
  | x :: xs => by
    simp only [List.flatMap_cons, allocCost_append, List.map_cons, List.sum_cons, allocCost_flatMap f xs]

theorem sum_map_le {α : Type} (f g : α → Nat) : ∀ (l : List α), (∀ x ∈ l, f x ≤ g x) → (l.map f).sum ≤ (l.map g).sum
  | [], _ => by simp
  | x :: xs, h => by
    simp only [List.map_cons, List.sum_cons]
    exact Nat.add_le_add (h x (by simp)) (sum_map_le f g xs (fun y hy => h y (by simp [hy])))

/-- all alignments of a request list are positive -/
def AlignPos (l : List (Nat × Nat)) : Prop := ∀ r ∈ l, 0 < r.1

section
variable {W : Type}

theorem tailAllocs_cost (t : List (LongEntry W)) : allocCost (tailAllocs t) ≤ tailIndexSize t := by
  simp only [tailAllocs, tailIndexSize, allocCost_cons, arrayAlloc]
  have : allocCost (t.map (fun e => (alEntry, szSyllableId * e.extra.length)))
      ≤ (t.map (fun e => szSyllableId * e.extra.length + kAllocPadding)).sum := by
    simp only [allocCost, List.map_map]
    apply sum_map_le
    intro e _
    simp [alEntry, kAllocPadding]
    omega
  simp only [kAllocPadding] at this ⊢
  omega

theorem node3Allocs_cost (n : Node3 W) : allocCost (node3Allocs n) ≤ node3Size n := by
  simp only [node3Allocs, node3Size, allocCost_cons, entryListAlloc, entryListSize]
  cases h : n.tail with
  | none => simp [allocCost_nil, alEntry, kAllocPadding]; omega
  | some t =>
    have := tailAllocs_cost t
    simp only [alEntry, kAllocPadding] at this ⊢
    omega

theorem trunk3Allocs_cost (ns : List (Node3 W)) : allocCost (trunk3Allocs ns) ≤ trunk3Size ns := by
  simp only [trunk3Allocs, trunk3Size, allocCost_cons, arrayAlloc, allocCost_flatMap]
  have := sum_map_le (fun n : Node3 W => allocCost (node3Allocs n)) node3Size ns (fun n _ => node3Allocs_cost n)
  simp only [kAllocPadding] at this ⊢
  omega

theorem node2Allocs_cost (n : Node2 W) : allocCost (node2Allocs n) ≤ node2Size n := by
  simp only [node2Allocs, node2Size, allocCost_cons, entryListAlloc, entryListSize]
  cases h : n.next with
  | none => simp [allocCost_nil, alEntry, kAllocPadding]; omega
  | some t =>
    have := trunk3Allocs_cost t
    simp only [alEntry, kAllocPadding] at this ⊢
    omega

theorem trunk2Allocs_cost (ns : List (Node2 W)) : allocCost (trunk2Allocs ns) ≤ trunk2Size ns := by
  simp only [trunk2Allocs, trunk2Size, allocCost_cons, arrayAlloc, allocCost_flatMap]
  have := sum_map_le (fun n : Node2 W => allocCost (node2Allocs n)) node2Size ns (fun n _ => node2Allocs_cost n)
  simp only [kAllocPadding] at this ⊢
  omega

theorem node1Allocs_cost (n : Node1 W) : allocCost (node1Allocs n) ≤ node1Size n := by
  simp only [node1Allocs, node1Size]
  split
  · simp only [allocCost_cons, entryListAlloc, entryListSize]
    cases h : n.next with
    | none => simp [allocCost_nil, alEntry, kAllocPadding]; omega
    | some t =>
      have := trunk2Allocs_cost t
      simp only [alEntry, kAllocPadding] at this ⊢
      omega
  · simp [allocCost_nil]

theorem headAllocs_cost (t : Tree W) : allocCost (headAllocs t) ≤ headIndexSize t := by
  simp only [headAllocs, headIndexSize, allocCost_cons, arrayAlloc, allocCost_flatMap]
  have := sum_map_le (fun n : Node1 W => allocCost (node1Allocs n)) node1Size t.head (fun n _ => node1Allocs_cost n)
  simp only [kAllocPadding] at this ⊢
  omega

theorem buildAllocs_cost (t : Tree W) : allocCost (buildAllocs t) ≤ indexSize t := by
  simp only [buildAllocs, indexSize, allocCost_cons, arrayAlloc]
  have := headAllocs_cost t
  simp only [alEntry, kAllocPadding] at this ⊢
  omega

theorem alignPos_tail (t : List (LongEntry W)) : AlignPos (tailAllocs t) := by
  intro r hr
  simp only [tailAllocs, arrayAlloc, List.mem_cons, List.mem_map] at hr
  rcases hr with rfl | ⟨e, _, rfl⟩ <;> simp [alEntry]

theorem alignPos_trunk3 (ns : List (Node3 W)) : AlignPos (trunk3Allocs ns) := by
  intro r hr
  simp only [trunk3Allocs, arrayAlloc, List.mem_cons, List.mem_flatMap, node3Allocs, entryListAlloc] at hr
  rcases hr with rfl | ⟨n, _, rfl | hr⟩
  · simp
  · simp [alEntry]
  · split at hr
    · simp at hr
    · exact alignPos_tail _ r hr

theorem alignPos_trunk2 (ns : List (Node2 W)) : AlignPos (trunk2Allocs ns) := by
  intro r hr
  simp only [trunk2Allocs, arrayAlloc, List.mem_cons, List.mem_flatMap, node2Allocs, entryListAlloc] at hr
  rcases hr with rfl | ⟨n, _, rfl | hr⟩
  · simp
  · simp [alEntry]
  · split at hr
    · simp at hr
    · exact alignPos_trunk3 _ r hr

theorem alignPos_build (t : Tree W) : AlignPos (buildAllocs t) := by
  intro r hr
  simp only [buildAllocs, headAllocs, arrayAlloc, List.mem_cons, List.mem_flatMap, node1Allocs] at hr
  rcases hr with rfl | rfl | rfl | ⟨n, _, hr⟩
  · simp [alEntry]
  · simp
  · simp
  · split at hr
    · simp only [entryListAlloc, List.mem_cons] at hr
      rcases hr with rfl | hr
      · simp [alEntry]
      · split at hr
        · simp at hr
        · exact alignPos_trunk2 _ r hr
    · simp at hr

end

/-! ### the arena under a request list -/

theorem allocate_size_le (a : Arena) (al sz : Nat) (hal : 0 < al) :
    (allocate a al sz).1.size ≤ a.size + (al - 1 + sz) := by
  have := alignUp_lt al a.size hal
  simp only [allocate]
  omega

theorem neverGrows_of_fits : ∀ (l : List (Nat × Nat)) (a : Arena), AlignPos l →
    a.size + allocCost l ≤ a.capacity → NeverGrows a l
  | [], _, _, _ => trivial
  | (al, sz) :: rest, a, hp, hfit => by
    have hal : 0 < al := hp (al, sz) (by simp)
    have hs := allocate_size_le a al sz hal
    rw [allocCost_cons] at hfit
    simp only at hfit
    have hcap : (allocate a al sz).1.capacity = a.capacity := by
      have h1 : (allocate a al sz).1.size = alignUp al a.size + sz := rfl
      simp only [allocate, newCapacity]
      have : ¬ a.capacity < alignUp al a.size + sz := by omega
      simp [this]
    refine ⟨hcap, neverGrows_of_fits rest _ (fun r hr => hp r (by simp [hr])) ?_⟩
    rw [hcap]; omega

theorem allocateAll_size_le : ∀ (l : List (Nat × Nat)) (a : Arena), AlignPos l →
    (allocateAll a l).size ≤ a.size + allocCost l
  | [], _, _ => by simp [allocateAll, allocCost]
  | (al, sz) :: rest, a, hp => by
    have hal : 0 < al := hp (al, sz) (by simp)
    have hs := allocate_size_le a al sz hal
    have ih := allocateAll_size_le rest (allocate a al sz).1 (fun r hr => hp r (by simp [hr]))
    rw [allocCost_cons]
    simp only [allocateAll] at ih ⊢
    omega

theorem allocateAll_wf : ∀ (l : List (Nat × Nat)) (a : Arena), a.WF → (allocateAll a l).WF
  | [], _, h => h
  | (al, sz) :: rest, a, h => by
    have hc := le_newCapacity a (alignUp al a.size + sz)
    exact allocateAll_wf rest _ ⟨allocate_bytes_length a h al sz, by simp only [allocate]; exact hc.2⟩

theorem allocateAll_size : ∀ (l : List (Nat × Nat)) (a : Arena), (allocateAll a l).size = allocEnd a.size l
  | [], _ => rfl
  | (al, sz) :: rest, a => by
    simp only [allocateAll, allocEnd]
    rw [allocateAll_size rest]
    rfl

theorem create_wf (cap : Nat) : (create cap).WF := by simp [create, Arena.WF]

end RimeModel.C06
